Base/Result.vo Base/Result.glob Base/Result.v.beautified Base/Result.required_vo: Base/Result.v 
Base/Result.vio: Base/Result.v 
Base/Result.vos Base/Result.vok Base/Result.required_vos: Base/Result.v 
Base/Str.vo Base/Str.glob Base/Str.v.beautified Base/Str.required_vo: Base/Str.v 
Base/Str.vio: Base/Str.v 
Base/Str.vos Base/Str.vok Base/Str.required_vos: Base/Str.v 
Base/AstOp.vo Base/AstOp.glob Base/AstOp.v.beautified Base/AstOp.required_vo: Base/AstOp.v 
Base/AstOp.vio: Base/AstOp.v 
Base/AstOp.vos Base/AstOp.vok Base/AstOp.required_vos: Base/AstOp.v 
Base/Sexp.vo Base/Sexp.glob Base/Sexp.v.beautified Base/Sexp.required_vo: Base/Sexp.v Base/Result.vo Base/Str.vo
Base/Sexp.vio: Base/Sexp.v Base/Result.vio Base/Str.vio
Base/Sexp.vos Base/Sexp.vok Base/Sexp.required_vos: Base/Sexp.v Base/Result.vos Base/Str.vos
Gen/Tables_core.vo Gen/Tables_core.glob Gen/Tables_core.v.beautified Gen/Tables_core.required_vo: Gen/Tables_core.v Base/AstOp.vo
Gen/Tables_core.vio: Gen/Tables_core.v Base/AstOp.vio
Gen/Tables_core.vos Gen/Tables_core.vok Gen/Tables_core.required_vos: Gen/Tables_core.v Base/AstOp.vos
Model/Ast.vo Model/Ast.glob Model/Ast.v.beautified Model/Ast.required_vo: Model/Ast.v Base/Result.vo Base/Str.vo Base/AstOp.vo Gen/Tables_core.vo
Model/Ast.vio: Model/Ast.v Base/Result.vio Base/Str.vio Base/AstOp.vio Gen/Tables_core.vio
Model/Ast.vos Model/Ast.vok Model/Ast.required_vos: Model/Ast.v Base/Result.vos Base/Str.vos Base/AstOp.vos Gen/Tables_core.vos
Model/FM.vo Model/FM.glob Model/FM.v.beautified Model/FM.required_vo: Model/FM.v Base/Result.vo Base/Str.vo Base/AstOp.vo Model/Ast.vo
Model/FM.vio: Model/FM.v Base/Result.vio Base/Str.vio Base/AstOp.vio Model/Ast.vio
Model/FM.vos Model/FM.vok Model/FM.required_vos: Model/FM.v Base/Result.vos Base/Str.vos Base/AstOp.vos Model/Ast.vos
Model/Ctc.vo Model/Ctc.glob Model/Ctc.v.beautified Model/Ctc.required_vo: Model/Ctc.v Base/Result.vo Base/Str.vo Base/AstOp.vo Gen/Tables_core.vo Model/Ast.vo
Model/Ctc.vio: Model/Ctc.v Base/Result.vio Base/Str.vio Base/AstOp.vio Gen/Tables_core.vio Model/Ast.vio
Model/Ctc.vos Model/Ctc.vok Model/Ctc.required_vos: Model/Ctc.v Base/Result.vos Base/Str.vos Base/AstOp.vos Gen/Tables_core.vos Model/Ast.vos
Model/Queries.vo Model/Queries.glob Model/Queries.v.beautified Model/Queries.required_vo: Model/Queries.v Base/Result.vo Base/Str.vo Base/AstOp.vo Model/Ast.vo Model/FM.vo Model/Ctc.vo
Model/Queries.vio: Model/Queries.v Base/Result.vio Base/Str.vio Base/AstOp.vio Model/Ast.vio Model/FM.vio Model/Ctc.vio
Model/Queries.vos Model/Queries.vok Model/Queries.required_vos: Model/Queries.v Base/Result.vos Base/Str.vos Base/AstOp.vos Model/Ast.vos Model/FM.vos Model/Ctc.vos
Base/PyFloat.vo Base/PyFloat.glob Base/PyFloat.v.beautified Base/PyFloat.required_vo: Base/PyFloat.v 
Base/PyFloat.vio: Base/PyFloat.v 
Base/PyFloat.vos Base/PyFloat.vok Base/PyFloat.required_vos: Base/PyFloat.v 
Model/Sem.vo Model/Sem.glob Model/Sem.v.beautified Model/Sem.required_vo: Model/Sem.v Base/Result.vo Base/Str.vo Base/AstOp.vo Model/Ast.vo Model/FM.vo
Model/Sem.vio: Model/Sem.v Base/Result.vio Base/Str.vio Base/AstOp.vio Model/Ast.vio Model/FM.vio
Model/Sem.vos Model/Sem.vok Model/Sem.required_vos: Model/Sem.v Base/Result.vos Base/Str.vos Base/AstOp.vos Model/Ast.vos Model/FM.vos
Model/Ops.vo Model/Ops.glob Model/Ops.v.beautified Model/Ops.required_vo: Model/Ops.v Base/Result.vo Base/Str.vo Base/PyFloat.vo Base/AstOp.vo Model/Ast.vo Model/FM.vo Model/Ctc.vo Model/Queries.vo Model/Sem.vo
Model/Ops.vio: Model/Ops.v Base/Result.vio Base/Str.vio Base/PyFloat.vio Base/AstOp.vio Model/Ast.vio Model/FM.vio Model/Ctc.vio Model/Queries.vio Model/Sem.vio
Model/Ops.vos Model/Ops.vok Model/Ops.required_vos: Model/Ops.v Base/Result.vos Base/Str.vos Base/PyFloat.vos Base/AstOp.vos Model/Ast.vos Model/FM.vos Model/Ctc.vos Model/Queries.vos Model/Sem.vos
Model/EqHash.vo Model/EqHash.glob Model/EqHash.v.beautified Model/EqHash.required_vo: Model/EqHash.v Base/Result.vo Base/Str.vo Base/AstOp.vo Model/Ast.vo Model/FM.vo Model/Queries.vo
Model/EqHash.vio: Model/EqHash.v Base/Result.vio Base/Str.vio Base/AstOp.vio Model/Ast.vio Model/FM.vio Model/Queries.vio
Model/EqHash.vos Model/EqHash.vok Model/EqHash.required_vos: Model/EqHash.v Base/Result.vos Base/Str.vos Base/AstOp.vos Model/Ast.vos Model/FM.vos Model/Queries.vos
Model/PFM.vo Model/PFM.glob Model/PFM.v.beautified Model/PFM.required_vo: Model/PFM.v Base/Result.vo Base/Str.vo Base/AstOp.vo Model/Ast.vo Model/FM.vo
Model/PFM.vio: Model/PFM.v Base/Result.vio Base/Str.vio Base/AstOp.vio Model/Ast.vio Model/FM.vio
Model/PFM.vos Model/PFM.vok Model/PFM.required_vos: Model/PFM.v Base/Result.vos Base/Str.vos Base/AstOp.vos Model/Ast.vos Model/FM.vos
Model/Heap.vo Model/Heap.glob Model/Heap.v.beautified Model/Heap.required_vo: Model/Heap.v 
Model/Heap.vio: Model/Heap.v 
Model/Heap.vos Model/Heap.vok Model/Heap.required_vos: Model/Heap.v 
Model/PyRt.vo Model/PyRt.glob Model/PyRt.v.beautified Model/PyRt.required_vo: Model/PyRt.v Base/Result.vo Base/Str.vo Base/AstOp.vo Base/PyFloat.vo Model/Ast.vo Model/FM.vo
Model/PyRt.vio: Model/PyRt.v Base/Result.vio Base/Str.vio Base/AstOp.vio Base/PyFloat.vio Model/Ast.vio Model/FM.vio
Model/PyRt.vos Model/PyRt.vok Model/PyRt.required_vos: Model/PyRt.v Base/Result.vos Base/Str.vos Base/AstOp.vos Base/PyFloat.vos Model/Ast.vos Model/FM.vos
Model/Loc.vo Model/Loc.glob Model/Loc.v.beautified Model/Loc.required_vo: Model/Loc.v Base/Result.vo Base/Str.vo Base/AstOp.vo Model/Ast.vo Model/FM.vo Model/PyRt.vo
Model/Loc.vio: Model/Loc.v Base/Result.vio Base/Str.vio Base/AstOp.vio Model/Ast.vio Model/FM.vio Model/PyRt.vio
Model/Loc.vos Model/Loc.vok Model/Loc.required_vos: Model/Loc.v Base/Result.vos Base/Str.vos Base/AstOp.vos Model/Ast.vos Model/FM.vos Model/PyRt.vos
Gen/Src_fm.vo Gen/Src_fm.glob Gen/Src_fm.v.beautified Gen/Src_fm.required_vo: Gen/Src_fm.v Base/Result.vo Base/Str.vo Base/AstOp.vo Gen/Tables_core.vo Model/Ast.vo Model/FM.vo Model/PyRt.vo
Gen/Src_fm.vio: Gen/Src_fm.v Base/Result.vio Base/Str.vio Base/AstOp.vio Gen/Tables_core.vio Model/Ast.vio Model/FM.vio Model/PyRt.vio
Gen/Src_fm.vos Gen/Src_fm.vok Gen/Src_fm.required_vos: Gen/Src_fm.v Base/Result.vos Base/Str.vos Base/AstOp.vos Gen/Tables_core.vos Model/Ast.vos Model/FM.vos Model/PyRt.vos
Gen/Src_ops.vo Gen/Src_ops.glob Gen/Src_ops.v.beautified Gen/Src_ops.required_vo: Gen/Src_ops.v Base/Result.vo Base/Str.vo Base/AstOp.vo Gen/Tables_core.vo Model/Ast.vo Model/FM.vo Model/PyRt.vo Gen/Src_fm.vo
Gen/Src_ops.vio: Gen/Src_ops.v Base/Result.vio Base/Str.vio Base/AstOp.vio Gen/Tables_core.vio Model/Ast.vio Model/FM.vio Model/PyRt.vio Gen/Src_fm.vio
Gen/Src_ops.vos Gen/Src_ops.vok Gen/Src_ops.required_vos: Gen/Src_ops.v Base/Result.vos Base/Str.vos Base/AstOp.vos Gen/Tables_core.vos Model/Ast.vos Model/FM.vos Model/PyRt.vos Gen/Src_fm.vos
Gen/Tables_json.vo Gen/Tables_json.glob Gen/Tables_json.v.beautified Gen/Tables_json.required_vo: Gen/Tables_json.v Base/AstOp.vo
Gen/Tables_json.vio: Gen/Tables_json.v Base/AstOp.vio
Gen/Tables_json.vos Gen/Tables_json.vok Gen/Tables_json.required_vos: Gen/Tables_json.v Base/AstOp.vos
Gen/Tables_glencoe.vo Gen/Tables_glencoe.glob Gen/Tables_glencoe.v.beautified Gen/Tables_glencoe.required_vo: Gen/Tables_glencoe.v Base/AstOp.vo
Gen/Tables_glencoe.vio: Gen/Tables_glencoe.v Base/AstOp.vio
Gen/Tables_glencoe.vos Gen/Tables_glencoe.vok Gen/Tables_glencoe.required_vos: Gen/Tables_glencoe.v Base/AstOp.vos
Gen/Tables_fide.vo Gen/Tables_fide.glob Gen/Tables_fide.v.beautified Gen/Tables_fide.required_vo: Gen/Tables_fide.v Base/AstOp.vo
Gen/Tables_fide.vio: Gen/Tables_fide.v Base/AstOp.vio
Gen/Tables_fide.vos Gen/Tables_fide.vok Gen/Tables_fide.required_vos: Gen/Tables_fide.v Base/AstOp.vos
Format/Json.vo Format/Json.glob Format/Json.v.beautified Format/Json.required_vo: Format/Json.v Base/Result.vo Base/Str.vo Base/AstOp.vo Model/Ast.vo Model/FM.vo Model/PFM.vo Model/Queries.vo Gen/Tables_json.vo
Format/Json.vio: Format/Json.v Base/Result.vio Base/Str.vio Base/AstOp.vio Model/Ast.vio Model/FM.vio Model/PFM.vio Model/Queries.vio Gen/Tables_json.vio
Format/Json.vos Format/Json.vok Format/Json.required_vos: Format/Json.v Base/Result.vos Base/Str.vos Base/AstOp.vos Model/Ast.vos Model/FM.vos Model/PFM.vos Model/Queries.vos Gen/Tables_json.vos
Gen/Src_json.vo Gen/Src_json.glob Gen/Src_json.v.beautified Gen/Src_json.required_vo: Gen/Src_json.v Base/Result.vo Base/Str.vo Base/AstOp.vo Gen/Tables_core.vo Model/Ast.vo Model/FM.vo Model/PyRt.vo Gen/Src_fm.vo
Gen/Src_json.vio: Gen/Src_json.v Base/Result.vio Base/Str.vio Base/AstOp.vio Gen/Tables_core.vio Model/Ast.vio Model/FM.vio Model/PyRt.vio Gen/Src_fm.vio
Gen/Src_json.vos Gen/Src_json.vok Gen/Src_json.required_vos: Gen/Src_json.v Base/Result.vos Base/Str.vos Base/AstOp.vos Gen/Tables_core.vos Model/Ast.vos Model/FM.vos Model/PyRt.vos Gen/Src_fm.vos
Format/Glencoe.vo Format/Glencoe.glob Format/Glencoe.v.beautified Format/Glencoe.required_vo: Format/Glencoe.v Base/Result.vo Base/Str.vo Base/AstOp.vo Model/Ast.vo Model/FM.vo Model/PFM.vo Model/Queries.vo Model/EqHash.vo Format/Json.vo Gen/Tables_glencoe.vo
Format/Glencoe.vio: Format/Glencoe.v Base/Result.vio Base/Str.vio Base/AstOp.vio Model/Ast.vio Model/FM.vio Model/PFM.vio Model/Queries.vio Model/EqHash.vio Format/Json.vio Gen/Tables_glencoe.vio
Format/Glencoe.vos Format/Glencoe.vok Format/Glencoe.required_vos: Format/Glencoe.v Base/Result.vos Base/Str.vos Base/AstOp.vos Model/Ast.vos Model/FM.vos Model/PFM.vos Model/Queries.vos Model/EqHash.vos Format/Json.vos Gen/Tables_glencoe.vos
Format/Xml.vo Format/Xml.glob Format/Xml.v.beautified Format/Xml.required_vo: Format/Xml.v Base/Result.vo Base/Str.vo Base/AstOp.vo Model/Ast.vo Model/FM.vo Model/PFM.vo Model/Queries.vo Format/Json.vo Gen/Tables_fide.vo
Format/Xml.vio: Format/Xml.v Base/Result.vio Base/Str.vio Base/AstOp.vio Model/Ast.vio Model/FM.vio Model/PFM.vio Model/Queries.vio Format/Json.vio Gen/Tables_fide.vio
Format/Xml.vos Format/Xml.vok Format/Xml.required_vos: Format/Xml.v Base/Result.vos Base/Str.vos Base/AstOp.vos Model/Ast.vos Model/FM.vos Model/PFM.vos Model/Queries.vos Format/Json.vos Gen/Tables_fide.vos
Gen/Tables_metrics.vo Gen/Tables_metrics.glob Gen/Tables_metrics.v.beautified Gen/Tables_metrics.required_vo: Gen/Tables_metrics.v Base/AstOp.vo
Gen/Tables_metrics.vio: Gen/Tables_metrics.v Base/AstOp.vio
Gen/Tables_metrics.vos Gen/Tables_metrics.vok Gen/Tables_metrics.required_vos: Gen/Tables_metrics.v Base/AstOp.vos
Gen/Tables_uvl.vo Gen/Tables_uvl.glob Gen/Tables_uvl.v.beautified Gen/Tables_uvl.required_vo: Gen/Tables_uvl.v Base/AstOp.vo
Gen/Tables_uvl.vio: Gen/Tables_uvl.v Base/AstOp.vio
Gen/Tables_uvl.vos Gen/Tables_uvl.vok Gen/Tables_uvl.required_vos: Gen/Tables_uvl.v Base/AstOp.vos
Format/Uvl.vo Format/Uvl.glob Format/Uvl.v.beautified Format/Uvl.required_vo: Format/Uvl.v Base/Result.vo Base/Str.vo Base/AstOp.vo Gen/Tables_core.vo Model/Ast.vo Model/FM.vo Model/PFM.vo Model/Queries.vo Format/Json.vo Format/Glencoe.vo Format/Xml.vo Gen/Tables_uvl.vo
Format/Uvl.vio: Format/Uvl.v Base/Result.vio Base/Str.vio Base/AstOp.vio Gen/Tables_core.vio Model/Ast.vio Model/FM.vio Model/PFM.vio Model/Queries.vio Format/Json.vio Format/Glencoe.vio Format/Xml.vio Gen/Tables_uvl.vio
Format/Uvl.vos Format/Uvl.vok Format/Uvl.required_vos: Format/Uvl.v Base/Result.vos Base/Str.vos Base/AstOp.vos Gen/Tables_core.vos Model/Ast.vos Model/FM.vos Model/PFM.vos Model/Queries.vos Format/Json.vos Format/Glencoe.vos Format/Xml.vos Gen/Tables_uvl.vos
Gen/Tables_afm.vo Gen/Tables_afm.glob Gen/Tables_afm.v.beautified Gen/Tables_afm.required_vo: Gen/Tables_afm.v Base/AstOp.vo
Gen/Tables_afm.vio: Gen/Tables_afm.v Base/AstOp.vio
Gen/Tables_afm.vos Gen/Tables_afm.vok Gen/Tables_afm.required_vos: Gen/Tables_afm.v Base/AstOp.vos
Format/Afm.vo Format/Afm.glob Format/Afm.v.beautified Format/Afm.required_vo: Format/Afm.v Base/Result.vo Base/Str.vo Base/AstOp.vo Model/Ast.vo Model/FM.vo Model/PFM.vo Model/Queries.vo Format/Uvl.vo Gen/Tables_afm.vo
Format/Afm.vio: Format/Afm.v Base/Result.vio Base/Str.vio Base/AstOp.vio Model/Ast.vio Model/FM.vio Model/PFM.vio Model/Queries.vio Format/Uvl.vio Gen/Tables_afm.vio
Format/Afm.vos Format/Afm.vok Format/Afm.required_vos: Format/Afm.v Base/Result.vos Base/Str.vos Base/AstOp.vos Model/Ast.vos Model/FM.vos Model/PFM.vos Model/Queries.vos Format/Uvl.vos Gen/Tables_afm.vos
Format/Export.vo Format/Export.glob Format/Export.v.beautified Format/Export.required_vo: Format/Export.v Base/Result.vo Base/Str.vo Base/AstOp.vo Gen/Tables_core.vo Model/Ast.vo Model/FM.vo Model/Ctc.vo Model/Queries.vo Model/Sem.vo Format/Glencoe.vo Format/Xml.vo
Format/Export.vio: Format/Export.v Base/Result.vio Base/Str.vio Base/AstOp.vio Gen/Tables_core.vio Model/Ast.vio Model/FM.vio Model/Ctc.vio Model/Queries.vio Model/Sem.vio Format/Glencoe.vio Format/Xml.vio
Format/Export.vos Format/Export.vok Format/Export.required_vos: Format/Export.v Base/Result.vos Base/Str.vos Base/AstOp.vos Gen/Tables_core.vos Model/Ast.vos Model/FM.vos Model/Ctc.vos Model/Queries.vos Model/Sem.vos Format/Glencoe.vos Format/Xml.vos
Format/Ref.vo Format/Ref.glob Format/Ref.v.beautified Format/Ref.required_vo: Format/Ref.v Base/Result.vo Base/Str.vo Base/AstOp.vo Model/Ast.vo Model/FM.vo Model/PFM.vo Format/Xml.vo
Format/Ref.vio: Format/Ref.v Base/Result.vio Base/Str.vio Base/AstOp.vio Model/Ast.vio Model/FM.vio Model/PFM.vio Format/Xml.vio
Format/Ref.vos Format/Ref.vok Format/Ref.required_vos: Format/Ref.v Base/Result.vos Base/Str.vos Base/AstOp.vos Model/Ast.vos Model/FM.vos Model/PFM.vos Format/Xml.vos
Model/Metrics.vo Model/Metrics.glob Model/Metrics.v.beautified Model/Metrics.required_vo: Model/Metrics.v Base/Result.vo Base/Str.vo Base/PyFloat.vo Base/AstOp.vo Model/Ast.vo Model/FM.vo Model/Ctc.vo Model/Queries.vo Model/Ops.vo Model/EqHash.vo Gen/Tables_metrics.vo
Model/Metrics.vio: Model/Metrics.v Base/Result.vio Base/Str.vio Base/PyFloat.vio Base/AstOp.vio Model/Ast.vio Model/FM.vio Model/Ctc.vio Model/Queries.vio Model/Ops.vio Model/EqHash.vio Gen/Tables_metrics.vio
Model/Metrics.vos Model/Metrics.vok Model/Metrics.required_vos: Model/Metrics.v Base/Result.vos Base/Str.vos Base/PyFloat.vos Base/AstOp.vos Model/Ast.vos Model/FM.vos Model/Ctc.vos Model/Queries.vos Model/Ops.vos Model/EqHash.vos Gen/Tables_metrics.vos
Model/GenRandom.vo Model/GenRandom.glob Model/GenRandom.v.beautified Model/GenRandom.required_vo: Model/GenRandom.v Base/Result.vo Base/Str.vo Base/PyFloat.vo Base/AstOp.vo Model/Ast.vo Model/FM.vo Model/Queries.vo
Model/GenRandom.vio: Model/GenRandom.v Base/Result.vio Base/Str.vio Base/PyFloat.vio Base/AstOp.vio Model/Ast.vio Model/FM.vio Model/Queries.vio
Model/GenRandom.vos Model/GenRandom.vok Model/GenRandom.required_vos: Model/GenRandom.v Base/Result.vos Base/Str.vos Base/PyFloat.vos Base/AstOp.vos Model/Ast.vos Model/FM.vos Model/Queries.vos
Extract/Codec.vo Extract/Codec.glob Extract/Codec.v.beautified Extract/Codec.required_vo: Extract/Codec.v Base/Result.vo Base/Str.vo Base/Sexp.vo Base/AstOp.vo Model/Ast.vo Model/FM.vo Model/PFM.vo Model/Heap.vo Format/Xml.vo Format/Uvl.vo Format/Afm.vo
Extract/Codec.vio: Extract/Codec.v Base/Result.vio Base/Str.vio Base/Sexp.vio Base/AstOp.vio Model/Ast.vio Model/FM.vio Model/PFM.vio Model/Heap.vio Format/Xml.vio Format/Uvl.vio Format/Afm.vio
Extract/Codec.vos Extract/Codec.vok Extract/Codec.required_vos: Extract/Codec.v Base/Result.vos Base/Str.vos Base/Sexp.vos Base/AstOp.vos Model/Ast.vos Model/FM.vos Model/PFM.vos Model/Heap.vos Format/Xml.vos Format/Uvl.vos Format/Afm.vos
Extract/Driver.vo Extract/Driver.glob Extract/Driver.v.beautified Extract/Driver.required_vo: Extract/Driver.v Base/Result.vo Base/Str.vo Base/Sexp.vo Base/AstOp.vo Model/Ast.vo Model/FM.vo Model/Ctc.vo Model/Queries.vo Model/Sem.vo Model/Ops.vo Model/EqHash.vo Model/PFM.vo Model/Heap.vo Format/Json.vo Format/Glencoe.vo Format/Xml.vo Format/Uvl.vo Format/Afm.vo Format/Export.vo Model/Metrics.vo Model/GenRandom.vo Extract/Codec.vo
Extract/Driver.vio: Extract/Driver.v Base/Result.vio Base/Str.vio Base/Sexp.vio Base/AstOp.vio Model/Ast.vio Model/FM.vio Model/Ctc.vio Model/Queries.vio Model/Sem.vio Model/Ops.vio Model/EqHash.vio Model/PFM.vio Model/Heap.vio Format/Json.vio Format/Glencoe.vio Format/Xml.vio Format/Uvl.vio Format/Afm.vio Format/Export.vio Model/Metrics.vio Model/GenRandom.vio Extract/Codec.vio
Extract/Driver.vos Extract/Driver.vok Extract/Driver.required_vos: Extract/Driver.v Base/Result.vos Base/Str.vos Base/Sexp.vos Base/AstOp.vos Model/Ast.vos Model/FM.vos Model/Ctc.vos Model/Queries.vos Model/Sem.vos Model/Ops.vos Model/EqHash.vos Model/PFM.vos Model/Heap.vos Format/Json.vos Format/Glencoe.vos Format/Xml.vos Format/Uvl.vos Format/Afm.vos Format/Export.vos Model/Metrics.vos Model/GenRandom.vos Extract/Codec.vos
Extract/Extract.vo Extract/Extract.glob Extract/Extract.v.beautified Extract/Extract.required_vo: Extract/Extract.v Base/Sexp.vo Extract/Driver.vo
Extract/Extract.vio: Extract/Extract.v Base/Sexp.vio Extract/Driver.vio
Extract/Extract.vos Extract/Extract.vok Extract/Extract.required_vos: Extract/Extract.v Base/Sexp.vos Extract/Driver.vos
Proofs/FMFacts.vo Proofs/FMFacts.glob Proofs/FMFacts.v.beautified Proofs/FMFacts.required_vo: Proofs/FMFacts.v Base/Result.vo Base/Str.vo Model/Ast.vo Model/FM.vo Model/Ctc.vo Model/Queries.vo
Proofs/FMFacts.vio: Proofs/FMFacts.v Base/Result.vio Base/Str.vio Model/Ast.vio Model/FM.vio Model/Ctc.vio Model/Queries.vio
Proofs/FMFacts.vos Proofs/FMFacts.vok Proofs/FMFacts.required_vos: Proofs/FMFacts.v Base/Result.vos Base/Str.vos Model/Ast.vos Model/FM.vos Model/Ctc.vos Model/Queries.vos
Proofs/QueriesFacts.vo Proofs/QueriesFacts.glob Proofs/QueriesFacts.v.beautified Proofs/QueriesFacts.required_vo: Proofs/QueriesFacts.v Base/Result.vo Base/Str.vo Model/Ast.vo Model/FM.vo Model/Ctc.vo Model/Queries.vo Proofs/FMFacts.vo
Proofs/QueriesFacts.vio: Proofs/QueriesFacts.v Base/Result.vio Base/Str.vio Model/Ast.vio Model/FM.vio Model/Ctc.vio Model/Queries.vio Proofs/FMFacts.vio
Proofs/QueriesFacts.vos Proofs/QueriesFacts.vok Proofs/QueriesFacts.required_vos: Proofs/QueriesFacts.v Base/Result.vos Base/Str.vos Model/Ast.vos Model/FM.vos Model/Ctc.vos Model/Queries.vos Proofs/FMFacts.vos
Proofs/HeapFacts.vo Proofs/HeapFacts.glob Proofs/HeapFacts.v.beautified Proofs/HeapFacts.required_vo: Proofs/HeapFacts.v Model/Heap.vo
Proofs/HeapFacts.vio: Proofs/HeapFacts.v Model/Heap.vio
Proofs/HeapFacts.vos Proofs/HeapFacts.vok Proofs/HeapFacts.required_vos: Proofs/HeapFacts.v Model/Heap.vos
Props/C03.vo Props/C03.glob Props/C03.v.beautified Props/C03.required_vo: Props/C03.v Model/FM.vo Model/Queries.vo Model/Heap.vo Proofs/FMFacts.vo Proofs/QueriesFacts.vo Proofs/HeapFacts.vo
Props/C03.vio: Props/C03.v Model/FM.vio Model/Queries.vio Model/Heap.vio Proofs/FMFacts.vio Proofs/QueriesFacts.vio Proofs/HeapFacts.vio
Props/C03.vos Props/C03.vok Props/C03.required_vos: Props/C03.v Model/FM.vos Model/Queries.vos Model/Heap.vos Proofs/FMFacts.vos Proofs/QueriesFacts.vos Proofs/HeapFacts.vos
Proofs/C13Facts.vo Proofs/C13Facts.glob Proofs/C13Facts.v.beautified Proofs/C13Facts.required_vo: Proofs/C13Facts.v Base/Result.vo Base/Str.vo Model/Ast.vo Model/FM.vo Model/Ctc.vo Model/Queries.vo Model/Sem.vo Model/Ops.vo
Proofs/C13Facts.vio: Proofs/C13Facts.v Base/Result.vio Base/Str.vio Model/Ast.vio Model/FM.vio Model/Ctc.vio Model/Queries.vio Model/Sem.vio Model/Ops.vio
Proofs/C13Facts.vos Proofs/C13Facts.vok Proofs/C13Facts.required_vos: Proofs/C13Facts.v Base/Result.vos Base/Str.vos Model/Ast.vos Model/FM.vos Model/Ctc.vos Model/Queries.vos Model/Sem.vos Model/Ops.vos
Proofs/C14Facts.vo Proofs/C14Facts.glob Proofs/C14Facts.v.beautified Proofs/C14Facts.required_vo: Proofs/C14Facts.v Base/Result.vo Base/Str.vo Base/AstOp.vo Model/Ast.vo Model/FM.vo Model/Ctc.vo Model/Queries.vo Model/Sem.vo Model/Ops.vo Proofs/FMFacts.vo Proofs/QueriesFacts.vo
Proofs/C14Facts.vio: Proofs/C14Facts.v Base/Result.vio Base/Str.vio Base/AstOp.vio Model/Ast.vio Model/FM.vio Model/Ctc.vio Model/Queries.vio Model/Sem.vio Model/Ops.vio Proofs/FMFacts.vio Proofs/QueriesFacts.vio
Proofs/C14Facts.vos Proofs/C14Facts.vok Proofs/C14Facts.required_vos: Proofs/C14Facts.v Base/Result.vos Base/Str.vos Base/AstOp.vos Model/Ast.vos Model/FM.vos Model/Ctc.vos Model/Queries.vos Model/Sem.vos Model/Ops.vos Proofs/FMFacts.vos Proofs/QueriesFacts.vos
Proofs/C15Facts.vo Proofs/C15Facts.glob Proofs/C15Facts.v.beautified Proofs/C15Facts.required_vo: Proofs/C15Facts.v Base/Result.vo Base/Str.vo Base/AstOp.vo Model/Ast.vo Model/FM.vo Model/Ctc.vo Model/Queries.vo Model/Sem.vo Model/Ops.vo Proofs/FMFacts.vo Proofs/QueriesFacts.vo Proofs/C14Facts.vo
Proofs/C15Facts.vio: Proofs/C15Facts.v Base/Result.vio Base/Str.vio Base/AstOp.vio Model/Ast.vio Model/FM.vio Model/Ctc.vio Model/Queries.vio Model/Sem.vio Model/Ops.vio Proofs/FMFacts.vio Proofs/QueriesFacts.vio Proofs/C14Facts.vio
Proofs/C15Facts.vos Proofs/C15Facts.vok Proofs/C15Facts.required_vos: Proofs/C15Facts.v Base/Result.vos Base/Str.vos Base/AstOp.vos Model/Ast.vos Model/FM.vos Model/Ctc.vos Model/Queries.vos Model/Sem.vos Model/Ops.vos Proofs/FMFacts.vos Proofs/QueriesFacts.vos Proofs/C14Facts.vos
Proofs/C16Facts.vo Proofs/C16Facts.glob Proofs/C16Facts.v.beautified Proofs/C16Facts.required_vo: Proofs/C16Facts.v Base/Result.vo Base/Str.vo Base/PyFloat.vo Model/Ast.vo Model/FM.vo Model/Ctc.vo Model/Queries.vo Model/Sem.vo Model/Ops.vo Proofs/FMFacts.vo
Proofs/C16Facts.vio: Proofs/C16Facts.v Base/Result.vio Base/Str.vio Base/PyFloat.vio Model/Ast.vio Model/FM.vio Model/Ctc.vio Model/Queries.vio Model/Sem.vio Model/Ops.vio Proofs/FMFacts.vio
Proofs/C16Facts.vos Proofs/C16Facts.vok Proofs/C16Facts.required_vos: Proofs/C16Facts.v Base/Result.vos Base/Str.vos Base/PyFloat.vos Model/Ast.vos Model/FM.vos Model/Ctc.vos Model/Queries.vos Model/Sem.vos Model/Ops.vos Proofs/FMFacts.vos
Props/C13.vo Props/C13.glob Props/C13.v.beautified Props/C13.required_vo: Props/C13.v Model/FM.vo Model/Sem.vo Model/Ops.vo Proofs/C13Facts.vo
Props/C13.vio: Props/C13.v Model/FM.vio Model/Sem.vio Model/Ops.vio Proofs/C13Facts.vio
Props/C13.vos Props/C13.vok Props/C13.required_vos: Props/C13.v Model/FM.vos Model/Sem.vos Model/Ops.vos Proofs/C13Facts.vos
Props/C14.vo Props/C14.glob Props/C14.v.beautified Props/C14.required_vo: Props/C14.v Model/FM.vo Model/Sem.vo Model/Ops.vo Proofs/C14Facts.vo
Props/C14.vio: Props/C14.v Model/FM.vio Model/Sem.vio Model/Ops.vio Proofs/C14Facts.vio
Props/C14.vos Props/C14.vok Props/C14.required_vos: Props/C14.v Model/FM.vos Model/Sem.vos Model/Ops.vos Proofs/C14Facts.vos
Props/C15.vo Props/C15.glob Props/C15.v.beautified Props/C15.required_vo: Props/C15.v Model/FM.vo Model/Sem.vo Model/Ops.vo Proofs/C15Facts.vo
Props/C15.vio: Props/C15.v Model/FM.vio Model/Sem.vio Model/Ops.vio Proofs/C15Facts.vio
Props/C15.vos Props/C15.vok Props/C15.required_vos: Props/C15.v Model/FM.vos Model/Sem.vos Model/Ops.vos Proofs/C15Facts.vos
Props/C16.vo Props/C16.glob Props/C16.v.beautified Props/C16.required_vo: Props/C16.v Base/PyFloat.vo Model/FM.vo Model/Queries.vo Model/Ops.vo Proofs/C16Facts.vo
Props/C16.vio: Props/C16.v Base/PyFloat.vio Model/FM.vio Model/Queries.vio Model/Ops.vio Proofs/C16Facts.vio
Props/C16.vos Props/C16.vok Props/C16.required_vos: Props/C16.v Base/PyFloat.vos Model/FM.vos Model/Queries.vos Model/Ops.vos Proofs/C16Facts.vos
Proofs/C18Facts.vo Proofs/C18Facts.glob Proofs/C18Facts.v.beautified Proofs/C18Facts.required_vo: Proofs/C18Facts.v Base/Result.vo Base/Str.vo Base/AstOp.vo Gen/Tables_core.vo Model/Ast.vo Model/Ctc.vo Model/Sem.vo
Proofs/C18Facts.vio: Proofs/C18Facts.v Base/Result.vio Base/Str.vio Base/AstOp.vio Gen/Tables_core.vio Model/Ast.vio Model/Ctc.vio Model/Sem.vio
Proofs/C18Facts.vos Proofs/C18Facts.vok Proofs/C18Facts.required_vos: Proofs/C18Facts.v Base/Result.vos Base/Str.vos Base/AstOp.vos Gen/Tables_core.vos Model/Ast.vos Model/Ctc.vos Model/Sem.vos
Props/C18.vo Props/C18.glob Props/C18.v.beautified Props/C18.required_vo: Props/C18.v Base/Result.vo Base/Str.vo Base/AstOp.vo Model/Ast.vo Model/Ctc.vo Model/Sem.vo Proofs/C18Facts.vo
Props/C18.vio: Props/C18.v Base/Result.vio Base/Str.vio Base/AstOp.vio Model/Ast.vio Model/Ctc.vio Model/Sem.vio Proofs/C18Facts.vio
Props/C18.vos Props/C18.vok Props/C18.required_vos: Props/C18.v Base/Result.vos Base/Str.vos Base/AstOp.vos Model/Ast.vos Model/Ctc.vos Model/Sem.vos Proofs/C18Facts.vos
Proofs/C20Facts.vo Proofs/C20Facts.glob Proofs/C20Facts.v.beautified Proofs/C20Facts.required_vo: Proofs/C20Facts.v Base/Result.vo Base/Str.vo Base/AstOp.vo Model/Ast.vo Model/FM.vo Model/Ctc.vo Model/Queries.vo Model/EqHash.vo Proofs/FMFacts.vo
Proofs/C20Facts.vio: Proofs/C20Facts.v Base/Result.vio Base/Str.vio Base/AstOp.vio Model/Ast.vio Model/FM.vio Model/Ctc.vio Model/Queries.vio Model/EqHash.vio Proofs/FMFacts.vio
Proofs/C20Facts.vos Proofs/C20Facts.vok Proofs/C20Facts.required_vos: Proofs/C20Facts.v Base/Result.vos Base/Str.vos Base/AstOp.vos Model/Ast.vos Model/FM.vos Model/Ctc.vos Model/Queries.vos Model/EqHash.vos Proofs/FMFacts.vos
Props/C20.vo Props/C20.glob Props/C20.v.beautified Props/C20.required_vo: Props/C20.v Base/Str.vo Model/FM.vo Model/Queries.vo Model/EqHash.vo Proofs/C20Facts.vo
Props/C20.vio: Props/C20.v Base/Str.vio Model/FM.vio Model/Queries.vio Model/EqHash.vio Proofs/C20Facts.vio
Props/C20.vos Props/C20.vok Props/C20.required_vos: Props/C20.v Base/Str.vos Model/FM.vos Model/Queries.vos Model/EqHash.vos Proofs/C20Facts.vos
Proofs/JsonFacts.vo Proofs/JsonFacts.glob Proofs/JsonFacts.v.beautified Proofs/JsonFacts.required_vo: Proofs/JsonFacts.v Base/Result.vo Base/Str.vo Base/AstOp.vo Gen/Tables_core.vo Model/Ast.vo Model/FM.vo Model/PFM.vo Model/Queries.vo Gen/Tables_json.vo Format/Json.vo Proofs/C16Facts.vo
Proofs/JsonFacts.vio: Proofs/JsonFacts.v Base/Result.vio Base/Str.vio Base/AstOp.vio Gen/Tables_core.vio Model/Ast.vio Model/FM.vio Model/PFM.vio Model/Queries.vio Gen/Tables_json.vio Format/Json.vio Proofs/C16Facts.vio
Proofs/JsonFacts.vos Proofs/JsonFacts.vok Proofs/JsonFacts.required_vos: Proofs/JsonFacts.v Base/Result.vos Base/Str.vos Base/AstOp.vos Gen/Tables_core.vos Model/Ast.vos Model/FM.vos Model/PFM.vos Model/Queries.vos Gen/Tables_json.vos Format/Json.vos Proofs/C16Facts.vos
Props/C05.vo Props/C05.glob Props/C05.v.beautified Props/C05.required_vo: Props/C05.v Base/Result.vo Model/FM.vo Model/PFM.vo Format/Json.vo Proofs/C16Facts.vo Proofs/JsonFacts.vo Proofs/C09Facts.vo Proofs/JsonVariant.vo Proofs/JsonExtra.vo
Props/C05.vio: Props/C05.v Base/Result.vio Model/FM.vio Model/PFM.vio Format/Json.vio Proofs/C16Facts.vio Proofs/JsonFacts.vio Proofs/C09Facts.vio Proofs/JsonVariant.vio Proofs/JsonExtra.vio
Props/C05.vos Props/C05.vok Props/C05.required_vos: Props/C05.v Base/Result.vos Model/FM.vos Model/PFM.vos Format/Json.vos Proofs/C16Facts.vos Proofs/JsonFacts.vos Proofs/C09Facts.vos Proofs/JsonVariant.vos Proofs/JsonExtra.vos
Proofs/FideFacts.vo Proofs/FideFacts.glob Proofs/FideFacts.v.beautified Proofs/FideFacts.required_vo: Proofs/FideFacts.v Base/Result.vo Base/Str.vo Base/AstOp.vo Model/Ast.vo Model/FM.vo Model/PFM.vo Model/Queries.vo Model/Sem.vo Gen/Tables_fide.vo Format/Xml.vo Proofs/QueriesFacts.vo
Proofs/FideFacts.vio: Proofs/FideFacts.v Base/Result.vio Base/Str.vio Base/AstOp.vio Model/Ast.vio Model/FM.vio Model/PFM.vio Model/Queries.vio Model/Sem.vio Gen/Tables_fide.vio Format/Xml.vio Proofs/QueriesFacts.vio
Proofs/FideFacts.vos Proofs/FideFacts.vok Proofs/FideFacts.required_vos: Proofs/FideFacts.v Base/Result.vos Base/Str.vos Base/AstOp.vos Model/Ast.vos Model/FM.vos Model/PFM.vos Model/Queries.vos Model/Sem.vos Gen/Tables_fide.vos Format/Xml.vos Proofs/QueriesFacts.vos
Proofs/FamaFacts.vo Proofs/FamaFacts.glob Proofs/FamaFacts.v.beautified Proofs/FamaFacts.required_vo: Proofs/FamaFacts.v Base/Result.vo Base/Str.vo Base/AstOp.vo Model/Ast.vo Model/FM.vo Model/PFM.vo Model/Queries.vo Gen/Tables_fide.vo Format/Xml.vo Proofs/FideFacts.vo
Proofs/FamaFacts.vio: Proofs/FamaFacts.v Base/Result.vio Base/Str.vio Base/AstOp.vio Model/Ast.vio Model/FM.vio Model/PFM.vio Model/Queries.vio Gen/Tables_fide.vio Format/Xml.vio Proofs/FideFacts.vio
Proofs/FamaFacts.vos Proofs/FamaFacts.vok Proofs/FamaFacts.required_vos: Proofs/FamaFacts.v Base/Result.vos Base/Str.vos Base/AstOp.vos Model/Ast.vos Model/FM.vos Model/PFM.vos Model/Queries.vos Gen/Tables_fide.vos Format/Xml.vos Proofs/FideFacts.vos
Props/C07.vo Props/C07.glob Props/C07.v.beautified Props/C07.required_vo: Props/C07.v Base/Result.vo Base/AstOp.vo Model/Ast.vo Model/FM.vo Model/PFM.vo Model/Sem.vo Format/Xml.vo Proofs/FideFacts.vo
Props/C07.vio: Props/C07.v Base/Result.vio Base/AstOp.vio Model/Ast.vio Model/FM.vio Model/PFM.vio Model/Sem.vio Format/Xml.vio Proofs/FideFacts.vio
Props/C07.vos Props/C07.vok Props/C07.required_vos: Props/C07.v Base/Result.vos Base/AstOp.vos Model/Ast.vos Model/FM.vos Model/PFM.vos Model/Sem.vos Format/Xml.vos Proofs/FideFacts.vos
Proofs/GlencoeFacts.vo Proofs/GlencoeFacts.glob Proofs/GlencoeFacts.v.beautified Proofs/GlencoeFacts.required_vo: Proofs/GlencoeFacts.v Base/Result.vo Base/Str.vo Base/AstOp.vo Gen/Tables_core.vo Model/Ast.vo Model/FM.vo Model/Ctc.vo Model/Queries.vo Model/Sem.vo Model/EqHash.vo Model/PFM.vo Format/Json.vo Gen/Tables_glencoe.vo Format/Glencoe.vo Proofs/FMFacts.vo Proofs/QueriesFacts.vo Proofs/C20Facts.vo
Proofs/GlencoeFacts.vio: Proofs/GlencoeFacts.v Base/Result.vio Base/Str.vio Base/AstOp.vio Gen/Tables_core.vio Model/Ast.vio Model/FM.vio Model/Ctc.vio Model/Queries.vio Model/Sem.vio Model/EqHash.vio Model/PFM.vio Format/Json.vio Gen/Tables_glencoe.vio Format/Glencoe.vio Proofs/FMFacts.vio Proofs/QueriesFacts.vio Proofs/C20Facts.vio
Proofs/GlencoeFacts.vos Proofs/GlencoeFacts.vok Proofs/GlencoeFacts.required_vos: Proofs/GlencoeFacts.v Base/Result.vos Base/Str.vos Base/AstOp.vos Gen/Tables_core.vos Model/Ast.vos Model/FM.vos Model/Ctc.vos Model/Queries.vos Model/Sem.vos Model/EqHash.vos Model/PFM.vos Format/Json.vos Gen/Tables_glencoe.vos Format/Glencoe.vos Proofs/FMFacts.vos Proofs/QueriesFacts.vos Proofs/C20Facts.vos
Props/C08.vo Props/C08.glob Props/C08.v.beautified Props/C08.required_vo: Props/C08.v Base/Result.vo Model/Ast.vo Model/FM.vo Model/PFM.vo Model/Sem.vo Format/Glencoe.vo Proofs/GlencoeFacts.vo
Props/C08.vio: Props/C08.v Base/Result.vio Model/Ast.vio Model/FM.vio Model/PFM.vio Model/Sem.vio Format/Glencoe.vio Proofs/GlencoeFacts.vio
Props/C08.vos Props/C08.vok Props/C08.required_vos: Props/C08.v Base/Result.vos Model/Ast.vos Model/FM.vos Model/PFM.vos Model/Sem.vos Format/Glencoe.vos Proofs/GlencoeFacts.vos
Proofs/C17Facts.vo Proofs/C17Facts.glob Proofs/C17Facts.v.beautified Proofs/C17Facts.required_vo: Proofs/C17Facts.v Base/Result.vo Base/Str.vo Base/PyFloat.vo Base/AstOp.vo Gen/Tables_core.vo Model/Ast.vo Model/FM.vo Model/Ctc.vo Model/Queries.vo Model/Sem.vo Model/Ops.vo Model/EqHash.vo Gen/Tables_metrics.vo Model/Metrics.vo Proofs/FMFacts.vo Proofs/QueriesFacts.vo Proofs/C16Facts.vo Proofs/C18Facts.vo
Proofs/C17Facts.vio: Proofs/C17Facts.v Base/Result.vio Base/Str.vio Base/PyFloat.vio Base/AstOp.vio Gen/Tables_core.vio Model/Ast.vio Model/FM.vio Model/Ctc.vio Model/Queries.vio Model/Sem.vio Model/Ops.vio Model/EqHash.vio Gen/Tables_metrics.vio Model/Metrics.vio Proofs/FMFacts.vio Proofs/QueriesFacts.vio Proofs/C16Facts.vio Proofs/C18Facts.vio
Proofs/C17Facts.vos Proofs/C17Facts.vok Proofs/C17Facts.required_vos: Proofs/C17Facts.v Base/Result.vos Base/Str.vos Base/PyFloat.vos Base/AstOp.vos Gen/Tables_core.vos Model/Ast.vos Model/FM.vos Model/Ctc.vos Model/Queries.vos Model/Sem.vos Model/Ops.vos Model/EqHash.vos Gen/Tables_metrics.vos Model/Metrics.vos Proofs/FMFacts.vos Proofs/QueriesFacts.vos Proofs/C16Facts.vos Proofs/C18Facts.vos
Props/C17.vo Props/C17.glob Props/C17.v.beautified Props/C17.required_vo: Props/C17.v Base/Result.vo Base/Str.vo Model/Ast.vo Model/FM.vo Model/Ctc.vo Model/Queries.vo Model/Ops.vo Model/Metrics.vo Gen/Tables_metrics.vo Proofs/C18Facts.vo Proofs/C17Facts.vo
Props/C17.vio: Props/C17.v Base/Result.vio Base/Str.vio Model/Ast.vio Model/FM.vio Model/Ctc.vio Model/Queries.vio Model/Ops.vio Model/Metrics.vio Gen/Tables_metrics.vio Proofs/C18Facts.vio Proofs/C17Facts.vio
Props/C17.vos Props/C17.vok Props/C17.required_vos: Props/C17.v Base/Result.vos Base/Str.vos Model/Ast.vos Model/FM.vos Model/Ctc.vos Model/Queries.vos Model/Ops.vos Model/Metrics.vos Gen/Tables_metrics.vos Proofs/C18Facts.vos Proofs/C17Facts.vos
Proofs/C19Facts.vo Proofs/C19Facts.glob Proofs/C19Facts.v.beautified Proofs/C19Facts.required_vo: Proofs/C19Facts.v Base/Result.vo Base/Str.vo Base/PyFloat.vo Base/AstOp.vo Model/Ast.vo Model/FM.vo Model/Ctc.vo Model/Queries.vo Model/GenRandom.vo Proofs/FMFacts.vo Proofs/QueriesFacts.vo
Proofs/C19Facts.vio: Proofs/C19Facts.v Base/Result.vio Base/Str.vio Base/PyFloat.vio Base/AstOp.vio Model/Ast.vio Model/FM.vio Model/Ctc.vio Model/Queries.vio Model/GenRandom.vio Proofs/FMFacts.vio Proofs/QueriesFacts.vio
Proofs/C19Facts.vos Proofs/C19Facts.vok Proofs/C19Facts.required_vos: Proofs/C19Facts.v Base/Result.vos Base/Str.vos Base/PyFloat.vos Base/AstOp.vos Model/Ast.vos Model/FM.vos Model/Ctc.vos Model/Queries.vos Model/GenRandom.vos Proofs/FMFacts.vos Proofs/QueriesFacts.vos
Props/C19.vo Props/C19.glob Props/C19.v.beautified Props/C19.required_vo: Props/C19.v Base/Result.vo Model/FM.vo Model/Queries.vo Model/Metrics.vo Model/GenRandom.vo Proofs/C17Facts.vo Proofs/C19Facts.vo
Props/C19.vio: Props/C19.v Base/Result.vio Model/FM.vio Model/Queries.vio Model/Metrics.vio Model/GenRandom.vio Proofs/C17Facts.vio Proofs/C19Facts.vio
Props/C19.vos Props/C19.vok Props/C19.required_vos: Props/C19.v Base/Result.vos Model/FM.vos Model/Queries.vos Model/Metrics.vos Model/GenRandom.vos Proofs/C17Facts.vos Proofs/C19Facts.vos
Proofs/PositionalFacts.vo Proofs/PositionalFacts.glob Proofs/PositionalFacts.v.beautified Proofs/PositionalFacts.required_vo: Proofs/PositionalFacts.v Base/Str.vo
Proofs/PositionalFacts.vio: Proofs/PositionalFacts.v Base/Str.vio
Proofs/PositionalFacts.vos Proofs/PositionalFacts.vok Proofs/PositionalFacts.required_vos: Proofs/PositionalFacts.v Base/Str.vos
Proofs/AfmFacts.vo Proofs/AfmFacts.glob Proofs/AfmFacts.v.beautified Proofs/AfmFacts.required_vo: Proofs/AfmFacts.v Base/Result.vo Base/Str.vo Base/AstOp.vo Model/Ast.vo Model/FM.vo Model/PFM.vo Model/Queries.vo Gen/Tables_afm.vo Format/Afm.vo Proofs/FMFacts.vo Proofs/QueriesFacts.vo Proofs/JsonFacts.vo
Proofs/AfmFacts.vio: Proofs/AfmFacts.v Base/Result.vio Base/Str.vio Base/AstOp.vio Model/Ast.vio Model/FM.vio Model/PFM.vio Model/Queries.vio Gen/Tables_afm.vio Format/Afm.vio Proofs/FMFacts.vio Proofs/QueriesFacts.vio Proofs/JsonFacts.vio
Proofs/AfmFacts.vos Proofs/AfmFacts.vok Proofs/AfmFacts.required_vos: Proofs/AfmFacts.v Base/Result.vos Base/Str.vos Base/AstOp.vos Model/Ast.vos Model/FM.vos Model/PFM.vos Model/Queries.vos Gen/Tables_afm.vos Format/Afm.vos Proofs/FMFacts.vos Proofs/QueriesFacts.vos Proofs/JsonFacts.vos
Props/C06.vo Props/C06.glob Props/C06.v.beautified Props/C06.required_vo: Props/C06.v Base/Result.vo Model/Ast.vo Model/FM.vo Model/PFM.vo Format/Afm.vo Base/Str.vo Proofs/PositionalFacts.vo Proofs/AfmFacts.vo
Props/C06.vio: Props/C06.v Base/Result.vio Model/Ast.vio Model/FM.vio Model/PFM.vio Format/Afm.vio Base/Str.vio Proofs/PositionalFacts.vio Proofs/AfmFacts.vio
Props/C06.vos Props/C06.vok Props/C06.required_vos: Props/C06.v Base/Result.vos Model/Ast.vos Model/FM.vos Model/PFM.vos Format/Afm.vos Base/Str.vos Proofs/PositionalFacts.vos Proofs/AfmFacts.vos
Props/C12.vo Props/C12.glob Props/C12.v.beautified Props/C12.required_vo: Props/C12.v Base/Result.vo Model/FM.vo Format/Json.vo Format/Glencoe.vo Format/Xml.vo Format/Uvl.vo Format/Afm.vo Format/Export.vo
Props/C12.vio: Props/C12.v Base/Result.vio Model/FM.vio Format/Json.vio Format/Glencoe.vio Format/Xml.vio Format/Uvl.vio Format/Afm.vio Format/Export.vio
Props/C12.vos Props/C12.vok Props/C12.required_vos: Props/C12.v Base/Result.vos Model/FM.vos Format/Json.vos Format/Glencoe.vos Format/Xml.vos Format/Uvl.vos Format/Afm.vos Format/Export.vos
Proofs/RefFacts.vo Proofs/RefFacts.glob Proofs/RefFacts.v.beautified Proofs/RefFacts.required_vo: Proofs/RefFacts.v Base/Result.vo Base/Str.vo Base/AstOp.vo Model/Ast.vo Model/FM.vo Model/PFM.vo Model/Queries.vo Format/Xml.vo Format/Ref.vo Proofs/QueriesFacts.vo Proofs/C16Facts.vo Proofs/JsonFacts.vo Proofs/FamaFacts.vo Proofs/AfmFacts.vo
Proofs/RefFacts.vio: Proofs/RefFacts.v Base/Result.vio Base/Str.vio Base/AstOp.vio Model/Ast.vio Model/FM.vio Model/PFM.vio Model/Queries.vio Format/Xml.vio Format/Ref.vio Proofs/QueriesFacts.vio Proofs/C16Facts.vio Proofs/JsonFacts.vio Proofs/FamaFacts.vio Proofs/AfmFacts.vio
Proofs/RefFacts.vos Proofs/RefFacts.vok Proofs/RefFacts.required_vos: Proofs/RefFacts.v Base/Result.vos Base/Str.vos Base/AstOp.vos Model/Ast.vos Model/FM.vos Model/PFM.vos Model/Queries.vos Format/Xml.vos Format/Ref.vos Proofs/QueriesFacts.vos Proofs/C16Facts.vos Proofs/JsonFacts.vos Proofs/FamaFacts.vos Proofs/AfmFacts.vos
Proofs/C09Facts.vo Proofs/C09Facts.glob Proofs/C09Facts.v.beautified Proofs/C09Facts.required_vo: Proofs/C09Facts.v Base/Result.vo Base/AstOp.vo Model/Ast.vo Model/FM.vo Model/PFM.vo Format/Json.vo Format/Glencoe.vo Format/Afm.vo
Proofs/C09Facts.vio: Proofs/C09Facts.v Base/Result.vio Base/AstOp.vio Model/Ast.vio Model/FM.vio Model/PFM.vio Format/Json.vio Format/Glencoe.vio Format/Afm.vio
Proofs/C09Facts.vos Proofs/C09Facts.vok Proofs/C09Facts.required_vos: Proofs/C09Facts.v Base/Result.vos Base/AstOp.vos Model/Ast.vos Model/FM.vos Model/PFM.vos Format/Json.vos Format/Glencoe.vos Format/Afm.vos
Proofs/AfmVariant.vo Proofs/AfmVariant.glob Proofs/AfmVariant.v.beautified Proofs/AfmVariant.required_vo: Proofs/AfmVariant.v Base/Result.vo Base/AstOp.vo Model/Ast.vo Model/FM.vo Model/PFM.vo Format/Afm.vo Proofs/C09Facts.vo
Proofs/AfmVariant.vio: Proofs/AfmVariant.v Base/Result.vio Base/AstOp.vio Model/Ast.vio Model/FM.vio Model/PFM.vio Format/Afm.vio Proofs/C09Facts.vio
Proofs/AfmVariant.vos Proofs/AfmVariant.vok Proofs/AfmVariant.required_vos: Proofs/AfmVariant.v Base/Result.vos Base/AstOp.vos Model/Ast.vos Model/FM.vos Model/PFM.vos Format/Afm.vos Proofs/C09Facts.vos
Proofs/JsonVariant.vo Proofs/JsonVariant.glob Proofs/JsonVariant.v.beautified Proofs/JsonVariant.required_vo: Proofs/JsonVariant.v Base/Result.vo Base/Str.vo Base/AstOp.vo Gen/Tables_json.vo Model/Ast.vo Model/FM.vo Model/PFM.vo Format/Json.vo Format/Glencoe.vo Proofs/JsonFacts.vo Proofs/GlencoeFacts.vo Proofs/C09Facts.vo
Proofs/JsonVariant.vio: Proofs/JsonVariant.v Base/Result.vio Base/Str.vio Base/AstOp.vio Gen/Tables_json.vio Model/Ast.vio Model/FM.vio Model/PFM.vio Format/Json.vio Format/Glencoe.vio Proofs/JsonFacts.vio Proofs/GlencoeFacts.vio Proofs/C09Facts.vio
Proofs/JsonVariant.vos Proofs/JsonVariant.vok Proofs/JsonVariant.required_vos: Proofs/JsonVariant.v Base/Result.vos Base/Str.vos Base/AstOp.vos Gen/Tables_json.vos Model/Ast.vos Model/FM.vos Model/PFM.vos Format/Json.vos Format/Glencoe.vos Proofs/JsonFacts.vos Proofs/GlencoeFacts.vos Proofs/C09Facts.vos
Proofs/JsonExtra.vo Proofs/JsonExtra.glob Proofs/JsonExtra.v.beautified Proofs/JsonExtra.required_vo: Proofs/JsonExtra.v Base/Result.vo Base/Str.vo Base/AstOp.vo Gen/Tables_json.vo Model/Ast.vo Model/FM.vo Model/PFM.vo Format/Json.vo Proofs/JsonFacts.vo Proofs/C09Facts.vo Proofs/JsonVariant.vo
Proofs/JsonExtra.vio: Proofs/JsonExtra.v Base/Result.vio Base/Str.vio Base/AstOp.vio Gen/Tables_json.vio Model/Ast.vio Model/FM.vio Model/PFM.vio Format/Json.vio Proofs/JsonFacts.vio Proofs/C09Facts.vio Proofs/JsonVariant.vio
Proofs/JsonExtra.vos Proofs/JsonExtra.vok Proofs/JsonExtra.required_vos: Proofs/JsonExtra.v Base/Result.vos Base/Str.vos Base/AstOp.vos Gen/Tables_json.vos Model/Ast.vos Model/FM.vos Model/PFM.vos Format/Json.vos Proofs/JsonFacts.vos Proofs/C09Facts.vos Proofs/JsonVariant.vos
Props/C09.vo Props/C09.glob Props/C09.v.beautified Props/C09.required_vo: Props/C09.v Base/Result.vo Base/AstOp.vo Model/Ast.vo Model/FM.vo Model/PFM.vo Format/Xml.vo Format/Ref.vo Proofs/C16Facts.vo Proofs/FideFacts.vo Proofs/RefFacts.vo Proofs/C09Facts.vo Proofs/AfmVariant.vo Proofs/JsonVariant.vo Format/Json.vo Format/Glencoe.vo Format/Afm.vo
Props/C09.vio: Props/C09.v Base/Result.vio Base/AstOp.vio Model/Ast.vio Model/FM.vio Model/PFM.vio Format/Xml.vio Format/Ref.vio Proofs/C16Facts.vio Proofs/FideFacts.vio Proofs/RefFacts.vio Proofs/C09Facts.vio Proofs/AfmVariant.vio Proofs/JsonVariant.vio Format/Json.vio Format/Glencoe.vio Format/Afm.vio
Props/C09.vos Props/C09.vok Props/C09.required_vos: Props/C09.v Base/Result.vos Base/AstOp.vos Model/Ast.vos Model/FM.vos Model/PFM.vos Format/Xml.vos Format/Ref.vos Proofs/C16Facts.vos Proofs/FideFacts.vos Proofs/RefFacts.vos Proofs/C09Facts.vos Proofs/AfmVariant.vos Proofs/JsonVariant.vos Format/Json.vos Format/Glencoe.vos Format/Afm.vos
Proofs/UvlFacts.vo Proofs/UvlFacts.glob Proofs/UvlFacts.v.beautified Proofs/UvlFacts.required_vo: Proofs/UvlFacts.v Base/Result.vo Base/Str.vo Base/AstOp.vo Gen/Tables_core.vo Model/Ast.vo Model/FM.vo Model/PFM.vo Model/Queries.vo Model/Sem.vo Format/Json.vo Format/Glencoe.vo Format/Xml.vo Gen/Tables_uvl.vo Format/Uvl.vo Proofs/JsonFacts.vo
Proofs/UvlFacts.vio: Proofs/UvlFacts.v Base/Result.vio Base/Str.vio Base/AstOp.vio Gen/Tables_core.vio Model/Ast.vio Model/FM.vio Model/PFM.vio Model/Queries.vio Model/Sem.vio Format/Json.vio Format/Glencoe.vio Format/Xml.vio Gen/Tables_uvl.vio Format/Uvl.vio Proofs/JsonFacts.vio
Proofs/UvlFacts.vos Proofs/UvlFacts.vok Proofs/UvlFacts.required_vos: Proofs/UvlFacts.v Base/Result.vos Base/Str.vos Base/AstOp.vos Gen/Tables_core.vos Model/Ast.vos Model/FM.vos Model/PFM.vos Model/Queries.vos Model/Sem.vos Format/Json.vos Format/Glencoe.vos Format/Xml.vos Gen/Tables_uvl.vos Format/Uvl.vos Proofs/JsonFacts.vos
Proofs/NonEmptyFacts.vo Proofs/NonEmptyFacts.glob Proofs/NonEmptyFacts.v.beautified Proofs/NonEmptyFacts.required_vo: Proofs/NonEmptyFacts.v Base/Result.vo Base/Str.vo Base/AstOp.vo Model/Ast.vo Model/FM.vo Model/PFM.vo Model/Queries.vo Format/Uvl.vo Format/Afm.vo Proofs/JsonFacts.vo Proofs/UvlFacts.vo Proofs/AfmFacts.vo
Proofs/NonEmptyFacts.vio: Proofs/NonEmptyFacts.v Base/Result.vio Base/Str.vio Base/AstOp.vio Model/Ast.vio Model/FM.vio Model/PFM.vio Model/Queries.vio Format/Uvl.vio Format/Afm.vio Proofs/JsonFacts.vio Proofs/UvlFacts.vio Proofs/AfmFacts.vio
Proofs/NonEmptyFacts.vos Proofs/NonEmptyFacts.vok Proofs/NonEmptyFacts.required_vos: Proofs/NonEmptyFacts.v Base/Result.vos Base/Str.vos Base/AstOp.vos Model/Ast.vos Model/FM.vos Model/PFM.vos Model/Queries.vos Format/Uvl.vos Format/Afm.vos Proofs/JsonFacts.vos Proofs/UvlFacts.vos Proofs/AfmFacts.vos
Proofs/UvlVariant.vo Proofs/UvlVariant.glob Proofs/UvlVariant.v.beautified Proofs/UvlVariant.required_vo: Proofs/UvlVariant.v Base/Result.vo Base/Str.vo Base/AstOp.vo Gen/Tables_core.vo Model/Ast.vo Model/FM.vo Model/PFM.vo Model/Queries.vo Format/Json.vo Format/Glencoe.vo Format/Xml.vo Gen/Tables_uvl.vo Format/Uvl.vo Proofs/JsonFacts.vo Proofs/UvlFacts.vo
Proofs/UvlVariant.vio: Proofs/UvlVariant.v Base/Result.vio Base/Str.vio Base/AstOp.vio Gen/Tables_core.vio Model/Ast.vio Model/FM.vio Model/PFM.vio Model/Queries.vio Format/Json.vio Format/Glencoe.vio Format/Xml.vio Gen/Tables_uvl.vio Format/Uvl.vio Proofs/JsonFacts.vio Proofs/UvlFacts.vio
Proofs/UvlVariant.vos Proofs/UvlVariant.vok Proofs/UvlVariant.required_vos: Proofs/UvlVariant.v Base/Result.vos Base/Str.vos Base/AstOp.vos Gen/Tables_core.vos Model/Ast.vos Model/FM.vos Model/PFM.vos Model/Queries.vos Format/Json.vos Format/Glencoe.vos Format/Xml.vos Gen/Tables_uvl.vos Format/Uvl.vos Proofs/JsonFacts.vos Proofs/UvlFacts.vos
Props/C01.vo Props/C01.glob Props/C01.v.beautified Props/C01.required_vo: Props/C01.v Base/Result.vo Model/Ast.vo Model/FM.vo Model/PFM.vo Model/Sem.vo Format/Uvl.vo Proofs/UvlFacts.vo
Props/C01.vio: Props/C01.v Base/Result.vio Model/Ast.vio Model/FM.vio Model/PFM.vio Model/Sem.vio Format/Uvl.vio Proofs/UvlFacts.vio
Props/C01.vos Props/C01.vok Props/C01.required_vos: Props/C01.v Base/Result.vos Model/Ast.vos Model/FM.vos Model/PFM.vos Model/Sem.vos Format/Uvl.vos Proofs/UvlFacts.vos
Props/C04.vo Props/C04.glob Props/C04.v.beautified Props/C04.required_vo: Props/C04.v Base/Result.vo Base/Str.vo Model/Ast.vo Model/FM.vo Model/PFM.vo Format/Uvl.vo Proofs/UvlFacts.vo Proofs/UvlVariant.vo
Props/C04.vio: Props/C04.v Base/Result.vio Base/Str.vio Model/Ast.vio Model/FM.vio Model/PFM.vio Format/Uvl.vio Proofs/UvlFacts.vio Proofs/UvlVariant.vio
Props/C04.vos Props/C04.vok Props/C04.required_vos: Props/C04.v Base/Result.vos Base/Str.vos Model/Ast.vos Model/FM.vos Model/PFM.vos Format/Uvl.vos Proofs/UvlFacts.vos Proofs/UvlVariant.vos
Props/C02.vo Props/C02.glob Props/C02.v.beautified Props/C02.required_vo: Props/C02.v Base/Result.vo Model/Ast.vo Model/FM.vo Model/PFM.vo Format/Json.vo Format/Glencoe.vo Format/Xml.vo Format/Uvl.vo Format/Afm.vo Proofs/JsonFacts.vo Proofs/GlencoeFacts.vo Proofs/FideFacts.vo Proofs/FamaFacts.vo Proofs/UvlFacts.vo Proofs/AfmFacts.vo Proofs/NonEmptyFacts.vo
Props/C02.vio: Props/C02.v Base/Result.vio Model/Ast.vio Model/FM.vio Model/PFM.vio Format/Json.vio Format/Glencoe.vio Format/Xml.vio Format/Uvl.vio Format/Afm.vio Proofs/JsonFacts.vio Proofs/GlencoeFacts.vio Proofs/FideFacts.vio Proofs/FamaFacts.vio Proofs/UvlFacts.vio Proofs/AfmFacts.vio Proofs/NonEmptyFacts.vio
Props/C02.vos Props/C02.vok Props/C02.required_vos: Props/C02.v Base/Result.vos Model/Ast.vos Model/FM.vos Model/PFM.vos Format/Json.vos Format/Glencoe.vos Format/Xml.vos Format/Uvl.vos Format/Afm.vos Proofs/JsonFacts.vos Proofs/GlencoeFacts.vos Proofs/FideFacts.vos Proofs/FamaFacts.vos Proofs/UvlFacts.vos Proofs/AfmFacts.vos Proofs/NonEmptyFacts.vos
Proofs/C10Facts.vo Proofs/C10Facts.glob Proofs/C10Facts.v.beautified Proofs/C10Facts.required_vo: Proofs/C10Facts.v Base/Result.vo Base/Str.vo Base/AstOp.vo Gen/Tables_core.vo Model/Ast.vo Model/FM.vo Model/Ctc.vo Model/Queries.vo Model/Sem.vo Format/Export.vo Proofs/FMFacts.vo Proofs/QueriesFacts.vo Proofs/C14Facts.vo Proofs/C18Facts.vo
Proofs/C10Facts.vio: Proofs/C10Facts.v Base/Result.vio Base/Str.vio Base/AstOp.vio Gen/Tables_core.vio Model/Ast.vio Model/FM.vio Model/Ctc.vio Model/Queries.vio Model/Sem.vio Format/Export.vio Proofs/FMFacts.vio Proofs/QueriesFacts.vio Proofs/C14Facts.vio Proofs/C18Facts.vio
Proofs/C10Facts.vos Proofs/C10Facts.vok Proofs/C10Facts.required_vos: Proofs/C10Facts.v Base/Result.vos Base/Str.vos Base/AstOp.vos Gen/Tables_core.vos Model/Ast.vos Model/FM.vos Model/Ctc.vos Model/Queries.vos Model/Sem.vos Format/Export.vos Proofs/FMFacts.vos Proofs/QueriesFacts.vos Proofs/C14Facts.vos Proofs/C18Facts.vos
Proofs/C11Facts.vo Proofs/C11Facts.glob Proofs/C11Facts.v.beautified Proofs/C11Facts.required_vo: Proofs/C11Facts.v Base/Result.vo Base/Str.vo Base/AstOp.vo Gen/Tables_core.vo Model/Ast.vo Model/FM.vo Model/Ctc.vo Model/Queries.vo Model/Sem.vo Format/Glencoe.vo Format/Uvl.vo Format/Export.vo Proofs/FMFacts.vo Proofs/QueriesFacts.vo Proofs/C14Facts.vo Proofs/C18Facts.vo Proofs/C10Facts.vo
Proofs/C11Facts.vio: Proofs/C11Facts.v Base/Result.vio Base/Str.vio Base/AstOp.vio Gen/Tables_core.vio Model/Ast.vio Model/FM.vio Model/Ctc.vio Model/Queries.vio Model/Sem.vio Format/Glencoe.vio Format/Uvl.vio Format/Export.vio Proofs/FMFacts.vio Proofs/QueriesFacts.vio Proofs/C14Facts.vio Proofs/C18Facts.vio Proofs/C10Facts.vio
Proofs/C11Facts.vos Proofs/C11Facts.vok Proofs/C11Facts.required_vos: Proofs/C11Facts.v Base/Result.vos Base/Str.vos Base/AstOp.vos Gen/Tables_core.vos Model/Ast.vos Model/FM.vos Model/Ctc.vos Model/Queries.vos Model/Sem.vos Format/Glencoe.vos Format/Uvl.vos Format/Export.vos Proofs/FMFacts.vos Proofs/QueriesFacts.vos Proofs/C14Facts.vos Proofs/C18Facts.vos Proofs/C10Facts.vos
Props/C10.vo Props/C10.glob Props/C10.v.beautified Props/C10.required_vo: Props/C10.v Base/Result.vo Base/AstOp.vo Model/Ast.vo Model/FM.vo Model/Queries.vo Model/Sem.vo Format/Export.vo Proofs/C18Facts.vo Proofs/C10Facts.vo
Props/C10.vio: Props/C10.v Base/Result.vio Base/AstOp.vio Model/Ast.vio Model/FM.vio Model/Queries.vio Model/Sem.vio Format/Export.vio Proofs/C18Facts.vio Proofs/C10Facts.vio
Props/C10.vos Props/C10.vok Props/C10.required_vos: Props/C10.v Base/Result.vos Base/AstOp.vos Model/Ast.vos Model/FM.vos Model/Queries.vos Model/Sem.vos Format/Export.vos Proofs/C18Facts.vos Proofs/C10Facts.vos
Props/C11.vo Props/C11.glob Props/C11.v.beautified Props/C11.required_vo: Props/C11.v Base/Result.vo Base/AstOp.vo Model/Ast.vo Model/FM.vo Model/Queries.vo Model/Sem.vo Format/Export.vo Base/Str.vo Proofs/PositionalFacts.vo Proofs/C18Facts.vo Proofs/C11Facts.vo
Props/C11.vio: Props/C11.v Base/Result.vio Base/AstOp.vio Model/Ast.vio Model/FM.vio Model/Queries.vio Model/Sem.vio Format/Export.vio Base/Str.vio Proofs/PositionalFacts.vio Proofs/C18Facts.vio Proofs/C11Facts.vio
Props/C11.vos Props/C11.vok Props/C11.required_vos: Props/C11.v Base/Result.vos Base/AstOp.vos Model/Ast.vos Model/FM.vos Model/Queries.vos Model/Sem.vos Format/Export.vos Base/Str.vos Proofs/PositionalFacts.vos Proofs/C18Facts.vos Proofs/C11Facts.vos
