(* Extract/Codec.v — S-expression encoders / decoders for the model types (Appendix B of DESIGN) *)
From Coq Require Import List Bool Ascii String ZArith.
From FM Require Import Base.Result Base.Str Base.Sexp Base.AstOp Model.Ast Model.FM Model.PFM Format.Xml.
Import ListNotations.
Open Scope string_scope.

(* ---- aval ---- *)
Fixpoint e_aval (v : aval) : sexp :=
  match v with
  | VNone => e_tag "none" []
  | VBool b => e_tag "b" [e_bool b]
  | VInt z => e_tag "i" [e_z z]
  | VFloat r => e_tag "fl" [SStr r]
  | VStr s => e_tag "s" [SStr s]
  | VList l => e_tag "l" (map e_aval l)
  | VMap kv => e_tag "m" (map (fun p => SList [SStr (fst p); e_aval (snd p)]) kv)
  end.

Fixpoint d_aval (s : sexp) : option aval :=
  match s with
  | SList (SAtom t :: args) =>
      if String.eqb t "none" then Some VNone
      else if String.eqb t "b" then
        match args with [x] => option_map VBool (d_bool x) | _ => None end
      else if String.eqb t "i" then
        match args with [x] => option_map VInt (d_z x) | _ => None end
      else if String.eqb t "fl" then
        match args with [SStr r] => Some (VFloat r) | _ => None end
      else if String.eqb t "s" then
        match args with [SStr r] => Some (VStr r) | _ => None end
      else if String.eqb t "l" then option_map VList (omap d_aval args)
      else if String.eqb t "m" then
        option_map VMap
          (omap (fun p => match p with
                          | SList [SStr k; v] => option_map (pair k) (d_aval v)
                          | _ => None
                          end) args)
      else None
  | _ => None
  end.

(* ---- node ---- *)
Definition e_ndata (d : ndata) : sexp :=
  match d with
  | DOp o => e_tag "op" [SAtom (astop_value o)]
  | DStr s => e_tag "s" [SStr s]
  | DInt z => e_tag "i" [e_z z]
  | DFloat r => e_tag "fl" [SStr r]
  | DBool b => e_tag "b" [e_bool b]
  end.

Definition d_ndata (s : sexp) : option ndata :=
  match s with
  | SList [SAtom t; x] =>
      if String.eqb t "op" then
        match x with SAtom v => option_map DOp (astop_of_value v) | _ => None end
      else if String.eqb t "s" then option_map DStr (d_str x)
      else if String.eqb t "i" then option_map DInt (d_z x)
      else if String.eqb t "fl" then option_map DFloat (d_str x)
      else if String.eqb t "b" then option_map DBool (d_bool x)
      else None
  | _ => None
  end.

Fixpoint e_node (n : node) : sexp :=
  match n with
  | Node d l r =>
      SList [SAtom "n"; e_ndata d;
             match l with Some a => e_node a | None => SAtom "nil" end;
             match r with Some b => e_node b | None => SAtom "nil" end]
  end.

Fixpoint d_node (s : sexp) : option node :=
  match s with
  | SList [SAtom _; d; l; r] =>
      match d_ndata d with
      | None => None
      | Some d' =>
          let sub (x : sexp) : option (option node) :=
            match x with
            | SAtom _ => Some None
            | _ => match d_node x with Some n => Some (Some n) | None => None end
            end in
          match sub l, sub r with
          | Some l', Some r' => Some (Node d' l' r')
          | _, _ => None
          end
      end
  | _ => None
  end.

(* ---- feature model ---- *)
Definition e_ftype (t : ftype) : sexp :=
  SAtom (match t with TBoolean => "Boolean" | TInteger => "Integer" | TReal => "Real"
                 | TString => "String" end).
Definition d_ftype (s : sexp) : option ftype :=
  match s with
  | SAtom x => if String.eqb x "Boolean" then Some TBoolean
               else if String.eqb x "Integer" then Some TInteger
               else if String.eqb x "Real" then Some TReal
               else if String.eqb x "String" then Some TString else None
  | _ => None
  end.

Definition e_domain (d : domain) : sexp :=
  e_tag "d" [SList (map (fun r => SList [e_aval (rg_min r); e_aval (rg_max r)]) (dom_ranges d));
             SList (map e_aval (dom_elems d))].
Definition d_domain (s : sexp) : option domain :=
  match s with
  | SList [SAtom _; SList rs; SList es] =>
      match omap (fun r => match r with
                           | SList [a; b] => match d_aval a, d_aval b with
                                             | Some x, Some y => Some {| rg_min := x; rg_max := y |}
                                             | _, _ => None
                                             end
                           | _ => None
                           end) rs, omap d_aval es with
      | Some rs', Some es' => Some {| dom_ranges := rs'; dom_elems := es' |}
      | _, _ => None
      end
  | _ => None
  end.

Definition e_attr (a : attr) : sexp :=
  e_tag "a" [SStr (a_name a); e_opt e_domain (a_dom a); e_aval (a_default a); e_aval (a_null a)].
Definition d_attr (s : sexp) : option attr :=
  match s with
  | SList [SAtom _; SStr n; d; dv; nv] =>
      let dom := if is_nil d then Some None
                 else match d_domain d with Some x => Some (Some x) | None => None end in
      match dom, d_aval dv, d_aval nv with
      | Some d', Some dv', Some nv' =>
          Some {| a_name := n; a_dom := d'; a_default := dv'; a_null := nv' |}
      | _, _, _ => None
      end
  | _ => None
  end.

Fixpoint e_feature (f : feature) : sexp :=
  match f with
  | Feature i rs =>
      e_tag "f" [SStr (f_name i); e_aval (f_abstract i); e_ftype (f_type i); e_z (f_cmin i);
                 e_z (f_cmax i); SList (map e_attr (f_attrs i));
                 SList (map (fun r => match r with
                                      | Relation a b cs =>
                                          e_tag "r" [e_z a; e_z b; SList (map e_feature cs)]
                                      end) rs)]
  end.

Fixpoint d_feature (s : sexp) : option feature :=
  match s with
  | SList [SAtom _; SStr nm; ab; ty; cmin; cmax; SList attrs; SList rs] =>
      match d_aval ab, d_ftype ty, d_z cmin, d_z cmax, omap d_attr attrs,
            omap (fun r => match r with
                           | SList [SAtom _; mn; mx; SList cs] =>
                               match d_z mn, d_z mx, omap d_feature cs with
                               | Some a, Some b, Some l => Some (Relation a b l)
                               | _, _, _ => None
                               end
                           | _ => None
                           end) rs with
      | Some ab', Some ty', Some c1, Some c2, Some at', Some rs' =>
          Some (Feature {| f_name := nm; f_abstract := ab'; f_type := ty'; f_cmin := c1;
                           f_cmax := c2; f_attrs := at' |} rs')
      | _, _, _, _, _, _ => None
      end
  | _ => None
  end.

Definition e_ctc (c : ctc) : sexp := e_tag "c" [SStr (c_name c); e_node (c_ast c)].
Definition d_ctc (s : sexp) : option ctc :=
  match s with
  | SList [SAtom _; SStr n; a] =>
      match d_node a with Some a' => Some {| c_name := n; c_ast := a' |} | None => None end
  | _ => None
  end.

Definition e_fm (m : fm) : sexp := e_tag "fm" [e_feature (root m); SList (map e_ctc (ctcs m))].
Definition d_fm (s : sexp) : option fm :=
  match s with
  | SList [SAtom _; f; SList cs] =>
      match d_feature f, omap d_ctc cs with
      | Some f', Some cs' => Some {| root := f'; ctcs := cs' |}
      | _, _ => None
      end
  | _ => None
  end.

(* ---- pointer-annotated models ---- *)
Definition e_ptr (p : ptr) : sexp :=
  match p with
  | PNone => SAtom "nil"
  | PExt => SAtom "ext"
  | PPath l => e_tag "p" (flat_map (fun ij => [e_nat (fst ij); e_nat (snd ij)]) l)
  end.

Fixpoint e_pfeature (f : pfeature) : sexp :=
  match f with
  | PFeature i p ap rs =>
      e_tag "pf" [SStr (f_name i); e_aval (f_abstract i); e_ftype (f_type i); e_z (f_cmin i);
                  e_z (f_cmax i); e_ptr p;
                  SList (map (fun ap_ => SList [e_attr (fst ap_); e_ptr (snd ap_)])
                             (combine (f_attrs i) ap));
                  SList (map (fun r => match r with
                                       | PRelation rp a b cs =>
                                           e_tag "pr" [e_ptr rp; e_z a; e_z b; SList (map e_pfeature cs)]
                                       end) rs)]
  end.

Definition e_pfm (m : pfm) : sexp :=
  e_tag "pfm" [e_pfeature (proot m); SList (map e_ctc (pctcs m))].

(* ---- xml ---- *)
Fixpoint e_xml (x : xml) : sexp :=
  match x with
  | Elem t a txt kids =>
      e_tag "x" [SStr t; SList (map (fun kv => SList [SStr (fst kv); SStr (snd kv)]) a);
                 e_opt SStr txt; SList (map e_xml kids)]
  end.

Fixpoint d_xml (s : sexp) : option xml :=
  match s with
  | SList [SAtom _; SStr t; SList a; txt; SList kids] =>
      match omap (fun kv => match kv with
                            | SList [SStr k; SStr v] => Some (k, v)
                            | _ => None
                            end) a,
            (if is_nil txt then Some None else option_map Some (d_str txt)),
            omap d_xml kids with
      | Some a', Some txt', Some kids' => Some (Elem t a' txt' kids')
      | _, _, _ => None
      end
  | _ => None
  end.
