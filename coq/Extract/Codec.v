(* Extract/Codec.v — S-expression encoders / decoders for the model types (Appendix B of DESIGN) *)
From Coq Require Import List Bool Ascii String ZArith.
From FM Require Import Base.Result Base.Str Base.Sexp Base.AstOp Model.Ast Model.FM Model.PFM Model.Heap Format.Xml Format.Uvl Format.Afm.
Import ListNotations.
Open Scope string_scope.

(* ---- aval ---- *)
Fixpoint e_aval (v : aval) : sexp :=
  match v with
  | VNone => e_tag "none" []
  | VBool b => e_tag "b" [e_bool b]
  | VInt z => e_tag "i" [e_z z]
  | VFloat r => e_tag "fl" [SStr r]
  | VStr s => e_tag "s" [SStr s]
  | VList l => e_tag "l" (map e_aval l)
  | VMap kv => e_tag "m" (map (fun p => SList [SStr (fst p); e_aval (snd p)]) kv)
  end.

Fixpoint d_aval (s : sexp) : option aval :=
  match s with
  | SList (SAtom t :: args) =>
      if String.eqb t "none" then Some VNone
      else if String.eqb t "b" then
        match args with [x] => option_map VBool (d_bool x) | _ => None end
      else if String.eqb t "i" then
        match args with [x] => option_map VInt (d_z x) | _ => None end
      else if String.eqb t "fl" then
        match args with [SStr r] => Some (VFloat r) | _ => None end
      else if String.eqb t "s" then
        match args with [SStr r] => Some (VStr r) | _ => None end
      else if String.eqb t "l" then option_map VList (omap d_aval args)
      else if String.eqb t "m" then
        option_map VMap
          (omap (fun p => match p with
                          | SList [SStr k; v] => option_map (pair k) (d_aval v)
                          | _ => None
                          end) args)
      else None
  | _ => None
  end.

(* ---- node ---- *)
Definition e_ndata (d : ndata) : sexp :=
  match d with
  | DOp o => e_tag "op" [SAtom (astop_value o)]
  | DStr s => e_tag "s" [SStr s]
  | DInt z => e_tag "i" [e_z z]
  | DFloat r => e_tag "fl" [SStr r]
  | DBool b => e_tag "b" [e_bool b]
  end.

Definition d_ndata (s : sexp) : option ndata :=
  match s with
  | SList [SAtom t; x] =>
      if String.eqb t "op" then
        match x with SAtom v => option_map DOp (astop_of_value v) | _ => None end
      else if String.eqb t "s" then option_map DStr (d_str x)
      else if String.eqb t "i" then option_map DInt (d_z x)
      else if String.eqb t "fl" then option_map DFloat (d_str x)
      else if String.eqb t "b" then option_map DBool (d_bool x)
      else None
  | _ => None
  end.

Fixpoint e_node (n : node) : sexp :=
  match n with
  | Node d l r =>
      SList [SAtom "n"; e_ndata d;
             match l with Some a => e_node a | None => SAtom "nil" end;
             match r with Some b => e_node b | None => SAtom "nil" end]
  end.

Fixpoint d_node (s : sexp) : option node :=
  match s with
  | SList [SAtom _; d; l; r] =>
      match d_ndata d with
      | None => None
      | Some d' =>
          let sub (x : sexp) : option (option node) :=
            match x with
            | SAtom _ => Some None
            | _ => match d_node x with Some n => Some (Some n) | None => None end
            end in
          match sub l, sub r with
          | Some l', Some r' => Some (Node d' l' r')
          | _, _ => None
          end
      end
  | _ => None
  end.

(* ---- feature model ---- *)
Definition e_ftype (t : ftype) : sexp :=
  SAtom (match t with TBoolean => "Boolean" | TInteger => "Integer" | TReal => "Real"
                 | TString => "String" end).
Definition d_ftype (s : sexp) : option ftype :=
  match s with
  | SAtom x => if String.eqb x "Boolean" then Some TBoolean
               else if String.eqb x "Integer" then Some TInteger
               else if String.eqb x "Real" then Some TReal
               else if String.eqb x "String" then Some TString else None
  | _ => None
  end.

Definition e_domain (d : domain) : sexp :=
  e_tag "d" [SList (map (fun r => SList [e_aval (rg_min r); e_aval (rg_max r)]) (dom_ranges d));
             SList (map e_aval (dom_elems d))].
Definition d_domain (s : sexp) : option domain :=
  match s with
  | SList [SAtom _; SList rs; SList es] =>
      match omap (fun r => match r with
                           | SList [a; b] => match d_aval a, d_aval b with
                                             | Some x, Some y => Some {| rg_min := x; rg_max := y |}
                                             | _, _ => None
                                             end
                           | _ => None
                           end) rs, omap d_aval es with
      | Some rs', Some es' => Some {| dom_ranges := rs'; dom_elems := es' |}
      | _, _ => None
      end
  | _ => None
  end.

Definition e_attr (a : attr) : sexp :=
  e_tag "a" [SStr (a_name a); e_opt e_domain (a_dom a); e_aval (a_default a); e_aval (a_null a)].
Definition d_attr (s : sexp) : option attr :=
  match s with
  | SList [SAtom _; SStr n; d; dv; nv] =>
      let dom := if is_nil d then Some None
                 else match d_domain d with Some x => Some (Some x) | None => None end in
      match dom, d_aval dv, d_aval nv with
      | Some d', Some dv', Some nv' =>
          Some {| a_name := n; a_dom := d'; a_default := dv'; a_null := nv' |}
      | _, _, _ => None
      end
  | _ => None
  end.

Fixpoint e_feature (f : feature) : sexp :=
  match f with
  | Feature i rs =>
      e_tag "f" [SStr (f_name i); e_aval (f_abstract i); e_ftype (f_type i); e_z (f_cmin i);
                 e_z (f_cmax i); SList (map e_attr (f_attrs i));
                 SList (map (fun r => match r with
                                      | Relation a b cs =>
                                          e_tag "r" [e_z a; e_z b; SList (map e_feature cs)]
                                      end) rs)]
  end.

Fixpoint d_feature (s : sexp) : option feature :=
  match s with
  | SList [SAtom _; SStr nm; ab; ty; cmin; cmax; SList attrs; SList rs] =>
      match d_aval ab, d_ftype ty, d_z cmin, d_z cmax, omap d_attr attrs,
            omap (fun r => match r with
                           | SList [SAtom _; mn; mx; SList cs] =>
                               match d_z mn, d_z mx, omap d_feature cs with
                               | Some a, Some b, Some l => Some (Relation a b l)
                               | _, _, _ => None
                               end
                           | _ => None
                           end) rs with
      | Some ab', Some ty', Some c1, Some c2, Some at', Some rs' =>
          Some (Feature {| f_name := nm; f_abstract := ab'; f_type := ty'; f_cmin := c1;
                           f_cmax := c2; f_attrs := at' |} rs')
      | _, _, _, _, _, _ => None
      end
  | _ => None
  end.

Definition e_ctc (c : ctc) : sexp := e_tag "c" [SStr (c_name c); e_node (c_ast c)].
Definition d_ctc (s : sexp) : option ctc :=
  match s with
  | SList [SAtom _; SStr n; a] =>
      match d_node a with Some a' => Some {| c_name := n; c_ast := a' |} | None => None end
  | _ => None
  end.

Definition e_fm (m : fm) : sexp := e_tag "fm" [e_feature (root m); SList (map e_ctc (ctcs m))].
Definition d_fm (s : sexp) : option fm :=
  match s with
  | SList [SAtom _; f; SList cs] =>
      match d_feature f, omap d_ctc cs with
      | Some f', Some cs' => Some {| root := f'; ctcs := cs' |}
      | _, _ => None
      end
  | _ => None
  end.

(* ---- pointer-annotated models ---- *)
Definition e_ptr (p : ptr) : sexp :=
  match p with
  | PNone => SAtom "nil"
  | PExt => SAtom "ext"
  | PPath l => e_tag "p" (flat_map (fun ij => [e_nat (fst ij); e_nat (snd ij)]) l)
  end.

Fixpoint e_pfeature (f : pfeature) : sexp :=
  match f with
  | PFeature i p ap rs =>
      e_tag "pf" [SStr (f_name i); e_aval (f_abstract i); e_ftype (f_type i); e_z (f_cmin i);
                  e_z (f_cmax i); e_ptr p;
                  SList (map (fun ap_ => SList [e_attr (fst ap_); e_ptr (snd ap_)])
                             (combine (f_attrs i) ap));
                  SList (map (fun r => match r with
                                       | PRelation rp a b cs =>
                                           e_tag "pr" [e_ptr rp; e_z a; e_z b; SList (map e_pfeature cs)]
                                       end) rs)]
  end.

Definition e_pfm (m : pfm) : sexp :=
  e_tag "pfm" [e_pfeature (proot m); SList (map e_ctc (pctcs m))].

(* ---- xml ---- *)
Fixpoint e_xml (x : xml) : sexp :=
  match x with
  | Elem t a txt kids =>
      e_tag "x" [SStr t; SList (map (fun kv => SList [SStr (fst kv); SStr (snd kv)]) a);
                 e_opt SStr txt; SList (map e_xml kids)]
  end.

Fixpoint d_xml (s : sexp) : option xml :=
  match s with
  | SList [SAtom _; SStr t; SList a; txt; SList kids] =>
      match omap (fun kv => match kv with
                            | SList [SStr k; SStr v] => Some (k, v)
                            | _ => None
                            end) a,
            (if is_nil txt then Some None else option_map Some (d_str txt)),
            omap d_xml kids with
      | Some a', Some txt', Some kids' => Some (Elem t a' txt' kids')
      | _, _, _ => None
      end
  | _ => None
  end.

(* ---- UVL concrete syntax trees ---- *)
Fixpoint e_uvalue (v : uvalue) : sexp :=
  match v with
  | UVBool t => e_tag "vb" [SStr t]
  | UVFloat t r => e_tag "vf" [SStr t; SStr r]
  | UVInt t => e_tag "vi" [SStr t]
  | UVStr t => e_tag "vs" [SStr t]
  | UVAttrs l => e_tag "va" (map e_uattr l)
  | UVVector l => e_tag "vv" (map e_uvalue l)
  end
with e_uattr (a : uattr) : sexp :=
  match a with
  | UAValue k v => e_tag "av" [SStr k; match v with Some x => e_uvalue x | None => SAtom "nil" end]
  | UAConstraint => e_tag "ac" []
  | UAOther => e_tag "ao" []
  end.

Fixpoint d_uvalue (s : sexp) : option uvalue :=
  match s with
  | SList (SAtom t :: args) =>
      if String.eqb t "vb" then match args with [SStr x] => Some (UVBool x) | _ => None end
      else if String.eqb t "vf" then match args with [SStr x; SStr r] => Some (UVFloat x r) | _ => None end
      else if String.eqb t "vi" then match args with [SStr x] => Some (UVInt x) | _ => None end
      else if String.eqb t "vs" then match args with [SStr x] => Some (UVStr x) | _ => None end
      else if String.eqb t "vv" then option_map UVVector (omap d_uvalue args)
      else if String.eqb t "va" then
        option_map UVAttrs
          (omap (fun a => match a with
                          | SList [SAtom ta; SStr k; v] =>
                              if String.eqb ta "av" then
                                match v with
                                | SAtom _ => Some (UAValue k None)
                                | _ => option_map (fun x => UAValue k (Some x)) (d_uvalue v)
                                end
                              else None
                          | SList [SAtom ta] => if String.eqb ta "ac" then Some UAConstraint
                                                else if String.eqb ta "ao" then Some UAOther else None
                          | _ => None
                          end) args)
      else None
  | _ => None
  end.

Definition d_uattrs (s : sexp) : option (option (list uattr)) :=
  match s with
  | SAtom _ => Some None
  | _ => match d_uvalue s with Some (UVAttrs l) => Some (Some l) | _ => None end
  end.

Definition e_gkind (k : gkind) : sexp :=
  match k with
  | GOr => SAtom "or" | GAlt => SAtom "alt" | GOpt => SAtom "opt" | GMand => SAtom "mand"
  | GCard t => e_tag "card" [SStr t]
  end.
Definition d_gkind (s : sexp) : option gkind :=
  match s with
  | SAtom x => if String.eqb x "or" then Some GOr else if String.eqb x "alt" then Some GAlt
               else if String.eqb x "opt" then Some GOpt else if String.eqb x "mand" then Some GMand else None
  | SList [SAtom _; SStr t] => Some (GCard t)
  | _ => None
  end.

Fixpoint e_ufeature (f : ufeature) : sexp :=
  match f with
  | UFeature ty ref fc at_ gs =>
      e_tag "uf" [e_opt SStr ty; SStr ref; e_opt SStr fc;
                  match at_ with Some l => e_uvalue (UVAttrs l) | None => SAtom "nil" end;
                  SList (map (fun g => match g with
                                       | UGroup k cs => e_tag "g" [e_gkind k; SList (map e_ufeature cs)]
                                       end) gs)]
  end.
Definition d_optstr (s : sexp) : option (option string) :=
  match s with SAtom _ => Some None | SStr x => Some (Some x) | _ => None end.
Fixpoint d_ufeature (s : sexp) : option ufeature :=
  match s with
  | SList [SAtom _; ty; SStr ref; fc; at_; SList gs] =>
      match d_optstr ty, d_optstr fc, d_uattrs at_,
            omap (fun g => match g with
                           | SList [SAtom _; k; SList cs] =>
                               match d_gkind k, omap d_ufeature cs with
                               | Some k', Some cs' => Some (UGroup k' cs')
                               | _, _ => None
                               end
                           | _ => None
                           end) gs with
      | Some ty', Some fc', Some at', Some gs' => Some (UFeature ty' ref fc' at' gs')
      | _, _, _, _ => None
      end
  | _ => None
  end.

Definition aggr_atom (a : aggr) : string :=
  match a with AgSum => "sum" | AgAvg => "avg" | AgLen => "len" | AgFloor => "floor" | AgCeil => "ceil" end.
Definition d_aggr (s : string) : option aggr :=
  if String.eqb s "sum" then Some AgSum else if String.eqb s "avg" then Some AgAvg
  else if String.eqb s "len" then Some AgLen else if String.eqb s "floor" then Some AgFloor
  else if String.eqb s "ceil" then Some AgCeil else None.

Fixpoint e_ucst (c : ucst) : sexp :=
  match c with
  | KLiteral r => e_tag "kl" [SStr r]
  | KNot x => e_tag "kn" [e_ucst x]
  | KBin o a b => e_tag "kb" [SAtom (astop_value o); e_ucst a; e_ucst b]
  | KParen x => e_tag "kp" [e_ucst x]
  | KInt t => e_tag "ki" [SStr t]
  | KFloat t r => e_tag "kf" [SStr t; SStr r]
  | KStr t => e_tag "ks" [SStr t]
  | KAggr a refs => e_tag "ka" [SAtom (aggr_atom a); SList (map SStr refs)]
  end.
Fixpoint d_ucst (s : sexp) : option ucst :=
  match s with
  | SList (SAtom t :: args) =>
      if String.eqb t "kl" then match args with [SStr r] => Some (KLiteral r) | _ => None end
      else if String.eqb t "kn" then match args with [x] => option_map KNot (d_ucst x) | _ => None end
      else if String.eqb t "kp" then match args with [x] => option_map KParen (d_ucst x) | _ => None end
      else if String.eqb t "kb" then
        match args with
        | [SAtom o; a; b] => match astop_of_value o, d_ucst a, d_ucst b with
                             | Some o', Some a', Some b' => Some (KBin o' a' b')
                             | _, _, _ => None
                             end
        | _ => None
        end
      else if String.eqb t "ki" then match args with [SStr x] => Some (KInt x) | _ => None end
      else if String.eqb t "kf" then match args with [SStr x; SStr r] => Some (KFloat x r) | _ => None end
      else if String.eqb t "ks" then match args with [SStr x] => Some (KStr x) | _ => None end
      else if String.eqb t "ka" then
        match args with
        | [SAtom a; SList refs] => match d_aggr a, omap d_str refs with
                                   | Some a', Some r' => Some (KAggr a' r')
                                   | _, _ => None
                                   end
        | _ => None
        end
      else None
  | _ => None
  end.

Definition e_udoc (d : udoc) : sexp :=
  e_tag "udoc" [e_opt e_ufeature (d_root d);
                match d_ctcs d with Some l => SList (map e_ucst l) | None => SAtom "nil" end].
Definition d_udoc (s : sexp) : option udoc :=
  match s with
  | SList [SAtom _; r; cs] =>
      let root_ := match r with SAtom _ => Some None | _ => option_map Some (d_ufeature r) end in
      let ctcs_ := match cs with
                   | SAtom _ => Some None
                   | SList l => option_map Some (omap d_ucst l)
                   | _ => None
                   end in
      match root_, ctcs_ with
      | Some r', Some c' => Some {| d_root := r'; d_ctcs := c' |}
      | _, _ => None
      end
  | _ => None
  end.

(* ---- AFM concrete syntax trees ---- *)
Definition e_aitem (i : aitem) : sexp :=
  match i with
  | ISingle o n => e_tag "is" [e_bool o; SStr n]
  | IGroup a b cs => e_tag "ig" [SStr a; SStr b; SList (map SStr cs)]
  end.
Definition d_aitem (s : sexp) : option aitem :=
  match s with
  | SList [SAtom _; o; SStr n] => option_map (fun b => ISingle b n) (d_bool o)
  | SList [SAtom _; SStr a; SStr b; SList cs] => option_map (IGroup a b) (omap d_str cs)
  | _ => None
  end.
Definition e_avalue (v : avalue) : sexp :=
  match v with AvInt t => e_tag "vi" [SStr t] | AvText t => e_tag "vt" [SStr t]
             | AvDouble t r => e_tag "vd" [SStr t; SStr r] end.
Definition d_avalue (s : sexp) : option avalue :=
  match s with
  | SList [SAtom k; SStr t] => if String.eqb k "vi" then Some (AvInt t) else Some (AvText t)
  | SList [SAtom _; SStr t; SStr r] => Some (AvDouble t r)
  | _ => None
  end.
Definition e_adomain (d : adomain) : sexp :=
  match d with
  | ADiscrete l => e_tag "dd" (map e_avalue l)
  | ARange l => e_tag "dr" (map (fun ab => SList [SStr (fst ab); SStr (snd ab)]) l)
  end.
Definition d_adomain (s : sexp) : option adomain :=
  match s with
  | SList (SAtom k :: args) =>
      if String.eqb k "dd" then option_map ADiscrete (omap d_avalue args)
      else option_map ARange (omap (fun x => match x with SList [SStr a; SStr b] => Some (a, b) | _ => None end) args)
  | _ => None
  end.
Fixpoint e_aexpr (e : aexpr) : sexp :=
  match e with
  | EVar t => e_tag "ev" [SStr t] | ENum t => e_tag "en" [SStr t]
  | EBin op a b => e_tag "eb" [SStr op; e_aexpr a; e_aexpr b]
  | ENot a => e_tag "enot" [e_aexpr a] | EParen a => e_tag "ep" [e_aexpr a]
  end.
Fixpoint d_aexpr (s : sexp) : option aexpr :=
  match s with
  | SList [SAtom k; SStr t] => if String.eqb k "ev" then Some (EVar t) else if String.eqb k "en" then Some (ENum t) else None
  | SList [SAtom _; SStr op; a; b] => match d_aexpr a, d_aexpr b with Some a', Some b' => Some (EBin op a' b') | _, _ => None end
  | SList [SAtom k; a] => if String.eqb k "enot" then option_map ENot (d_aexpr a)
                          else if String.eqb k "ep" then option_map EParen (d_aexpr a) else None
  | _ => None
  end.
Definition e_actc (c : actc) : sexp :=
  match c with
  | CSimple e t => e_tag "cs" [e_aexpr e; SStr t]
  | CBrackets w l => e_tag "cb" [SStr w; SList (map (fun et => SList [e_aexpr (fst et); SStr (snd et)]) l)]
  end.
Definition d_actc (s : sexp) : option actc :=
  match s with
  | SList [SAtom _; SStr w; SList l] =>
      option_map (CBrackets w) (omap (fun x => match x with
                                               | SList [e; SStr t] => option_map (fun e' => (e', t)) (d_aexpr e)
                                               | _ => None end) l)
  | SList [SAtom _; e; SStr t] => option_map (fun e' => CSimple e' t) (d_aexpr e)
  | _ => None
  end.
Definition e_adoc (d : adoc) : sexp :=
  e_tag "adoc"
    [SList (map (fun rs => SList [SStr (rs_parent rs); SList (map e_aitem (rs_items rs))]) (ad_rels d));
     match ad_attrs d with
     | Some l => SList (map (fun a => SList [SStr (at_feature a); SStr (at_name a); e_adomain (at_domain a);
                                              e_avalue (at_default a); e_avalue (at_null a)]) l)
     | None => SAtom "nil"
     end;
     match ad_ctcs d with Some l => SList (map e_actc l) | None => SAtom "nil" end].
Definition d_adoc (s : sexp) : option adoc :=
  match s with
  | SList [SAtom _; SList rels; attrs; ctcs] =>
      let r := omap (fun x => match x with
                              | SList [SStr p; SList items] =>
                                  option_map (fun it => {| rs_parent := p; rs_items := it |}) (omap d_aitem items)
                              | _ => None end) rels in
      let a := match attrs with
               | SAtom _ => Some None
               | SList l =>
                   option_map Some
                     (omap (fun x => match x with
                                     | SList [SStr f; SStr n; dm; dv; nv] =>
                                         match d_adomain dm, d_avalue dv, d_avalue nv with
                                         | Some dm', Some dv', Some nv' =>
                                             Some {| at_feature := f; at_name := n; at_domain := dm';
                                                     at_default := dv'; at_null := nv' |}
                                         | _, _, _ => None
                                         end
                                     | _ => None end) l)
               | _ => None
               end in
      let c := match ctcs with
               | SAtom _ => Some None
               | SList l => option_map Some (omap d_actc l)
               | _ => None
               end in
      match r, a, c with
      | Some r', Some a', Some c' => Some {| ad_rels := r'; ad_attrs := a'; ad_ctcs := c' |}
      | _, _, _ => None
      end
  | _ => None
  end.

(* ---- heap of feature objects (Model/Heap.v) ---- *)
Definition d_optnat (s : sexp) : option (option nat) :=
  match s with
  | SAtom "nil" => Some None
  | _ => match d_nat s with Some n => Some (Some n) | None => None end
  end.

Definition d_hop (s : sexp) : option hop :=
  match s with
  | SList [SAtom "new"; SStr nm; p] =>
      match d_optnat p with Some p' => Some (HNew nm p') | None => None end
  | SList [SAtom "addrel"; f; rp; mn; mx; SList cs] =>
      match d_nat f, d_nat rp, d_z mn, d_z mx, omap d_nat cs with
      | Some f', Some rp', Some a, Some b, Some cs' => Some (HAddRel f' rp' a b cs')
      | _, _, _, _, _ => None
      end
  | SList [SAtom "delrel"; f; k] =>
      match d_nat f, d_nat k with Some f', Some k' => Some (HDelRel f' k') | _, _ => None end
  | SList [SAtom "addchild"; f; k; c] =>
      match d_nat f, d_nat k, d_nat c with Some f', Some k', Some c' => Some (HAddChild f' k' c') | _, _, _ => None end
  | SList [SAtom "setparent"; c; p] =>
      match d_nat c, d_optnat p with Some c', Some p' => Some (HSetParent c' p') | _, _ => None end
  | _ => None
  end.

Definition e_hrel (r : hrel) : sexp :=
  e_tag "r" [e_nat (hr_owner r); e_z (hr_min r); e_z (hr_max r); e_list e_nat (hr_children r)].

(* one entry per object: its fields and what its pointer-following queries answer *)
Definition e_heap (h : heap) : sexp :=
  SList (map (fun i =>
                e_tag "f" [SStr (h_name h i); e_opt e_nat (h_parent h i); e_list e_hrel (h_rels h i);
                           e_list e_nat (h_children h i); e_bool (h_is_root h i); e_bool (h_is_leaf h i);
                           e_bool (h_is_mandatory h i); e_bool (h_is_optional h i)])
             (seq 0 (List.length h))).
