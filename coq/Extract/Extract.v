(* Extract/Extract.v — extraction of the executable model.  ExtrOcamlBasic + ExtrOcamlNativeString-free:
   strings are char lists (ExtrOcamlString); Z, N, positive, nat stay the extracted inductives. *)
From Coq Require Import ExtrOcamlBasic ExtrOcamlString.
From FM Require Import Base.Sexp Extract.Driver.
Extraction Language OCaml.
Extraction "fmmodel.ml" dispatch.
