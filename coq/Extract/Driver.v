(* Extract/Driver.v — dispatch : sexp -> sexp, the single entry point of the extracted model *)
From Coq Require Import List Bool Ascii String ZArith.
From FM Require Import Base.Result Base.Str Base.Sexp Base.AstOp Model.Ast Model.FM Model.Ctc
     Model.Queries Model.Sem Model.Ops Model.EqHash Model.PFM Model.Heap Format.Json Format.Glencoe Format.Xml Format.Uvl Format.Afm Format.Export Model.Metrics Model.GenRandom Extract.Codec.
Import ListNotations.
Open Scope string_scope.

Definition e_names (l : list feature) : sexp := SList (map (fun f => SStr (name f)) l).

Definition feature_flags (p : option feature) (f : feature) : list bool :=
  [feat_is_root p; feat_is_mandatory p f; feat_is_optional p f; feat_is_or_group f;
   feat_is_alternative_group f; feat_is_mutex_group f; feat_is_cardinality_group f;
   feat_is_group f; feat_is_multiple_group_decomposition f; feat_is_leaf f; feat_is_boolean f;
   feat_is_numerical f; feat_is_string f; feat_is_multifeature f; feat_is_empty p f].

Definition relation_flags (r : relation) : list bool :=
  [rel_is_mandatory r; rel_is_optional r; rel_is_or r; rel_is_alternative r; rel_is_mutex r;
   rel_is_cardinal r; rel_is_group r].

Definition index_of_name (n : string) (l : list feature) : option nat :=
  (fix go (i : nat) (l : list feature) :=
     match l with
     | [] => None
     | f :: fs => if String.eqb (name f) n then Some i else go (S i) fs
     end) 0 l.

Definition op_queries (m : fm) : sexp :=
  let fs := get_features_ctx m in
  e_tag "q"
    [e_tag "features"
       (map (fun pf => SList [SStr (name (snd pf));
                              e_opt (fun q => SStr (name q)) (fst pf);
                              e_names (children (snd pf));
                              e_bits (feature_flags (fst pf) (snd pf))]) fs);
     e_tag "relations"
       (map (fun pr => SList [SStr (name (fst pr)); e_names (r_children (snd pr));
                              e_z (r_min (snd pr)); e_z (r_max (snd pr));
                              e_bits (relation_flags (snd pr));
                              SStr (rel_str (name (fst pr)) (snd pr))])
            (subrelations_ctx (root m)));
     e_tag "listings"
       [e_tag "features" [e_names (get_features m)];
        e_tag "boolean" [e_names (get_boolean_features m)];
        e_tag "numerical" [e_names (get_numerical_features m)];
        e_tag "string" [e_names (get_string_features m)];
        e_tag "mandatory" [e_names (get_mandatory_features m)];
        e_tag "optional" [e_names (get_optional_features m)];
        e_tag "alternative_group" [e_names (get_alternative_group_features m)];
        e_tag "or_group" [e_names (get_or_group_features m)]];
     e_tag "lookup"
       (map (fun n => SList [SStr n; e_opt e_nat (index_of_name n (get_features m))])
            (map name (get_features m) ++ ["__no_such_feature__"])%list);
     e_tag "ctcs"
       [e_tag "logical" [e_result (e_list e_nat) (get_logical_constraints m)];
        e_tag "arithmetic" [e_result (e_list e_nat) (get_arithmetic_constraints m)];
        e_tag "aggregations" [e_result (e_list e_nat) (get_aggregations_constraints m)];
        e_tag "complex" [e_result (e_list e_nat) (get_complex_constraints m)];
        e_tag "simple" [e_result (e_list e_nat) (get_simple_constraints m)];
        e_tag "pseudocomplex" [e_result (e_list e_nat) (get_pseudocomplex_constraints m)];
        e_tag "strictcomplex" [e_result (e_list e_nat) (get_strictcomplex_constraints m)];
        e_tag "excludes" [e_result (e_list e_nat) (get_excludes_constraints m)];
        e_tag "requires" [e_result (e_list e_nat) (get_requires_constraints m)]]].

(* suite K: everything about one constraint AST *)
Definition e_rbool := e_result e_bool.
Definition op_ctcq (n : node) : sexp :=
  e_tag "k"
    [e_tag "str" [SStr (node_str n)];
     e_tag "pretty" [e_result SStr (pretty_str n)];
     e_tag "operators" [SList (map (fun o => SAtom (astop_value o)) (get_operators n))];
     e_tag "operands" [SList (map e_ndata (get_operands n))];
     e_tag "features" [SList (map SStr (ctc_features n))];
     e_tag "logical" [e_bool (is_logical n)];
     e_tag "arithmetic" [e_bool (is_arithmetic n)];
     e_tag "aggregation" [e_bool (is_aggregation n)];
     e_tag "single" [e_bool (is_single_feature n)];
     e_tag "requires" [e_rbool (is_requires n)];
     e_tag "excludes" [e_rbool (is_excludes n)];
     e_tag "simple" [e_rbool (is_simple n)];
     e_tag "complex" [e_rbool (is_complex n)];
     e_tag "pseudo" [e_rbool (is_pseudocomplex n)];
     e_tag "strict" [e_rbool (is_strictcomplex n)];
     e_tag "left_right" [e_result (fun p => SList [e_ndata (fst p); e_ndata (snd p)]) (left_right n)];
     e_tag "split" [e_result (e_list e_node) (split_asts n)];
     e_tag "clauses" [e_result (e_list (e_list e_ndata)) (get_clauses n)]].

(* suite O: the tree-based operations *)
Definition op_ops (m : fm) : sexp :=
  e_tag "ops"
    [e_tag "estimate" [e_z (estimate (root m))];
     e_tag "core" [e_names (core_features (root m))];
     e_tag "atomic" [SList (map (fun s => SList (map SStr s)) (atomic_sets m))];
     e_tag "count_leafs" [e_z (count_leafs m)];
     e_tag "leaf_features" [e_names (leaf_features m)];
     e_tag "max_depth" [e_z (max_depth_tree m)];
     e_tag "abf" [e_z (average_branching_factor m)];
     e_tag "ancestors" [SList (map (fun fa => SList [SStr (name (fst fa)); e_names (snd fa)])
                                   (ancestors_table m))];
     e_tag "vps" [SList (map (fun fv => SList [SStr (name (fst fv)); e_names (snd fv)])
                             (variation_points m))]].

(* the semantics itself, for validation against the independent brute-force oracle *)
Definition op_sem (m : fm) : sexp :=
  e_tag "sem"
    [e_tag "valid" [SList (map (fun s => SList (map SStr s)) (valid_selections m))];
     e_tag "confs" [SList (map (fun b => SList (map SStr (selected_names (root m) b)))
                               (confs (root m)))]].

(* suite Q2 (C20): equality / hash keys of two models and of their elements *)
Definition e_matrix {A B} (f : A -> B -> bool) (l1 : list A) (l2 : list B) : sexp :=
  SList (map (fun a => e_bits (map (f a) l2)) l1).

Definition hk_eqb (a b : string * list string * list rkey * list string) : bool :=
  match a, b with
  | (r1, f1, k1, c1), (r2, f2, k2, c2) =>
      String.eqb r1 r2 && list_eqb String.eqb f1 f2 && list_eqb rkey_eqb k1 k2
      && list_eqb String.eqb c1 c2
  end.

Definition op_eqq (a b : fm) : sexp :=
  e_tag "eqq"
    [e_tag "eq" [e_bool (fm_eqb str_lower a b)];
     e_tag "eq_sym" [e_bool (fm_eqb str_lower b a)];
     e_tag "eq_refl" [e_bool (fm_eqb str_lower a a && fm_eqb str_lower b b)];
     e_tag "hash_eq" [e_bool (hk_eqb (fm_hash_key str_lower a) (fm_hash_key str_lower b))];
     e_tag "features_eq" [e_matrix feature_eqb (get_features a) (get_features b)];
     e_tag "relations_eq" [e_matrix relation_eqb (fm_relations a) (fm_relations b)];
     e_tag "relations_hash_eq"
       [e_matrix (fun x y => rkey_eqb (relation_hash_key x) (relation_hash_key y))
                 (fm_relations a) (fm_relations b)];
     e_tag "relations_lt"
       [e_matrix (fun x y => rkey_ltb (relation_sort_key x) (relation_sort_key y))
                 (fm_relations a) (fm_relations b)];
     e_tag "ctcs_eq" [e_matrix (ctc_eqb str_lower) (ctcs a) (ctcs b)]].

(* suite O-metrics *)
Definition e_mval (v : mval) : sexp :=
  match v with
  | MNames l => e_tag "names" [SList (map SStr l)]
  | MStr s => e_tag "str" [SStr s]
  | MInt z => e_tag "int" [e_z z]
  | MHund h => e_tag "hund" [e_z h]
  end.
Definition e_entry (e : entry) : sexp :=
  SList [SStr (me_method e); SStr (me_name e); e_mval (me_result e); e_opt e_z (me_size e);
         e_opt e_z (me_ratio e); e_opt SStr (me_parent e); e_z (me_level e)].

(* exports: texts, and (for small models) the selections each exported document admits *)
Definition e_sels (l : list (list string)) : sexp := SList (map (fun s => SList (map SStr s)) l).
Definition op_export_sat (m : fm) : sexp :=
  let subsets := all_subsets (names (root m)) in
  e_tag "export_sat"
    [e_tag "splot" [e_result (fun d => e_sels (filter (fun sel => sigma_of sel (name (root m)) && sxfm_sat (sigma_of sel) d) subsets))
                             (splot_write m)];
     e_tag "pl" [e_result (fun d => e_sels (filter (fun sel => pl_sat (sigma_of sel) d) subsets)) (pl_write m)];
     e_tag "clafer" [e_result (fun d => e_sels (filter (fun sel =>
                                   clafer_sat (fun n => existsb (fun s => String.eqb (cl_safename s) n) sel) d) subsets))
                              (clafer_write m)]].

Definition d_draw (s : sexp) : option draw :=
  match s with
  | SList [SAtom k; a] =>
      if String.eqb k "c" then option_map DChoice (d_nat a)
      else if String.eqb k "r" then option_map DRandint (d_z a) else None
  | SList [SAtom _; a; b] => match d_z a, d_z b with Some x, Some y => Some (DUniform x y) | _, _ => None end
  | _ => None
  end.

Definition bad (msg : string) : sexp := e_tag "bad-request" [SStr msg].

Definition dispatch (req : sexp) : sexp :=
  match req with
  | SList (SAtom op :: args) =>
      if String.eqb op "queries" then
        match args with
        | [m] => match d_fm m with Some m' => op_queries m' | None => bad "fm" end
        | _ => bad "arity"
        end
      else if String.eqb op "ctcq" then
        match args with
        | [n] => match d_node n with Some n' => op_ctcq n' | None => bad "node" end
        | _ => bad "arity"
        end
      else if String.eqb op "ops" then
        match args with
        | [m] => match d_fm m with Some m' => op_ops m' | None => bad "fm" end
        | _ => bad "arity"
        end
      else if String.eqb op "sem" then
        match args with
        | [m] => match d_fm m with Some m' => op_sem m' | None => bad "fm" end
        | _ => bad "arity"
        end
      else if String.eqb op "eqq" then
        match args with
        | [m1; m2] => match d_fm m1, d_fm m2 with
                      | Some a, Some b => op_eqq a b
                      | _, _ => bad "fm"
                      end
        | _ => bad "arity"
        end
      else if String.eqb op "json_write" then
        match args with
        | [m] => match d_fm m with Some m' => e_result e_aval (json_write m') | None => bad "fm" end
        | _ => bad "arity"
        end
      else if String.eqb op "json_read" then
        match args with
        | [v] => match d_aval v with Some v' => e_result e_pfm (json_read v') | None => bad "aval" end
        | _ => bad "arity"
        end
      else if String.eqb op "glencoe_write" then
        match args with
        | [m] => match d_fm m with Some m' => e_result e_aval (glencoe_write m') | None => bad "fm" end
        | _ => bad "arity"
        end
      else if String.eqb op "glencoe_read" then
        match args with
        | [v] => match d_aval v with Some v' => e_result e_pfm (glencoe_read v') | None => bad "aval" end
        | _ => bad "arity"
        end
      else if String.eqb op "fide_write" then
        match args with
        | [m] => match d_fm m with Some m' => e_result e_xml (fide_write m') | None => bad "fm" end
        | _ => bad "arity"
        end
      else if String.eqb op "fide_read" then
        match args with
        | [v] => match d_xml v with Some v' => e_result e_pfm (fide_read v') | None => bad "xml" end
        | _ => bad "arity"
        end
      else if String.eqb op "fama_read" then
        match args with
        | [v] => match d_xml v with Some v' => e_result e_pfm (fama_read v') | None => bad "xml" end
        | _ => bad "arity"
        end
      else if String.eqb op "metrics" then
        match args with
        | [flt; m] =>
            match d_fm m with
            | Some m' =>
                let f := match flt with
                         | SList l => option_map Some (omap d_str l)
                         | _ => Some None
                         end in
                match f with
                | Some f' => e_result (e_list e_entry) (report m' f')
                | None => bad "filter"
                end
            | None => bad "fm"
            end
        | _ => bad "arity"
        end
      else if String.eqb op "uvl_write" then
        match args with
        | [m] => match d_fm m with Some m' => e_result SStr (uvl_write m') | None => bad "fm" end
        | _ => bad "arity"
        end
      else if String.eqb op "uvl_cst" then
        match args with
        | [m] => match d_fm m with Some m' => e_result e_udoc (cst_of_fm m') | None => bad "fm" end
        | _ => bad "arity"
        end
      else if String.eqb op "uvl_read_cst" then
        match args with
        | [c] => match d_udoc c with Some c' => e_result e_pfm (uvl_read_cst c') | None => bad "udoc" end
        | _ => bad "arity"
        end
      else if String.eqb op "uvl_render" then
        match args with
        | [c] => match d_udoc c with Some c' => SStr (render c') | None => bad "udoc" end
        | _ => bad "arity"
        end
      else if String.eqb op "afm_write" then
        match args with
        | [m] => match d_fm m with Some m' => e_result SStr (afm_write m') | None => bad "fm" end
        | _ => bad "arity"
        end
      else if String.eqb op "afm_cst" then
        match args with
        | [m] => match d_fm m with Some m' => e_result e_adoc (afm_cst m') | None => bad "fm" end
        | _ => bad "arity"
        end
      else if String.eqb op "afm_read_cst" then
        match args with
        | [c] => match d_adoc c with Some c' => e_result e_pfm (afm_read_cst c') | None => bad "adoc" end
        | _ => bad "arity"
        end
      else if String.eqb op "splot_text" then
        match args with
        | [m] => match d_fm m with Some m' => e_result SStr (splot_text m') | None => bad "fm" end
        | _ => bad "arity"
        end
      else if String.eqb op "pl_lines" then
        match args with
        | [m] => match d_fm m with Some m' => e_result (e_list SStr) (pl_lines m') | None => bad "fm" end
        | _ => bad "arity"
        end
      else if String.eqb op "clafer_text" then
        match args with
        | [m] => match d_fm m with Some m' => e_result SStr (clafer_text m') | None => bad "fm" end
        | _ => bad "arity"
        end
      else if String.eqb op "export_sat" then
        match args with
        | [m] => match d_fm m with Some m' => op_export_sat m' | None => bad "fm" end
        | _ => bad "arity"
        end
      else if String.eqb op "genrandom" then
        match args with
        | [SStr nm; dom; ol; SList draws; m] =>
            let dom' := if is_nil dom then Some None
                        else match d_domain dom with Some x => Some (Some x) | None => None end in
            match dom', d_bool ol, omap d_draw draws, d_fm m with
            | Some dm, Some b, Some dr, Some m' => e_result e_fm (gen_random_attribute nm dm b dr m')
            | _, _, _, _ => bad "genrandom args"
            end
        | _ => bad "arity"
        end
      else if String.eqb op "heap_run" then
        match args with
        | [SList ops] =>
            match omap d_hop ops with
            | Some ops' => e_tag "heap" [e_bool (guards [] ops'); e_heap (run [] ops')]
            | None => bad "hop"
            end
        | _ => bad "arity"
        end
      else if String.eqb op "echo_fm" then
        match args with
        | [m] => match d_fm m with Some m' => e_fm m' | None => bad "fm" end
        | _ => bad "arity"
        end
      else bad "unknown op"
  | _ => bad "shape"
  end.
