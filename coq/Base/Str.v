(* Base/Str.v — byte strings (Coq [string] holding the UTF-8 bytes of the Python str),
   character classes, join/split/replace, decimal printing and parsing of Z. *)
From Coq Require Import List Bool Ascii String ZArith DecimalString Decimal.
Import ListNotations.
Open Scope string_scope.

Definition ascii_n (c : ascii) : N := N_of_ascii c.

Definition between (lo hi : N) (c : ascii) : bool :=
  (N.leb lo (ascii_n c) && N.leb (ascii_n c) hi)%bool.

Definition is_upper (c : ascii) := between 65 90 c.
Definition is_lower (c : ascii) := between 97 122 c.
Definition is_digit (c : ascii) := between 48 57 c.
Definition is_alpha (c : ascii) := is_upper c || is_lower c.
Definition is_alnum (c : ascii) := is_alpha c || is_digit c.
(* flamapy.core.models.ast.safecharacters(): ascii_letters + digits + '_' *)
Definition is_safechar (c : ascii) := is_alnum c || Ascii.eqb c "_".

Fixpoint str_forallb (p : ascii -> bool) (s : string) : bool :=
  match s with EmptyString => true | String c s' => p c && str_forallb p s' end.

Fixpoint str_existsb (p : ascii -> bool) (s : string) : bool :=
  match s with EmptyString => false | String c s' => p c || str_existsb p s' end.

Fixpoint str_rev_acc (s acc : string) : string :=
  match s with EmptyString => acc | String c s' => str_rev_acc s' (String c acc) end.
Definition str_rev (s : string) := str_rev_acc s "".

Definition str_first (s : string) : option ascii :=
  match s with EmptyString => None | String c _ => Some c end.
Definition str_last (s : string) : option ascii := str_first (str_rev s).

Definition starts_with_char (c : ascii) (s : string) : bool :=
  match s with String d _ => Ascii.eqb c d | _ => false end.
Definition ends_with_char (c : ascii) (s : string) : bool :=
  match str_last s with Some d => Ascii.eqb c d | None => false end.

Definition ascii_lower (c : ascii) : ascii :=
  if is_upper c then ascii_of_N (ascii_n c + 32) else c.
Fixpoint str_map (f : ascii -> ascii) (s : string) : string :=
  match s with EmptyString => EmptyString | String c s' => String (f c) (str_map f s') end.
Definition str_lower := str_map ascii_lower.

Fixpoint str_join (sep : string) (l : list string) : string :=
  match l with
  | [] => ""
  | [x] => x
  | x :: xs => x ++ sep ++ str_join sep xs
  end.

Definition str_concat (l : list string) : string := fold_right append "" l.

(* Python's s.split(c) for a single-character separator: never returns [] *)
Fixpoint str_split_aux (c : ascii) (s : string) (cur : string) : list string :=
  match s with
  | EmptyString => [str_rev cur]
  | String d s' => if Ascii.eqb c d then str_rev cur :: str_split_aux c s' ""
                   else str_split_aux c s' (String d cur)
  end.
Definition str_split (c : ascii) (s : string) : list string := str_split_aux c s "".

Fixpoint str_remove_char (c : ascii) (s : string) : string :=
  match s with
  | EmptyString => EmptyString
  | String d s' => if Ascii.eqb c d then str_remove_char c s' else String d (str_remove_char c s')
  end.

Definition str_contains_char (c : ascii) (s : string) : bool := str_existsb (Ascii.eqb c) s.

(* lexicographic comparison of byte strings.  Python compares code points; on UTF-8 encoded text
   byte order and code-point order coincide. *)
Fixpoint str_ltb (a b : string) : bool :=
  match a, b with
  | EmptyString, EmptyString => false
  | EmptyString, String _ _ => true
  | String _ _, EmptyString => false
  | String x a', String y b' =>
      if N.ltb (ascii_n x) (ascii_n y) then true
      else if N.ltb (ascii_n y) (ascii_n x) then false
      else str_ltb a' b'
  end.
Definition str_leb (a b : string) : bool := negb (str_ltb b a).

(* decimal text of an integer, Python's str(int) *)
Definition z_to_string (z : Z) : string := NilZero.string_of_int (Z.to_int z).
Definition n_to_string (n : nat) : string := z_to_string (Z.of_nat n).

Definition string_to_z (s : string) : option Z :=
  match NilZero.int_of_string s with Some i => Some (Z.of_int i) | None => None end.

Definition quote (s : string) : string := """" ++ s ++ """".

(* flamapy.core.models.ast.safe_simple_name / safename *)
Definition core_safe_simple_name (name : string) : string :=
  if starts_with_char "'" name && ends_with_char "'" name then name
  else if str_forallb is_safechar name then name else quote name.

Definition core_safename (name : string) : string :=
  if str_contains_char "." name
  then str_join "." (map core_safe_simple_name (str_split "." name))
  else core_safe_simple_name name.

(* list helpers *)
Fixpoint list_existsb_eq (s : string) (l : list string) : bool :=
  match l with [] => false | x :: xs => String.eqb s x || list_existsb_eq s xs end.

Fixpoint nodupb (l : list string) : bool :=
  match l with [] => true | x :: xs => negb (list_existsb_eq x xs) && nodupb xs end.


(* ---- format(Decimal(repr(x)), 'f') for the repr of a finite Python float, with ".0" added when no point is left:
        the positional spelling of a float (a repr without exponent is positional already).  None for inf / nan ---- *)
Fixpoint str_take (n : nat) (s : string) : string :=
  match n, s with
  | O, _ => EmptyString
  | S n', String c r => String c (str_take n' r)
  | _, EmptyString => EmptyString
  end.
Fixpoint str_drop (n : nat) (s : string) : string :=
  match n, s with
  | O, _ => s
  | S n', String _ r => str_drop n' r
  | _, EmptyString => EmptyString
  end.
Fixpoint str_zeros (n : nat) : string := match n with O => EmptyString | S n' => String "0" (str_zeros n') end.

Definition py_positional (r : string) : option string :=
  let neg := starts_with_char "-" r in
  let body := if neg then str_drop 1 r else r in
  if str_forallb (fun c => is_digit c || Ascii.eqb c "." || Ascii.eqb c "e" || Ascii.eqb c "+" || Ascii.eqb c "-") body
  then
    match str_split "e" body with
    | [m] => Some r
    | [m; ex] =>
        match string_to_z (str_remove_char "+" ex) with
        | None => None
        | Some e =>
            let parts := str_split "." m in
            let ip := match parts with x :: _ => x | [] => EmptyString end in
            let fp := match parts with _ :: y :: _ => y | _ => EmptyString end in
            let digits := (ip ++ fp)%string in
            let pos := (Z.of_nat (String.length ip) + e)%Z in
            let len := Z.of_nat (String.length digits) in
            let text :=
              if (len <=? pos)%Z then (digits ++ str_zeros (Z.to_nat (pos - len)) ++ ".0")%string
              else if (0 <? pos)%Z then (str_take (Z.to_nat pos) digits ++ "." ++ str_drop (Z.to_nat pos) digits)%string
              else ("0." ++ str_zeros (Z.to_nat (- pos)) ++ digits)%string in
            Some (if neg then String "-" text else text)
        end
    | _ => None
    end
  else None.
