(* Base/Sexp.v — the interchange value between the harness and the extracted model *)
From Coq Require Import List Bool Ascii String ZArith.
From FM Require Import Base.Result Base.Str.
Import ListNotations.
Open Scope string_scope.

Inductive sexp := SAtom (s : string) | SStr (s : string) | SList (l : list sexp).

Definition e_str (s : string) : sexp := SStr s.
Definition e_z (z : Z) : sexp := SAtom (z_to_string z).
Definition e_nat (n : nat) : sexp := e_z (Z.of_nat n).
Definition e_bool (b : bool) : sexp := SAtom (if b then "true" else "false").
Definition e_list {A} (f : A -> sexp) (l : list A) : sexp := SList (map f l).
Definition e_opt {A} (f : A -> sexp) (o : option A) : sexp :=
  match o with Some a => f a | None => SAtom "nil" end.
Definition e_tag (t : string) (l : list sexp) : sexp := SList (SAtom t :: l).
Definition e_bits (l : list bool) : sexp :=
  SAtom (str_concat (map (fun b : bool => if b then "1" else "0") l)).

Definition exn_name (e : exn) : string :=
  match e with
  | FlamaException => "FlamaException" | ParsingException => "ParsingException"
  | DuplicatedFeature => "DuplicatedFeature" | KeyError => "KeyError" | IndexError => "IndexError"
  | TypeError => "TypeError" | ValueError => "ValueError" | AttributeError => "AttributeError"
  | UnboundLocalError => "UnboundLocalError" | ZeroDivisionError => "ZeroDivisionError"
  | NotImplementedError => "NotImplementedError" | UnicodeDecodeError => "UnicodeDecodeError"
  | StatisticsError => "StatisticsError" | RuntimeError => "RuntimeError" | OtherExn => "Other"
  end.

Definition e_result {A} (f : A -> sexp) (r : result A) : sexp :=
  match r with
  | Ok a => e_tag "ok" [f a]
  | Err e => e_tag "err" [SAtom (exn_name e)]
  end.

Definition d_str (s : sexp) : option string := match s with SStr x => Some x | _ => None end.
Definition d_atom (s : sexp) : option string := match s with SAtom x => Some x | _ => None end.
Definition d_z (s : sexp) : option Z := match s with SAtom x => string_to_z x | _ => None end.
Definition d_nat (s : sexp) : option nat :=
  match d_z s with Some z => if (0 <=? z)%Z then Some (Z.to_nat z) else None | None => None end.
Definition d_bool (s : sexp) : option bool :=
  match s with
  | SAtom x => if String.eqb x "true" then Some true
               else if String.eqb x "false" then Some false else None
  | _ => None
  end.
Definition is_nil (s : sexp) : bool :=
  match s with SAtom x => String.eqb x "nil" | _ => false end.
