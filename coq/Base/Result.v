(* Base/Result.v — the result monad and the exception enum shared by every model. *)
From Coq Require Import List.
Import ListNotations.

Inductive exn :=
| FlamaException | ParsingException | DuplicatedFeature | KeyError | IndexError
| TypeError | ValueError | AttributeError | UnboundLocalError | ZeroDivisionError
| NotImplementedError | UnicodeDecodeError | StatisticsError | RuntimeError | OtherExn.

Inductive result (A : Type) := Ok (a : A) | Err (e : exn).
Arguments Ok {A} a.
Arguments Err {A} e.

Definition bind {A B} (r : result A) (f : A -> result B) : result B :=
  match r with Ok a => f a | Err e => Err e end.

Definition rmap {A B} (f : A -> B) (r : result A) : result B :=
  match r with Ok a => Ok (f a) | Err e => Err e end.

Declare Scope result_scope.
Delimit Scope result_scope with result.
Notation "'let*' x ':=' r 'in' k" := (bind r (fun x => k))
  (at level 200, x pattern, r at level 100, k at level 200) : result_scope.

(* mapM over a list, written as a local fix so that it can be used under nested recursion *)
Definition mapM {A B} (f : A -> result B) : list A -> result (list B) :=
  fix go l := match l with
              | [] => Ok []
              | x :: xs => match f x with
                           | Err e => Err e
                           | Ok y => match go xs with Err e => Err e | Ok ys => Ok (y :: ys) end
                           end
              end.

Definition omap {A B} (f : A -> option B) : list A -> option (list B) :=
  fix go l := match l with
              | [] => Some []
              | x :: xs => match f x with
                           | None => None
                           | Some y => match go xs with None => None | Some ys => Some (y :: ys) end
                           end
              end.

Definition is_library_error (e : exn) : bool :=
  match e with FlamaException | ParsingException | DuplicatedFeature => true | _ => false end.
