(* Base/PyFloat.v — CPython's  round(a / b, nd)  for natural a, b > 0, bit-exact, in Z.

   a / b   is the correctly rounded (round-half-even) binary64 quotient  m * 2^e  (53-bit m);
   round(x, nd) is the correctly rounded decimal of the *exact* binary value x (float.__round__
   uses dtoa mode 3), i.e. round-half-even of x * 10^nd to an integer.
   The result is that integer (hundredths for nd = 2, ten-thousandths for nd = 4); the float Python
   returns is the double nearest to result / 10^nd.
   Only the normal range is modelled (quotients of naturals below 2^53 are always normal). *)
From Coq Require Import ZArith Bool.
Local Open Scope Z_scope.

(* round-half-even of n / d for d > 0, n >= 0 *)
Definition div_rne (n d : Z) : Z :=
  let q := n / d in
  let r := n mod d in
  if 2 * r <? d then q
  else if d <? 2 * r then q + 1
  else if Z.even q then q else q + 1.

(* the binary64 quotient as (m, e) with value m * 2^e and 2^52 <= m <= 2^53 (0,0 for a = 0) *)
Definition fdiv (a b : Z) : Z * Z :=
  if a =? 0 then (0, 0)
  else
    let e0 := Z.log2 a - Z.log2 b - 52 in
    (* floor(a / (b * 2^e)) for a candidate exponent *)
    let fl (e : Z) := if 0 <=? e then a / (b * 2 ^ e) else (a * 2 ^ (- e)) / b in
    let e := if fl e0 <? 2 ^ 52 then e0 - 1 else e0 in
    let m := if 0 <=? e then div_rne a (b * 2 ^ e) else div_rne (a * 2 ^ (- e)) b in
    (m, e).

(* round_half_even (m * 2^e * 10^nd) *)
Definition scale_round (me : Z * Z) (nd : Z) : Z :=
  let (m, e) := me in
  if 0 <=? e then m * 10 ^ nd * 2 ^ e else div_rne (m * 10 ^ nd) (2 ^ (- e)).

(* round(a / b, nd) * 10^nd  *)
Definition pyround_div (a b nd : Z) : Z := scale_round (fdiv a b) nd.
