(* Base/AstOp.v — flamapy.core.models.ast.ASTOperation *)
From Coq Require Import List Bool Ascii String.
Import ListNotations.
Open Scope string_scope.

Inductive astop :=
| REQUIRES | EXCLUDES | AND | OR | XOR | IMPLIES | NOT | EQUIVALENCE
| EQUALS | LOWER | GREATER | LOWER_EQUALS | GREATER_EQUALS | NOT_EQUALS
| ADD | SUB | MUL | DIV | SUM | AVG | LEN | FLOOR | CEIL.

Definition astop_eqb (a b : astop) : bool :=
  match a, b with
  | REQUIRES, REQUIRES | EXCLUDES, EXCLUDES | AND, AND | OR, OR | XOR, XOR | IMPLIES, IMPLIES
  | NOT, NOT | EQUIVALENCE, EQUIVALENCE | EQUALS, EQUALS | LOWER, LOWER | GREATER, GREATER
  | LOWER_EQUALS, LOWER_EQUALS | GREATER_EQUALS, GREATER_EQUALS | NOT_EQUALS, NOT_EQUALS
  | ADD, ADD | SUB, SUB | MUL, MUL | DIV, DIV | SUM, SUM | AVG, AVG | LEN, LEN | FLOOR, FLOOR
  | CEIL, CEIL => true
  | _, _ => false
  end.

(* ASTOperation.<X>.value *)
Definition astop_value (o : astop) : string :=
  match o with
  | REQUIRES => "REQUIRES" | EXCLUDES => "EXCLUDES" | AND => "AND" | OR => "OR" | XOR => "XOR"
  | IMPLIES => "IMPLIES" | NOT => "NOT" | EQUIVALENCE => "EQUIVALENCE" | EQUALS => "EQUALS"
  | LOWER => "LOWER" | GREATER => "GREATER" | LOWER_EQUALS => "LOWER_EQUALS"
  | GREATER_EQUALS => "GREATER_EQUALS" | NOT_EQUALS => "NOT_EQUALS" | ADD => "ADD" | SUB => "SUB"
  | MUL => "MUL" | DIV => "DIV" | SUM => "SUM" | AVG => "AVG" | LEN => "LEN" | FLOOR => "FLOOR"
  | CEIL => "CEIL"
  end.

Definition all_astops : list astop :=
  [REQUIRES; EXCLUDES; AND; OR; XOR; IMPLIES; NOT; EQUIVALENCE; EQUALS; LOWER; GREATER;
   LOWER_EQUALS; GREATER_EQUALS; NOT_EQUALS; ADD; SUB; MUL; DIV; SUM; AVG; LEN; FLOOR; CEIL].

Definition astop_of_value (s : string) : option astop :=
  find (fun o => String.eqb (astop_value o) s) all_astops.

Definition op_in (o : astop) (l : list astop) : bool := existsb (astop_eqb o) l.

