(* Props/C05.v — C05: JSON round trip returns the same model, at any number of cycles.
   The JSON document is the value json.load returns / json.dump receives; that
   json.loads (json.dumps v) = v for such values is the external-library hypothesis validated by
   suite W-json / R-json (the implementation's file is parsed and compared with [json_write]). *)
From Coq Require Import List Bool String ZArith.
From FM Require Import Base.Result Model.FM Model.PFM Format.Json Proofs.C16Facts Proofs.JsonFacts Proofs.C09Facts Proofs.JsonVariant Proofs.JsonExtra
     Model.PyRt Model.Loc Gen.Src_json Proofs.SrcJsonFacts Proofs.SrcTieC05 Gen.Src_jsonr Proofs.SrcJsonReaderFacts.
Import ListNotations.
Local Open Scope list_scope.

(* CHANGED STATEMENTS (reader fix: a relation with "children": [] is a ParsingException).  The fragment predicate
   [json_ok] allows a relation without children, which the writer writes and the reader now rejects, so the three
   statements below were FALSE as they stood:
     Theorem C05_roundtrip : forall m, json_ok m = true ->
       exists d, json_write m = Ok d /\ json_read d = Ok (annotate_fm m).
     Theorem C05_roundtrip_model : forall m, json_ok m = true ->
       exists d pm, json_write m = Ok d /\ json_read d = Ok pm /\ erase_fm pm = m.
     Theorem C05_cycles : forall n m, json_ok m = true -> iter_cycle n m = Ok m.
   (counterexample: C05_old_statements_false).  One hypothesis is added to each: [rels_nonempty (root m)]
   (C16Facts.v, the hypothesis of C16_max_depth: every relation of the tree has a child); it is necessary as well
   (C05_roundtrip_needs_nonempty). *)

(* one cycle: same names, tree, abstract flags (as Booleans), attributes, named constraints —
   plain equality, no normalisation; the reader's back pointers are right as well *)
Theorem C05_roundtrip : forall m, json_ok m = true -> rels_nonempty (root m) ->
  exists d, json_write m = Ok d /\ json_read d = Ok (annotate_fm m).
Proof. exact json_roundtrip. Qed.
Print Assumptions C05_roundtrip.

Theorem C05_roundtrip_model : forall m, json_ok m = true -> rels_nonempty (root m) ->
  exists d pm, json_write m = Ok d /\ json_read d = Ok pm /\ erase_fm pm = m.
Proof. exact json_roundtrip_erased. Qed.
Print Assumptions C05_roundtrip_model.

(* any number of cycles changes nothing *)
Theorem C05_cycles : forall n m, json_ok m = true -> rels_nonempty (root m) -> iter_cycle n m = Ok m.
Proof. exact json_cycles. Qed.
Print Assumptions C05_cycles.

(* ---- the writer half about the TRANSLATED SOURCE of json_writer.py (Gen/Src_json.v, regenerated on every
   run; DESIGN §10): the translated to_json IS json_write, errors included, for every model ---- *)
Theorem C05_source_writer : forall m fuel, (fuel_fm m <= fuel)%nat -> py_to_json fuel m = json_write m.
Proof. exact src_to_json. Qed.
Print Assumptions C05_source_writer.

Theorem C05_source_roundtrip : forall m fuel, (fuel_fm m <= fuel)%nat -> json_ok m = true ->
  rels_nonempty (root m) ->
  exists d, py_to_json fuel m = Ok d /\ json_read d = Ok (annotate_fm m).
Proof. exact source_json_roundtrip. Qed.
Print Assumptions C05_source_roundtrip.

(* the constraint part of the READER about the translated source (json_reader.py: parse_ast_constraint,
   parse_constraints; Gen/Src_jsonr.v): the same node or the same exception as the model, for every loaded value *)
Theorem C05_source_reader_constraint : forall v fuel fuel', (aval_depth v <= fuel)%nat -> (aval_depth v <= fuel')%nat ->
  py_parse_ast_constraint fuel v = json_parse_ctc fuel' v.
Proof. exact src_parse_ast_constraint. Qed.
Print Assumptions C05_source_reader_constraint.

Theorem C05_source_reader_constraints : forall l fuel cs, (list_max (map aval_depth l) <= fuel)%nat ->
  (py_parse_constraints fuel l = Ok cs <-> mapM model_ctc_of l = Ok cs).
Proof. exact src_parse_constraints_ok. Qed.
Print Assumptions C05_source_reader_constraints.

(* the READER of the translated source (parse_tree / parse_attributes / parse_relations / parse_json in builder mode: the
   tree value, no parent pointers): what the model reads, erased, is what the code reads; a failure is a failure, a
   library error a library error *)
Theorem C05_source_reader : forall doc pm, json_read doc = Ok pm ->
  exists n0, forall fuel, (n0 <= fuel)%nat -> py_JSONReader_parse_json fuel doc = Ok (erase_fm pm).
Proof. exact src_json_parse_json. Qed.
Print Assumptions C05_source_reader.

Theorem C05_source_reader_rejects : forall doc e, json_read doc = Err e ->
  exists n0, forall fuel, (n0 <= fuel)%nat -> exists e', py_JSONReader_parse_json fuel doc = Err e'.
Proof. exact src_json_parse_json_error. Qed.
Print Assumptions C05_source_reader_rejects.

(* the whole cycle on the translated source: writer, then reader, gives the model back *)
Theorem C05_source_cycle : forall m, json_ok m = true -> rels_nonempty (root m) ->
  exists d n0, forall fuel, (n0 <= fuel)%nat ->
    py_to_json fuel m = Ok d /\ py_JSONReader_parse_json fuel d = Ok m.
Proof.
  intros m Hok Hne. destruct (json_roundtrip_erased m Hok Hne) as (d & pm & Hw & Hr & He).
  destruct (src_json_parse_json d pm Hr) as (n1 & Hn1).
  exists d, (Nat.max (fuel_fm m) n1). intros fuel Hf. split.
  - rewrite src_to_json; [exact Hw|]. eapply Nat.le_trans; [apply Nat.le_max_l|exact Hf].
  - rewrite Hn1; [now rewrite He|]. eapply Nat.le_trans; [apply Nat.le_max_r|exact Hf].
Qed.
Print Assumptions C05_source_cycle.

Theorem C05_roundtrip_needs_nonempty : forall m d,
  json_write m = Ok d -> json_read d = Ok (annotate_fm m) -> rels_nonempty (root m).
Proof. exact json_roundtrip_needs_nonempty. Qed.
Print Assumptions C05_roundtrip_needs_nonempty.
Example C05_old_statements_false :
  json_ok ex_empty_rel = true
  /\ (exists d, json_write ex_empty_rel = Ok d /\ json_read d = Err ParsingException)
  /\ json_cycle ex_empty_rel = Err ParsingException
  /\ ~ rels_nonempty (root ex_empty_rel).
Proof. exact json_roundtrip_old_false. Qed.
Print Assumptions C05_old_statements_false.

(* parse_json and the file path are the same function of the loaded value: definitional in the model
   (both call json_read); suite R-json compares the two entry points of the implementation *)

Example C05_nonvacuous :
  json_ok ex_model = true /\ rels_nonempty (root ex_model) /\ iter_cycle 3 ex_model = Ok ex_model.
Proof. split; [vm_compute; reflexivity|]. split; [repeat constructor; discriminate|vm_compute; reflexivity]. Qed.
Print Assumptions C05_nonvacuous.

(* objects are read by key, not by position (JsonVariant.v): the entries of any object with distinct keys may be
   permuted, at any depth — except inside the two values the reader stores raw (a node's "abstract" and an attribute's
   "value"; the unrestricted statement is refuted there: json_read_jperm_false_abstract / _value) *)
Theorem C05_key_order : forall d d', jperm' d d' -> json_read d = json_read d'.
Proof. exact json_read_perm. Qed.
Print Assumptions C05_key_order.
Example C05_key_order_nonvacuous : jperm' jx_doc jx_doc_perm /\ json_write jx_model = Ok jx_doc.
Proof. exact (conj jx_perm_rel jx_doc_written). Qed.
Print Assumptions C05_key_order_nonvacuous.

(* keys the format does not define are ignored at every level (document, feature node, relation, attribute,
   constraint object, constraint term; values of any depth) — JsonExtra.v also shows which conditional keys must
   NOT be inserted (attributes, relations, card_min / card_max, value) *)
Theorem C05_undefined_keys_anywhere : forall d d', jextra d d' -> json_read d = json_read d'.
Proof. exact json_read_extra. Qed.
Print Assumptions C05_undefined_keys_anywhere.
(* an n-ary AND / OR / XOR term is read as the left fold of its operands; a nested first operand may be merged *)
Theorem C05_nary_terms : forall fuel ty o x xs n ns, jnary_ty ty o -> json_parse_ctc fuel x = Ok n ->
  Forall2 (fun y m => json_parse_ctc fuel y = Ok m) xs ns ->
  json_parse_ctc (S fuel) (nary_term ty (x :: xs)) = Ok (fold_left (fun acc y => Model.Ast.bin o acc y) ns n).
Proof. exact json_nary_fold. Qed.
Print Assumptions C05_nary_terms.
Theorem C05_nary_flattening_anywhere : forall d d', jflat d d' -> json_read d = json_read d'.
Proof. exact json_read_flat. Qed.
Print Assumptions C05_nary_flattening_anywhere.
Example C05_variants_nonvacuous : jextra jx_doc jx_doc_extra /\ jflat jx_doc jx_doc_flat.
Proof. exact (conj jx_extra_rel jx_flat_rel). Qed.
Print Assumptions C05_variants_nonvacuous.
