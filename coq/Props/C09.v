(* Props/C09.v — C09: third-party documents are read as their format defines.
   FaMa XML: for every reference model and every combination of the format's syntactic freedom (tag
   letter case, position of <cardinality>, relation name attributes, binary vs set relation for a
   single child) the reader returns exactly the reference model ([fama_denotes]).
   FeatureIDE: the reader is invariant under the surface choices (graphics / description elements,
   mandatory="false" / abstract="false", attribute order, n-ary rules) and reads the canonical document
   of a model as that model (C07).  AFM and Glencoe: the readers are functions of the parse tree / JSON
   value (parentheses, n-ary terms and extra keys vanish there); reference emitters in the harness
   check the denotation on the implementation; the shipped Betty corpus checks it against independent
   statistics. *)
From Coq Require Import List Bool String ZArith.
From FM Require Import Base.Result Base.AstOp Model.Ast Model.FM Model.PFM Format.Xml Format.Ref
     Proofs.C16Facts Proofs.FideFacts Proofs.RefFacts Proofs.C09Facts Proofs.AfmVariant Proofs.JsonVariant Format.Json Format.Glencoe Format.Afm.
Import ListNotations.
Local Open Scope list_scope.

(* CHANGED STATEMENT (reader fix: a binaryRelation / setRelation without child features is a FlamaException).  The
   fragment predicate [fama_ok] allows a relation without children, which the emitter writes and the reader now
   rejects, so the statement was FALSE as it stood:
     Theorem C09_fama_denotes : forall ch m, fama_ok m = true -> fama_read (fama_emit ch m) = Ok (annotate_fm m).
   (counterexample: C09_fama_old_statement_false).  One hypothesis is added: [rels_nonempty (root m)] (C16Facts.v,
   the hypothesis of C16_max_depth: every relation of the tree has a child); it is necessary as well
   (C09_fama_denotes_needs_nonempty). *)
Theorem C09_fama_denotes : forall ch m, fama_ok m = true -> rels_nonempty (root m) ->
  fama_read (fama_emit ch m) = Ok (annotate_fm m).
Proof. exact fama_denotes. Qed.
Print Assumptions C09_fama_denotes.
Theorem C09_fama_denotes_needs_nonempty : forall ch m,
  fama_read (fama_emit ch m) = Ok (annotate_fm m) -> rels_nonempty (root m).
Proof. exact fama_denotes_needs_nonempty. Qed.
Print Assumptions C09_fama_denotes_needs_nonempty.
Example C09_fama_old_statement_false :
  fama_ok ref_m1_empty = true
  /\ map (fun ch => fama_read (fama_emit ch ref_m1_empty)) ref_all_choices
     = map (fun _ => Err FlamaException) ref_all_choices
  /\ ~ rels_nonempty (root ref_m1_empty).
Proof. exact fama_denotes_old_false. Qed.
Print Assumptions C09_fama_old_statement_false.

Theorem C09_fide_graphics_description_flags : forall x, xml_keys_unique x -> fide_read (fide_strip x) = fide_read x.
Proof. exact fide_read_strip. Qed.
Print Assumptions C09_fide_graphics_description_flags.

Theorem C09_fide_attribute_order : forall x y, xml_attr_perm x y -> fide_read x = fide_read y.
Proof. exact fide_read_attr_perm. Qed.
Print Assumptions C09_fide_attribute_order.

Theorem C09_fide_nary_rules : forall tag o k0 ks n0 ns,
  (tag = Gen.Tables_fide.fide_TAG_CONJ /\ o = AND) \/ (tag = Gen.Tables_fide.fide_TAG_DISJ /\ o = OR) ->
  fide_parse_rule k0 = Ok n0 -> Forall2 (fun k n => fide_parse_rule k = Ok n) ks ns ->
  fide_parse_rule (Elem tag [] None (k0 :: ks)) = Ok (fold_left (fun acc n => bin o acc n) ns n0).
Proof. exact fide_parse_rule_nary. Qed.
Print Assumptions C09_fide_nary_rules.

Theorem C09_fide_canonical_document : forall m, fide_ok m = true ->
  exists x pm, fide_write m = Ok x /\ fide_read x = Ok pm /\ erase_fm pm = fide_norm m.
Proof. exact fide_roundtrip. Qed.
Print Assumptions C09_fide_canonical_document.

Theorem C09_fide_no_constraints_section : forall m, fide_ok m = true -> ctcs m = [] ->
  exists x pm, fide_write m = Ok x /\ fide_read x = Ok pm /\ erase_fm pm = m.
Proof. exact fide_no_constraints. Qed.
Print Assumptions C09_fide_no_constraints_section.

(* AFM: redundant parentheses anywhere in a constraint, absent sections *)
Theorem C09_afm_parentheses : forall p e, afm_read_expr p (strip_parens e) = afm_read_expr p e.
Proof. exact afm_read_strip_parens. Qed.
Print Assumptions C09_afm_parentheses.
Theorem C09_afm_no_attributes_section : forall rels cs,
  afm_read_cst {| ad_rels := rels; ad_attrs := None; ad_ctcs := cs |}
  = afm_read_cst {| ad_rels := rels; ad_attrs := Some []; ad_ctcs := cs |}.
Proof. exact afm_read_no_attrs. Qed.
Print Assumptions C09_afm_no_attributes_section.
Theorem C09_afm_no_constraints_section : forall rels ats,
  afm_read_cst {| ad_rels := rels; ad_attrs := ats; ad_ctcs := None |}
  = afm_read_cst {| ad_rels := rels; ad_attrs := ats; ad_ctcs := Some [] |}.
Proof. exact afm_read_no_ctcs. Qed.
Print Assumptions C09_afm_no_constraints_section.

(* Glencoe: keys the format does not define are ignored; n-ary terms are left folds *)
Theorem C09_glencoe_extra_key : forall k v kv1 kv2,
  String.eqb "features" k = false -> String.eqb "tree" k = false -> String.eqb "constraints" k = false ->
  glencoe_read (VMap (kv1 ++ (k, v) :: kv2)) = glencoe_read (VMap (kv1 ++ kv2)).
Proof. exact glencoe_read_extra_key. Qed.
Print Assumptions C09_glencoe_extra_key.
Theorem C09_glencoe_nary_terms : forall fuel fi ty o x xs n ns,
  (ty = "AndTerm"%string /\ o = AND) \/ (ty = "OrTerm"%string /\ o = OR) \/ (ty = "XorTerm"%string /\ o = XOR) ->
  glencoe_parse_ctc fuel fi x = Ok n -> Forall2 (fun y m => glencoe_parse_ctc fuel fi y = Ok m) xs ns ->
  glencoe_parse_ctc (S fuel) fi (nary_term ty (x :: xs)) = Ok (fold_left (fun acc y => bin o acc y) ns n).
Proof. exact glencoe_nary_fold. Qed.
Print Assumptions C09_glencoe_nary_terms.

(* non-vacuity: a reference model with a negative cardinality and two constraints is in the FaMa fragment and has
   no relation without children; a FeatureIDE document with graphics / description elements and unique attribute keys
   is read, and read the same after stripping *)
Definition ex09 : xml :=
  Elem "featureModel" [] None
    [ Elem "struct" [] None
        [ Elem "and" [("mandatory", "true"); ("name", "R")] None
            [ Elem "graphics" [("key", "collapsed"); ("value", "false")] None [];
              Elem "description" [] (Some "root") [];
              Elem "feature" [("name", "A"); ("mandatory", "false")] None [];
              Elem "alt" [("abstract", "true"); ("name", "G")] None
                [ Elem "feature" [("name", "B")] None []; Elem "feature" [("name", "C")] None [] ] ] ];
      Elem "constraints" [] None
        [ Elem "rule" [] None [ Elem "disj" [] None [ Elem "var" [] (Some "A") []; Elem "var" [] (Some "B") [];
                                                       Elem "not" [] None [Elem "var" [] (Some "C") []] ] ] ] ]%string.
Example C09_nonvacuous :
  fama_ok ref_m1 = true /\ rels_nonempty (root ref_m1) /\ xml_keys_unique ex09
  /\ (exists pm, fide_read ex09 = Ok pm /\ List.length (pctcs pm) = 1%nat)
  /\ fide_read (fide_strip ex09) = fide_read ex09.
Proof.
  split; [exact ref_m1_ok|]. split; [exact ref_m1_nonempty|]. split.
  - repeat first [apply KU | apply Forall_cons | apply Forall_nil | apply NoDup_cons | apply NoDup_nil
                  | (cbn; intuition discriminate)].
  - split; [vm_compute; eexists; split; reflexivity|]. vm_compute. reflexivity.
Qed.
Print Assumptions C09_nonvacuous.

(* AFM, whole document: redundant parentheses in any expression of any constraint *)
Theorem C09_afm_document_parentheses : forall d, afm_read_cst (afm_map_exprs strip_parens d) = afm_read_cst d.
Proof. exact afm_read_doc_parens. Qed.
Print Assumptions C09_afm_document_parentheses.

(* Glencoe, whole document (JsonVariant.v).  [gextra]: keys the format does not define inserted into the document,
   into any entry of the features map, into any tree node, into any constraint term (values of any depth);
   [gflat]: additionally an n-ary And/Or/Xor term whose FIRST operand is a term of the same type merged with it,
   anywhere; [gperm]: the entries of any object with distinct keys permuted, except the entry list of the
   constraints object itself (its order is the order of the constraints; the unrestricted statement is refuted
   in JsonVariant.glencoe_read_jperm_false). *)
Theorem C09_glencoe_undefined_keys_anywhere : forall d d', gextra d d' -> glencoe_read d = glencoe_read d'.
Proof. exact glencoe_read_extra. Qed.
Print Assumptions C09_glencoe_undefined_keys_anywhere.
Theorem C09_glencoe_nary_flattening_anywhere : forall d d', gflat d d' -> glencoe_read d = glencoe_read d'.
Proof. exact glencoe_read_flat. Qed.
Print Assumptions C09_glencoe_nary_flattening_anywhere.
Theorem C09_glencoe_key_order : forall d d', gperm d d' -> glencoe_read d = glencoe_read d'.
Proof. exact glencoe_read_perm. Qed.
Print Assumptions C09_glencoe_key_order.
Example C09_glencoe_variants_nonvacuous :
  gextra ex_doc ex_doc_extra /\ gflat ex_doc ex_doc_flat /\ gperm ex_doc ex_doc_perm.
Proof. exact (conj ex_extra_rel (conj ex_flat_rel ex_perm_rel)). Qed.
Print Assumptions C09_glencoe_variants_nonvacuous.
