(* Props/C08.v — C08: Glencoe round trip returns the same model, at any number of cycles.
   JSON text layer as in C05 (json.dumps / json.load hypothesis, validated by W-glencoe / R-glencoe). *)
From Coq Require Import List Bool String ZArith Permutation.
From FM Require Import Base.Result Model.Ast Model.FM Model.PFM Model.Sem Format.Glencoe Proofs.GlencoeFacts.
Import ListNotations.
Local Open Scope list_scope.

Theorem C08_roundtrip : forall m, glencoe_ok m = true ->
  exists d pm, glencoe_write m = Ok d /\ glencoe_read d = Ok pm /\ erase_fm pm = glencoe_norm m.
Proof. exact glencoe_roundtrip. Qed.
Print Assumptions C08_roundtrip.

(* the normal form only re-orders: children sorted by name, mandatory-beside-group relations first;
   same names, and constraints (same names, same number) evaluate alike under every assignment *)
Theorem C08_norm_names : forall m, Permutation (names (root (glencoe_norm m))) (names (root m)).
Proof. exact glencoe_norm_names. Qed.
Print Assumptions C08_norm_names.

Theorem C08_norm_constraints : forall m σ,
  map (fun c => eval σ (c_ast c)) (ctcs (glencoe_norm m)) = map (fun c => eval σ (c_ast c)) (ctcs m).
Proof. exact glencoe_norm_ctcs. Qed.
Print Assumptions C08_norm_constraints.

Theorem C08_norm_constraint_names : forall m, map c_name (ctcs (glencoe_norm m)) = map c_name (ctcs m).
Proof. intro m. unfold glencoe_norm. simpl. rewrite map_map. reflexivity. Qed.
Print Assumptions C08_norm_constraint_names.

Theorem C08_norm_ok : forall m, glencoe_ok m = true -> glencoe_ok (glencoe_norm m) = true.
Proof. exact glencoe_norm_ok. Qed.
Print Assumptions C08_norm_ok.

Theorem C08_norm_idempotent : forall m, glencoe_ok m = true -> glencoe_norm (glencoe_norm m) = glencoe_norm m.
Proof. exact glencoe_norm_idempotent. Qed.
Print Assumptions C08_norm_idempotent.

(* repeating the cycle changes nothing further *)
Theorem C08_cycles : forall m, glencoe_ok m = true ->
  exists d pm, glencoe_write (glencoe_norm m) = Ok d /\ glencoe_read d = Ok pm /\ erase_fm pm = glencoe_norm m.
Proof. exact glencoe_roundtrip_norm. Qed.
Print Assumptions C08_cycles.

Example C08_nonvacuous :
  glencoe_ok GlencoeExamples.m1 = true /\
  match glencoe_write GlencoeExamples.m1 with
  | Ok d => match glencoe_read d with Ok pm => Some (erase_fm pm) | Err _ => None end
  | Err _ => None
  end = Some (glencoe_norm GlencoeExamples.m1).
Proof. vm_compute. split; reflexivity. Qed.
Print Assumptions C08_nonvacuous.
