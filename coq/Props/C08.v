(* Props/C08.v — C08: Glencoe round trip returns the same model, at any number of cycles.
   JSON text layer as in C05 (json.dumps / json.load hypothesis, validated by W-glencoe / R-glencoe). *)
From Coq Require Import List Bool String ZArith Permutation.
From FM Require Import Base.Result Model.Ast Model.FM Model.PFM Model.Sem Format.Glencoe Model.PyRt Model.Loc
     Gen.Src_glencoe Gen.Src_glencoer Format.Json Proofs.GlencoeFacts Proofs.SrcGlencoeFacts Proofs.SrcGlencoeReaderFacts.
Import ListNotations.
Local Open Scope list_scope.

Theorem C08_roundtrip : forall m, glencoe_ok m = true ->
  exists d pm, glencoe_write m = Ok d /\ glencoe_read d = Ok pm /\ erase_fm pm = glencoe_norm m.
Proof. exact glencoe_roundtrip. Qed.
Print Assumptions C08_roundtrip.

(* ---- the writer half about the TRANSLATED SOURCE of glencoe_writer.py (Gen/Src_glencoe.v, regenerated on every
   run; DESIGN §10): the translated _to_json IS glencoe_write, errors included, on every model — no hypothesis on the
   feature names: the hand model's sort_by is stable, as Python's sorted() is, so the two agree also on siblings of
   one name (Proofs/SrcGlencoeFacts.v, sg_sorted_sort_by) ---- *)
Theorem C08_source_writer : forall m fuel, (fuel_model m <= fuel)%nat ->
  py__to_json fuel m = glencoe_write m.
Proof. exact src_glencoe_to_json. Qed.
Print Assumptions C08_source_writer.

Theorem C08_source_roundtrip : forall m fuel, (fuel_model m <= fuel)%nat ->
  glencoe_ok m = true ->
  exists d pm, py__to_json fuel m = Ok d /\ glencoe_read d = Ok pm /\ erase_fm pm = glencoe_norm m.
Proof.
  intros m fuel Hf Hok. destruct (glencoe_roundtrip m Hok) as (d & pm & Hw & Hr & He).
  exists d, pm. rewrite (src_glencoe_to_json m fuel Hf). exact (conj Hw (conj Hr He)).
Qed.
Print Assumptions C08_source_roundtrip.

(* the normal form only re-orders: children sorted by name, mandatory-beside-group relations first;
   same names, and constraints (same names, same number) evaluate alike under every assignment *)
Theorem C08_norm_names : forall m, Permutation (names (root (glencoe_norm m))) (names (root m)).
Proof. exact glencoe_norm_names. Qed.
Print Assumptions C08_norm_names.

Theorem C08_norm_constraints : forall m σ,
  map (fun c => eval σ (c_ast c)) (ctcs (glencoe_norm m)) = map (fun c => eval σ (c_ast c)) (ctcs m).
Proof. exact glencoe_norm_ctcs. Qed.
Print Assumptions C08_norm_constraints.

Theorem C08_norm_constraint_names : forall m, map c_name (ctcs (glencoe_norm m)) = map c_name (ctcs m).
Proof. intro m. unfold glencoe_norm. simpl. rewrite map_map. reflexivity. Qed.
Print Assumptions C08_norm_constraint_names.

Theorem C08_norm_ok : forall m, glencoe_ok m = true -> glencoe_ok (glencoe_norm m) = true.
Proof. exact glencoe_norm_ok. Qed.
Print Assumptions C08_norm_ok.

Theorem C08_norm_idempotent : forall m, glencoe_ok m = true -> glencoe_norm (glencoe_norm m) = glencoe_norm m.
Proof. exact glencoe_norm_idempotent. Qed.
Print Assumptions C08_norm_idempotent.

(* repeating the cycle changes nothing further *)
Theorem C08_cycles : forall m, glencoe_ok m = true ->
  exists d pm, glencoe_write (glencoe_norm m) = Ok d /\ glencoe_read d = Ok pm /\ erase_fm pm = glencoe_norm m.
Proof. exact glencoe_roundtrip_norm. Qed.
Print Assumptions C08_cycles.

Example C08_nonvacuous :
  glencoe_ok GlencoeExamples.m1 = true /\
  match glencoe_write GlencoeExamples.m1 with
  | Ok d => match glencoe_read d with Ok pm => Some (erase_fm pm) | Err _ => None end
  | Err _ => None
  end = Some (glencoe_norm GlencoeExamples.m1).
Proof. vm_compute. split; reflexivity. Qed.
Print Assumptions C08_nonvacuous.

(* the constraint part of the READER about the translated source (GlencoeReader._parse_ast_constraint, Gen/Src_glencoer.v): the
   node the model reads is the node the code reads, a failure of the model is a failure of the code, and a library error of the
   model is the code's; on malformed documents the model is coarser about the kind of exception
   (src_glencoe_parse_ctc_error_kinds_differ: the translation was checked against the real code there) *)
Theorem C08_source_reader_constraint : forall w fi v fuel fuel', (aval_depth v <= fuel)%nat -> (aval_depth v <= fuel')%nat ->
  match glencoe_parse_ctc fuel' fi v with
  | Ok n => py_GlencoeReader__parse_ast_constraint fuel w v fi = Ok n
  | Err _ => exists e, py_GlencoeReader__parse_ast_constraint fuel w v fi = Err e
  end.
Proof. exact src_glencoe_parse_ctc. Qed.
Print Assumptions C08_source_reader_constraint.

(* ---- the whole READER about the translated source (GlencoeReader.transform with the loaded document as input,
   _parse_tree, _parse_constraints; Gen/Src_glencoer.v): what the model reads, the code reads; a document the
   model rejects makes the code fail too, and where the model names the library error the code raises it.  No
   hypothesis on the document: the model reads the "optional" entry of a feature with Python's truth value of
   whatever the entry is (jtruthy), as the code does (`if optional:` / `0 if optional else 1`) ---- *)
Theorem C08_source_reader : forall w doc pm, glencoe_read doc = Ok pm ->
  exists n0, forall fuel, (n0 <= fuel)%nat -> py_GlencoeReader_transform fuel w doc = Ok (erase_fm pm).
Proof. exact src_glencoe_read. Qed.
Print Assumptions C08_source_reader.

Theorem C08_source_reader_error : forall w doc e, glencoe_read doc = Err e ->
  exists n0, forall fuel, (n0 <= fuel)%nat -> exists e', py_GlencoeReader_transform fuel w doc = Err e'.
Proof. exact src_glencoe_read_error. Qed.
Print Assumptions C08_source_reader_error.

Theorem C08_source_reader_library_error : forall w doc, glencoe_read doc = Err FlamaException ->
  exists n0, forall fuel, (n0 <= fuel)%nat -> py_GlencoeReader_transform fuel w doc = Err FlamaException.
Proof. exact src_glencoe_read_library_error. Qed.
Print Assumptions C08_source_reader_library_error.

(* the whole cycle on the translated source: the translated writer, then the translated reader, give the normal
   form of the model back (and C08_norm_* say the normal form only re-orders) *)
Theorem C08_source_cycle : forall w m, glencoe_ok m = true ->
  exists d n0, forall fuel, (n0 <= fuel)%nat ->
    py__to_json fuel m = Ok d /\ py_GlencoeReader_transform fuel w d = Ok (glencoe_norm m).
Proof.
  intros w m Hok. destruct (glencoe_roundtrip m Hok) as (d & pm & Hw & Hr & He).
  destruct (src_glencoe_read w d pm Hr) as (n1 & Hn1).
  exists d, (Nat.max (fuel_model m) n1). intros fuel Hf. split.
  - rewrite src_glencoe_to_json; [exact Hw|]. eapply Nat.le_trans; [apply Nat.le_max_l|exact Hf].
  - rewrite Hn1; [now rewrite He|]. eapply Nat.le_trans; [apply Nat.le_max_r|exact Hf].
Qed.
Print Assumptions C08_source_cycle.
