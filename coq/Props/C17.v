(* Props/C17.v — C17: the metrics report is total, self-consistent and agrees with the operations.
   [report m flt] is calculate_metamodel_metrics with an optional filter; [metric m meth] one entry. *)
From Coq Require Import List Bool String ZArith Permutation.
From FM Require Import Base.Result Base.Str Model.Ast Model.FM Model.Ctc Model.Queries Model.Ops Model.Metrics
     Gen.Tables_metrics Proofs.C18Facts Proofs.C17Facts Proofs.C16Facts Model.PyRt Gen.Src_metrics Proofs.SrcMetricsFacts.
Import ListNotations.
Local Open Scope list_scope.

(* every named metric exactly once *)
Theorem C17_names : forall m r, report m None = Ok r -> map me_method r = metric_methods.
Proof. exact report_names. Qed.
Print Assumptions C17_names.
Theorem C17_names_distinct : NoDup metric_methods.
Proof. exact metric_methods_nodup. Qed.
Print Assumptions C17_names_distinct.

(* produced without error (well-formed logical constraints whose split returns), 40 entries *)
Theorem C17_total : forall m,
  Forall (fun c => node_wf (c_ast c) = true /\ exists parts, split_asts (c_ast c) = Ok parts) (ctcs m) ->
  exists r, report m None = Ok r /\ List.length r = 40%nat.
Proof. exact report_total. Qed.
Print Assumptions C17_total.

(* size = length of the listing *)
Theorem C17_size : forall m meth e l, metric m meth = Ok e -> me_result e = MNames l -> me_size e = Some (zlen l).
Proof. exact entry_size. Qed.
Print Assumptions C17_size.

(* ratio = Python's round(size / base size, 4), hence within [0, 1] (ten-thousandths) *)
Theorem C17_ratio_formula : forall meth name_ l base parent level,
  me_ratio (listing meth name_ l base parent level) = Some (get_ratio (zlen l) (zlen base) 4).
Proof. exact listing_ratio. Qed.
Print Assumptions C17_ratio_formula.
(* for every well-formed model, whatever its constraints mention (attributes, literals): "Features in constraints"
   keeps only names of features.  Before the repair of fm_metrics this statement was false (ratio 2.0). *)
Theorem C17_ratio_range : forall m r e z, wf (root m) = true ->
  report m None = Ok r -> In e r -> me_ratio e = Some z -> (0 <= z <= 10000)%Z.
Proof. exact report_ratios_in_range_full. Qed.
Print Assumptions C17_ratio_range.

(* the defining identities *)
Theorem C17_abstract_concrete : forall m, Permutation (abstract_names m ++ concrete_names m) (fnames m).
Proof. exact abstract_concrete_split. Qed.
Print Assumptions C17_abstract_concrete.
Theorem C17_leaf_compound : forall m,
  Permutation (leaf_names_ m ++ map name (filter (fun f => negb (feat_is_leaf f)) (feats m))) (fnames m).
Proof. exact leaf_compound_split. Qed.
Print Assumptions C17_leaf_compound.
Theorem C17_solitary_grouped : forall m, Permutation (solitary_names m ++ grouped_names m) (tl (fnames m)).
Proof. exact solitary_grouped_split. Qed.
Print Assumptions C17_solitary_grouped.
Theorem C17_mandatory_in_solitary : forall m, wf (root m) = true ->
  incl (map name (get_mandatory_features m)) (solitary_names m).
Proof. exact mandatory_inside_solitary. Qed.
Print Assumptions C17_mandatory_in_solitary.
Theorem C17_optional_in_solitary : forall m, wf (root m) = true ->
  incl (map name (get_optional_features m)) (solitary_names m).
Proof. exact optional_inside_solitary. Qed.
Print Assumptions C17_optional_in_solitary.
Theorem C17_requires_excludes : forall m lr le ls,
  Forall (fun c => node_wf (c_ast c) = true) (ctcs m) ->
  get_requires_constraints m = Ok lr -> get_excludes_constraints m = Ok le -> get_simple_constraints m = Ok ls ->
  Permutation (lr ++ le) ls.
Proof. exact requires_excludes_split_simple. Qed.
Print Assumptions C17_requires_excludes.
Theorem C17_simple_complex : forall m ls lc ll,
  get_simple_constraints m = Ok ls -> get_complex_constraints m = Ok lc -> get_logical_constraints m = Ok ll ->
  Forall (fun c => node_wf (c_ast c) = true) (ctcs m) -> Permutation (ls ++ lc) ll.
Proof. exact simple_complex_split_logical. Qed.
Print Assumptions C17_simple_complex.
Theorem C17_pseudo_strict_in_complex : forall m lp lst lc,
  get_pseudocomplex_constraints m = Ok lp -> get_strictcomplex_constraints m = Ok lst ->
  get_complex_constraints m = Ok lc -> incl lp lc /\ incl lst lc.
Proof. exact pseudo_strict_inside_complex_listing. Qed.
Print Assumptions C17_pseudo_strict_in_complex.

(* duplicates of the stand-alone operations *)
Theorem C17_branching_factor : forall m e, metric m "branching_factor" = Ok e -> me_result e = MHund (average_branching_factor m).
Proof. exact branching_factor_is_operation. Qed.
Print Assumptions C17_branching_factor.
Theorem C17_max_depth : forall m e, metric m "max_depth_tree" = Ok e -> me_result e = MInt (max_depth_tree m).
Proof. exact max_depth_is_operation. Qed.
Print Assumptions C17_max_depth.
Theorem C17_leaf_features : forall m e, metric m "leaf_features" = Ok e -> me_result e = MNames (map name (leaf_features m)).
Proof. exact leaf_features_is_operation. Qed.
Print Assumptions C17_leaf_features.

(* filter and history *)
Theorem C17_filter : forall m l r r', report m None = Ok r -> report m (Some l) = Ok r' ->
  r' = filter (fun e => list_existsb_eq (me_method e) l) r.
Proof. exact report_filter. Qed.
Print Assumptions C17_filter.
Theorem C17_history : forall st st' flt m, metrics_step st flt m = metrics_step st' flt m.
Proof. exact metrics_history. Qed.
Print Assumptions C17_history.

Example C17_nonvacuous :
  wf (root ex_model) = true /\ ctcs_closed ex_model
  /\ Forall (fun c => node_wf (c_ast c) = true /\ exists parts, split_asts (c_ast c) = Ok parts) (ctcs ex_model).
Proof. exact ex_model_hypotheses. Qed.
Print Assumptions C17_nonvacuous.

(* ---- about the TRANSLATED SOURCE of fm_metrics.py (Gen/Src_metrics.v, regenerated on every run; DESIGN §10): the class
   FMMetrics as a state record, its 40 @metric_method methods, the cached fields filled at the start of
   calculate_metamodel_metrics and the collection of the decorated methods.  For every model with distinct feature names whose
   relations have children, and WHATEVER state the operation object is in (only its filter is read: the "any sequence of
   models analysed one after another" part of the property), the translated calculate_metamodel_metrics returns the model's
   report, entry for entry (name, result, size, ratio, parent, level), errors included — so every theorem above is about
   what the code computes. ---- *)
Theorem C17_source_report : forall st m, NoDup (names (root m)) -> rels_nonempty (root m) ->
  exists n0, forall fuel, (n0 <= fuel)%nat ->
    py_FMMetrics_calculate_metamodel_metrics fuel st m = rmap (map conv) (report m (FMMetrics_filter st)).
Proof. exact src_metrics_report. Qed.
Print Assumptions C17_source_report.

(* two operation objects with the same filter, in any two states, give the same report for a model *)
Theorem C17_source_history : forall st st' m, NoDup (names (root m)) -> rels_nonempty (root m) ->
  FMMetrics_filter st = FMMetrics_filter st' ->
  exists n0, forall fuel, (n0 <= fuel)%nat ->
    py_FMMetrics_calculate_metamodel_metrics fuel st m = py_FMMetrics_calculate_metamodel_metrics fuel st' m.
Proof.
  intros st st' m Hn Hr Hf. destruct (src_metrics_report st m Hn Hr) as (n1 & H1).
  destruct (src_metrics_report st' m Hn Hr) as (n2 & H2). exists (Nat.max n1 n2). intros fuel Hfu.
  rewrite H1, H2, Hf; [reflexivity| |]; eapply Nat.le_trans; try exact Hfu; [apply Nat.le_max_r|apply Nat.le_max_l].
Qed.
Print Assumptions C17_source_history.
