(* Props/C10.v — C10: the SPLOT (SXFM) and propositional (.exp) exports denote exactly the model's
   configurations.  Each export is modelled as a structured document with the TARGET FORMAT'S OWN
   semantics ([sxfm_sat], [pl_sat]); the text rendering of the documents is tied to the implementation
   byte for byte by suites W-splot / W-pl, and independent interpreters of the texts decide the
   property on the implementation over all 2^n selections. *)
From Coq Require Import List Bool String ZArith Permutation.
From FM Require Import Base.Result Base.AstOp Model.Ast Model.FM Model.Queries Model.Sem Format.Export
     Proofs.C18Facts Proofs.C10Facts
     Model.PyRt Model.Loc Gen.Src_pl Gen.Src_splot Proofs.SrcPlFacts Proofs.SrcSplotFacts.
Import ListNotations.
Local Open Scope list_scope.

(* the exported feature tree has exactly the model's tree semantics — every tree, every relation kind *)
Theorem C10_splot_tree : forall σ f, sx_sem σ (splot_tree f) = sem σ f.
Proof. exact splot_tree_sem. Qed.
Print Assumptions C10_splot_tree.

(* SPLOT, whole document (PARTIAL: constraints without XOR / EQUIVALENCE — open finding in flamapy.core) *)
Theorem C10_splot : forall m d σ,
  Forall (fun c => node_wf (c_ast c) = true /\ no_xe (c_ast c) = true /\ names_plain (c_ast c) = true) (ctcs m) ->
  splot_write m = Ok d -> sxfm_sat σ d = valid m σ.
Proof. exact C10_splot_partial. Qed.
Print Assumptions C10_splot.

Theorem C10_splot_refuted_for_xor_equivalence : exists m d σ,
  splot_write m = Ok d /\ Forall (fun c => node_wf (c_ast c) = true) (ctcs m) /\ sxfm_sat σ d <> valid m σ.
Proof. exact C10_splot_xe_refuted. Qed.
Print Assumptions C10_splot_refuted_for_xor_equivalence.

Theorem C10_splot_no_feature_missing : forall m d, splot_write m = Ok d -> incl (names (root m)) (sxf_names (sp_root d)).
Proof. exact C10_splot_names. Qed.
Print Assumptions C10_splot_no_feature_missing.

(* propositional export: all eight logical operators, all relation kinds incl. mutex, [a..b], [a..*] *)
Theorem C10_pl_export : forall m d σ,
  Forall pl_rel_ok (subrelations (root m)) -> Forall (fun c => node_wf (c_ast c) = true) (ctcs m) ->
  pl_write m = Ok d -> pl_sat σ d = valid m σ.
Proof. exact C10_pl. Qed.
Print Assumptions C10_pl_export.

Theorem C10_pl_no_feature_missing : forall m d, pl_write m = Ok d ->
  forall x, In x (names (root m)) -> exists p, In p d /\ pl_mentions x p.
Proof. exact C10_pl_names. Qed.
Print Assumptions C10_pl_no_feature_missing.

(* ---- the two exports about the TRANSLATED SOURCE (Gen/Src_splot.v, Gen/Src_pl.v: splot_writer.py and pl_writer.py
   re-translated on every run; DESIGN §10): the text the translated writers produce is the rendering of the structured
   documents the theorems above are about ---- *)
Theorem C10_source_splot_text : forall m fuel, (fuel_tree (root m) <= fuel)%nat -> py_fm_to_splot fuel m = splot_text m.
Proof. exact src_fm_to_splot. Qed.
Print Assumptions C10_source_splot_text.

Theorem C10_source_splot_writer_object : forall path m fuel, (fuel_tree (root m) <= fuel)%nat ->
  py_SPLOTWriter_transform fuel (py_SPLOTWriter_new path m) = splot_text m.
Proof.
  intros path m fuel H. unfold py_SPLOTWriter_transform, py_SPLOTWriter_new. cbn.
  rewrite (src_fm_to_splot m fuel H). destruct (splot_text m); reflexivity.
Qed.
Print Assumptions C10_source_splot_writer_object.

(* the propositional export: the lines of the translated to_exp are a permutation of the rendered formulas (the code
   visits the relations with an explicit stack) — for every model whose relations have children *)
Theorem C10_source_pl_lines : forall m fuel lines, (fuel_model m <= fuel)%nat ->
  Forall (fun r => r_children r <> []) (subrelations (root m)) ->
  pl_lines m = Ok lines ->
  exists l, py_to_exp fuel m = Ok l /\ Permutation l lines.
Proof. exact src_pl_to_exp_lines. Qed.
Print Assumptions C10_source_pl_lines.

Theorem C10_source_pl_relation_formula : forall r o p, r_children r <> [] -> pl_relation (name (fst o)) r = Ok p ->
  py_get_relation_formula (r, o) = Ok (render_pl p).
Proof. exact src_pl_relation_formula_ok. Qed.
Print Assumptions C10_source_pl_relation_formula.

Theorem C10_source_pl_constraint_formula : forall c fuel, (fuel_node (c_ast c) <= fuel)%nat ->
  py_get_constraint_formula fuel c = rmap render_pl (pl_node (c_ast c)).
Proof. exact src_pl_constraint_formula. Qed.
Print Assumptions C10_source_pl_constraint_formula.

(* non-vacuity: a model with an or-group, a [2..3] group, a mutex group and two constraints meets the premises *)
Definition ex10 : fm :=
  {| root := Feature (mk_info "R")
       [ Relation 1 2 [leaf "A"; leaf "B"]; Relation 2 3 [leaf "C"; leaf "D"; leaf "E"];
         Relation 0 1 [leaf "F"; leaf "G"]; Relation 0 1 [leaf "H"] ];
     ctcs := [ {| c_name := "c1"; c_ast := bin IMPLIES (term "A") (un NOT (bin AND (term "C") (term "H"))) |};
               {| c_name := "c2"; c_ast := bin OR (term "F") (bin REQUIRES (term "B") (term "D")) |} ] |}.
Example C10_nonvacuous :
  Forall (fun c => node_wf (c_ast c) = true /\ no_xe (c_ast c) = true /\ names_plain (c_ast c) = true) (ctcs ex10)
  /\ Forall pl_rel_ok (subrelations (root ex10))
  /\ (exists d, splot_write ex10 = Ok d) /\ (exists d, pl_write ex10 = Ok d).
Proof.
  split; [repeat constructor|]. split.
  - repeat (apply Forall_cons || apply Forall_nil); unfold pl_rel_ok; cbn;
      (repeat split; try (intro; discriminate); try (right; intro; discriminate); try (intros H; discriminate H);
       repeat constructor; cbn; intuition discriminate).
  - split; vm_compute; eexists; reflexivity.
Qed.
Print Assumptions C10_nonvacuous.
