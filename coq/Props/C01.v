(* Props/C01.v — C01: UVL round trip returns the same model, at any number of cycles.
   The ANTLR lexer/parser is external: [antlr] is universally quantified and its one assumed property —
   parsing the text rendered from the writer's syntax tree returns that tree — is an explicit premise,
   validated by suite P-uvl on every generated model (the real parser's tree is compared with
   [cst_of_fm m]); suite W-uvl ties [render (cst_of_fm m)] to the implementation's bytes. *)
From Coq Require Import List Bool String ZArith.
From FM Require Import Base.Result Model.Ast Model.FM Model.PFM Model.Sem Format.Uvl Model.PyRt Model.Loc Gen.Src_uvl
     Proofs.UvlFacts Proofs.SrcUvlFacts.
Import ListNotations.
Local Open Scope list_scope.

(* reader (syntax tree of the writer) = the normal form, with correct back pointers *)
Theorem C01_roundtrip_tree : forall m, uvl_ok m = true ->
  exists d, cst_of_fm m = Ok d /\ uvl_read_cst d = Ok (annotate_fm (uvl_norm m)).
Proof. exact uvl_roundtrip_cst. Qed.
Print Assumptions C01_roundtrip_tree.

(* end to end, for any parser that inverts the rendering on writer output *)
Theorem C01_roundtrip : forall (antlr : string -> option udoc),
  (forall m d, uvl_ok m = true -> cst_of_fm m = Ok d -> antlr (render d) = Some d) ->
  forall m, uvl_ok m = true ->
  exists t pm, uvl_write m = Ok t /\ uvl_read antlr t = Ok pm /\ erase_fm pm = uvl_norm m.
Proof. exact uvl_roundtrip. Qed.
Print Assumptions C01_roundtrip.

(* any number of cycles: the normal form is in the fragment, is a fixed point, and is written as the
   byte-identical text *)
Theorem C01_cycles : forall (antlr : string -> option udoc),
  (forall m d, uvl_ok m = true -> cst_of_fm m = Ok d -> antlr (render d) = Some d) ->
  forall m, uvl_ok m = true ->
  exists t pm, uvl_write (uvl_norm m) = Ok t /\ uvl_write m = Ok t /\ uvl_read antlr t = Ok pm /\ erase_fm pm = uvl_norm m.
Proof. exact uvl_cycles. Qed.
Print Assumptions C01_cycles.

Theorem C01_same_text : forall m, uvl_ok m = true -> uvl_write (uvl_norm m) = uvl_write m.
Proof. exact uvl_write_norm. Qed.
Print Assumptions C01_same_text.

(* what the normal form keeps: the whole tree (names, grouping, cardinalities, abstract flags, types, feature
   cardinalities, attributes) and one-to-one logically equivalent constraints *)
Theorem C01_norm_tree : forall m, root (uvl_norm m) = root m.
Proof. exact uvl_norm_tree. Qed.
Print Assumptions C01_norm_tree.
Theorem C01_norm_constraints : forall m σ,
  map (fun c => eval σ (c_ast c)) (ctcs (uvl_norm m)) = map (fun c => eval σ (c_ast c)) (ctcs m).
Proof. exact uvl_norm_sem. Qed.
Print Assumptions C01_norm_constraints.
Theorem C01_norm_ok : forall m, uvl_ok m = true -> uvl_ok (uvl_norm m) = true.
Proof. exact uvl_norm_ok. Qed.
Print Assumptions C01_norm_ok.
Theorem C01_norm_idempotent : forall m, uvl_norm (uvl_norm m) = uvl_norm m.
Proof. exact uvl_norm_idempotent. Qed.
Print Assumptions C01_norm_idempotent.

(* non-vacuity: two models of the fragment (typed features, feature cardinalities, nested attributes,
   quoted names, every relation kind, REQUIRES / EXCLUDES / arithmetic / aggregate constraints) *)
Example C01_nonvacuous : uvl_ok ex_model = true /\ uvl_ok ex_model2 = true
  /\ exists d, cst_of_fm ex_model = Ok d /\ uvl_read_cst d = Ok (annotate_fm (uvl_norm ex_model)).
Proof. exact (conj ex_model_ok (conj ex_model2_ok ex_model_roundtrip)). Qed.
Print Assumptions C01_nonvacuous.

(* ---- the writer half about the TRANSLATED SOURCE of uvl_writer.py (Gen/Src_uvl.v: the class UVLWriter as a state record with
   transform(), read_features, read_attributes, serialize_value, serialize_relation, the constraint printer, safename — regenerated
   on every run; DESIGN §10): whatever text the hand model writes, the translated transform() returns (for every large enough
   fuel: the nesting of attribute values is unbounded). ---- *)
Theorem C01_source_writer : forall path m t, uvl_write m = Ok t ->
  exists n0, forall fuel, (n0 <= fuel)%nat -> py_UVLWriter_transform fuel (py_UVLWriter_new path m) = Ok t.
Proof. exact src_uvl_transform. Qed.
Print Assumptions C01_source_writer.

Theorem C01_source_identifiers : forall s, py_safename s = uvl_safename s.
Proof. exact src_uvl_safename. Qed.
Print Assumptions C01_source_identifiers.

(* the round trip of the translated writer, for any parser that inverts the rendering on writer output *)
Theorem C01_source_roundtrip : forall (antlr : string -> option udoc),
  (forall m d, uvl_ok m = true -> cst_of_fm m = Ok d -> antlr (render d) = Some d) ->
  forall path m, uvl_ok m = true ->
  exists t pm n0, (forall fuel, (n0 <= fuel)%nat -> py_UVLWriter_transform fuel (py_UVLWriter_new path m) = Ok t)
                  /\ uvl_read antlr t = Ok pm /\ erase_fm pm = uvl_norm m.
Proof.
  intros antlr Hp path m Hok. destruct (uvl_roundtrip antlr Hp m Hok) as (t & pm & Hw & Hr & He).
  destruct (src_uvl_transform path m t Hw) as (n0 & Hn). exists t, pm, n0. exact (conj Hn (conj Hr He)).
Qed.
Print Assumptions C01_source_roundtrip.
