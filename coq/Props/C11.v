(* Props/C11.v — C11: the Clafer export denotes exactly the model's configurations.
   [cl_sem] is Clafer's group / cardinality semantics on the exported hierarchy (children of a clafer
   with a group cardinality other than the default 0..* default to 0..1 and are counted by the group;
   otherwise 1..1 unless marked ? — the writer marks the members of a [0..*] group); identifiers are the safe-named feature names, [lift σ] reads a selection through them. *)
From Coq Require Import List Bool Ascii String ZArith.
From FM Require Import Base.Result Base.AstOp Model.Ast Model.FM Model.Queries Model.Sem Format.Export
     Base.Str Model.PyRt Model.Loc Gen.Src_clafer Proofs.PositionalFacts Proofs.C18Facts Proofs.C11Facts Proofs.SrcClaferFacts.
Import ListNotations.
Local Open Scope list_scope.

Theorem C11_instances_of_the_hierarchy : forall m d σ,
  clafer_feature_ok (root m) = true -> NoDup (names (root m)) ->
  Forall (fun c => node_wf (c_ast c) = true) (ctcs m) -> clafer_write m = Ok d ->
  clafer_sat (lift σ) d = valid m σ.
Proof. exact C11_instances. Qed.
Print Assumptions C11_instances_of_the_hierarchy.

(* the same identifier wherever a name is declared and used *)
Theorem C11_safename_injective : forall s, unsafename (cl_safename s) = s.
Proof. exact unsafename_safename. Qed.
Print Assumptions C11_safename_injective.

Theorem C11_attribute_identifiers : forall m d f a, clafer_write m = Ok d -> In f (get_features m) ->
  In a (f_attrs (info f)) -> In (cl_safename (a_name a)) (map fst (cd_attrdecls d)).
Proof. exact C11_identifiers. Qed.
Print Assumptions C11_attribute_identifiers.

(* every logical operator is translated into Clafer syntax, with the right meaning *)
Theorem C11_every_operator_translated : forall n, node_wf n = true -> exists e, clafer_node n = Ok e.
Proof. exact C11_operators. Qed.
Print Assumptions C11_every_operator_translated.

Theorem C11_constraint_meaning : forall n e σ, node_wf n = true -> clafer_node n = Ok e -> cx_eval (lift σ) e = evalb σ n.
Proof. exact clafer_node_sound. Qed.
Print Assumptions C11_constraint_meaning.

(* a finite real attribute value is written as a Clafer double literal without exponent mark; a model with an infinity
   or NaN among its attribute values is not exported at all (C11Facts.clafer_float_literals) *)
Theorem C11_real_values_without_exponent : forall r t, py_positional r = Some t ->
  clafer_value (VFloat r) = t /\ no_e t = true.
Proof.
  intros r t H. split; [cbn [clafer_value]; rewrite H; reflexivity|exact (py_positional_no_exponent _ _ H)].
Qed.
Print Assumptions C11_real_values_without_exponent.

(* non-vacuity: single children, an xor group, a [2..3] group, attributes, a name needing quotes *)
Definition ex11 : fm :=
  {| root := Feature (mk_info "R")
       [ Relation 1 1 [Feature (mk_info "A") [Relation 1 1 [leaf "A1"; leaf "A2"]]];
         Relation 0 1 [Feature (mk_info "two words") [Relation 2 3 [leaf "C"; leaf "D"; leaf "E"]]] ];
     ctcs := [ {| c_name := "c1"; c_ast := bin XOR (term "A1") (un NOT (bin EQUIVALENCE (term "C") (term "two words"))) |} ] |}.
(* ---- the export about the TRANSLATED SOURCE of clafer_writer.py (Gen/Src_clafer.v, regenerated on every run;
   DESIGN §10): the translated fm_to_clafer produces exactly the rendering of the document the theorems above are about,
   errors included.  The hypothesis says that the positional spelling of every real attribute value has a decimal point,
   which holds for every genuine repr of a Python float (sc_repr_pointed); without it the hand model and the code differ
   (the code appends ".0": sc_unpointed_float_differs). ---- *)
Theorem C11_source_text : forall m fuel, (fuel_model m <= fuel)%nat ->
  (forall g, In g (subfeatures (root m)) -> sc_attrs_pointed g = true) ->
  py_fm_to_clafer fuel m = clafer_text m.
Proof. exact src_fm_to_clafer. Qed.
Print Assumptions C11_source_text.

Theorem C11_source_identifiers : forall s, py_safename s = cl_safename s.
Proof. exact src_clafer_safename. Qed.
Print Assumptions C11_source_identifiers.

Theorem C11_source_constraint_text : forall n fuel, (fuel_node n <= fuel)%nat ->
  py__serialize_node fuel n = rmap render_cexpr (clafer_node n).
Proof. exact src_clafer_node. Qed.
Print Assumptions C11_source_constraint_text.

Theorem C11_source_real_repr_pointed : forall r,
  str_contains_char "."%char r || str_contains_char "e"%char r = true -> sc_float_pointed (VFloat r) = true.
Proof. exact sc_repr_pointed. Qed.
Print Assumptions C11_source_real_repr_pointed.

Example C11_nonvacuous :
  clafer_feature_ok (root ex11) = true /\ NoDup (names (root ex11))
  /\ Forall (fun c => node_wf (c_ast c) = true) (ctcs ex11) /\ (exists d, clafer_write ex11 = Ok d).
Proof.
  split; [vm_compute; reflexivity|]. split.
  - cbn. repeat constructor; cbn; intuition discriminate.
  - split; [repeat constructor|]. vm_compute. eexists. reflexivity.
Qed.
Print Assumptions C11_nonvacuous.
