(* Props/C04.v — C04: the UVL reader yields the model the document denotes, or fails loudly (PARTIAL).
   The reader is a function of the parse tree; the surface choices of a document either vanish in the
   parse tree (comments, blank lines, headers — the external parser's business, sampled by suite
   P/R-uvl-emitter) or are shown here not to matter: quoting, redundant parentheses, several children
   under one keyword, explicit Boolean, [n] vs [n..n].  Together with C01 (the canonical document of a
   model reads as that model) this gives the denotation for every document the reference emitter
   produces; the Python emitter + oracle check it on the implementation.  Negative half: a syntax error
   reported by the parser becomes a library error (theorem about /repo's glue); WHICH texts the parser
   rejects is sampled on documents invalid by construction. *)
From Coq Require Import List Bool String ZArith.
From FM Require Import Base.Result Base.Str Model.Ast Model.FM Model.PFM Format.Uvl Proofs.UvlFacts Proofs.UvlVariant.
Import ListNotations.
Local Open Scope list_scope.

Theorem C04_parentheses : forall c, uvl_read_ctc (KParen c) = uvl_read_ctc c.
Proof. exact read_paren. Qed.
Print Assumptions C04_parentheses.
Theorem C04_quoting : forall s, strip_quotes (quote s) = strip_quotes s.
Proof. exact read_quoted_ref. Qed.
Print Assumptions C04_quoting.
Theorem C04_children_under_one_keyword : forall ty ref fc at_ k cs gs1 gs2 here parent, (k = GMand \/ k = GOpt) ->
  uvl_read_feature here parent (UFeature ty ref fc at_ (gs1 ++ [UGroup k cs] ++ gs2))
  = uvl_read_feature here parent (UFeature ty ref fc at_ (gs1 ++ map (fun c => UGroup k [c]) cs ++ gs2)).
Proof. exact read_group_split. Qed.
Print Assumptions C04_children_under_one_keyword.
Theorem C04_explicit_boolean : forall ref fc at_ gs here parent,
  uvl_read_feature here parent (UFeature (Some "Boolean"%string) ref fc at_ gs)
  = uvl_read_feature here parent (UFeature None ref fc at_ gs).
Proof. exact read_explicit_boolean. Qed.
Print Assumptions C04_explicit_boolean.
Theorem C04_cardinality_n : forall n,
  parse_cardinality ("[" ++ z_to_string n ++ "]")%string
  = parse_cardinality ("[" ++ z_to_string n ++ ".." ++ z_to_string n ++ "]")%string.
Proof. exact read_card_n. Qed.
Print Assumptions C04_cardinality_n.

(* a syntax error becomes a library error, never a model *)
Theorem C04_syntax_error : forall (antlr : string -> option udoc) text,
  antlr text = None -> uvl_read antlr text = Err FlamaException.
Proof. exact uvl_syntax_error. Qed.
Print Assumptions C04_syntax_error.

(* the canonical document of a model denotes that model (C01) *)
Theorem C04_canonical_document : forall m, uvl_ok m = true ->
  exists d, cst_of_fm m = Ok d /\ uvl_read_cst d = Ok (annotate_fm (uvl_norm m)).
Proof. exact uvl_roundtrip_cst. Qed.
Print Assumptions C04_canonical_document.

(* non-vacuity: a parser that rejects everything meets the premise of C04_syntax_error; the canonical
   document premise is met by UvlFacts.ex_model *)
Example C04_nonvacuous :
  uvl_read (fun _ => None) "features"%string = Err FlamaException /\ uvl_ok ex_model = true.
Proof. split; [reflexivity|exact ex_model_ok]. Qed.
Print Assumptions C04_nonvacuous.

(* ---- closure: a document denotes its model whatever surface syntax it uses.
   [dvar] is the equivalence closure, at any depth of the feature tree and any position inside a constraint,
   of: redundant parentheses; quoting of references, aggregate arguments and attribute keys; an explicit
   Boolean type; [n] vs [n..n] (any two cardinality texts that parse alike, feature and group); several
   children under one mandatory / optional keyword vs one keyword per child; alternative / or written as the
   cardinality group it abbreviates; an absent vs empty constraints section or attribute block.
   (UvlVariant.v also records what is NOT a variant: splitting an or-group, swapping groups, the quotes of a
   string literal.) *)
Theorem C04_surface_variants_read_alike : forall d d', dvar d d' -> uvl_read_cst d = uvl_read_cst d'.
Proof. exact uvl_read_variant. Qed.
Print Assumptions C04_surface_variants_read_alike.
Theorem C04_variant_denotes : forall m d d', uvl_ok m = true -> cst_of_fm m = Ok d -> dvar d d' ->
  uvl_read_cst d' = Ok (annotate_fm (uvl_norm m)).
Proof. exact uvl_variant_denotes. Qed.
Print Assumptions C04_variant_denotes.
Example C04_variant_nonvacuous : dvar d0 d1 /\ uvl_read_cst d1 = Ok (annotate_fm (uvl_norm v_model)).
Proof. exact (conj d0_d1 d1_denotes). Qed.
Print Assumptions C04_variant_nonvacuous.
