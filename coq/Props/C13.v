(* Props/C13.v — C13: the configuration estimate is exact without constraints, an upper bound with.
   [confs f] enumerates the valid configurations of the tree (bit-vectors in pre-order):
   it is sound and complete for the relational specification [Valid] and has no duplicates, so its
   length IS the number of valid configurations; [estimate] (the transcription of
   count_configurations_rec) equals that length. *)
From Coq Require Import List Bool String ZArith.
From FM Require Import Base.Result Model.FM Model.Sem Model.Ops Model.PyRt Model.Loc Gen.Src_ops Gen.Src_opobj
     Proofs.C13Facts Proofs.SrcEstimateFacts Proofs.SrcTieC13.
Import ListNotations.
Local Open Scope list_scope.

Theorem C13_confs_complete : forall f b, Valid f b -> In b (confs f).
Proof. exact confs_complete. Qed.
Print Assumptions C13_confs_complete.

Theorem C13_confs_sound : forall f b, In b (confs f) -> Valid f b.
Proof. exact confs_sound. Qed.
Print Assumptions C13_confs_sound.

Theorem C13_confs_nodup : forall f, NoDup (confs f).
Proof. exact confs_nodup. Qed.
Print Assumptions C13_confs_nodup.

(* exact: for every tree whose relations have 0 <= min and (max = -1 or 0 <= max) — this includes
   every 0 <= min <= max <= n relation, mutex, [a..b], [a..*], several relations per parent *)
Theorem C13_exact : forall f, cards_sane f -> estimate f = Z.of_nat (List.length (confs f)).
Proof. exact estimate_counts. Qed.
Print Assumptions C13_exact.

(* the same against ANY duplicate-free enumeration of the valid configurations *)
Theorem C13_exact_any_enumeration : forall f l, cards_sane f -> NoDup l ->
  (forall b, In b l <-> Valid f b) -> estimate f = Z.of_nat (List.length l).
Proof. exact estimate_counts_valid. Qed.
Print Assumptions C13_exact_any_enumeration.

(* upper bound: whatever further condition (cross-tree constraints) filters the configurations *)
Theorem C13_upper : forall f (p : list bool -> bool), cards_sane f ->
  (Z.of_nat (List.length (filter p (confs f))) <= estimate f)%Z.
Proof. exact estimate_upper. Qed.
Print Assumptions C13_upper.

(* ---- the same about the TRANSLATED SOURCE (Gen/Src_ops.v, regenerated from
   fm_estimated_configurations_number.py on every run; DESIGN §10) ---- *)
Theorem C13_source_is_model : forall m fuel, (fuel_tree (root m) <= fuel)%nat ->
  py_count_configurations fuel m = Ok (estimate (root m)).
Proof. exact src_count_configurations. Qed.
Print Assumptions C13_source_is_model.

Theorem C13_source_exact : forall m fuel, (fuel_tree (root m) <= fuel)%nat -> cards_sane (root m) ->
  py_count_configurations fuel m = Ok (Z.of_nat (List.length (confs (root m)))).
Proof. exact source_estimate_exact. Qed.
Print Assumptions C13_source_exact.

Theorem C13_source_upper : forall m fuel (p : list bool -> bool), (fuel_tree (root m) <= fuel)%nat ->
  cards_sane (root m) ->
  exists n, py_count_configurations fuel m = Ok n /\ (Z.of_nat (List.length (filter p (confs (root m)))) <= n)%Z.
Proof. exact source_estimate_upper. Qed.
Print Assumptions C13_source_upper.

(* the operation object, whatever it executed before *)
Theorem C13_source_object : forall m fuel s, (fuel_tree (root m) <= fuel)%nat -> cards_sane (root m) ->
  rmap py_FMEstimatedConfigurationsNumber_get_result (py_FMEstimatedConfigurationsNumber_execute fuel s m)
  = Ok (Z.of_nat (List.length (confs (root m)))).
Proof. exact source_estimate_object. Qed.
Print Assumptions C13_source_object.

Example C13_nonvacuous : cards_sane ex_tree /\ (10 < estimate ex_tree)%Z.
Proof. split; [exact ex_tree_sane | vm_compute; reflexivity]. Qed.
Print Assumptions C13_nonvacuous.
