(* Props/C19.v — C19: operations depend only on their argument; read-only ones never mutate it.
   Read-only operations are Gallina functions of the model value (Model/Ops.v, Model/Metrics.v): in the
   model they cannot mutate their argument nor remember earlier ones; that the implementation behaves
   like these functions on every execution of a sequence (re-used operation objects, pre/post dumps) is
   what suites O-history and O-* check.  The stateful pieces are proved here: the metrics report
   ignores the stored state, and random attribute generation over an arbitrary oracle stream of
   random draws. *)
From Coq Require Import List Bool String ZArith.
From FM Require Import Base.Result Model.FM Model.Queries Model.Metrics Model.GenRandom Model.PyRt Gen.Src_ops Gen.Src_atomic
     Gen.Src_opobj Proofs.C17Facts Proofs.C19Facts Proofs.SrcObjFacts.
Import ListNotations.
Local Open Scope list_scope.

Theorem C19_metrics_history : forall st st' flt m, metrics_step st flt m = metrics_step st' flt m.
Proof. exact metrics_history. Qed.
Print Assumptions C19_metrics_history.

(* a missing domain is a library error *)
Theorem C19_no_domain : forall nm ol draws m, gen_random_attribute nm None ol draws m = Err FlamaException.
Proof. exact gen_no_domain. Qed.
Print Assumptions C19_no_domain.

(* everything but the attribute lists is untouched *)
Theorem C19_gen_frame : forall nm d ol draws m m', gen_random_attribute nm (Some d) ol draws m = Ok m' ->
  ctcs m' = ctcs m /\ strip_attrs (root m') = strip_attrs (root m).
Proof. exact gen_frame. Qed.
Print Assumptions C19_gen_frame.

(* each targeted feature lacking the attribute gets exactly one, with the given name and domain; every other
   feature keeps its attributes (unique names) *)
Theorem C19_gen_attrs : forall nm d ol draws m m' f,
  NoDup (names (root m)) -> gen_random_attribute nm (Some d) ol draws m = Ok m' -> In f (subfeatures (root m)) ->
  (targeted ol nm f = true ->
     exists v, attrs_of (name f) (root m') = Some (f_attrs (info f) ++ [{| a_name := nm; a_dom := Some d; a_default := v; a_null := VNone |}]))
  /\ (targeted ol nm f = false -> attrs_of (name f) (root m') = Some (f_attrs (info f))).
Proof. exact gen_attrs. Qed.
Print Assumptions C19_gen_attrs.

(* the value is in the domain — a listed element, an integer within a listed integer range, or a decimal
   within a listed float range — for EVERY stream of draws in which randint(a,b) answers within [a,b] *)
Theorem C19_gen_value : forall nm d ol draws m m' f,
  ranges_ordered d -> randint_ok_pos d draws -> NoDup (names (root m)) ->
  gen_random_attribute nm (Some d) ol draws m = Ok m' -> In f (subfeatures (root m)) -> targeted ol nm f = true ->
  exists g, in_domain g d /\
    attrs_of (name f) (root m') = Some (f_attrs (info f) ++ [{| a_name := nm; a_dom := Some d; a_default := gval_aval g; a_null := VNone |}]).
Proof. exact gen_attrs_in_domain. Qed.
Print Assumptions C19_gen_value.

(* the operation refuses a domain without elements and without ranges, so an accepted call had something to draw
   from; the [GNone] case of [in_domain] ("both lists are empty and the stored value is None"), which the statement
   above still allows, cannot occur *)
Theorem C19_gen_domain_nonempty : forall nm d ol draws m m',
  gen_random_attribute nm (Some d) ol draws m = Ok m' -> dom_elems d <> [] \/ dom_ranges d <> [].
Proof. exact gen_random_domain_nonempty. Qed.
Print Assumptions C19_gen_domain_nonempty.

Theorem C19_gen_value_strict : forall nm d ol draws m m' f,
  ranges_ordered d -> randint_ok_pos d draws -> NoDup (names (root m)) ->
  gen_random_attribute nm (Some d) ol draws m = Ok m' -> In f (subfeatures (root m)) -> targeted ol nm f = true ->
  exists g, in_domain g d /\ g <> GNone /\
    attrs_of (name f) (root m') = Some (f_attrs (info f) ++ [{| a_name := nm; a_dom := Some d; a_default := gval_aval g; a_null := VNone |}]).
Proof. exact gen_attrs_in_domain_strict. Qed.
Print Assumptions C19_gen_value_strict.

(* ---- the operation OBJECTS of operations/*.py, translated from the source as state records (Gen/Src_opobj.v,
   regenerated on every run; DESIGN §10): in ANY state s — after any history of earlier executions on this or
   other models — the result reported after execute(m) is the value of the module-level function on m. ---- *)
Theorem C19_source_objects_depend_on_argument_only : forall fuel m,
  (forall s, rmap py_FMEstimatedConfigurationsNumber_get_result (py_FMEstimatedConfigurationsNumber_execute fuel s m)
             = py_count_configurations fuel m) /\
  (forall s, rmap py_FMCoreFeatures_get_result (py_FMCoreFeatures_execute fuel s m) = py_get_core_features fuel m) /\
  (forall s, rmap py_FMCountLeafs_get_result (py_FMCountLeafs_execute fuel s m) = py_count_leaf_features fuel m) /\
  (forall s, rmap py_FMLeafFeatures_get_result (py_FMLeafFeatures_execute fuel s m) = py_get_leaf_features fuel m) /\
  (forall s, rmap py_FMMaxDepthTree_get_result (py_FMMaxDepthTree_execute fuel s m) = py_max_depth_tree fuel m) /\
  (forall s, rmap py_FMAverageBranchingFactor_get_result (py_FMAverageBranchingFactor_execute fuel s m)
             = py_average_branching_factor fuel m 2%Z) /\
  (forall s, rmap py_FMVariationPoints_get_result (py_FMVariationPoints_execute fuel s m) = py_variation_points fuel m) /\
  (forall s x, rmap py_FMFeatureAncestors_get_result
                 (py_FMFeatureAncestors_execute fuel (py_FMFeatureAncestors_set_feature s x) m)
               = py_get_feature_ancestors fuel x).
Proof.
  intros fuel m.
  exact (conj (fun s => src_obj_estimate fuel s m) (conj (fun s => src_obj_core fuel s m)
        (conj (fun s => src_obj_count_leafs fuel s m) (conj (fun s => src_obj_leaf_features fuel s m)
        (conj (fun s => src_obj_max_depth fuel s m) (conj (fun s => src_obj_abf fuel s m)
        (conj (fun s => src_obj_variation_points fuel s m) (fun s x => src_obj_ancestors fuel s x m)))))))).
Qed.
Print Assumptions C19_source_objects_depend_on_argument_only.

Theorem C19_source_atomic_sets_object : forall fuel s m,
  rmap py_FMAtomicSets_get_result (py_FMAtomicSets_execute fuel s m) = py_get_atomic_sets fuel m.
Proof. exact src_obj_atomic_sets. Qed.
Print Assumptions C19_source_atomic_sets_object.

(* the same along a whole history of executions from a fresh object *)
Theorem C19_source_core_history : forall fuel ms m s,
  run_core fuel ms = Ok s ->
  rmap py_FMCoreFeatures_get_result (py_FMCoreFeatures_execute fuel s m) = py_get_core_features fuel m.
Proof. exact src_obj_core_history. Qed.
Print Assumptions C19_source_core_history.

Theorem C19_source_estimate_history : forall fuel ms m s,
  run_estimate fuel ms = Ok s ->
  rmap py_FMEstimatedConfigurationsNumber_get_result (py_FMEstimatedConfigurationsNumber_execute fuel s m)
  = py_count_configurations fuel m.
Proof. exact src_obj_estimate_history. Qed.
Print Assumptions C19_source_estimate_history.

(* a feature-ancestors object without a feature reports the library error *)
Theorem C19_source_ancestors_unset : forall fuel m,
  py_FMFeatureAncestors_execute fuel py_FMFeatureAncestors_new m = Err FlamaException.
Proof. exact src_obj_ancestors_unset. Qed.
Print Assumptions C19_source_ancestors_unset.

Example C19_nonvacuous : True.
Proof. exact I. Qed.
Print Assumptions C19_nonvacuous.
