(* Props/C02.v — C02: every reader returns a well-formed feature tree with usable constraints.
   For EVERY document (JSON value / XML element tree / UVL or AFM parse tree) a reader model accepts:
   the back pointers are right ([ptr_wf]: root parentless, every feature / relation / attribute points
   to its owner at the path where it sits) and every constraint has the shape the library consumes
   (unary operand on the left, binary operands both present).  The pointer-annotated result of the
   implementation is compared with the reader model on every document of the R-suites. *)
From Coq Require Import List Bool String ZArith.
From FM Require Import Base.Result Model.Ast Model.FM Model.PFM Format.Json Format.Glencoe Format.Xml Format.Uvl Format.Afm
     Proofs.JsonFacts Proofs.GlencoeFacts Proofs.FideFacts Proofs.FamaFacts Proofs.UvlFacts Proofs.AfmFacts Proofs.NonEmptyFacts.
Import ListNotations.
Local Open Scope list_scope.

Theorem C02_json_ptrs : forall d pm, json_read d = Ok pm -> ptr_wf pm = true.
Proof. exact json_read_ptr_wf. Qed.
Print Assumptions C02_json_ptrs.
Theorem C02_json_ast : forall d pm, json_read d = Ok pm -> forallb (fun c => node_shape_ok (c_ast c)) (pctcs pm) = true.
Proof. exact json_read_ctc_shape. Qed.
Print Assumptions C02_json_ast.
(* after the fix of the reader ("children": [] is rejected): for EVERY document, no hypothesis on it *)
Theorem C02_json_nonempty : forall d pm, json_read d = Ok pm -> rels_nonempty_p (proot pm) = true.
Proof. exact json_read_nonempty. Qed.
Print Assumptions C02_json_nonempty.

Theorem C02_glencoe_ptrs : forall d pm, glencoe_read d = Ok pm -> ptr_wf pm = true.
Proof. exact glencoe_read_ptr_wf. Qed.
Print Assumptions C02_glencoe_ptrs.
(* after the fix of the reader (no group relation for a group whose members are all mandatory): for EVERY
   document, no hypothesis on it *)
Theorem C02_glencoe_nonempty : forall d pm, glencoe_read d = Ok pm -> rels_nonempty_p (proot pm) = true.
Proof. exact glencoe_read_nonempty. Qed.
Print Assumptions C02_glencoe_nonempty.
Theorem C02_glencoe_ast : forall d pm, glencoe_read d = Ok pm -> forallb (fun c => node_shape_ok (c_ast c)) (pctcs pm) = true.
Proof. exact glencoe_read_ctc_shape. Qed.
Print Assumptions C02_glencoe_ast.

Theorem C02_fide_ptrs : forall x pm, fide_read x = Ok pm -> ptr_wf pm = true.
Proof. exact fide_read_ptr_wf. Qed.
Print Assumptions C02_fide_ptrs.
Theorem C02_fide_ast : forall x pm, fide_read x = Ok pm -> forallb (fun c => node_shape_ok (c_ast c)) (pctcs pm) = true.
Proof. exact fide_read_ctc_shape. Qed.
Print Assumptions C02_fide_ast.
Theorem C02_fide_nonempty : forall x pm, fide_read x = Ok pm -> rels_nonempty_p (proot pm) = true.
Proof. exact fide_read_nonempty. Qed.
Print Assumptions C02_fide_nonempty.

Theorem C02_fama_ptrs : forall x pm, fama_read x = Ok pm -> ptr_wf pm = true.
Proof. exact fama_read_ptr_wf. Qed.
Print Assumptions C02_fama_ptrs.
Theorem C02_fama_ast : forall x pm, fama_read x = Ok pm -> forallb (fun c => node_shape_ok (c_ast c)) (pctcs pm) = true.
Proof. exact fama_read_ctc_shape. Qed.
Print Assumptions C02_fama_ast.
(* after the fix of the reader (a binaryRelation / setRelation without child features is rejected): for EVERY
   document, no hypothesis on it *)
Theorem C02_fama_nonempty : forall x pm, fama_read x = Ok pm -> rels_nonempty_p (proot pm) = true.
Proof. exact fama_read_nonempty. Qed.
Print Assumptions C02_fama_nonempty.

Theorem C02_uvl_ptrs : forall d pm, uvl_read_cst d = Ok pm -> ptr_wf pm = true.
Proof. exact uvl_read_ptr_wf. Qed.
Print Assumptions C02_uvl_ptrs.
(* [ucst_ok]: no binary node carries the unary operator NOT — the grammar has no such production, so no
   parse tree violates it (the harness conversion of the ANTLR tree never builds one; the writer's trees
   satisfy it: C02_uvl_writer_trees).  Without it the statement is false of the reader model
   (UvlFacts.uvl_read_ctc_shape_false). *)
Theorem C02_uvl_ast : forall d pm,
  forallb ucst_ok (match d_ctcs d with Some l => l | None => [] end) = true ->
  uvl_read_cst d = Ok pm -> forallb (fun c => node_shape_ok' (c_ast c)) (pctcs pm) = true.
Proof. exact uvl_read_ctc_shape. Qed.
Print Assumptions C02_uvl_ast.
(* every relation non-empty.  The JSON, Glencoe, FeatureIDE and FaMa statements above have no hypothesis: their
   document types allow a relation without children and the readers reject it (three of them since the fix: commits).
   The UVL and AFM parse-tree TYPES allow an empty group, the grammars do not (feature+): the hypothesis says the parse
   tree has none ([ugroups_ne_weak] asks it only of the groups that become ONE relation), the harness checks it on every
   tree its parser conversion produces, the writers' trees satisfy it, and without it the statements are false of the
   reader models (uvl_read_empty_group_false, afm_read_empty_group_false). *)
Theorem C02_uvl_nonempty : forall d pm,
  (match d_root d with Some r => ugroups_ne_weak r | None => true end) = true ->
  uvl_read_cst d = Ok pm -> rels_nonempty_p (proot pm) = true.
Proof. exact uvl_read_nonempty_weak. Qed.
Print Assumptions C02_uvl_nonempty.
Theorem C02_afm_nonempty : forall d pm, aitems_ne d = true -> afm_read_cst d = Ok pm -> rels_nonempty_p (proot pm) = true.
Proof. exact afm_read_nonempty. Qed.
Print Assumptions C02_afm_nonempty.
Theorem C02_uvl_afm_writer_groups : forall m,
  wf (root m) = true ->
  (forall d, cst_of_fm m = Ok d -> (match d_root d with Some r => ugroups_ne r | None => true end) = true)
  /\ (forall d, afm_cst m = Ok d -> aitems_ne d = true).
Proof. intros m H. split; intros d Hd; [exact (uvl_cst_groups_ne_wf m d H Hd)|exact (afm_cst_items_ne_wf m d H Hd)]. Qed.
Print Assumptions C02_uvl_afm_writer_groups.

Theorem C02_uvl_writer_trees : forall n c, node_cst n = Ok c -> ucst_ok c = true.
Proof. exact node_cst_ucst_ok. Qed.
Print Assumptions C02_uvl_writer_trees.

Theorem C02_afm_ptrs : forall d pm, afm_read_cst d = Ok pm -> ptr_wf pm = true.
Proof. exact afm_read_ptr_wf. Qed.
Print Assumptions C02_afm_ptrs.
Theorem C02_afm_ast : forall d pm, afm_read_cst d = Ok pm -> forallb (fun c => node_shape_ok (c_ast c)) (pctcs pm) = true.
Proof. exact afm_read_ctc_shape. Qed.
Print Assumptions C02_afm_ast.

(* non-vacuity: each reader accepts some non-trivial document (here: what the writer models produce for the
   example models of the round-trip files), and the UVL premise [ucst_ok] holds for it *)
Example C02_nonvacuous :
  (exists d pm, json_write JsonFacts.ex_model = Ok d /\ json_read d = Ok pm)
  /\ (exists d pm, cst_of_fm UvlFacts.ex_model = Ok d /\ uvl_read_cst d = Ok pm
                   /\ forallb ucst_ok (match d_ctcs d with Some l => l | None => [] end) = true)
  /\ (exists d pm, afm_cst afm_ex_model = Ok d /\ afm_read_cst d = Ok pm).
Proof.
  split; [vm_compute; do 2 eexists; split; reflexivity|].
  split; [vm_compute; do 2 eexists; repeat split; reflexivity|].
  vm_compute; do 2 eexists; split; reflexivity.
Qed.
Print Assumptions C02_nonvacuous.
