(* Props/C20.v — C20: equality and hashing of model elements obey the contract.
   [lower] (str.lower) is an arbitrary function: the theorems hold for any.  [.._hash_key] is the
   value Python's hash() is applied to, so equal keys give equal hashes for any hash function. *)
From Coq Require Import List Bool String ZArith Permutation.
From FM Require Import Base.Str Model.FM Model.Queries Model.EqHash Proofs.C20Facts.
Import ListNotations.
Local Open Scope list_scope.

Theorem C20_feature_refl : forall a, feature_eqb a a = true.  Proof. exact feature_eqb_refl. Qed.
Print Assumptions C20_feature_refl.
Theorem C20_feature_sym : forall a b, feature_eqb a b = feature_eqb b a.  Proof. exact feature_eqb_sym. Qed.
Print Assumptions C20_feature_sym.
Theorem C20_relation_refl : forall a, relation_eqb a a = true.  Proof. exact relation_eqb_refl. Qed.
Print Assumptions C20_relation_refl.
Theorem C20_relation_sym : forall a b, relation_eqb a b = relation_eqb b a.  Proof. exact relation_eqb_sym. Qed.
Print Assumptions C20_relation_sym.
Theorem C20_ctc_refl : forall lower a, ctc_eqb lower a a = true.  Proof. exact ctc_eqb_refl. Qed.
Print Assumptions C20_ctc_refl.
Theorem C20_ctc_sym : forall lower a b, ctc_eqb lower a b = ctc_eqb lower b a.  Proof. exact ctc_eqb_sym. Qed.
Print Assumptions C20_ctc_sym.
Theorem C20_fm_refl : forall lower a, fm_eqb lower a a = true.  Proof. exact fm_eqb_refl. Qed.
Print Assumptions C20_fm_refl.
Theorem C20_fm_sym : forall lower a b, fm_eqb lower a b = fm_eqb lower b a.  Proof. exact fm_eqb_sym. Qed.
Print Assumptions C20_fm_sym.

(* equal objects have equal hashes *)
Theorem C20_feature_hash : forall a b, feature_eqb a b = true -> feature_hash_key a = feature_hash_key b.
Proof. exact feature_eq_hash. Qed.
Print Assumptions C20_feature_hash.
Theorem C20_relation_hash : forall a b, relation_eqb a b = true -> relation_hash_key a = relation_hash_key b.
Proof. exact relation_eq_hash. Qed.
Print Assumptions C20_relation_hash.
Theorem C20_ctc_hash : forall lower a b, ctc_eqb lower a b = true -> ctc_key lower a = ctc_key lower b.
Proof. exact ctc_eq_hash. Qed.
Print Assumptions C20_ctc_hash.
Theorem C20_fm_hash : forall lower a b, fm_eqb lower a b = true -> fm_hash_key lower a = fm_hash_key lower b.
Proof. exact fm_eq_hash. Qed.
Print Assumptions C20_fm_hash.

(* equality ignores the order of children inside a relation *)
Theorem C20_relation_perm : forall o mn mx cs cs', Permutation (map name cs) (map name cs') ->
   relation_eqb (o, Relation mn mx cs) (o, Relation mn mx cs') = true.
Proof. exact relation_eqb_perm. Qed.
Print Assumptions C20_relation_perm.

(* model equality holds EXACTLY when root names agree and the multisets of feature names, of relation keys
   (owner, sorted member names, min, max) and of lower-cased constraint texts coincide: this is both
   "ignores every order" (<-) and "differ in the root, a feature name, a relation's owner / members /
   cardinality, or a constraint => unequal" (contrapositive of ->) *)
Theorem C20_fm_eq_characterisation : forall lower a b,
   fm_eqb lower a b = true <->
   (name (root a) = name (root b)
    /\ Permutation (map name (get_features a)) (map name (get_features b))
    /\ Permutation (map relation_sort_key (fm_relations a)) (map relation_sort_key (fm_relations b))
    /\ Permutation (map (ctc_key lower) (ctcs a)) (map (ctc_key lower) (ctcs b))).
Proof. exact fm_eqb_iff. Qed.
Print Assumptions C20_fm_eq_characterisation.

(* a model equals an order-permuted copy of itself (children inside relations, relations inside features,
   constraints in the model — recursively) *)
Theorem C20_permuted_copy : forall lower a b,
   fperm (root a) (root b) -> Permutation (ctcs a) (ctcs b) -> fm_eqb lower a b = true.
Proof. exact permuted_copy_equal. Qed.
Print Assumptions C20_permuted_copy.

Example C20_nonvacuous :
  fperm (root ex_orig) (root ex_swapped) /\ fm_eqb str_lower ex_orig ex_swapped = true
  /\ fm_eqb str_lower ex_orig ex_exchanged = false.
Proof. split; [exact ex_swapped_fperm | split; [exact ex_swapped_equal | exact ex_exchanged_unequal]]. Qed.
Print Assumptions C20_nonvacuous.
