(* Props/C20.v — C20: equality and hashing of model elements obey the contract.
   [lower] (str.lower) is an arbitrary function: the theorems hold for any.  [.._hash_key] is the
   value Python's hash() is applied to, so equal keys give equal hashes for any hash function. *)
From Coq Require Import List Bool String ZArith Permutation.
From FM Require Import Base.Result Base.Str Model.FM Model.Queries Model.EqHash Model.PyRt Model.Loc Gen.Src_fm
     Proofs.C20Facts Proofs.SrcEqFacts Proofs.SrcTieC20.
Import ListNotations.
Local Open Scope list_scope.

Theorem C20_feature_refl : forall a, feature_eqb a a = true.  Proof. exact feature_eqb_refl. Qed.
Print Assumptions C20_feature_refl.
Theorem C20_feature_sym : forall a b, feature_eqb a b = feature_eqb b a.  Proof. exact feature_eqb_sym. Qed.
Print Assumptions C20_feature_sym.
Theorem C20_relation_refl : forall a, relation_eqb a a = true.  Proof. exact relation_eqb_refl. Qed.
Print Assumptions C20_relation_refl.
Theorem C20_relation_sym : forall a b, relation_eqb a b = relation_eqb b a.  Proof. exact relation_eqb_sym. Qed.
Print Assumptions C20_relation_sym.
Theorem C20_ctc_refl : forall lower a, ctc_eqb lower a a = true.  Proof. exact ctc_eqb_refl. Qed.
Print Assumptions C20_ctc_refl.
Theorem C20_ctc_sym : forall lower a b, ctc_eqb lower a b = ctc_eqb lower b a.  Proof. exact ctc_eqb_sym. Qed.
Print Assumptions C20_ctc_sym.
Theorem C20_fm_refl : forall lower a, fm_eqb lower a a = true.  Proof. exact fm_eqb_refl. Qed.
Print Assumptions C20_fm_refl.
Theorem C20_fm_sym : forall lower a b, fm_eqb lower a b = fm_eqb lower b a.  Proof. exact fm_eqb_sym. Qed.
Print Assumptions C20_fm_sym.

(* equal objects have equal hashes *)
Theorem C20_feature_hash : forall a b, feature_eqb a b = true -> feature_hash_key a = feature_hash_key b.
Proof. exact feature_eq_hash. Qed.
Print Assumptions C20_feature_hash.
Theorem C20_relation_hash : forall a b, relation_eqb a b = true -> relation_hash_key a = relation_hash_key b.
Proof. exact relation_eq_hash. Qed.
Print Assumptions C20_relation_hash.
Theorem C20_ctc_hash : forall lower a b, ctc_eqb lower a b = true -> ctc_key lower a = ctc_key lower b.
Proof. exact ctc_eq_hash. Qed.
Print Assumptions C20_ctc_hash.
Theorem C20_fm_hash : forall lower a b, fm_eqb lower a b = true -> fm_hash_key lower a = fm_hash_key lower b.
Proof. exact fm_eq_hash. Qed.
Print Assumptions C20_fm_hash.

(* equality ignores the order of children inside a relation *)
Theorem C20_relation_perm : forall o mn mx cs cs', Permutation (map name cs) (map name cs') ->
   relation_eqb (o, Relation mn mx cs) (o, Relation mn mx cs') = true.
Proof. exact relation_eqb_perm. Qed.
Print Assumptions C20_relation_perm.

(* model equality holds EXACTLY when root names agree and the multisets of feature names, of relation keys
   (owner, sorted member names, min, max) and of lower-cased constraint texts coincide: this is both
   "ignores every order" (<-) and "differ in the root, a feature name, a relation's owner / members /
   cardinality, or a constraint => unequal" (contrapositive of ->) *)
Theorem C20_fm_eq_characterisation : forall lower a b,
   fm_eqb lower a b = true <->
   (name (root a) = name (root b)
    /\ Permutation (map name (get_features a)) (map name (get_features b))
    /\ Permutation (map relation_sort_key (fm_relations a)) (map relation_sort_key (fm_relations b))
    /\ Permutation (map (ctc_key lower) (ctcs a)) (map (ctc_key lower) (ctcs b))).
Proof. exact fm_eqb_iff. Qed.
Print Assumptions C20_fm_eq_characterisation.

(* a model equals an order-permuted copy of itself (children inside relations, relations inside features,
   constraints in the model — recursively) *)
Theorem C20_permuted_copy : forall lower a b,
   fperm (root a) (root b) -> Permutation (ctcs a) (ctcs b) -> fm_eqb lower a b = true.
Proof. exact permuted_copy_equal. Qed.
Print Assumptions C20_permuted_copy.

(* ---- the same about the TRANSLATED SOURCE of __eq__ / __lt__ / _sort_key (Gen/Src_fm.v, regenerated from
   feature_model.py on every run; DESIGN §10).  str.lower() is ASCII lowering there. ---- *)
Theorem C20_source_is_model :
  (forall x y, py_Feature___eq__ x y = feature_eqb (fst x) (fst y)) /\
  (forall x y, py_Relation___eq__ x y = relation_eqb (orel_of x) (orel_of y)) /\
  (forall x y, py_Relation___lt__ x y = rkey_ltb (relation_sort_key (orel_of x)) (relation_sort_key (orel_of y))) /\
  (forall a b, py_Constraint___eq__ a b = ctc_eqb str_lower a b) /\
  (forall a b fuel, (fuel_tree (root a) <= fuel)%nat -> (fuel_tree (root b) <= fuel)%nat ->
                    py_FeatureModel___eq__ fuel a b = Ok (fm_eqb str_lower a b)).
Proof.
  exact (conj Proofs.SrcFmFacts.src_feat_eq (conj src_rel_eq (conj src_rel_lt (conj src_ctc_eq src_fm_eq)))).
Qed.
Print Assumptions C20_source_is_model.

Theorem C20_source_refl_sym : forall x y r s a b,
  (py_Feature___eq__ x x = true /\ py_Feature___eq__ x y = py_Feature___eq__ y x) /\
  (py_Relation___eq__ r r = true /\ py_Relation___eq__ r s = py_Relation___eq__ s r) /\
  (py_Constraint___eq__ a a = true /\ py_Constraint___eq__ a b = py_Constraint___eq__ b a).
Proof.
  intros. exact (conj (source_feature_eq_refl_sym x y) (conj (source_relation_eq_refl_sym r s) (source_ctc_eq_refl_sym a b))).
Qed.
Print Assumptions C20_source_refl_sym.

Theorem C20_source_fm_refl : forall a fuel, (fuel_tree (root a) <= fuel)%nat -> py_FeatureModel___eq__ fuel a a = Ok true.
Proof. exact source_fm_eq_refl. Qed.
Print Assumptions C20_source_fm_refl.

Theorem C20_source_fm_sym : forall a b fuel, (fuel_tree (root a) <= fuel)%nat -> (fuel_tree (root b) <= fuel)%nat ->
  py_FeatureModel___eq__ fuel a b = py_FeatureModel___eq__ fuel b a.
Proof. exact source_fm_eq_sym. Qed.
Print Assumptions C20_source_fm_sym.

(* Relation.__lt__ orders the same canonical form that __eq__ compares (the defect repaired in /repo) *)
Theorem C20_source_relation_order : forall x y z,
  py_Relation___lt__ x x = false /\
  (py_Relation___lt__ x y = true -> py_Relation___lt__ y z = true -> py_Relation___lt__ x z = true) /\
  (py_Relation___lt__ x y = false -> py_Relation___lt__ y x = false -> py_Relation___eq__ x y = true).
Proof. exact source_relation_lt_order. Qed.
Print Assumptions C20_source_relation_order.

Theorem C20_source_fm_eq_characterisation : forall a b fuel,
  (fuel_tree (root a) <= fuel)%nat -> (fuel_tree (root b) <= fuel)%nat ->
  (py_FeatureModel___eq__ fuel a b = Ok true <->
   (name (root a) = name (root b)
    /\ Permutation (map name (get_features a)) (map name (get_features b))
    /\ Permutation (map relation_sort_key (fm_relations a)) (map relation_sort_key (fm_relations b))
    /\ Permutation (map (ctc_key str_lower) (ctcs a)) (map (ctc_key str_lower) (ctcs b)))).
Proof. exact source_fm_eq_characterisation. Qed.
Print Assumptions C20_source_fm_eq_characterisation.

Theorem C20_source_permuted_copy : forall a b fuel,
  (fuel_tree (root a) <= fuel)%nat -> (fuel_tree (root b) <= fuel)%nat ->
  fperm (root a) (root b) -> Permutation (ctcs a) (ctcs b) -> py_FeatureModel___eq__ fuel a b = Ok true.
Proof. exact source_fm_permuted_copy. Qed.
Print Assumptions C20_source_permuted_copy.

Theorem C20_source_eq_hash : forall a b fuel,
  (fuel_tree (root a) <= fuel)%nat -> (fuel_tree (root b) <= fuel)%nat ->
  py_FeatureModel___eq__ fuel a b = Ok true -> fm_hash_key str_lower a = fm_hash_key str_lower b.
Proof. exact source_fm_eq_hash. Qed.
Print Assumptions C20_source_eq_hash.

Example C20_nonvacuous :
  fperm (root ex_orig) (root ex_swapped) /\ fm_eqb str_lower ex_orig ex_swapped = true
  /\ fm_eqb str_lower ex_orig ex_exchanged = false.
Proof. split; [exact ex_swapped_fperm | split; [exact ex_swapped_equal | exact ex_exchanged_unequal]]. Qed.
Print Assumptions C20_nonvacuous.
