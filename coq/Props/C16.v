(* Props/C16.v — C16: tree-shape operations match their definitions on every model.
   Totality ("returns a value without raising", including the root-only model) is a statement about
   the implementation: the model functions are total by construction and suite O checks that the
   implementation returns a value that equals the model's on every generated model. *)
From Coq Require Import List Bool String ZArith Permutation.
From FM Require Import Base.PyFloat Model.FM Model.Queries Model.Ops Proofs.C16Facts.
Import ListNotations.
Local Open Scope list_scope.

Theorem C16_leaves : forall m, Permutation (leaf_features m) (spec_leaves (root m)).
Proof. exact leaves_perm. Qed.
Print Assumptions C16_leaves.

Theorem C16_count_leafs : forall m, count_leafs m = Z.of_nat (List.length (spec_leaves (root m))).
Proof. exact count_leafs_spec. Qed.
Print Assumptions C16_count_leafs.

(* depth = number of edges on the longest root-to-leaf path *)
Theorem C16_max_depth : forall m, rels_nonempty (root m) -> max_depth_tree m = Z.of_nat (depth (root m)).
Proof. exact max_depth_spec. Qed.
Print Assumptions C16_max_depth.

(* ancestors, for every feature of the model: the chain of parents up to the root, in that order *)
Theorem C16_ancestors_all_features : forall m, map fst (ancestors_table m) = subfeatures (root m).
Proof. exact ancestors_features. Qed.
Print Assumptions C16_ancestors_all_features.

Theorem C16_ancestors_chain : forall m c anc, In (c, anc) (ancestors_table m) ->
   (anc = [] /\ c = root m)
   \/ (exists p rest, anc = p :: rest /\ In c (children p) /\ In (p, rest) (ancestors_table m)).
Proof. exact ancestors_chain. Qed.
Print Assumptions C16_ancestors_chain.

Theorem C16_ancestors_end_at_root : forall m c anc,
   In (c, anc) (ancestors_table m) -> anc <> [] -> last anc (root m) = root m.
Proof. exact ancestors_end_root. Qed.
Print Assumptions C16_ancestors_end_at_root.

(* branching factor: (number of non-root features) / (number of non-leaf features), rounded by
   Python's round(x, 2) of the binary64 quotient (modelled bit-exactly), and that rounding is within
   half a hundredth (+ 2^-53 relative) of the exact rational *)
Theorem C16_branch_counts : forall m,
   snd (branch_counts m) = (Z.of_nat (fsize (root m)) - 1)%Z
   /\ fst (branch_counts m)
      = Z.of_nat (List.length (filter (fun f => negb (feat_is_leaf f)) (subfeatures (root m)))).
Proof. exact branch_counts_spec. Qed.
Print Assumptions C16_branch_counts.

Theorem C16_two_decimals : forall a b, (0 < a)%Z -> (0 < b)%Z ->
   let h := pyround_div a b 2 in
   (Z.abs (h * b - 100 * a) * 2 ^ 53 <= b * 2 ^ 52 + 100 * a)%Z.
Proof. exact pyround_div_bound_tight. Qed.
Print Assumptions C16_two_decimals.

(* variation points: exactly the features with a non-empty list of children of non-mandatory
   relations, mapped to that list *)
Theorem C16_variation_points : forall m f vs,
   In (f, vs) (variation_points m) <-> (In f (subfeatures (root m)) /\ vs = variants f /\ vs <> []).
Proof. exact variation_points_spec. Qed.
Print Assumptions C16_variation_points.

Definition ex16 : fm :=
  {| root := Feature (mk_info "R")
       [Relation 1 1 [Feature (mk_info "A") [Relation 0 1 [Feature (mk_info "B") [Relation 1 2 [leaf "C"; leaf "D"]]]]];
        Relation 0 1 [leaf "E"]];
     ctcs := [] |}.
Example C16_nonvacuous :
  rels_nonempty (root ex16) /\ max_depth_tree ex16 = 3%Z /\ count_leafs ex16 = 3%Z
  /\ average_branching_factor ex16 = 167%Z
  /\ average_branching_factor {| root := leaf "solo"; ctcs := [] |} = 0%Z.
Proof. split; [repeat constructor; discriminate | vm_compute; repeat split]. Qed.
Print Assumptions C16_nonvacuous.
