(* Props/C16.v — C16: tree-shape operations match their definitions on every model.
   Totality ("returns a value without raising", including the root-only model) is a statement about
   the implementation: the model functions are total by construction and suite O checks that the
   implementation returns a value that equals the model's on every generated model. *)
From Coq Require Import List Bool String ZArith Permutation.
From FM Require Import Base.Result Base.PyFloat Model.FM Model.Queries Model.Ops Model.PyRt Model.Loc Gen.Src_ops
     Gen.Src_opobj Proofs.C16Facts Proofs.SrcTieC16.
Import ListNotations.
Local Open Scope list_scope.

Theorem C16_leaves : forall m, Permutation (leaf_features m) (spec_leaves (root m)).
Proof. exact leaves_perm. Qed.
Print Assumptions C16_leaves.

Theorem C16_count_leafs : forall m, count_leafs m = Z.of_nat (List.length (spec_leaves (root m))).
Proof. exact count_leafs_spec. Qed.
Print Assumptions C16_count_leafs.

(* depth = number of edges on the longest root-to-leaf path *)
Theorem C16_max_depth : forall m, rels_nonempty (root m) -> max_depth_tree m = Z.of_nat (depth (root m)).
Proof. exact max_depth_spec. Qed.
Print Assumptions C16_max_depth.

(* ancestors, for every feature of the model: the chain of parents up to the root, in that order *)
Theorem C16_ancestors_all_features : forall m, map fst (ancestors_table m) = subfeatures (root m).
Proof. exact ancestors_features. Qed.
Print Assumptions C16_ancestors_all_features.

Theorem C16_ancestors_chain : forall m c anc, In (c, anc) (ancestors_table m) ->
   (anc = [] /\ c = root m)
   \/ (exists p rest, anc = p :: rest /\ In c (children p) /\ In (p, rest) (ancestors_table m)).
Proof. exact ancestors_chain. Qed.
Print Assumptions C16_ancestors_chain.

Theorem C16_ancestors_end_at_root : forall m c anc,
   In (c, anc) (ancestors_table m) -> anc <> [] -> last anc (root m) = root m.
Proof. exact ancestors_end_root. Qed.
Print Assumptions C16_ancestors_end_at_root.

(* branching factor: (number of non-root features) / (number of non-leaf features), rounded by
   Python's round(x, 2) of the binary64 quotient (modelled bit-exactly), and that rounding is within
   half a hundredth (+ 2^-53 relative) of the exact rational *)
Theorem C16_branch_counts : forall m,
   snd (branch_counts m) = (Z.of_nat (fsize (root m)) - 1)%Z
   /\ fst (branch_counts m)
      = Z.of_nat (List.length (filter (fun f => negb (feat_is_leaf f)) (subfeatures (root m)))).
Proof. exact branch_counts_spec. Qed.
Print Assumptions C16_branch_counts.

Theorem C16_two_decimals : forall a b, (0 < a)%Z -> (0 < b)%Z ->
   let h := pyround_div a b 2 in
   (Z.abs (h * b - 100 * a) * 2 ^ 53 <= b * 2 ^ 52 + 100 * a)%Z.
Proof. exact pyround_div_bound_tight. Qed.
Print Assumptions C16_two_decimals.

(* variation points: exactly the features with a non-empty list of children of non-mandatory
   relations, mapped to that list *)
Theorem C16_variation_points : forall m f vs,
   In (f, vs) (variation_points m) <-> (In f (subfeatures (root m)) /\ vs = variants f /\ vs <> []).
Proof. exact variation_points_spec. Qed.
Print Assumptions C16_variation_points.

(* ---- the same about the TRANSLATED SOURCE of the operations (Gen/Src_ops.v, Gen/Src_opobj.v, regenerated from
   operations/*.py on every run; DESIGN §10) ---- *)
Theorem C16_source_count_leafs : forall m fuel, (fuel_tree (root m) <= fuel)%nat ->
  py_count_leaf_features fuel m = Ok (Z.of_nat (List.length (spec_leaves (root m)))).
Proof. exact source_count_leafs. Qed.
Print Assumptions C16_source_count_leafs.

Theorem C16_source_leaves : forall m fuel, (fuel_tree (root m) <= fuel)%nat ->
  exists l, py_get_leaf_features fuel m = Ok l /\ Permutation (map fst l) (spec_leaves (root m)).
Proof. exact source_leaves. Qed.
Print Assumptions C16_source_leaves.

Theorem C16_source_max_depth : forall m fuel, (fuel_tree (root m) <= fuel)%nat -> rels_nonempty (root m) ->
  py_max_depth_tree fuel m = Ok (Z.of_nat (depth (root m))).
Proof. exact source_max_depth. Qed.
Print Assumptions C16_source_max_depth.

Theorem C16_source_ancestors : forall f anc fuel, (List.length anc < fuel)%nat ->
  exists l, py_get_feature_ancestors fuel (f, anc) = Ok l /\ map fst l = anc.
Proof. exact source_ancestors. Qed.
Print Assumptions C16_source_ancestors.

Theorem C16_source_branching_factor : forall m fuel, (fuel_tree (root m) <= fuel)%nat ->
  py_average_branching_factor fuel m 2%Z = Ok (average_branching_factor m).
Proof. exact source_abf. Qed.
Print Assumptions C16_source_branching_factor.

Theorem C16_source_variation_points : forall m fuel f vs, (fuel_tree (root m) <= fuel)%nat -> NoDup (names (root m)) ->
  exists l, py_variation_points fuel m = Ok l /\
    (In (f, vs) (map (fun kv => (fst (fst kv), map fst (snd kv))) l)
     <-> (In f (subfeatures (root m)) /\ vs = variants f /\ vs <> [])).
Proof. exact source_variation_points. Qed.
Print Assumptions C16_source_variation_points.

(* "returns a value, without raising, on every well-formed model including the root alone" *)
Theorem C16_source_total : forall m fuel, (fuel_tree (root m) <= fuel)%nat -> rels_nonempty (root m) ->
  (exists v, py_count_leaf_features fuel m = Ok v) /\ (exists v, py_get_leaf_features fuel m = Ok v) /\
  (exists v, py_max_depth_tree fuel m = Ok v) /\ (exists v, py_average_branching_factor fuel m 2%Z = Ok v).
Proof. exact source_tree_ops_total. Qed.
Print Assumptions C16_source_total.

(* the operation objects report the function's value whatever they executed before *)
Theorem C16_source_objects : forall fuel m,
  (forall s, rmap py_FMCountLeafs_get_result (py_FMCountLeafs_execute fuel s m) = py_count_leaf_features fuel m) /\
  (forall s, rmap py_FMLeafFeatures_get_result (py_FMLeafFeatures_execute fuel s m) = py_get_leaf_features fuel m) /\
  (forall s, rmap py_FMMaxDepthTree_get_result (py_FMMaxDepthTree_execute fuel s m) = py_max_depth_tree fuel m) /\
  (forall s, rmap py_FMAverageBranchingFactor_get_result (py_FMAverageBranchingFactor_execute fuel s m)
             = py_average_branching_factor fuel m 2%Z) /\
  (forall s, rmap py_FMVariationPoints_get_result (py_FMVariationPoints_execute fuel s m) = py_variation_points fuel m) /\
  (forall s x, rmap py_FMFeatureAncestors_get_result
                 (py_FMFeatureAncestors_execute fuel (py_FMFeatureAncestors_set_feature s x) m)
               = py_get_feature_ancestors fuel x).
Proof.
  intros fuel m.
  exact (conj (fun s => src_obj_count_leafs fuel s m) (conj (fun s => src_obj_leaf_features fuel s m)
        (conj (fun s => src_obj_max_depth fuel s m) (conj (fun s => src_obj_abf fuel s m)
        (conj (fun s => src_obj_variation_points fuel s m) (fun s x => src_obj_ancestors fuel s x m)))))).
Qed.
Print Assumptions C16_source_objects.

Definition ex16 : fm :=
  {| root := Feature (mk_info "R")
       [Relation 1 1 [Feature (mk_info "A") [Relation 0 1 [Feature (mk_info "B") [Relation 1 2 [leaf "C"; leaf "D"]]]]];
        Relation 0 1 [leaf "E"]];
     ctcs := [] |}.
Example C16_nonvacuous :
  rels_nonempty (root ex16) /\ max_depth_tree ex16 = 3%Z /\ count_leafs ex16 = 3%Z
  /\ average_branching_factor ex16 = 167%Z
  /\ average_branching_factor {| root := leaf "solo"; ctcs := [] |} = 0%Z.
Proof. split; [repeat constructor; discriminate | vm_compute; repeat split]. Qed.
Print Assumptions C16_nonvacuous.
