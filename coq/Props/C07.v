(* Props/C07.v — C07: FeatureIDE round trip returns the same model, at any number of cycles.
   The XML element tree is what ElementTree builds / parses; that
   ET.parse (minidom.toprettyxml (ET.tostring x)) = x (tags, attributes, child order, text of text-only
   elements) is the external-library hypothesis validated by suites W-fide / R-fide. *)
From Coq Require Import List Bool String ZArith.
From FM Require Import Base.Result Base.AstOp Model.Ast Model.FM Model.PFM Model.Sem Format.Xml Model.PyRt Model.Loc
     Gen.Tables_fide Gen.Src_fide Gen.Src_fider Proofs.FideFacts Proofs.SrcFideFacts Proofs.SrcFideReaderFacts.
Import ListNotations.
Local Open Scope list_scope.

Theorem C07_roundtrip : forall m, fide_ok m = true ->
  exists x pm, fide_write m = Ok x /\ fide_read x = Ok pm /\ erase_fm pm = fide_norm m.
Proof. exact fide_roundtrip. Qed.
Print Assumptions C07_roundtrip.

(* what the normal form keeps: the tree (names, grouping, abstract flags) unchanged, and constraints
   one-to-one logically equivalent *)
Theorem C07_norm_tree : forall m, root (fide_norm m) = root m.
Proof. exact fide_norm_tree. Qed.
Print Assumptions C07_norm_tree.

Theorem C07_norm_constraints : forall m σ,
  map (fun c => eval σ (c_ast c)) (ctcs (fide_norm m)) = map (fun c => eval σ (c_ast c)) (ctcs m).
Proof. exact fide_norm_sem. Qed.
Print Assumptions C07_norm_constraints.

(* repeating the cycle changes nothing further: the normal form is in the fragment and is a fixed point *)
Theorem C07_norm_ok : forall m, fide_ok m = true -> fide_ok (fide_norm m) = true.
Proof. exact fide_norm_ok. Qed.
Print Assumptions C07_norm_ok.

Theorem C07_norm_idempotent : forall m, fide_norm (fide_norm m) = fide_norm m.
Proof. exact fide_norm_idempotent. Qed.
Print Assumptions C07_norm_idempotent.

Theorem C07_cycles : forall m, fide_ok m = true ->
  exists x pm, fide_write (fide_norm m) = Ok x /\ fide_read x = Ok pm /\ erase_fm pm = fide_norm m.
Proof.
  intros m H. destruct (fide_roundtrip (fide_norm m) (fide_norm_ok m H)) as (x & pm & H1 & H2 & H3).
  exists x, pm. rewrite fide_norm_idempotent in H3. auto.
Qed.
Print Assumptions C07_cycles.

(* a model without constraints round-trips too (identity) *)
Theorem C07_no_constraints : forall m, fide_ok m = true -> ctcs m = [] ->
  exists x pm, fide_write m = Ok x /\ fide_read x = Ok pm /\ erase_fm pm = m.
Proof. exact fide_no_constraints. Qed.
Print Assumptions C07_no_constraints.

Definition ex07 : fm :=
  {| root := Feature (mk_info "Root")
       [Relation 1 1 [Feature (mk_info "my feat") [Relation 1 1 [leaf "A"; leaf "B"]]];
        Relation 0 1 [Feature {| f_name := "<x&y>"; f_abstract := VBool true; f_type := TBoolean;
                                 f_cmin := 1; f_cmax := 1; f_attrs := [] |}
                              [Relation 1 2 [leaf "C"; leaf "D"]]]];
     ctcs := [{| c_name := "c1"; c_ast := bin EXCLUDES (term "A") (bin EQUIVALENCE (term "C") (term "my feat")) |};
              {| c_name := "c2"; c_ast := term "D" |}] |}.
Example C07_nonvacuous :
  fide_ok ex07 = true /\
  match fide_write ex07 with
  | Ok x => match fide_read x with Ok pm => Some (erase_fm pm) | Err _ => None end
  | Err _ => None
  end = Some (fide_norm ex07).
Proof. vm_compute. split; reflexivity. Qed.
Print Assumptions C07_nonvacuous.

(* ---- the pure helper functions of featureide_writer.py about the TRANSLATED SOURCE (Gen/Src_fide.v, regenerated on every
   run; DESIGN §10): the element tag, the attribute dict and the intermediate constraint dicts are the model's.  (The functions
   that assemble ElementTree elements mutate shared XML objects; they are tied by suite W-fide only.) ---- *)
Theorem C07_source_tag_and_attributes : forall f anc,
  py__tag_element (f, anc) = fide_tag f /\ py__get_attributes (f, anc) = fide_attributes (hd_error anc) f.
Proof. intros f anc. exact (conj (src_fide_tag (f, anc)) (src_fide_attributes f anc)). Qed.
Print Assumptions C07_source_tag_and_attributes.

Theorem C07_source_constraint_info : forall n fuel, (fuel_node n <= fuel)%nat ->
  py__get_ctc_info fuel n = rmap cinfo_aval (fide_ctc_info n).
Proof. exact src_fide_ctc_info. Qed.
Print Assumptions C07_source_constraint_info.

Theorem C07_source_constraints_listing : forall cs fuel, (fuel_ctcs cs <= fuel)%nat ->
  rmap (fun _ => tt) (py__get_constraints_info fuel cs)
  = rmap (fun _ => tt) (mapM (fun c => match pretty_str (c_ast c) with Err e => Err e | Ok _ => fide_ctc_info (c_ast c) end) cs).
Proof. exact src_fide_constraints_info_write. Qed.
Print Assumptions C07_source_constraints_listing.

(* ---- the constraint half of the READER about the translated source (FeatureIDEReader._parse_rule and _read_constraints,
   Gen/Src_fider.v, regenerated on every run; DESIGN §10): `node.left = …` on the Node the function has just created is a
   rebinding, an Element is the tree value of Format/Xml.v.  The translated functions ARE the model's, errors included
   (a missing operand: IndexError; an unknown tag: the unbound `node`; an empty <var>: the library's exception). ---- *)
Theorem C07_source_reader_rule : forall w rule fuel, (xml_depth rule <= fuel)%nat ->
  py_FeatureIDEReader__parse_rule fuel w rule = fide_parse_rule rule.
Proof. exact src_fide_parse_rule. Qed.
Print Assumptions C07_source_reader_rule.

Theorem C07_source_reader_constraints : forall w ctcs_root, exists n0, forall fuel, (n0 <= fuel)%nat ->
  py_FeatureIDEReader__read_constraints fuel w ctcs_root = fide_read_constraints ctcs_root.
Proof. exact src_fide_read_constraints. Qed.
Print Assumptions C07_source_reader_constraints.
