(* Props/C06.v — C06: AFM round trip returns the same model, at any number of cycles.
   The ANTLR parser (afmparser) is external: [antlr] is universally quantified and its one assumed
   property — parsing the text rendered from the writer's syntax tree returns that tree — is an
   explicit premise, validated by suite P-afm on every generated model. *)
From Coq Require Import List Bool String ZArith Permutation.
From FM Require Import Base.Result Model.Ast Model.FM Model.PFM Format.Afm Base.Str Model.PyRt Model.Loc Gen.Src_afm
     Proofs.PositionalFacts Proofs.AfmFacts Proofs.SrcAfmFacts.
Import ListNotations.
Local Open Scope list_scope.

(* reader(parse tree of the writer) = the normal form, with correct back pointers *)
Theorem C06_roundtrip_tree : forall m, afm_ok m = true ->
  exists d, afm_cst m = Ok d /\ afm_read_cst d = Ok (annotate_fm (afm_norm m)).
Proof. exact afm_roundtrip_cst. Qed.
Print Assumptions C06_roundtrip_tree.

(* end to end, for any parser that inverts the rendering on writer output *)
Theorem C06_roundtrip : forall (antlr : string -> option adoc),
  (forall m d, afm_ok m = true -> afm_cst m = Ok d -> antlr (afm_render d) = Some d) ->
  forall m, afm_ok m = true ->
  exists t pm, afm_write m = Ok t /\ afm_read antlr t = Ok pm /\ erase_fm pm = afm_norm m.
Proof. exact afm_roundtrip. Qed.
Print Assumptions C06_roundtrip.

Theorem C06_cycles : forall (antlr : string -> option adoc),
  (forall m d, afm_ok m = true -> afm_cst m = Ok d -> antlr (afm_render d) = Some d) ->
  forall m, afm_ok m = true ->
  exists t pm, afm_write (afm_norm m) = Ok t /\ afm_read antlr t = Ok pm /\ erase_fm pm = afm_norm m.
Proof. exact afm_cycles. Qed.
Print Assumptions C06_cycles.

(* the normal form keeps names, the multiset of relations per parent, attributes (inside the features) and the
   constraint trees; only the order single-children-before-groups and the constraint names change *)
Theorem C06_norm_names : forall m, Permutation (names (root (afm_norm m))) (names (root m)).
Proof. exact afm_norm_names. Qed.
Print Assumptions C06_norm_names.
Theorem C06_norm_relations : forall f, Permutation (subrelations_keys (afm_norm_feature f)) (subrelations_keys f).
Proof. exact afm_norm_relations. Qed.
Print Assumptions C06_norm_relations.
Theorem C06_norm_constraints : forall m, map c_ast (ctcs (afm_norm m)) = map c_ast (ctcs m).
Proof. exact afm_norm_constraints. Qed.
Print Assumptions C06_norm_constraints.
Theorem C06_norm_ok : forall m, afm_ok m = true -> afm_ok (afm_norm m) = true.
Proof. exact afm_norm_ok. Qed.
Print Assumptions C06_norm_ok.
Theorem C06_norm_idempotent : forall m, afm_ok m = true -> afm_norm (afm_norm m) = afm_norm m.
Proof. exact afm_norm_idempotent. Qed.
Print Assumptions C06_norm_idempotent.

(* a real value is written in positional notation: the text the writer produces for it contains no exponent mark (the
   grammar's DOUBLE token has none; the writer used to write Python's repr, 1e+16, which its own reader rejected) *)
Theorem C06_real_values_without_exponent : forall r t rr, afm_value (VFloat r) = Ok (AvDouble t rr) -> no_e t = true.
Proof.
  intros r t rr H. cbn [afm_value] in H. destruct (py_positional r) as [t'|] eqn:E; [|discriminate].
  injection H as <- _. exact (py_positional_no_exponent _ _ E).
Qed.
Print Assumptions C06_real_values_without_exponent.

Example C06_nonvacuous : afm_ok afm_ex_model = true /\ afm_norm afm_ex_model <> afm_ex_model.
Proof. split; [exact ex_ok | exact ex_moved]. Qed.
Print Assumptions C06_nonvacuous.

(* ---- the writer half about the TRANSLATED SOURCE of afm_writer.py (Gen/Src_afm.v, the class AFMWriter as a state record,
   regenerated on every run; DESIGN §10): whatever the hand model writes, the translated transform() returns — for every model
   whose real values have a pointed positional spelling (every genuine float repr: C06_source_real_repr_pointed; the code
   appends ".0" otherwise, sa_unpointed_float_differs) — and a library error of the model is a library error of the code. ---- *)
Theorem C06_source_writer : forall path m fuel t, (fuel_model m <= fuel)%nat ->
  afm_model_pointed m = true -> afm_write m = Ok t ->
  py_AFMWriter_transform fuel (py_AFMWriter_new path m) = Ok t.
Proof. exact src_afm_transform. Qed.
Print Assumptions C06_source_writer.

Theorem C06_source_writer_library_error : forall path m fuel, (fuel_model m <= fuel)%nat ->
  afm_write m = Err FlamaException -> py_AFMWriter_transform fuel (py_AFMWriter_new path m) = Err FlamaException.
Proof. exact src_afm_transform_library_error. Qed.
Print Assumptions C06_source_writer_library_error.

Theorem C06_source_constraint_text : forall w n fuel ex, (fuel_node n <= fuel)%nat -> afm_expr n = Ok ex ->
  py_AFMWriter_recursive_constraint_read fuel w n = Ok (afm_render_expr ex).
Proof. exact src_afm_expr. Qed.
Print Assumptions C06_source_constraint_text.
