(* Props/C14.v — C14: core features are exactly the always-selected features of the tree.
   [sem σ f]: f is selected in σ and its sub-tree obeys the tree rules; [valid m σ]: tree rules from
   the root plus every cross-tree constraint. *)
From Coq Require Import List Bool String ZArith.
From FM Require Import Base.Result Model.FM Model.Sem Model.Ops Model.PyRt Model.Loc Gen.Src_ops Gen.Src_opobj Proofs.C14Facts
     Proofs.SrcCoreFacts Proofs.SrcTieC14.
From Coq Require Import Permutation.
Import ListNotations.
Local Open Scope list_scope.

(* every returned feature is present in every valid configuration (with or without constraints) *)
Theorem C14_sound : forall m σ x,
  valid m σ = true -> In x (core_features (root m)) -> σ (name x) = true.
Proof. exact core_sound_model. Qed.
Print Assumptions C14_sound.

Theorem C14_sound_tree : forall σ f x, sem σ f = true -> In x (core_features f) -> σ (name x) = true.
Proof. exact core_sound. Qed.
Print Assumptions C14_sound_tree.

(* returned once *)
Theorem C14_once : forall f, NoDup (names f) -> NoDup (map name (core_features f)).
Proof. exact core_once. Qed.
Print Assumptions C14_once.

(* the root is always included *)
Theorem C14_root : forall f, In f (core_features f).
Proof. exact core_root. Qed.
Print Assumptions C14_root.

(* without cross-tree constraints the result is exactly the always-selected set: a name selected by
   every selection satisfying the tree rules is a core feature *)
Theorem C14_complete : forall f x,
  NoDup (names f) -> Forall rel_sane (subrelations f) ->
  In x (names f) -> (forall σ, sem σ f = true -> σ x = true) -> In x (map name (core_features f)).
Proof. exact core_complete. Qed.
Print Assumptions C14_complete.

(* ---- the same about the TRANSLATED SOURCE of get_core_features (the work-list loop the code runs;
   Gen/Src_ops.v, regenerated on every run; DESIGN §10) ---- *)
Theorem C14_source_is_model : forall m fuel, (fuel_tree (root m) <= fuel)%nat ->
  exists l, py_get_core_features fuel m = Ok l /\ Permutation (map fst l) (core_features (root m)).
Proof. exact src_get_core_features. Qed.
Print Assumptions C14_source_is_model.

Theorem C14_source_sound : forall m fuel σ, (fuel_tree (root m) <= fuel)%nat -> valid m σ = true ->
  exists l, py_get_core_features fuel m = Ok l /\ forall x, In x l -> σ (name (fst x)) = true.
Proof. exact source_core_sound. Qed.
Print Assumptions C14_source_sound.

Theorem C14_source_once_root : forall m fuel, (fuel_tree (root m) <= fuel)%nat -> NoDup (names (root m)) ->
  exists l, py_get_core_features fuel m = Ok l /\ NoDup (map (fun x => name (fst x)) l)
            /\ In (root m) (map fst l).
Proof. exact source_core_once. Qed.
Print Assumptions C14_source_once_root.

Theorem C14_source_complete : forall m fuel x, (fuel_tree (root m) <= fuel)%nat ->
  NoDup (names (root m)) -> Forall rel_sane (subrelations (root m)) -> In x (names (root m)) ->
  (forall σ, sem σ (root m) = true -> σ x = true) ->
  exists l, py_get_core_features fuel m = Ok l /\ In x (map (fun y => name (fst y)) l).
Proof. exact source_core_complete. Qed.
Print Assumptions C14_source_complete.

(* the operation object, whatever it executed before *)
Theorem C14_source_object : forall m fuel s σ, (fuel_tree (root m) <= fuel)%nat -> valid m σ = true ->
  exists st, py_FMCoreFeatures_execute fuel s m = Ok st /\
             forall x, In x (py_FMCoreFeatures_get_result st) -> σ (name (fst x)) = true.
Proof. exact source_core_object. Qed.
Print Assumptions C14_source_object.

Definition ex14 : feature :=
  Feature (mk_info "R")
    [Relation 1 1 [Feature (mk_info "M") [Relation 2 2 [leaf "X"; leaf "Y"]]];
     Relation 0 1 [leaf "O"];
     Relation 2 2 [leaf "G1"; leaf "G2"; leaf "G3"];
     Relation 0 0 [leaf "Z"]].

Example C14_nonvacuous :
  map name (core_features ex14) = ["R"; "M"; "X"; "Y"]%string
  /\ sem (sigma_of ["R"; "M"; "X"; "Y"; "G1"; "G3"]%string) ex14 = true.
Proof. vm_compute. split; reflexivity. Qed.
Print Assumptions C14_nonvacuous.
