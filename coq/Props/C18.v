(* Props/C18.v — C18: constraint classification and splitting are semantically sound.
   [node_wf]: a well-formed logical constraint over names; [eval σ]: truth value under σ.
   The splitting theorems are conditional on the fuelled transcriptions returning [Ok] (fuel
   exhaustion is [Err OtherExn], which the correspondence suite K never observes) and carry [no_xe]
   (no XOR / EQUIVALENCE) because flamapy.core's simplify_formula is wrong for these two operators
   (open finding; the two [..._refuted] theorems are the witnesses). *)
From Coq Require Import List Bool Ascii String ZArith.
From FM Require Import Base.Result Base.Str Base.AstOp Model.Ast Model.FM Model.Ctc Model.Queries Model.Sem
     Model.PyRt Model.Loc Gen.Src_fm Proofs.C18Facts Proofs.SrcCtcFacts Proofs.SrcSplitFacts Proofs.SrcTieC18.
Import ListNotations.
Local Open Scope list_scope.

Theorem C18_requires_sound : forall n, node_wf n = true -> is_requires n = Ok true ->
  exists l r, left_right n = Ok (DStr l, DStr r) /\ forall σ, eval σ n = Some (implb (σ l) (σ r)).
Proof. exact requires_sound. Qed.
Print Assumptions C18_requires_sound.

Theorem C18_excludes_sound : forall n, node_wf n = true -> is_excludes n = Ok true ->
  exists l r, left_right n = Ok (DStr l, DStr r) /\ forall σ, eval σ n = Some (negb (σ l && σ r)).
Proof. exact excludes_sound. Qed.
Print Assumptions C18_excludes_sound.

Theorem C18_forms : forall a b,
  is_requires (bin REQUIRES (term a) (term b)) = Ok true /\
  is_requires (bin IMPLIES (term a) (term b)) = Ok true /\
  is_requires (bin OR (un NOT (term a)) (term b)) = Ok true /\
  is_requires (bin OR (term b) (un NOT (term a))) = Ok true /\
  is_excludes (bin EXCLUDES (term a) (term b)) = Ok true /\
  is_excludes (bin IMPLIES (term a) (un NOT (term b))) = Ok true /\
  is_excludes (bin OR (un NOT (term a)) (un NOT (term b))) = Ok true.
Proof. exact documented_forms. Qed.
Print Assumptions C18_forms.

Theorem C18_form_pairs : forall a b,
  left_right (bin REQUIRES (term a) (term b)) = Ok (DStr a, DStr b) /\
  left_right (bin IMPLIES (term a) (term b)) = Ok (DStr a, DStr b) /\
  left_right (bin OR (un NOT (term a)) (term b)) = Ok (DStr a, DStr b) /\
  left_right (bin OR (term b) (un NOT (term a))) = Ok (DStr a, DStr b) /\
  left_right (bin EXCLUDES (term a) (term b)) = Ok (DStr a, DStr b) /\
  left_right (bin IMPLIES (term a) (un NOT (term b))) = Ok (DStr a, DStr b) /\
  left_right (bin OR (un NOT (term a)) (un NOT (term b))) = Ok (DStr a, DStr b).
Proof. exact documented_pairs. Qed.
Print Assumptions C18_form_pairs.

Theorem C18_no_error : forall n, node_wf n = true ->
  (exists b, is_requires n = Ok b) /\ (exists b, is_excludes n = Ok b) /\ (exists b, is_simple n = Ok b)
  /\ (exists b, is_complex n = Ok b) /\ is_logical n = true.
Proof. exact wf_no_error. Qed.
Print Assumptions C18_no_error.

Theorem C18_simple_def : forall n b1 b2,
  is_requires n = Ok b1 -> is_excludes n = Ok b2 -> is_simple n = Ok (b1 || b2).
Proof. exact simple_def. Qed.
Print Assumptions C18_simple_def.

Theorem C18_complex_def : forall n b, is_simple n = Ok b -> is_complex n = Ok (is_logical n && negb b).
Proof. exact complex_def. Qed.
Print Assumptions C18_complex_def.

Theorem C18_pseudo_xor_strict : forall n parts,
  node_wf n = true -> no_xe n = true -> is_complex n = Ok true -> split_asts n = Ok parts ->
  exists p s, is_pseudocomplex n = Ok p /\ is_strictcomplex n = Ok s /\ xorb p s = true.
Proof. exact pseudo_xor_strict. Qed.
Print Assumptions C18_pseudo_xor_strict.

Theorem C18_pseudo_strict_inside_complex : forall n, is_complex n = Ok false ->
  is_pseudocomplex n = Ok false /\ is_strictcomplex n = Ok false.
Proof. exact pseudo_strict_inside_complex. Qed.
Print Assumptions C18_pseudo_strict_inside_complex.

(* splitting: the conjunction of the parts is equivalent to the constraint (partial: no XOR/EQUIVALENCE) *)
Theorem C18_split_partial : forall n parts,
  node_wf n = true -> no_xe n = true -> split_asts n = Ok parts ->
  Forall (fun p => node_wf p = true) parts /\ forall σ, evalb σ n = forallb (evalb σ) parts.
Proof. exact split_sound. Qed.
Print Assumptions C18_split_partial.

(* the full statement is false of the faithful model — witnesses of the open finding *)
Theorem C18_split_equivalence_refuted : exists n parts σ,
  node_wf n = true /\ split_asts n = Ok parts /\ evalb σ n <> forallb (evalb σ) parts.
Proof. exact split_equivalence_refuted. Qed.
Print Assumptions C18_split_equivalence_refuted.

Theorem C18_split_xor_refuted : exists n parts σ,
  node_wf n = true /\ split_asts n = Ok parts /\ evalb σ n <> forallb (evalb σ) parts.
Proof. exact split_xor_refuted. Qed.
Print Assumptions C18_split_xor_refuted.

Theorem C18_features : forall n, node_wf n = true ->
  NoDup (ctc_features n) /\
  forall s, In s (ctc_features n) <-> (In s (leaf_names n) /\ starts_with_char "'"%char s = false).
Proof. exact features_exact. Qed.
Print Assumptions C18_features.

(* ---- the same about the TRANSLATED SOURCE of the Constraint class and its utilities (Gen/Src_fm.v,
   regenerated from feature_model.py on every run; DESIGN §10) ---- *)
Theorem C18_source_is_model : forall c,
  py_Constraint_is_requires_constraint c = is_requires (c_ast c) /\
  py_Constraint_is_excludes_constraint c = is_excludes (c_ast c) /\
  py_Constraint_is_simple_constraint c = is_simple (c_ast c) /\
  py_Constraint_is_complex_constraint c = is_complex (c_ast c) /\
  py_Constraint_is_logical_constraint c = is_logical (c_ast c) /\
  py_Constraint_is_arithmetic_constraint c = is_arithmetic (c_ast c) /\
  py_Constraint_is_aggregation_constraint c = is_aggregation (c_ast c) /\
  py_Constraint_is_single_feature_constraint c = is_single_feature (c_ast c) /\
  py_left_right_features_from_simple_constraint c = left_right (c_ast c).
Proof.
  intro c.
  exact (conj (src_is_requires c) (conj (src_is_excludes c) (conj (src_is_simple c) (conj (src_is_complex c)
        (conj (src_is_logical c) (conj (src_is_arithmetic c) (conj (src_is_aggregation c)
        (conj (src_is_single_feature c) (src_left_right c))))))))).
Qed.
Print Assumptions C18_source_is_model.

Theorem C18_source_split_formula : forall n fuel, (fuel_node n <= fuel)%nat -> py_split_formula fuel n = split_formula n.
Proof. exact src_split_formula. Qed.
Print Assumptions C18_source_split_formula.

Theorem C18_source_requires_sound : forall c, node_wf (c_ast c) = true ->
  py_Constraint_is_requires_constraint c = Ok true ->
  exists l r, py_left_right_features_from_simple_constraint c = Ok (DStr l, DStr r)
              /\ forall σ, eval σ (c_ast c) = Some (implb (σ l) (σ r)).
Proof. exact source_requires_sound. Qed.
Print Assumptions C18_source_requires_sound.

Theorem C18_source_excludes_sound : forall c, node_wf (c_ast c) = true ->
  py_Constraint_is_excludes_constraint c = Ok true ->
  exists l r, py_left_right_features_from_simple_constraint c = Ok (DStr l, DStr r)
              /\ forall σ, eval σ (c_ast c) = Some (negb (σ l && σ r)).
Proof. exact source_excludes_sound. Qed.
Print Assumptions C18_source_excludes_sound.

Theorem C18_source_no_error : forall c, node_wf (c_ast c) = true ->
  (exists b, py_Constraint_is_requires_constraint c = Ok b) /\
  (exists b, py_Constraint_is_excludes_constraint c = Ok b) /\
  (exists b, py_Constraint_is_simple_constraint c = Ok b) /\
  (exists b, py_Constraint_is_complex_constraint c = Ok b) /\
  py_Constraint_is_logical_constraint c = true.
Proof. exact source_no_error. Qed.
Print Assumptions C18_source_no_error.

Theorem C18_source_features : forall c fuel, (fuel_node (c_ast c) <= fuel)%nat -> node_wf (c_ast c) = true ->
  exists l, py_Constraint_get_features fuel c = Ok (map DStr l) /\ NoDup l /\
            forall s, In s l <-> (In s (leaf_names (c_ast c)) /\ starts_with_char "'"%char s = false).
Proof. exact source_features. Qed.
Print Assumptions C18_source_features.

(* split_constraint and the pseudo- / strict-complex reports of the translated source: the fuel the intermediate
   formulas need is not a simple function of the input, so "for every large enough fuel" *)
Theorem C18_source_split_is_model : forall c, exists n0, forall fuel, (n0 <= fuel)%nat ->
  rmap (map c_ast) (py_split_constraint fuel c) = split_asts (c_ast c).
Proof. exact src_split_constraint. Qed.
Print Assumptions C18_source_split_is_model.

Theorem C18_source_split_partial : forall c parts, node_wf (c_ast c) = true -> no_xe (c_ast c) = true ->
  split_asts (c_ast c) = Ok parts ->
  exists n0, forall fuel, (n0 <= fuel)%nat ->
    exists l, py_split_constraint fuel c = Ok l /\ map c_ast l = parts /\
              Forall (fun p => node_wf (c_ast p) = true) l /\
              forall σ, evalb σ (c_ast c) = forallb (evalb σ) (map c_ast l).
Proof. exact source_split_sound. Qed.
Print Assumptions C18_source_split_partial.

Theorem C18_source_split_names : forall c fuel l, py_split_constraint fuel c = Ok l ->
  map c_name l = map (fun i => (c_name c ++ z_to_string (Z.of_nat i))%string) (seq 0 (List.length l)).
Proof. exact src_split_constraint_names. Qed.
Print Assumptions C18_source_split_names.

Theorem C18_source_pseudo_strict_is_model : forall c, exists n0, forall fuel, (n0 <= fuel)%nat ->
  py_Constraint_is_pseudocomplex_constraint fuel c = is_pseudocomplex (c_ast c) /\
  py_Constraint_is_strictcomplex_constraint fuel c = is_strictcomplex (c_ast c).
Proof. exact source_pseudo_strict. Qed.
Print Assumptions C18_source_pseudo_strict_is_model.

Theorem C18_source_new_ctc_name : forall names prefix, exists n0, forall fuel, (n0 <= fuel)%nat ->
  py_get_new_ctc_name fuel names prefix = Ok (get_new_ctc_name names prefix).
Proof. exact src_get_new_ctc_name. Qed.
Print Assumptions C18_source_new_ctc_name.

Example C18_nonvacuous :
  let n := bin AND (bin IMPLIES (term "A") (term "B")) (bin OR (un NOT (term "C")) (bin EXCLUDES (term "A") (term "D"))) in
  node_wf n = true /\ no_xe n = true /\ is_complex n = Ok true
  /\ exists parts, split_asts n = Ok parts /\ List.length parts = 2%nat.
Proof. vm_compute. repeat split. eexists. split; reflexivity. Qed.
Print Assumptions C18_nonvacuous.
