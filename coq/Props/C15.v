(* Props/C15.v — C15: atomic sets partition the features into always-co-selected groups *)
From Coq Require Import List Bool String ZArith Permutation.
From FM Require Import Model.FM Model.Sem Model.Ops Proofs.C15Facts.
Import ListNotations.
Local Open Scope list_scope.

(* partition: all sets together hold every feature name exactly once (as a multiset) ... *)
Theorem C15_partition : forall m, Permutation (List.concat (atomic_sets m)) (names (root m)).
Proof. exact atomic_partition. Qed.
Print Assumptions C15_partition.

(* ... and no set is empty *)
Theorem C15_nonempty : forall m s, In s (atomic_sets m) -> s <> [].
Proof. exact atomic_nonempty. Qed.
Print Assumptions C15_nonempty.

(* two members of one set are both selected or both unselected in every configuration obeying the
   tree rules (hence in every valid configuration: constraints only remove configurations) *)
Theorem C15_coselected : forall m σ s a b,
  sem σ (root m) = true -> In s (atomic_sets m) -> In a s -> In b s -> σ a = σ b.
Proof. exact atomic_coselected. Qed.
Print Assumptions C15_coselected.

Theorem C15_coselected_valid : forall m σ s a b,
  valid m σ = true -> In s (atomic_sets m) -> In a s -> In b s -> σ a = σ b.
Proof.
  intros m σ s a b H. apply atomic_coselected.
  unfold valid in H. apply andb_prop in H. exact (proj1 H).
Qed.
Print Assumptions C15_coselected_valid.

(* a mandatory child shares the set of its parent *)
Theorem C15_chains : forall f c,
  In c (children f) -> child_is_mandatory f c = true -> incl (closure c) (closure f).
Proof. exact atomic_chain. Qed.
Print Assumptions C15_chains.

Definition ex15 : fm :=
  {| root := Feature (mk_info "R")
       [Relation 0 1 [leaf "O"];
        Relation 1 1 [Feature (mk_info "M") [Relation 1 1 [leaf "MM"]; Relation 1 2 [leaf "A"; leaf "B"]]]];
     ctcs := [] |}.
Example C15_nonvacuous :
  atomic_sets ex15 = [["R"; "M"; "MM"]; ["O"]; ["A"]; ["B"]]%string
  /\ sem (sigma_of ["R"; "M"; "MM"; "B"]%string) (root ex15) = true.
Proof. vm_compute. split; reflexivity. Qed.
Print Assumptions C15_nonvacuous.
