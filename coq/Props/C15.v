(* Props/C15.v — C15: atomic sets partition the features into always-co-selected groups *)
From Coq Require Import List Bool String ZArith Permutation.
From FM Require Import Base.Result Model.FM Model.Sem Model.Ops Model.PyRt Model.Loc Gen.Src_atomic Proofs.C15Facts Proofs.SrcAtomicFacts.
Import ListNotations.
Local Open Scope list_scope.

(* partition: all sets together hold every feature name exactly once (as a multiset) ... *)
Theorem C15_partition : forall m, Permutation (List.concat (atomic_sets m)) (names (root m)).
Proof. exact atomic_partition. Qed.
Print Assumptions C15_partition.

(* ... and no set is empty *)
Theorem C15_nonempty : forall m s, In s (atomic_sets m) -> s <> [].
Proof. exact atomic_nonempty. Qed.
Print Assumptions C15_nonempty.

(* two members of one set are both selected or both unselected in every configuration obeying the
   tree rules (hence in every valid configuration: constraints only remove configurations) *)
Theorem C15_coselected : forall m σ s a b,
  sem σ (root m) = true -> In s (atomic_sets m) -> In a s -> In b s -> σ a = σ b.
Proof. exact atomic_coselected. Qed.
Print Assumptions C15_coselected.

Theorem C15_coselected_valid : forall m σ s a b,
  valid m σ = true -> In s (atomic_sets m) -> In a s -> In b s -> σ a = σ b.
Proof.
  intros m σ s a b H. apply atomic_coselected.
  unfold valid in H. apply andb_prop in H. exact (proj1 H).
Qed.
Print Assumptions C15_coselected_valid.

(* a mandatory child shares the set of its parent *)
Theorem C15_chains : forall f c,
  In c (children f) -> child_is_mandatory f c = true -> incl (closure c) (closure f).
Proof. exact atomic_chain. Qed.
Print Assumptions C15_chains.

Definition ex15 : fm :=
  {| root := Feature (mk_info "R")
       [Relation 0 1 [leaf "O"];
        Relation 1 1 [Feature (mk_info "M") [Relation 1 1 [leaf "MM"]; Relation 1 2 [leaf "A"; leaf "B"]]]];
     ctcs := [] |}.
Example C15_nonvacuous :
  atomic_sets ex15 = [["R"; "M"; "MM"]; ["O"]; ["A"]; ["B"]]%string
  /\ sem (sigma_of ["R"; "M"; "MM"; "B"]%string) (root ex15) = true.
Proof. vm_compute. split; reflexivity. Qed.
Print Assumptions C15_nonvacuous.

(* ---- the same about the TRANSLATED SOURCE of fm_atomic_sets.py (Gen/Src_atomic.v, regenerated on every run; DESIGN §10).
   The Python code shares and mutates set OBJECTS (the current set is at once an element of the result list and an argument of the
   recursion); the translation threads a store of sets, and the theorem says that what comes out — the sets, in order, with their
   members in order — is the model's, for every model with distinct feature names (needed: a Python set silently drops a second
   feature of the same name, C15_source_needs_distinct_names). ---- *)
Theorem C15_source_is_model : forall m fuel, (fuel_tree (root m) <= fuel)%nat -> NoDup (names (root m)) ->
  exists l, py_get_atomic_sets fuel m = Ok l /\ map (map (fun x => name (fst x))) l = atomic_sets m.
Proof. exact src_get_atomic_sets. Qed.
Print Assumptions C15_source_is_model.

Theorem C15_source_partition : forall m fuel, (fuel_tree (root m) <= fuel)%nat -> NoDup (names (root m)) ->
  exists l, py_get_atomic_sets fuel m = Ok l /\
            Permutation (List.concat (map (map (fun x => name (fst x))) l)) (names (root m)) /\
            (forall s, In s l -> s <> []).
Proof.
  intros m fuel Hf Hn. destruct (src_get_atomic_sets m fuel Hf Hn) as (l & Hl & He).
  exists l. split; [exact Hl|]. split.
  - rewrite He. apply atomic_partition.
  - intros s Hs Hnil. subst s.
    assert (Hin : In [] (atomic_sets m)) by (rewrite <- He; apply (in_map (map (fun x => name (fst x))) l [] Hs)).
    exact (atomic_nonempty m [] Hin eq_refl).
Qed.
Print Assumptions C15_source_partition.

Theorem C15_source_coselected : forall m fuel σ, (fuel_tree (root m) <= fuel)%nat -> NoDup (names (root m)) ->
  valid m σ = true ->
  exists l, py_get_atomic_sets fuel m = Ok l /\
            forall s a b, In s l -> In a s -> In b s -> σ (name (fst a)) = σ (name (fst b)).
Proof.
  intros m fuel σ Hf Hn Hv. destruct (src_get_atomic_sets m fuel Hf Hn) as (l & Hl & He).
  exists l. split; [exact Hl|]. intros s a b Hs Ha Hb.
  apply (C15_coselected_valid m σ (map (fun x => name (fst x)) s)); [exact Hv| | |].
  - rewrite <- He. now apply in_map.
  - now apply (in_map (fun x => name (fst x))).
  - now apply (in_map (fun x => name (fst x))).
Qed.
Print Assumptions C15_source_coselected.

Theorem C15_source_needs_distinct_names : exists m,
  match py_get_atomic_sets (fuel_tree (root m)) m with
  | Ok l => map (map (fun x => name (fst x))) l <> atomic_sets m
  | Err _ => True
  end.
Proof. exact src_get_atomic_sets_needs_distinct_names. Qed.
Print Assumptions C15_source_needs_distinct_names.
