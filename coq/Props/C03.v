(* Props/C03.v — C03: model queries agree with the feature tree they describe.
   Only statements, each closed by [exact] of a lemma proved in Proofs/, with Print Assumptions. *)
From Coq Require Import List Bool String ZArith Permutation.
From FM Require Import Base.Result Model.FM Model.Queries Model.Heap Model.PyRt Model.Loc Gen.Src_fm
     Proofs.FMFacts Proofs.QueriesFacts Proofs.HeapFacts Proofs.SrcFmFacts Proofs.SrcTieC03.
Import ListNotations.
Local Open Scope list_scope.

(* the feature listing contains each feature of the tree exactly once: it is a permutation of the
   structural pre-order enumeration of the tree, whatever the tree *)
Theorem C03_features_once : forall m, Permutation (get_features m) (subfeatures (root m)).
Proof. exact get_features_perm. Qed.
Print Assumptions C03_features_once.

Theorem C03_features_count : forall m, List.length (get_features m) = fsize (root m).
Proof. exact get_features_length. Qed.
Print Assumptions C03_features_count.

(* the relation listing is the structural pre-order enumeration of the relations (definitional in
   the model; the correspondence suite Q ties it to FeatureModel.get_relations) *)
Theorem C03_relations_once : forall m, get_relations m = subrelations (root m).
Proof. reflexivity. Qed.
Print Assumptions C03_relations_once.

(* lookup by name returns the feature carrying that name; None for an absent name *)
Theorem C03_lookup : forall m f,
  wf_names (root m) = true -> In f (get_features m) -> get_feature_by_name m (name f) = Some f.
Proof. exact lookup_by_name. Qed.
Print Assumptions C03_lookup.

Theorem C03_lookup_missing : forall m n,
  ~ In n (map name (get_features m)) -> get_feature_by_name m n = None.
Proof. exact lookup_missing. Qed.
Print Assumptions C03_lookup_missing.

(* parent / children / root mirror the tree *)
Theorem C03_parent : forall m p c,
  In (Some p, c) (get_features_ctx m) -> In c (children p) /\ In p (subfeatures (root m)).
Proof. exact get_features_ctx_parent. Qed.
Print Assumptions C03_parent.

Theorem C03_root : forall m o c, In (o, c) (get_features_ctx m) -> o = None -> c = root m.
Proof. exact get_features_ctx_root. Qed.
Print Assumptions C03_root.

Theorem C03_ctx_is_listing : forall m, map snd (get_features_ctx m) = get_features m.
Proof. exact get_features_ctx_snd. Qed.
Print Assumptions C03_ctx_is_listing.

(* every relation with 0 <= min <= max <= n, n >= 1 is in exactly one class ... *)
Theorem C03_class_exactly_one : forall r, card_hyp r -> count_true (flags r) = 1.
Proof. exact class_exactly_one. Qed.
Print Assumptions C03_class_exactly_one.

(* ... and that class is a function of (min, max, n) only: [classify3] *)
Theorem C03_class_is_function_of_cards : forall r,
  card_hyp r ->
  rel_is_mandatory r = rclass_eqb (classify r) CMandatory /\
  rel_is_optional r = rclass_eqb (classify r) COptional /\
  rel_is_alternative r = rclass_eqb (classify r) CAlternative /\
  rel_is_or r = rclass_eqb (classify r) COr /\
  rel_is_mutex r = rclass_eqb (classify r) CMutex /\
  rel_is_cardinal r = rclass_eqb (classify r) CCardinal.
Proof. exact rel_pred_is_class. Qed.
Print Assumptions C03_class_is_function_of_cards.

(* filtered listings = filter of the full listing by what the classification implies *)
Theorem C03_mandatory_listing : forall m,
  wf (root m) = true ->
  get_mandatory_features m
  = map snd (filter (fun x => member_of_class CMandatory (fst x) (snd x)) (get_features_ctx m)).
Proof. intros m H. apply mandatory_listing_spec. apply wf_all_rels_ok. exact H. Qed.
Print Assumptions C03_mandatory_listing.

Theorem C03_optional_listing : forall m,
  wf (root m) = true ->
  get_optional_features m
  = map snd (filter (fun x => member_of_class COptional (fst x) (snd x)) (get_features_ctx m)).
Proof. intros m H. apply optional_listing_spec. apply wf_all_rels_ok. exact H. Qed.
Print Assumptions C03_optional_listing.

Theorem C03_group_listings : forall m,
  wf (root m) = true ->
  get_alternative_group_features m = filter (has_group_of_class CAlternative) (get_features m) /\
  get_or_group_features m = filter (has_group_of_class COr) (get_features m).
Proof. intros m H. apply group_listing_spec. apply wf_all_rels_ok. exact H. Qed.
Print Assumptions C03_group_listings.

Theorem C03_group_predicates : forall f,
  rels_ok f ->
  feat_is_alternative_group f = has_group_of_class CAlternative f /\
  feat_is_or_group f = has_group_of_class COr f /\
  feat_is_mutex_group f = has_group_of_class CMutex f /\
  feat_is_cardinality_group f = has_group_of_class CCardinal f.
Proof. exact feat_group_specs. Qed.
Print Assumptions C03_group_predicates.

Theorem C03_type_listings : forall m,
  get_boolean_features m = filter (fun f => ftype_eqb (f_type (info f)) TBoolean) (get_features m) /\
  get_numerical_features m
  = filter (fun f => ftype_eqb (f_type (info f)) TInteger || ftype_eqb (f_type (info f)) TReal)
           (get_features m) /\
  get_string_features m = filter (fun f => ftype_eqb (f_type (info f)) TString) (get_features m).
Proof. exact type_listing_spec. Qed.
Print Assumptions C03_type_listings.

(* ---- "built through the public constructors": feature OBJECTS (Model/Heap.v) and the calls that link them.
   Whatever sequence of Feature(...), add_relation, del relations[k], Relation.add_child and parent assignments a
   client makes, as long as each call respects its guard (a feature is put into a relation only while no relation
   holds it; the relation names its receiver as parent) every reachable state is LINKED: a relation's parent is the
   feature that holds it, and every child's parent pointer is that feature — also after a subtree was moved. *)
Theorem C03_construction_linked : forall ops, guards [] ops = true -> linked (run [] ops).
Proof. exact construction_linked. Qed.
Print Assumptions C03_construction_linked.

(* on linked objects the queries that FOLLOW the parent pointer (get_parent, is_root, Feature.is_mandatory,
   Feature.is_optional — the latter two find the feature among its parent's relations BY NAME) say what the relation
   that holds the feature says, provided sibling names are distinct *)
Theorem C03_parent_pointer : forall h f x r c, linked h -> nth_error h f = Some x -> In r (hf_rels x) ->
  In c (hr_children r) -> h_parent h c = Some f /\ h_is_root h c = false.
Proof. exact h_parent_spec. Qed.
Print Assumptions C03_parent_pointer.

Theorem C03_pointer_predicates : forall h f x r c, linked h -> nth_error h f = Some x -> In r (hf_rels x) ->
  In c (hr_children r) -> NoDup (map (h_name h) (h_children h f)) ->
  h_is_mandatory h c = hrel_is_mandatory r /\ h_is_optional h c = hrel_is_optional r.
Proof. intros. split; [eapply h_is_mandatory_spec|eapply h_is_optional_spec]; eassumption. Qed.
Print Assumptions C03_pointer_predicates.

(* non-vacuity (a guarded run that MOVES a subtree) and the need for the guard (a feature attached twice) *)
(* ---- the same about the TRANSLATED SOURCE of Relation / Feature / FeatureModel (Gen/Src_fm.v, regenerated from
   feature_model.py on every run; DESIGN §10).  A feature OBJECT is a located feature (f, anc): the tree value
   with its chain of ancestors — the functional reading of a linked object graph (C03_construction_linked). ---- *)
Theorem C03_source_class_exactly_one : forall r o, card_hyp r -> count_true (src_flags (r, o)) = 1.
Proof. exact source_class_exactly_one. Qed.
Print Assumptions C03_source_class_exactly_one.

Theorem C03_source_class_is_function_of_cards : forall r o, card_hyp r ->
  py_Relation_is_mandatory (r, o) = rclass_eqb (classify r) CMandatory /\
  py_Relation_is_optional (r, o) = rclass_eqb (classify r) COptional /\
  py_Relation_is_alternative (r, o) = rclass_eqb (classify r) CAlternative /\
  py_Relation_is_or (r, o) = rclass_eqb (classify r) COr /\
  py_Relation_is_mutex (r, o) = rclass_eqb (classify r) CMutex /\
  py_Relation_is_cardinal (r, o) = rclass_eqb (classify r) CCardinal.
Proof. exact source_class_is_function_of_cards. Qed.
Print Assumptions C03_source_class_is_function_of_cards.

Theorem C03_source_features_once : forall m fuel, (fuel_tree (root m) <= fuel)%nat ->
  exists l, py_FeatureModel_get_features fuel m = Ok l /\ Permutation (map fst l) (subfeatures (root m))
            /\ List.length l = fsize (root m).
Proof. exact source_features_once. Qed.
Print Assumptions C03_source_features_once.

Theorem C03_source_relations_once : forall m fuel, (fuel_tree (root m) <= fuel)%nat ->
  rmap (map fst) (py_FeatureModel_get_relations fuel m None) = Ok (subrelations (root m)).
Proof. exact source_relations_once. Qed.
Print Assumptions C03_source_relations_once.

Theorem C03_source_parent_root : forall m fuel, (fuel_tree (root m) <= fuel)%nat ->
  exists l, py_FeatureModel_get_features fuel m = Ok l /\
    forall x, In x l ->
      match py_Feature_get_parent x with
      | None => py_Feature_is_root x = true /\ fst x = root m
      | Some p => py_Feature_is_root x = false /\ In (fst x) (children (fst p)) /\ In (fst p) (subfeatures (root m))
      end.
Proof. exact source_parent. Qed.
Print Assumptions C03_source_parent_root.

Theorem C03_source_lookup : forall m fuel f, (fuel_tree (root m) <= fuel)%nat -> wf_names (root m) = true ->
  In f (get_features m) ->
  exists r, py_FeatureModel_get_feature_by_name fuel m (name f) = Ok r /\ option_map fst r = Some f.
Proof. exact source_lookup. Qed.
Print Assumptions C03_source_lookup.

Theorem C03_source_lookup_missing : forall m fuel n, (fuel_tree (root m) <= fuel)%nat ->
  ~ In n (map name (get_features m)) -> py_FeatureModel_get_feature_by_name fuel m n = Ok None.
Proof. exact source_lookup_missing. Qed.
Print Assumptions C03_source_lookup_missing.

Theorem C03_source_feature_predicates : forall f anc,
  py_Feature_is_mandatory (f, anc) = feat_is_mandatory (hd_error anc) f /\
  py_Feature_is_optional (f, anc) = feat_is_optional (hd_error anc) f /\
  py_Feature_is_or_group (f, anc) = feat_is_or_group f /\
  py_Feature_is_alternative_group (f, anc) = feat_is_alternative_group f /\
  py_Feature_is_mutex_group (f, anc) = feat_is_mutex_group f /\
  py_Feature_is_cardinality_group (f, anc) = feat_is_cardinality_group f /\
  py_Feature_is_group (f, anc) = feat_is_group f /\
  py_Feature_is_multiple_group_decomposition (f, anc) = feat_is_multiple_group_decomposition f /\
  py_Feature_is_leaf (f, anc) = feat_is_leaf f /\
  py_Feature_is_boolean (f, anc) = feat_is_boolean f /\
  py_Feature_is_numerical (f, anc) = feat_is_numerical f /\
  py_Feature_is_string (f, anc) = feat_is_string f /\
  py_Feature_is_multifeature (f, anc) = feat_is_multifeature f.
Proof. exact source_feature_predicates. Qed.
Print Assumptions C03_source_feature_predicates.

Theorem C03_source_listings : forall m fuel, (fuel_tree (root m) <= fuel)%nat ->
  (exists l, py_FeatureModel_get_mandatory_features fuel m = Ok l /\ map fst l = get_mandatory_features m) /\
  (exists l, py_FeatureModel_get_optional_features fuel m = Ok l /\ map fst l = get_optional_features m) /\
  (exists l, py_FeatureModel_get_alternative_group_features fuel m = Ok l /\ map fst l = get_alternative_group_features m) /\
  (exists l, py_FeatureModel_get_or_group_features fuel m = Ok l /\ map fst l = get_or_group_features m) /\
  (exists l, py_FeatureModel_get_boolean_features fuel m = Ok l /\ map fst l = get_boolean_features m) /\
  (exists l, py_FeatureModel_get_numerical_features fuel m = Ok l /\ map fst l = get_numerical_features m) /\
  (exists l, py_FeatureModel_get_string_features fuel m = Ok l /\ map fst l = get_string_features m).
Proof. exact source_listings. Qed.
Print Assumptions C03_source_listings.

Example C03_construction_nonvacuous :
  guards [] ex_move = true /\ h_parent (run [] ex_move) 1 = Some 2 /\ h_is_mandatory (run [] ex_move) 1 = true
  /\ guards [] ex_shared = false /\ h_children (run [] ex_shared) 0 = [1; 2]%nat /\ h_parent (run [] ex_shared) 1 = Some 2.
Proof. vm_compute. repeat split; reflexivity. Qed.

(* non-vacuity: a concrete model with mixed relation kinds meets the hypotheses *)
Definition ex_model : fm :=
  {| root := Feature (mk_info "Root")
       [Relation 1 1 [leaf "A"];
        Relation 0 1 [Feature (mk_info "B") [Relation 1 2 [leaf "B1"; leaf "B2"]]];
        Relation 1 1 [leaf "C1"; leaf "C2"; leaf "C3"];
        Relation 0 1 [leaf "D1"; leaf "D2"];
        Relation 2 3 [leaf "E1"; leaf "E2"; leaf "E3"];
        Relation 0 0 [leaf "Z"]];
     ctcs := [] |}.

Example C03_nonvacuous :
  wf (root ex_model) = true /\
  map (fun r => count_true (flags r)) (get_relations ex_model) = [1; 1; 1; 1; 1; 1; 1]%nat /\
  map name (get_mandatory_features ex_model) = ["A"%string].
Proof. vm_compute. repeat split. Qed.
Print Assumptions C03_nonvacuous.
