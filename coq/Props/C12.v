(* Props/C12.v — C12 (PARTIAL): serialisation is pure, deterministic and returns what it wrote.
   What a Gallina model can carry: every writer is modelled as a function  fm -> result string  (or a
   structured document rendered by a function), so in the model a writer step cannot modify the model,
   returns exactly the text it writes, and gives the same text whenever it is repeated; the
   correspondence suites W-* tie each implementation writer to its function, and suite H (the deciding
   part of this check) observes what no model can exhibit: fresh interpreter processes, hash seeds,
   locales and default encodings all produce byte-identical output. *)
From Coq Require Import List Bool String ZArith Permutation.
From FM Require Import Base.Result Model.FM Format.Json Format.Glencoe Format.Xml Format.Uvl Format.Afm Format.Export.
Import ListNotations.
Local Open Scope list_scope.

(* a writer step on the state (model, file contents) *)
Definition writer_step {D} (w : fm -> result D) (st : fm * option (result D)) : (fm * option (result D)) * result D :=
  ((fst st, Some (w (fst st))), w (fst st)).

(* pure: the model is untouched; returned = written; repeating the step changes nothing *)
Theorem C12_step_pure : forall D (w : fm -> result D) st,
  fst (fst (writer_step w st)) = fst st /\ snd (fst (writer_step w st)) = Some (snd (writer_step w st)).
Proof. intros. unfold writer_step. simpl. split; reflexivity. Qed.
Print Assumptions C12_step_pure.

Theorem C12_repeat : forall D (w : fm -> result D) st,
  writer_step w (fst (writer_step w st)) = writer_step w st.
Proof. intros. unfold writer_step. simpl. reflexivity. Qed.
Print Assumptions C12_repeat.

(* the eight writer models are such functions *)
Definition writers_are_functions :
  (fm -> result aval) * (fm -> result aval) * (fm -> result xml) * (fm -> result string) * (fm -> result string)
  * (fm -> result string) * (fm -> result (list string)) * (fm -> result string) :=
  (json_write, glencoe_write, fide_write, uvl_write, afm_write, splot_text, pl_lines, clafer_text).

(* the meaning of the propositional export does not depend on the order of its formulas (the
   implementation's traversal order is not modelled: the lines are compared as a multiset) *)
Theorem C12_pl_order : forall σ d d', Permutation d d' -> pl_sat σ d = pl_sat σ d'.
Proof.
  intros σ d d' H. unfold pl_sat. induction H; simpl; auto.
  - rewrite IHPermutation. reflexivity.
  - rewrite !andb_assoc. f_equal. apply andb_comm.
  - congruence.
Qed.
Print Assumptions C12_pl_order.
