(* Props/C12.v — C12 (PARTIAL): serialisation is pure, deterministic and returns what it wrote.
   What a Gallina model can carry: every writer is modelled as a function  fm -> result string  (or a
   structured document rendered by a function), so in the model a writer step cannot modify the model,
   returns exactly the text it writes, and gives the same text whenever it is repeated; the
   correspondence suites W-* tie each implementation writer to its function, and suite H (the deciding
   part of this check) observes what no model can exhibit: fresh interpreter processes, hash seeds,
   locales and default encodings all produce byte-identical output. *)
From Coq Require Import List Bool String ZArith Permutation.
From FM Require Import Base.Result Model.FM Format.Json Format.Glencoe Format.Xml Format.Uvl Format.Afm Format.Export
     Model.PyRt Gen.Src_json Gen.Src_glencoe Gen.Src_pl Gen.Src_splot Gen.Src_clafer Gen.Src_afm.
Import ListNotations.
Local Open Scope list_scope.

(* a writer step on the state (model, file contents) *)
Definition writer_step {D} (w : fm -> result D) (st : fm * option (result D)) : (fm * option (result D)) * result D :=
  ((fst st, Some (w (fst st))), w (fst st)).

(* pure: the model is untouched; returned = written; repeating the step changes nothing *)
Theorem C12_step_pure : forall D (w : fm -> result D) st,
  fst (fst (writer_step w st)) = fst st /\ snd (fst (writer_step w st)) = Some (snd (writer_step w st)).
Proof. intros. unfold writer_step. simpl. split; reflexivity. Qed.
Print Assumptions C12_step_pure.

Theorem C12_repeat : forall D (w : fm -> result D) st,
  writer_step w (fst (writer_step w st)) = writer_step w st.
Proof. intros. unfold writer_step. simpl. reflexivity. Qed.
Print Assumptions C12_repeat.

(* the eight writer models are such functions *)
Definition writers_are_functions :
  (fm -> result aval) * (fm -> result aval) * (fm -> result xml) * (fm -> result string) * (fm -> result string)
  * (fm -> result string) * (fm -> result (list string)) * (fm -> result string) :=
  (json_write, glencoe_write, fide_write, uvl_write, afm_write, splot_text, pl_lines, clafer_text).

(* the meaning of the propositional export does not depend on the order of its formulas (the
   implementation's traversal order is not modelled: the lines are compared as a multiset) *)
Theorem C12_pl_order : forall σ d d', Permutation d d' -> pl_sat σ d = pl_sat σ d'.
Proof.
  intros σ d d' H. unfold pl_sat. induction H; simpl; auto.
  - rewrite IHPermutation. reflexivity.
  - rewrite !andb_assoc. f_equal. apply andb_comm.
  - congruence.
Qed.
Print Assumptions C12_pl_order.

(* ---- read off the SOURCE (DESIGN §10).  Six writers are re-translated from the Python text on every run
   (json, glencoe: the document builders; pl, splot, clafer, afm: the whole transform()).  The translator accepts a
   mutation only on a list / dict the function created itself and the one `with open(path, 'w', encoding='utf8') as f:
   f.write(text)` whose text is the local that is then returned — so the EXISTENCE of these definitions (checked as the
   obligation source-translation of this property) is the statement "the writer does not modify the model, writes
   UTF-8, and returns what it wrote" about the source, and being Gallina functions of the model value they cannot
   depend on anything else: not on the path, not on an earlier call. ---- *)
Theorem C12_source_output_is_a_function_of_the_model : forall fuel m p1 p2,
  py_PLWriter_transform fuel (py_PLWriter_new p1 m) = py_PLWriter_transform fuel (py_PLWriter_new p2 m) /\
  py_SPLOTWriter_transform fuel (py_SPLOTWriter_new p1 m) = py_SPLOTWriter_transform fuel (py_SPLOTWriter_new p2 m) /\
  py_ClaferWriter_transform fuel (py_ClaferWriter_new p1 m) = py_ClaferWriter_transform fuel (py_ClaferWriter_new p2 m).
Proof. intros. repeat split; reflexivity. Qed.
Print Assumptions C12_source_output_is_a_function_of_the_model.

(* the document builders of the two JSON writers, as functions of the model *)
Definition source_document_builders : (nat -> fm -> result aval) * (nat -> fm -> result aval) := (py_to_json, py__to_json).
