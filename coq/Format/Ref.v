(* Format/Ref.v — reference emitters (C09): the document a third party would write for a reference
   model, with the format's syntactic freedom as explicit choices. *)
From Coq Require Import List Bool Ascii String ZArith.
From FM Require Import Base.Result Base.Str Base.AstOp Model.Ast Model.FM Model.PFM Format.Xml.
Import ListNotations.
Local Open Scope string_scope.
Local Open Scope list_scope.

(* ---- FaMa XML ---- *)
Inductive tagcase := CaseCamel | CaseLower | CaseUpper.
Record fama_choices := { fc_case : tagcase; fc_card_last : bool; fc_rel_names : bool; fc_set_for_single : bool }.

Definition ascii_upper (c : ascii) : ascii := if is_lower c then ascii_of_N (ascii_n c - 32) else c.
Definition tag_in (c : tagcase) (t : string) : string :=
  match c with CaseCamel => t | CaseLower => str_lower t | CaseUpper => str_map ascii_upper t end.

Definition fama_card (ch : fama_choices) (mn mx : Z) : xml :=
  Elem (tag_in (fc_case ch) "cardinality") [("min", z_to_string mn); ("max", z_to_string mx)] None [].

Fixpoint fama_feature (ch : fama_choices) (tagname : string) (f : feature) : xml :=
  match f with
  | Feature i rs =>
      Elem tagname [("name", f_name i)] None
           (map (fun r => match r with
                          | Relation mn mx cs =>
                              let single := match cs with [_] => negb (fc_set_for_single ch) | _ => false end in
                              let kids := map (fama_feature ch (tag_in (fc_case ch)
                                                                       (if single then "solitaryFeature" else "groupedFeature"))) cs in
                              Elem (tag_in (fc_case ch) (if single then "binaryRelation" else "setRelation"))
                                   (if fc_rel_names ch then [("name", "R")] else []) None
                                   (if fc_card_last ch then kids ++ [fama_card ch mn mx] else fama_card ch mn mx :: kids)
                          end) rs)
  end.

Definition fama_ctc (ch : fama_choices) (c : ctc) : option xml :=
  match c_ast c with
  | Node (DOp REQUIRES) (Some (Node (DStr a) None None)) (Some (Node (DStr b) None None)) =>
      Some (Elem (tag_in (fc_case ch) "requires") [("name", c_name c); ("feature", a); ("requires", b)] None [])
  | Node (DOp EXCLUDES) (Some (Node (DStr a) None None)) (Some (Node (DStr b) None None)) =>
      Some (Elem (tag_in (fc_case ch) "excludes") [("name", c_name c); ("feature", a); ("excludes", b)] None [])
  | _ => None
  end.

Definition fama_emit (ch : fama_choices) (m : fm) : xml :=
  Elem "feature-model" [] None
       (fama_feature ch (tag_in (fc_case ch) "feature") (root m)
        :: flat_map (fun c => match fama_ctc ch c with Some x => [x] | None => [] end) (ctcs m)).
