(* Format/Glencoe.v — glencoe_writer.py (_to_json and below) and glencoe_reader.py *)
From Coq Require Import List Bool Ascii String ZArith.
From FM Require Import Base.Result Base.Str Base.AstOp Model.Ast Model.FM Model.PFM Model.Queries
     Model.EqHash Format.Json Gen.Tables_glencoe.
Import ListNotations.
Local Open Scope string_scope.
Local Open Scope list_scope.

(* d[k] = v on an insertion-ordered dict *)
Fixpoint dict_set (kv : list (string * aval)) (k : string) (v : aval) : list (string * aval) :=
  match kv with
  | [] => [(k, v)]
  | (k', v') :: rest => if String.eqb k k' then (k, v) :: rest else (k', v') :: dict_set rest k v
  end.

Definition glencoe_feature_type (f : feature) : string :=
  if feat_is_alternative_group f then "XOR"
  else if feat_is_or_group f then "OR"
  else if feat_is_cardinality_group f || feat_is_mutex_group f then "GENOR"
  else "FEATURE".

Definition glencoe_feature_info (p : option feature) (f : feature) : aval :=
  let ty := glencoe_feature_type f in
  VMap ([("name", VStr (name f)); ("optional", VBool (negb (feat_is_mandatory p f)));
         ("type", VStr ty); ("note", VStr "")]
        ++ (if String.eqb ty "GENOR" then
              match find (fun r => rel_is_cardinal r || rel_is_mutex r) (rels f) with
              | Some r => [("min", VInt (r_min r)); ("max", VInt (r_max r))]
              | None => []      (* unreachable: GENOR means such a relation exists *)
              end
            else [])).

Definition glencoe_features (m : fm) : aval :=
  VMap (fold_left (fun acc pf => dict_set acc (name (snd pf)) (glencoe_feature_info (fst pf) (snd pf)))
                  (sort_by (fun pf => name (snd pf)) str_ltb (get_features_ctx m)) []).

Fixpoint glencoe_tree (f : feature) : aval :=
  match f with
  | Feature i rs =>
      (* recursion through the relations to keep it structural; the stable sort by name is applied
         to the (name, sub-tree) pairs, which is the same as sorting the children first *)
      let kid_trees :=
        sort_by fst str_ltb
          (flat_map (fun r => match r with
                              | Relation _ _ cs => map (fun c => (name c, glencoe_tree c)) cs
                              end) rs) in
      VMap (("id", VStr (f_name i))
            :: match kid_trees with [] => [] | _ => [("children", VList (map snd kid_trees))] end)
  end.

Fixpoint glencoe_ctc (n : node) : result aval :=
  match n with
  | Node d l r =>
      if is_term n then Ok (VMap [("type", VStr "FeatureTerm"); ("operands", VList [VStr (data_str d)])])
      else
        match d with
        | DOp o =>
            match glencoe_ctc_type o with
            | None => Err KeyError
            | Some ty =>
                match l with
                | None => Err AttributeError
                | Some a =>
                    match glencoe_ctc a with Err e => Err e | Ok ja =>
                      match r with
                      | None => Ok (VMap [("type", VStr ty); ("operands", VList [ja])])
                      | Some b =>
                          match glencoe_ctc b with Err e => Err e | Ok jb =>
                            Ok (VMap [("type", VStr ty); ("operands", VList [ja; jb])])
                          end
                      end
                    end
                end
            end
        | _ => Err OtherExn
        end
  end.

Definition glencoe_write (m : fm) : result aval :=
  let fid := VStr ("FM_" ++ str_remove_char " " (name (root m)))%string in
  let feats := glencoe_features m in
  let tree := glencoe_tree (root m) in
  match (fix go (cs : list ctc) (acc : list (string * aval)) : result (list (string * aval)) :=
           match cs with
           | [] => Ok acc
           | c :: cs' => match glencoe_ctc (c_ast c) with
                         | Err e => Err e
                         | Ok j => go cs' (dict_set acc (c_name c) j)
                         end
           end) (ctcs m) [] with
  | Err e => Err e
  | Ok cinfo =>
      Ok (VMap [("id", fid); ("name", fid); ("features", feats); ("tree", tree);
                ("constraints", VMap cinfo)])
  end.

(* ------------------------------------------------------------------------------- reader *)
(* bool(v): Python's truth value of a JSON value.  glencoe_reader.py tests the "optional" entry of a feature
   with `if optional:` / `0 if optional else 1` / `elif not optional:`, whatever the entry is.
   (The same function as aval_truthy of Model/PyRt.v, which comes later in the build.) *)
Definition jtruthy (v : aval) : bool :=
  match v with
  | VNone => false
  | VBool b => b
  | VInt z => negb (Z.eqb z 0%Z)
  | VFloat r => negb (String.eqb r "0.0" || String.eqb r "-0.0")
  | VStr s => negb (String.eqb s "")
  | VList l => match l with [] => false | _ :: _ => true end
  | VMap kv => match kv with [] => false | _ :: _ => true end
  end.

(* features_info[id][key] *)
Definition finfo_get (features_info : aval) (id : aval) (key : string) : result aval :=
  match jstr id with Err e => Err e | Ok ids =>
  match jget ids features_info with Err e => Err e | Ok fi => jget key fi end end.

Fixpoint count_true_prefix (l : list bool) (n : nat) : nat :=   (* number of true among the first n *)
  match n, l with
  | S n', b :: l' => (if b then 1 else 0) + count_true_prefix l' n'
  | _, _ => 0
  end.

Definition gl_known_type (ty : string) : bool :=
  String.eqb ty "FEATURE" || String.eqb ty "XOR" || String.eqb ty "OR" || String.eqb ty "GENOR".

Fixpoint glencoe_parse_tree (fuel : nat) (finfo_ : aval) (here : path) (parent : ptr) (node : aval)
  : result pfeature :=
  match fuel with
  | O => Err OtherExn
  | S fuel' =>
      match jget "id" node with Err e => Err e | Ok fid =>
      match finfo_get finfo_ fid "type" with Err e => Err e | Ok tyv =>
      match finfo_get finfo_ fid "name" with Err e => Err e | Ok nmv =>
      match jstr tyv with Err _ => Err FlamaException | Ok fty =>      (* fix: a type that is no string is no known type *)
      match jstr nmv with Err _ => Err FlamaException | Ok fname =>    (* fix: a name is a string *)
      let info := mk_info fname in
      let is_plain := String.eqb fty "FEATURE" in
      (* fix: an unknown feature type is a library error (it used to re-add the last relation made, or to
         leave 'relation' unbound) *)
      if negb (gl_known_type fty) then Err FlamaException else
      if jhas "children" node then
        match jget "children" node with Err e => Err e | Ok chv =>
        match jlist chv with Err e => Err e | Ok chl =>
          (* which children are non-optional (None when the lookup fails: raised in order below) *)
          let flags : list (option bool) :=
            map (fun c => match jget "id" c with
                          | Ok cid => match finfo_get finfo_ cid "optional" with
                                      | Ok ov => Some (jtruthy ov)
                                      | Err _ => None
                                      end
                          | Err _ => None
                          end) chl in
          let mand : list bool := map (fun o => match o with Some false => true | _ => false end) flags in
          let n_mand := List.length (filter (fun b => b) mand) in
          (* position of child p: (relation index, index inside the relation) *)
          let where_ (p : nat) : nat * nat :=
            if is_plain then (p, 0%nat)
            else if nth p mand false then (count_true_prefix mand p, 0%nat)
                 else (n_mand, (p - count_true_prefix mand p)%nat) in
          match (fix goc (p : nat) (chl : list aval) : result (list (pfeature * bool)) :=
                   match chl with
                   | [] => Ok []
                   | c :: cs =>
                       match glencoe_parse_tree fuel' finfo_ (here ++ [where_ p]) (PPath here) c with
                       | Err e => Err e
                       | Ok pc =>
                           match jget "id" c with Err e => Err e | Ok cid =>
                           match finfo_get finfo_ cid "optional" with Err e => Err e | Ok ov =>
                           let opt := jtruthy ov in     (* `if optional:`: the truth value, no type test *)
                           match goc (S p) cs with Err e => Err e | Ok rest => Ok ((pc, opt) :: rest)
                           end end end
                       end
                   end) 0%nat chl with
          | Err e => Err e
          | Ok kids =>
              if is_plain then
                Ok (PFeature info parent []
                      (map (fun ko : pfeature * bool => PRelation (PPath here) (if snd ko then 0 else 1)%Z 1%Z [fst ko]) kids))
              else
                let singles := map (fun ko : pfeature * bool => PRelation (PPath here) 1%Z 1%Z [fst ko])
                                   (filter (fun ko : pfeature * bool => negb (snd ko)) kids) in
                let group := map fst (filter (fun ko : pfeature * bool => snd ko) kids) in
                (* fix: when every member of the group is mandatory there is nothing left to group: no (empty)
                   group relation is made *)
                match group with
                | [] => Ok (PFeature info parent [] singles)
                | _ :: _ =>
                let grp :=
                  if String.eqb fty "XOR" then Ok (1%Z, 1%Z)
                  else if String.eqb fty "OR" then Ok (1%Z, Z.of_nat (List.length group))
                  else (* "GENOR": the only known type left *)
                    match finfo_get finfo_ fid "min" with Err e => Err e | Ok a =>
                    match finfo_get finfo_ fid "max" with Err e => Err e | Ok b =>
                    (* fix: the bounds of a GENOR feature are integers *)
                    match jint a with Err _ => Err FlamaException | Ok a' =>
                    match jint b with Err _ => Err FlamaException | Ok b' => Ok (a', b') end end end end in
                match grp with
                | Err e => Err e
                | Ok (a, b) =>
                    Ok (PFeature info parent [] (singles ++ [PRelation (PPath here) a b group]))
                end
                end
          end
        end end
      else Ok (PFeature info parent [] [])
      end end end end end
  end.

Fixpoint glencoe_parse_ctc (fuel : nat) (finfo_ : aval) (info : aval) : result node :=
  match fuel with
  | O => Err OtherExn
  | S fuel' =>
      match jget "type" info with Err e => Err e | Ok tv =>
      match jget "operands" info with Err e => Err e | Ok ov =>
      match jstr tv with Err e => Err e | Ok ty =>
      match jlist ov with Err e => Err e | Ok ops =>
        let sub (i : nat) : result node :=
          match nth_operand ops i with Err e => Err e | Ok x => glencoe_parse_ctc fuel' finfo_ x end in
        let bin2 (o : astop) : result node :=
          match sub 0%nat with Err e => Err e | Ok a =>
          match sub 1%nat with Err e => Err e | Ok b => Ok (bin o a b) end end in
        let nary (o : astop) : result node :=
          match mapM (glencoe_parse_ctc fuel' finfo_) ops with Err e => Err e | Ok l => reduce_op o l end in
        if String.eqb ty "FeatureTerm" then
          match nth_operand ops 0 with Err e => Err e | Ok x =>
          match finfo_get finfo_ x "name" with Err e => Err e | Ok nv =>
          match jstr nv with Err _ => Err FlamaException | Ok nm => Ok (term nm) end end end   (* fix: a name is a string *)
        else if String.eqb ty "NotTerm" then
          match sub 0%nat with Err e => Err e | Ok a => Ok (un NOT a) end
        else if String.eqb ty "ImpliesTerm" then bin2 IMPLIES
        else if String.eqb ty "ExcludesTerm" then bin2 EXCLUDES
        else if String.eqb ty "EquivalentTerm" then bin2 EQUIVALENCE
        else if String.eqb ty "AndTerm" then nary AND
        else if String.eqb ty "OrTerm" then nary OR
        else if String.eqb ty "XorTerm" then nary XOR
        else Err FlamaException
      end end end end
  end.

Definition glencoe_read (doc : aval) : result pfm :=
  match jget "features" doc with Err e => Err e | Ok fv =>
  match jget "tree" doc with Err e => Err e | Ok tv =>
  match (match doc with
         | VMap kv => match assoc "constraints" kv with Some x => Ok x | None => Ok (VMap []) end
         | _ => Err AttributeError       (* data.get on a non-dict *)
         end) with Err e => Err e | Ok cv =>
  match glencoe_parse_tree (aval_depth tv) fv [] PNone tv with Err e => Err e | Ok proot_ =>
  match cv with
  | VMap ckv =>
      match mapM (fun kc => match glencoe_parse_ctc (aval_depth (snd kc)) fv (snd kc) with
                            | Err e => Err e
                            | Ok n => Ok {| c_name := fst kc; c_ast := n |}
                            end) ckv with
      | Err e => Err e
      | Ok cs => Ok {| proot := proot_; pctcs := cs |}
      end
  | _ => Err AttributeError          (* .items() on a non-dict *)
  end end end end end.
