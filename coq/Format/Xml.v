(* Format/Xml.v — element trees, featureide_writer.py / featureide_reader.py, xml_reader.py (FaMa) *)
From Coq Require Import List Bool Ascii String ZArith.
From FM Require Import Base.Result Base.Str Base.AstOp Model.Ast Model.FM Model.PFM Model.Queries
     Format.Json Gen.Tables_fide.
Import ListNotations.
Local Open Scope string_scope.
Local Open Scope list_scope.

Inductive xml := Elem (tag : string) (attrs : list (string * string)) (text : option string)
                      (children : list xml).

Definition x_tag (x : xml) := match x with Elem t _ _ _ => t end.
Definition x_attrs (x : xml) := match x with Elem _ a _ _ => a end.
Definition x_text (x : xml) := match x with Elem _ _ t _ => t end.
Definition x_children (x : xml) := match x with Elem _ _ _ c => c end.

Fixpoint sassoc (k : string) (kv : list (string * string)) : option string :=
  match kv with
  | [] => None
  | (k', v) :: rest => if String.eqb k k' then Some v else sassoc k rest
  end.

(* Python truthiness of is_abstract *)
Definition aval_truthy (v : aval) : bool :=
  match v with
  | VNone => false | VBool b => b | VInt z => negb (z =? 0)%Z
  | VFloat r => negb (String.eqb r "0.0" || String.eqb r "-0.0")
  | VStr s => negb (String.eqb s "") | VList l => negb (Nat.eqb (List.length l) 0)
  | VMap kv => negb (Nat.eqb (List.length kv) 0)
  end.

(* ------------------------------------------------------------------------------- FeatureIDE writer *)
Definition fide_tag (f : feature) : string :=
  if feat_is_leaf f then fide_TAG_FEATURE
  else if feat_is_or_group f then fide_TAG_OR
  else if feat_is_alternative_group f then fide_TAG_ALT
  else fide_TAG_AND.

Definition fide_attributes (p : option feature) (f : feature) : list (string * string) :=
  (if feat_is_mandatory p f then [("mandatory", "true")] else [])
  ++ (if aval_truthy (f_abstract (info f)) then [("abstract", "true")] else [])
  ++ [("name", name f)].

Fixpoint fide_elem (p : option feature) (f : feature) : xml :=
  match f with
  | Feature i rs =>
      Elem (fide_tag f) (fide_attributes p f) None
           (flat_map (fun r => match r with
                               | Relation _ _ cs => map (fide_elem (Some f)) cs
                               end) rs)
  end.

(* _get_ctc_info: an intermediate (type, operands) tree; var operands hold the name *)
Inductive cinfo := CVar (name : string) | COp (ty : string) (ops : list cinfo).

Fixpoint fide_ctc_info (n : node) : result cinfo :=
  match n with
  | Node d l r =>
      if is_term n then Ok (CVar (data_str d))
      else
        match d with
        | DOp EXCLUDES =>
            match l with None => Err AttributeError | Some a =>
            match fide_ctc_info a with Err e => Err e | Ok ja =>
            match r with None => Err AttributeError | Some b =>
            match fide_ctc_info b with Err e => Err e | Ok jb =>
              Ok (COp fide_TAG_IMP [ja; COp fide_TAG_NOT [jb]])
            end end end end
        | DOp o =>
            match fide_ctc_type o with
            | None => Err KeyError
            | Some ty =>
                match l with None => Err AttributeError | Some a =>
                match fide_ctc_info a with Err e => Err e | Ok ja =>
                  match r with
                  | None => Ok (COp ty [ja])
                  | Some b => match fide_ctc_info b with Err e => Err e | Ok jb => Ok (COp ty [ja; jb]) end
                  end
                end end
            end
        | _ => Err OtherExn
        end
  end.

(* _create_elem_constraint *)
Fixpoint fide_ctc_elem (c : cinfo) : xml :=
  match c with
  | CVar nm => Elem fide_TAG_VAR [] (Some nm) []
  | COp ty ops =>
      Elem ty [] None
           (if Nat.ltb 1 (List.length ops) || String.eqb ty fide_TAG_NOT
            then map fide_ctc_elem ops else [])
  end.

Definition fide_write (m : fm) : result xml :=
  match mapM (fun c => match pretty_str (c_ast c) with
                       | Err e => Err e
                       | Ok _ => fide_ctc_info (c_ast c)
                       end) (ctcs m) with
  | Err e => Err e
  | Ok infos =>
      Ok (Elem fide_TAG_FEATUREMODEL [] None
               [Elem fide_TAG_STRUCT [] None [fide_elem None (root m)];
                Elem fide_TAG_CONSTRAINTS [] None
                     (map (fun ci => Elem fide_TAG_RULE [] None [fide_ctc_elem ci]) infos)])
  end.

(* ------------------------------------------------------------------------------- FeatureIDE reader *)
Definition fide_skipped (x : xml) : bool :=
  String.eqb (x_tag x) fide_TAG_GRAPHICS || String.eqb (x_tag x) fide_TAG_DESCRIPTION.

(* _read_features(root_tree, parent): returns the features created for the element children of
   [root_tree] (the last one is "feature"); [owner_rel_base] = number of relations the parent
   already has when the loop starts (always 0 in this reader) *)
Fixpoint fide_read_features (root_tree : xml) (here : path) (parent : ptr) (is_struct : bool)
  : result (list (pfeature * bool)) :=
  (* result: each created feature with its 'mandatory' flag; [here] is the path of the parent
     feature (meaningless for struct) *)
  match root_tree with
  | Elem rtag _ _ kids =>
      let parent_is_and := String.eqb rtag fide_TAG_AND && negb is_struct in
      match (fix go (p : nat) (kids : list xml) : result (list (pfeature * bool)) :=
               match kids with
               | [] => Ok []
               | child :: rest =>
                   if fide_skipped child then go p rest
                   else
                     match sassoc fide_ATTRIB_NAME (x_attrs child) with
                     | None => Err KeyError
                     | Some nm =>
                         let is_abs := match sassoc fide_ATTRIB_ABSTRACT (x_attrs child) with
                                       | Some v => String.eqb v "true" | None => false end in
                         let mand := match sassoc fide_ATTRIB_MANDATORY (x_attrs child) with
                                     | Some v => String.eqb v "true" | None => false end in
                         let info := {| f_name := nm; f_abstract := VBool is_abs; f_type := TBoolean;
                                        f_cmin := 1; f_cmax := 1; f_attrs := [] |} in
                         (* the path of this feature below [here] *)
                         let my_path := if is_struct then [] else
                                          if parent_is_and then here ++ [(p, 0%nat)]
                                          else here ++ [(0%nat, p)] in
                         let own : result (list prelation) :=
                           let ctag := x_tag child in
                           if String.eqb ctag fide_TAG_ALT || String.eqb ctag fide_TAG_OR then
                             match fide_read_features child my_path (PPath my_path) false with
                             | Err e => Err e
                             | Ok dc =>
                                 let cs := map fst dc in
                                 Ok [PRelation (PPath my_path) 1%Z
                                       (if String.eqb ctag fide_TAG_ALT then 1%Z
                                        else Z.of_nat (List.length cs)) cs]
                             end
                           else if String.eqb ctag fide_TAG_AND then
                             match fide_read_features child my_path (PPath my_path) false with
                             | Err e => Err e
                             | Ok dc =>
                                 Ok (map (fun fm_ : pfeature * bool => PRelation (PPath my_path)
                                                       (if snd fm_ then 1%Z else 0%Z) 1%Z [fst fm_]) dc)
                             end
                           else Ok [] in
                         match own with
                         | Err e => Err e
                         | Ok rels_ =>
                             match go (S p) rest with
                             | Err e => Err e
                             | Ok others => Ok ((PFeature info parent [] rels_, mand) :: others)
                             end
                         end
                     end
               end) 0%nat kids with
      | Err e => Err e
      | Ok [] => Err FlamaException          (* "No feature found" *)
      | Ok l => Ok l
      end
  end.

Fixpoint fide_parse_rule (rule : xml) : result node :=
  match rule with
  | Elem tag _ text kids =>
      let sub (i : nat) : result node :=
        match i, kids with
        | O, k0 :: _ => fide_parse_rule k0
        | S O, _ :: k1 :: _ => fide_parse_rule k1
        | _, _ => Err IndexError
        end in
      if String.eqb tag fide_TAG_VAR then
        match text with Some t => Ok (term t) | None => Err FlamaException end   (* fix: an empty <var> is rejected *)
      else if String.eqb tag fide_TAG_NOT then
        match sub 0%nat with Err e => Err e | Ok a => Ok (un NOT a) end
      else if String.eqb tag fide_TAG_IMP then
        match sub 0%nat with Err e => Err e | Ok a =>
        match sub 1%nat with Err e => Err e | Ok b => Ok (bin IMPLIES a b) end end
      else if String.eqb tag fide_TAG_EQ then
        match sub 0%nat with Err e => Err e | Ok a =>
        match sub 1%nat with Err e => Err e | Ok b =>
          Ok (bin AND (bin IMPLIES a b) (bin IMPLIES b a)) end end
      else if String.eqb tag fide_TAG_DISJ || String.eqb tag fide_TAG_CONJ then
        let o := if String.eqb tag fide_TAG_DISJ then OR else AND in
        match kids with
        | [] => Err IndexError
        | k0 :: ks =>
            match fide_parse_rule k0 with Err e => Err e | Ok n0 =>
              (fix go (acc : node) (ks : list xml) : result node :=
                 match ks with
                 | [] => Ok acc
                 | k :: ks' => match fide_parse_rule k with
                               | Err e => Err e
                               | Ok n => go (bin o acc n) ks'
                               end
                 end) n0 ks
            end
        end
      else Err UnboundLocalError
  end.

Definition fide_read_constraints (ctcs_root : xml) : result (list ctc) :=
  (fix go (number : Z) (rules : list xml) : result (list ctc) :=
     match rules with
     | [] => Ok []
     | r :: rest =>
         match (fix skip (l : list xml) : result xml :=
                  match l with
                  | [] => Err IndexError
                  | x :: l' => if fide_skipped x then skip l' else Ok x
                  end) (x_children r) with
         | Err e => Err e
         | Ok rule =>
             match fide_parse_rule rule with Err e => Err e | Ok n =>
             match go (number + 1)%Z rest with Err e => Err e | Ok cs =>
               Ok ({| c_name := z_to_string number; c_ast := n |} :: cs) end end
         end
     end) 1%Z (x_children ctcs_root).

Definition fide_read (doc : xml) : result pfm :=
  (fix go (kids : list xml) (root_ : option pfeature) (cs : list ctc) : result pfm :=
     match kids with
     | [] => match root_ with
             | None => Err FlamaException
             | Some r => Ok {| proot := r; pctcs := cs |}
             end
     | k :: rest =>
         if String.eqb (x_tag k) fide_TAG_STRUCT then
           match fide_read_features k [] PNone true with
           | Err e => Err e
           | Ok l => go rest (option_map fst (last (map Some l) None)) cs
           end
         else if String.eqb (x_tag k) fide_TAG_CONSTRAINTS then
           match fide_read_constraints k with Err e => Err e | Ok c => go rest root_ (cs ++ c) end
         else go rest root_ cs
     end) (x_children doc) None [].

(* ------------------------------------------------------------------------------- FaMa XML reader *)
Definition xattr (k : string) (x : xml) : option string := sassoc k (x_attrs x).
Definition tag_is (t : string) (x : xml) : bool := String.eqb (str_lower (x_tag x)) t.

(* int(str(attrib.get(k))): ValueError when missing ("None") or not a decimal integer *)
Definition xint (k : string) (x : xml) : result Z :=
  match xattr k x with
  | None => Err ValueError
  | Some s => match string_to_z s with Some z => Ok z | None => Err ValueError end
  end.

(* parse_feature threads the set of names seen so far (self.name_feature) *)
Fixpoint fama_parse_feature (el : xml) (here : path) (parent : ptr) (seen : list string)
  : result (pfeature * list string) :=
  match el with
  | Elem _ attrs _ kids =>
      let nm := match sassoc "name" attrs with Some s => s | None => "None" end in
      if list_existsb_eq nm seen then Err DuplicatedFeature
      else
        let info := mk_info nm in
        match (fix go (k : nat) (kids : list xml) (seen : list string)
               : result (list prelation * list string) :=
                 match kids with
                 | [] => Ok ([], seen)
                 | rel :: rest =>
                     let is_bin := tag_is "binaryrelation" rel in
                     let is_set := tag_is "setrelation" rel in
                     if is_bin || is_set then
                       let child_tag := if is_bin then "solitaryfeature" else "groupedfeature" in
                       match (fix gor (j : nat) (items : list xml) (mn mx : Z) (seen : list string)
                              : result (list pfeature * Z * Z * list string) :=
                                match items with
                                | [] => Ok ([], mn, mx, seen)
                                | it :: its =>
                                    if tag_is child_tag it then
                                      match fama_parse_feature it (here ++ [(k, j)]) (PPath here) seen with
                                      | Err e => Err e
                                      | Ok (pc, seen') =>
                                          match gor (S j) its mn mx seen' with
                                          | Err e => Err e
                                          | Ok (pcs, a, b, s2) => Ok (pc :: pcs, a, b, s2)
                                          end
                                      end
                                    else if tag_is "cardinality" it then
                                      match xint "min" it with Err e => Err e | Ok a =>
                                      match xint "max" it with Err e => Err e | Ok b =>
                                        gor j its a b seen end end
                                    else gor j its mn mx seen
                                end) 0%nat (x_children rel) 0%Z 0%Z seen with
                       | Err e => Err e
                       | Ok ([], _, _, _) => Err FlamaException   (* fix: a relation without features is rejected *)
                       | Ok ((_ :: _) as cs, a, b, seen') =>
                           match go (S k) rest seen' with
                           | Err e => Err e
                           | Ok (prs, s3) => Ok (PRelation (PPath here) a b cs :: prs, s3)
                           end
                       end
                     else go k rest seen
                 end) 0%nat kids (nm :: seen) with
        | Err e => Err e
        | Ok (prs, seen') => Ok (PFeature info parent [] prs, seen')
        end
  end.

Definition fama_parse_ctc (el : xml) (seen : list string) : result ctc :=
  match xattr "name" el with
  | None => Err FlamaException
  | Some nm =>
      let known (o : option string) := match o with Some s => list_existsb_eq s seen | None => false end in
      let origin := if known (xattr "feature" el) then xattr "feature" el else None in
      let dest_op :=
        if tag_is "excludes" el && known (xattr "excludes" el) then
          match xattr "excludes" el with Some d => Some (d, EXCLUDES) | None => None end
        else if tag_is "requires" el && known (xattr "requires" el) then
          match xattr "requires" el with Some d => Some (d, REQUIRES) | None => None end
        else None in
      match origin, dest_op with
      | Some o, Some (d, op) => Ok {| c_name := nm; c_ast := bin op (term o) (term d) |}
      | _, _ => Err FlamaException
      end
  end.

Definition fama_read (doc : xml) : result pfm :=
  (fix go (kids : list xml) (cur : option (pfeature * list ctc)) (seen : list string) : result pfm :=
     match kids with
     | [] => match cur with
             | Some (r, cs) => Ok {| proot := r; pctcs := cs |}
             | None => Err UnboundLocalError
             end
     | k :: rest =>
         if tag_is "feature" k then
           match fama_parse_feature k [] PNone seen with
           | Err e => Err e
           | Ok (r, seen') => go rest (Some (r, [])) seen'
           end
         else if tag_is "excludes" k || tag_is "requires" k then
           match fama_parse_ctc k seen with
           | Err e => Err e
           | Ok c => match cur with
                     | Some (r, cs) => go rest (Some (r, cs ++ [c])) seen
                     | None => Err UnboundLocalError
                     end
           end
         else go rest cur seen
     end) (x_children doc) None [].
