(* Format/Uvl.v — uvl_writer.py and uvl_reader.py.
   The ANTLR lexer/parser is external: the model works on a concrete syntax tree [udoc] shaped
   after the grammar rules the reader visits.  Writer model = [render (cst_of_fm m)];
   reader model = [uvl_read_cst]; the parser is the Section variable of Props/C01.v. *)
From Coq Require Import List Bool Ascii String ZArith.
From FM Require Import Base.Result Base.Str Base.AstOp Gen.Tables_core Model.Ast Model.FM Model.PFM
     Model.Queries Format.Json Format.Glencoe Format.Xml Gen.Tables_uvl.
Import ListNotations.
Local Open Scope string_scope.
Local Open Scope list_scope.

(* ------------------------------------------------------------------------------- syntax tree *)
Inductive uvalue :=
| UVBool (text : string)
| UVFloat (text repr : string)      (* FLOAT token text; repr(float(text)) is supplied by the parser side *)
| UVInt (text : string)
| UVStr (text : string)             (* STRING token text, quotes included *)
| UVAttrs (l : list uattr)
| UVVector (l : list uvalue)
with uattr :=
| UAValue (key : string) (v : option uvalue)
| UAConstraint
| UAOther.

Inductive gkind := GOr | GAlt | GOpt | GMand | GCard (text : string).

Inductive ufeature :=
  UFeature (ftype : option string) (ref : string) (fcard : option string)
           (attrs : option (list uattr)) (groups : list ugroup)
with ugroup := UGroup (k : gkind) (children : list ufeature).

Inductive aggr := AgSum | AgAvg | AgLen | AgFloor | AgCeil.
Inductive ucst :=
| KLiteral (ref : string)
| KNot (c : ucst)
| KBin (o : astop) (a b : ucst)
| KParen (c : ucst)
| KInt (text : string)
| KFloat (text repr : string)
| KStr (text : string)
| KAggr (a : aggr) (refs : list string).

Record udoc := { d_root : option ufeature; d_ctcs : option (list ucst) }.

(* ------------------------------------------------------------------------------- writer *)
(* re.fullmatch('[A-Za-z][A-Za-z0-9_]*', name) *)
Definition is_plain_id (s : string) : bool :=
  match s with
  | EmptyString => false
  | String c rest => is_alpha c && str_forallb is_safechar rest
  end.

Definition uvl_safe_simple_name (nm : string) : string :=
  if starts_with_char "'" nm && ends_with_char "'" nm then nm
  else if is_plain_id nm && negb (list_existsb_eq nm uvl_keywords) then nm
  else quote nm.

Definition uvl_safename (nm : string) : string :=
  if str_contains_char "." nm
  then str_join "." (map uvl_safe_simple_name (str_split "." nm))
  else uvl_safe_simple_name nm.

Definition card_text (mn mx : Z) : string :=
  ("[" ++ z_to_string mn ++ ".." ++ (if (mx =? -1)%Z then "*" else z_to_string mx) ++ "]")%string.

(* serialize_value; exponent floats (Decimal formatting) are not modelled *)
Definition float_text (r : string) : option string :=
  if str_contains_char "e" r || str_contains_char "E" r || str_contains_char "n" r then None
  else Some (if str_contains_char "." r then r else (r ++ ".0")%string).

Fixpoint value_cst (v : aval) : result uvalue :=
  match v with
  | VNone => Ok (UVStr "None")                 (* str(None): only reachable inside lists *)
  | VBool b => Ok (UVBool (if b then "true" else "false"))
  | VInt z => Ok (UVInt (z_to_string z))
  | VFloat r => match float_text r with Some t => Ok (UVFloat t r) | None => Err OtherExn end
  | VStr s => Ok (UVStr ("'" ++ s ++ "'")%string)
  | VList l => match mapM value_cst l with Err e => Err e | Ok l' => Ok (UVVector l') end
  | VMap kv =>
      match mapM (fun p : string * aval => let (k, x) := p in
                           match x with
                           | VNone => Ok (UAValue (uvl_safename k) None)
                           | _ => match value_cst x with
                                  | Err e => Err e
                                  | Ok x' => Ok (UAValue (uvl_safename k) (Some x'))
                                  end
                           end) kv with
      | Err e => Err e
      | Ok l => Ok (UVAttrs l)
      end
  end.

Definition attrs_cst (f : feature) : result (option (list uattr)) :=
  let abs := if aval_truthy (f_abstract (info f)) then [UAValue "abstract" None] else [] in
  match mapM (fun a => match a_default a with
                       | VNone => Ok (UAValue (uvl_safename (a_name a)) None)
                       | v => match value_cst v with
                              | Err e => Err e
                              | Ok v' => Ok (UAValue (uvl_safename (a_name a)) (Some v'))
                              end
                       end) (f_attrs (info f)) with
  | Err e => Err e
  | Ok l => Ok (match abs ++ l with [] => None | all => Some all end)
  end.

Definition group_kind (r : relation) : gkind :=
  if rel_is_alternative r then GAlt
  else if rel_is_mandatory r then GMand
  else if rel_is_optional r then GOpt
  else if rel_is_or r then GOr
  else if (r_min r =? r_max r)%Z then GCard ("[" ++ z_to_string (r_min r) ++ "]")%string
       else GCard (card_text (r_min r) (r_max r)).

Definition ftype_value (t : ftype) : string :=
  match t with TBoolean => "Boolean" | TInteger => "Integer" | TReal => "Real" | TString => "String" end.

Fixpoint feature_cst (f : feature) : result ufeature :=
  match f with
  | Feature i rs =>
      match attrs_cst f with Err e => Err e | Ok at_ =>
      match mapM (fun r => match r with
                           | Relation _ _ cs =>
                               match mapM feature_cst cs with
                               | Err e => Err e
                               | Ok cs' => Ok (UGroup (group_kind r) cs')
                               end
                           end) rs with
      | Err e => Err e
      | Ok gs =>
          Ok (UFeature (if feat_is_boolean f then None else Some (ftype_value (f_type i)))
                       (uvl_safename (f_name i))
                       (if feat_is_multifeature f then Some (card_text (f_cmin i) (f_cmax i)) else None)
                       at_ gs)
      end end
  end.

Definition aggr_of (o : astop) : option aggr :=
  match o with SUM => Some AgSum | AVG => Some AgAvg | LEN => Some AgLen | FLOOR => Some AgFloor
          | CEIL => Some AgCeil | _ => None end.

Definition is_compound (n : node) : bool :=
  match n_data n with
  | DOp o => negb (astop_eqb o NOT) && negb (op_in o [SUM; AVG; LEN; FLOOR; CEIL])
  | _ => false
  end.

(* _serialize_node / _serialize_operand *)
Fixpoint node_cst (n : node) : result ucst :=
  match n with
  | Node d l r =>
      let operand (c : option node) : result ucst :=
        match c with
        | None => Err AttributeError
        | Some x => match node_cst x with
                    | Err e => Err e
                    | Ok cx => Ok (if is_compound x then KParen cx else cx)
                    end
        end in
      match d with
      | DStr s => Ok (if starts_with_char "'" s then KStr s else KLiteral (uvl_safename s))
      | DInt z => Ok (KInt (z_to_string z))
      | DFloat rp => match float_text rp with Some t => Ok (KFloat t rp) | None => Err OtherExn end
      | DBool b => Ok (KLiteral (if b then "true" else "false"))
      | DOp XOR => Err FlamaException
      | DOp NOT => match operand l with Err e => Err e | Ok c => Ok (KNot c) end
      | DOp o =>
          match aggr_of o with
          | Some ag =>
              (* arguments: the serialisation of each present operand; only name terms are modelled *)
              let arg (c : option node) : result (list string) :=
                match c with
                | None => Ok []
                | Some (Node (DStr s) _ _) => Ok [if starts_with_char "'" s then s else uvl_safename s]
                | Some _ => Err OtherExn
                end in
              match arg l with Err e => Err e | Ok a1 =>
              match arg r with Err e => Err e | Ok a2 => Ok (KAggr ag (a1 ++ a2)) end end
          | None =>
              match operand l with Err e => Err e | Ok cl =>
              match operand r with Err e => Err e | Ok cr =>
                match o with
                | EXCLUDES => Ok (KBin IMPLIES cl (KNot cr))
                | REQUIRES => Ok (KBin IMPLIES cl cr)
                | _ => Ok (KBin o cl cr)
                end
              end end
          end
      end
  end.

Definition cst_of_fm (m : fm) : result udoc :=
  match feature_cst (root m) with Err e => Err e | Ok rf =>
  match mapM (fun c => node_cst (c_ast c)) (ctcs m) with Err e => Err e | Ok cs =>
    Ok {| d_root := Some rf; d_ctcs := match cs with [] => None | _ => Some cs end |}
  end end.

(* ---- rendering (the layout decisions of read_features / read_attributes / read_constraints) ---- *)
Fixpoint tabs (n : nat) : string := match n with O => "" | S k => (String "009" (tabs k)) end.

Fixpoint render_value (v : uvalue) : string :=
  match v with
  | UVBool t | UVInt t | UVStr t => t
  | UVFloat t _ => t
  | UVVector l =>
      match l with
      | [UVInt t] => ("[ " ++ t ++ " ]")%string
      | _ => ("[" ++ str_join ", " (map render_value l) ++ "]")%string
      end
  | UVAttrs l =>
      ("{" ++ str_join ", " (map (fun a => match a with
                                           | UAValue k None => k
                                           | UAValue k (Some x) => (k ++ " " ++ render_value x)%string
                                           | _ => ""
                                           end) l) ++ "}")%string
  end.

Definition render_attrs (a : option (list uattr)) : string :=
  match a with None => "" | Some l => render_value (UVAttrs l) end.

Definition render_gkind (k : gkind) : string :=
  match k with GOr => "or" | GAlt => "alternative" | GOpt => "optional" | GMand => "mandatory"
          | GCard t => t end.

Fixpoint render_feature (tab : nat) (f : ufeature) : string :=
  match f with
  | UFeature ty ref fc at_ gs =>
      (String "010" (tabs tab)
       ++ (match ty with Some t => t ++ " " | None => "" end)
       ++ ref ++ " "
       ++ (match fc with Some c => "cardinality " ++ c ++ " " | None => "" end)
       ++ render_attrs at_
       ++ str_concat (map (fun g => match g with
                                    | UGroup k cs =>
                                        String "010" (tabs (S tab)) ++ render_gkind k
                                        ++ str_concat (map (render_feature (S (S tab))) cs)
                                    end) gs))%string
  end.

Definition aggr_name (a : aggr) : string :=
  match a with AgSum => "sum" | AgAvg => "avg" | AgLen => "len" | AgFloor => "floor" | AgCeil => "ceil" end.

Fixpoint render_cst (c : ucst) : string :=
  match c with
  | KLiteral r => r
  | KNot x => ("!" ++ render_cst x)%string
  | KBin o a b =>
      (render_cst a ++ " " ++ match uvl_operator o with Some s => s | None => "?" end ++ " "
       ++ render_cst b)%string
  | KParen x => ("(" ++ render_cst x ++ ")")%string
  | KInt t | KStr t => t
  | KFloat t _ => t
  | KAggr a refs => (aggr_name a ++ "(" ++ str_join ", " refs ++ ")")%string
  end.

Definition render (d : udoc) : string :=
  ("features"
   ++ match d_root d with Some f => render_feature 1 f | None => "" end
   ++ String "010" ""
   ++ match d_ctcs d with
      | Some cs => "constraints" ++ str_concat (map (fun c => String "010" (String "009" (render_cst c))) cs)
      | None => ""
      end)%string.

Definition uvl_write (m : fm) : result string :=
  match cst_of_fm m with Err e => Err e | Ok d => Ok (render d) end.

(* ------------------------------------------------------------------------------- reader *)
Definition strip_quotes (s : string) : string := str_remove_char """" s.

(* text[1:-1] *)
Definition drop_ends (s : string) : string :=
  match s with
  | EmptyString => ""
  | String _ rest => str_rev (match str_rev rest with String _ t => t | EmptyString => "" end)
  end.

(* s.split("..") when ".." occurs: the part before the first ".." and the rest; None otherwise *)
Fixpoint split_dotdot (s acc : string) : option (string * string) :=
  match s with
  | String "." (String "." rest) => Some (str_rev acc, rest)
  | String c rest => split_dotdot rest (String c acc)
  | EmptyString => None
  end.

Definition to_int (s : string) : result Z :=
  match string_to_z s with Some z => Ok z | None => Err ValueError end.

Definition parse_cardinality (text : string) : result (Z * Z) :=
  let t := drop_ends text in
  let (mn, mx) := match split_dotdot t "" with Some (a, b) => (a, b) | None => (t, t) end in
  match to_int mn with Err e => Err e | Ok a =>
  match (if String.eqb mx "*" then Ok (-1)%Z else to_int mx) with Err e => Err e | Ok b => Ok (a, b) end end.

Fixpoint value_aval (v : uvalue) : result aval :=
  match v with
  | UVBool t => Ok (VBool (String.eqb t "true"))
  | UVFloat _ r => Ok (VFloat r)
  | UVInt t => match to_int t with Err e => Err e | Ok z => Ok (VInt z) end
  | UVStr t => Ok (VStr (drop_ends t))
  | UVVector l => match mapM value_aval l with Err e => Err e | Ok l' => Ok (VList l') end
  | UVAttrs l =>
      (* process_attributes: a dict, later keys overwrite earlier ones *)
      match (fix go (l : list uattr) (acc : list (string * aval)) : result (list (string * aval)) :=
               match l with
               | [] => Ok acc
               | UAValue k None :: rest => go rest (dict_set acc (strip_quotes k) VNone)
               | UAValue k (Some x) :: rest =>
                   match value_aval x with Err e => Err e | Ok x' => go rest (dict_set acc (strip_quotes k) x') end
               | UAConstraint :: rest => go rest (dict_set acc "None" VNone)
               | UAOther :: _ => Err ValueError
               end) l [] with
      | Err e => Err e
      | Ok kv => Ok (VMap kv)
      end
  end.

Definition read_ftype (t : option string) : result ftype :=
  match t with
  | None => Ok TBoolean
  | Some s => if String.eqb s "Boolean" then Ok TBoolean
              else if String.eqb s "String" then Ok TString
              else if String.eqb s "Integer" then Ok TInteger
              else if String.eqb s "Real" then Ok TReal
              else Err FlamaException
  end.

Fixpoint uvl_read_feature (here : path) (parent : ptr) (f : ufeature) : result pfeature :=
  match f with
  | UFeature ty ref fc at_ gs =>
      match (match fc with Some t => parse_cardinality t | None => Ok (1, 1)%Z end) with Err e => Err e
      | Ok (cmin, cmax) =>
      match read_ftype ty with Err e => Err e | Ok fty =>
      match (match at_ with
             | None => Ok []
             | Some l => match value_aval (UVAttrs l) with
                         | Ok (VMap kv) => Ok kv
                         | Ok _ => Ok []
                         | Err e => Err e
                         end
             end) with Err e => Err e | Ok kv =>
      let is_abs := existsb (fun p => String.eqb (fst p) "abstract"
                                      && match snd p with VNone => true | v => aval_truthy v end) kv in
      let attrs := map (fun p => {| a_name := fst p; a_dom := None; a_default := snd p; a_null := VNone |})
                       (filter (fun p => negb (String.eqb (fst p) "abstract"
                                                && match snd p with VNone => true | v => aval_truthy v end)) kv) in
      let info := {| f_name := strip_quotes ref; f_abstract := VBool is_abs; f_type := fty;
                     f_cmin := cmin; f_cmax := cmax; f_attrs := attrs |} in
      match (fix go (k : nat) (gs : list ugroup) : result (list prelation) :=
               match gs with
               | [] => Ok []
               | UGroup kind cs :: rest =>
                   (* one relation per child for optional / mandatory groups, else one for the group *)
                   let per_child := match kind with GOpt | GMand => true | _ => false end in
                   match (fix goc (j : nat) (cs : list ufeature) : result (list pfeature) :=
                            match cs with
                            | [] => Ok []
                            | c :: cs' =>
                                let p := if per_child then here ++ [((k + j)%nat, 0%nat)] else here ++ [(k, j)] in
                                match uvl_read_feature p (PPath here) c with Err e => Err e | Ok pc =>
                                match goc (S j) cs' with Err e => Err e | Ok pcs => Ok (pc :: pcs) end end
                            end) 0%nat cs with
                   | Err e => Err e
                   | Ok kids =>
                       let n := List.length kids in
                       match kind with
                       | GOpt | GMand =>
                           let mn := match kind with GMand => 1%Z | _ => 0%Z end in
                           match go (k + n)%nat rest with Err e => Err e | Ok prs =>
                             Ok (map (fun c => PRelation (PPath here) mn 1%Z [c]) kids ++ prs) end
                       | GAlt =>
                           match go (S k) rest with Err e => Err e | Ok prs =>
                             Ok (PRelation (PPath here) 1%Z 1%Z kids :: prs) end
                       | GOr =>
                           match go (S k) rest with Err e => Err e | Ok prs =>
                             Ok (PRelation (PPath here) 1%Z (Z.of_nat n) kids :: prs) end
                       | GCard text =>
                           match parse_cardinality text with Err e => Err e | Ok (a, b) =>
                           match go (S k) rest with Err e => Err e | Ok prs =>
                             Ok (PRelation (PPath here) a b kids :: prs) end end
                       end
                   end
               end) 0%nat gs with
      | Err e => Err e
      | Ok prs => Ok (PFeature info parent (map (fun _ => PPath here) attrs) prs)
      end
      end end end
  end.

Definition astop_of_aggr (a : aggr) : astop :=
  match a with AgSum => SUM | AgAvg => AVG | AgLen => LEN | AgFloor => FLOOR | AgCeil => CEIL end.

Fixpoint uvl_read_ctc (c : ucst) : result node :=
  match c with
  | KLiteral r => Ok (term (strip_quotes r))
  | KNot x => match uvl_read_ctc x with Err e => Err e | Ok a => Ok (un NOT a) end
  | KBin o a b =>
      match uvl_read_ctc a with Err e => Err e | Ok a' =>
      match uvl_read_ctc b with Err e => Err e | Ok b' => Ok (bin o a' b') end end
  | KParen x => uvl_read_ctc x
  | KInt t => match to_int t with Err e => Err e | Ok z => Ok (Node (DInt z) None None) end
  | KFloat _ r => Ok (Node (DFloat r) None None)
  | KStr t => Ok (term t)
  | KAggr a refs =>
      match a, refs with
      | (AgLen | AgFloor | AgCeil), r :: _ => Ok (un (astop_of_aggr a) (term (strip_quotes r)))
      | (AgSum | AgAvg), [r] => Ok (un (astop_of_aggr a) (term (strip_quotes r)))
      | (AgSum | AgAvg), r1 :: r2 :: _ => Ok (bin (astop_of_aggr a) (term (strip_quotes r1)) (term (strip_quotes r2)))
      | _, [] => Err IndexError
      end
  end.

Definition uvl_read_cst (d : udoc) : result pfm :=
  match d_root d with
  | None => Err FlamaException
  | Some rf =>
      match uvl_read_feature [] PNone rf with Err e => Err e | Ok pr =>
      match mapM uvl_read_ctc (match d_ctcs d with Some l => l | None => [] end) with Err e => Err e | Ok ns =>
        Ok {| proot := pr;
              pctcs := (fix name_ (i : Z) (ns : list node) : list ctc :=
                          match ns with
                          | [] => []
                          | n :: rest => {| c_name := ("Constraint " ++ z_to_string i)%string; c_ast := n |}
                                         :: name_ (i + 1)%Z rest
                          end) 0%Z ns |}
      end end
  end.
