(* Format/Afm.v — afm_writer.py and afm_reader.py around the external afmparser (ANTLR).
   [adoc] is the concrete syntax tree; writer model = [afm_render (afm_cst m)]; reader model =
   [afm_read_cst].  The parser is a Section variable in Props/C06.v. *)
From Coq Require Import List Bool Ascii String ZArith.
From FM Require Import Base.Result Base.Str Base.AstOp Model.Ast Model.FM Model.PFM Model.Queries
     Format.Uvl Gen.Tables_afm.
Import ListNotations.
Local Open Scope string_scope.
Local Open Scope list_scope.

(* ------------------------------------------------------------------------------- syntax tree *)
Inductive aitem :=
| ISingle (optional : bool) (name : string)                 (* obligatory_spec / optional_spec *)
| IGroup (mn mx : string) (children : list string).         (* cardinal_spec *)
Record arelspec := { rs_parent : string; rs_items : list aitem }.

(* AvDouble: the DOUBLE token text and repr(float(text)), supplied by the parser side *)
Inductive avalue := AvInt (text : string) | AvText (text : string) | AvDouble (text repr : string).
Inductive adomain := ADiscrete (l : list avalue) | ARange (l : list (string * string)).
Record aattrspec := { at_feature : string; at_name : string; at_domain : adomain;
                      at_default : avalue; at_null : avalue }.

Inductive aexpr :=
| EVar (text : string) | ENum (text : string)
| EBin (op : string) (a b : aexpr) | ENot (a : aexpr) | EParen (a : aexpr).
(* a simple_spec: the expression and expression.getText() *)
Inductive actc := CSimple (e : aexpr) (text : string) | CBrackets (word : string) (l : list (aexpr * string)).

Record adoc := { ad_rels : list arelspec; ad_attrs : option (list aattrspec);
                 ad_ctcs : option (list actc) }.

(* ------------------------------------------------------------------------------- writer *)
(* read_relation: a single child under (1,1) / (0,1) is written plain / in brackets, everything else as a group *)
Definition afm_item (r : relation) : option aitem :=
  match r_children r with
  | [c] =>
      if (r_min r =? 1)%Z && (r_max r =? 1)%Z then Some (ISingle false (name c))
      else if (r_min r =? 0)%Z && (r_max r =? 1)%Z then Some (ISingle true (name c))
      else Some (IGroup (z_to_string (r_min r)) (z_to_string (r_max r)) [name c])
  | cs => Some (IGroup (z_to_string (r_min r)) (z_to_string (r_max r)) (map name cs))
  end.

(* recursive_relationship_read: one line per feature that is the root or has relations *)
Fixpoint afm_relspecs (f : feature) : list arelspec :=
  match f with
  | Feature i rs =>
      {| rs_parent := f_name i;
         rs_items := flat_map (fun r => match afm_item r with Some x => [x] | None => [] end) rs |}
      :: flat_map (fun r => match r with
                            | Relation _ _ cs =>
                                flat_map (fun c => match c with
                                                   | Feature _ [] => []
                                                   | _ => afm_relspecs c
                                                   end) cs
                            end) rs
  end.

Definition afm_value (v : aval) : result avalue :=
  match v with
  | VInt z => Ok (AvInt (z_to_string z))
  | VStr s => Ok (AvText s)
  | VFloat r =>                             (* fix: the positional spelling (the grammar's DOUBLE has no exponent);
                                               infinities and NaN have no AFM spelling *)
      match py_positional r with Some t => Ok (AvDouble t r) | None => Err FlamaException end
  | _ => Err OtherExn
  end.

Definition afm_attrspec (fname : string) (a : attr) : result aattrspec :=
  match a_dom a with
  | None => Err FlamaException            (* Attribute.get_domain *)
  | Some d =>
      match mapM afm_value (dom_elems d) with Err e => Err e | Ok els =>
      match mapM (fun rg => match rg_min rg, rg_max rg with
                            | VInt a1, VInt b1 => Ok (z_to_string a1, z_to_string b1)
                            | _, _ => Err OtherExn
                            end) (dom_ranges d) with Err e => Err e | Ok rgs =>
      match afm_value (a_default a) with Err e => Err e | Ok dv =>
      match afm_value (a_null a) with Err e => Err e | Ok nv =>
        (* the model covers a domain that is either a range list or an element list *)
        match rgs, els with
        | _ :: _, [] => Ok {| at_feature := fname; at_name := a_name a; at_domain := ARange rgs;
                              at_default := dv; at_null := nv |}
        | [], _ :: _ => Ok {| at_feature := fname; at_name := a_name a; at_domain := ADiscrete els;
                              at_default := dv; at_null := nv |}
        | _, _ => Err OtherExn
        end
      end end end end
  end.

(* recursive_constraint_read / _constraint_operand *)
Fixpoint afm_expr (n : node) : result aexpr :=
  match n with
  | Node d l r =>
      let operand (c : option node) : result aexpr :=
        match c with
        | None => Err AttributeError
        | Some x => match afm_expr x with
                    | Err e => Err e
                    | Ok ex => Ok (if is_op x then EParen ex else ex)
                    end
        end in
      match d with
      | DOp o =>
          match afm_operator o with
          | None => Err FlamaException
          | Some kw =>
              if astop_eqb o NOT then
                match operand l with Err e => Err e | Ok a => Ok (ENot a) end
              else
                match operand l with Err e => Err e | Ok a =>
                match operand r with Err e => Err e | Ok b => Ok (EBin kw a b) end end
          end
      | DStr s => Ok (EVar s)
      | DInt z => Ok (ENum (z_to_string z))
      | _ => Err OtherExn
      end
  end.

Fixpoint afm_render_expr (e : aexpr) : string :=
  match e with
  | EVar t | ENum t => t
  | EBin op a b => (afm_render_expr a ++ " " ++ op ++ " " ++ afm_render_expr b)%string
  | ENot a => ("NOT " ++ afm_render_expr a)%string
  | EParen a => ("(" ++ afm_render_expr a ++ ")")%string
  end.

Definition afm_cst (m : fm) : result adoc :=
  match mapM (fun pf => mapM (afm_attrspec (name pf)) (f_attrs (info pf))) (get_features m) with
  | Err e => Err e
  | Ok ats =>
      match mapM (fun c => match afm_expr (c_ast c) with
                           | Err e => Err e
                           | Ok ex => Ok (CSimple ex (afm_render_expr ex))
                           end) (ctcs m) with
      | Err e => Err e
      | Ok cs => Ok {| ad_rels := afm_relspecs (root m); ad_attrs := Some (List.concat ats);
                       ad_ctcs := Some cs |}
      end
  end.

Definition afm_render_item (i : aitem) : string :=
  match i with
  | ISingle false n => n
  | ISingle true n => ("[" ++ n ++ "]")%string
  | IGroup a b cs => ("[" ++ a ++ "," ++ b ++ "]{" ++ str_join " " cs ++ "}")%string
  end.

Definition afm_render_value (v : avalue) : string := match v with AvInt t | AvText t | AvDouble t _ => t end.

Definition afm_render (d : adoc) : string :=
  ("%Relationships" ++ String "010" ""
   ++ str_concat (map (fun rs => rs_parent rs ++ " : "
                                 ++ str_concat (map (fun i => " " ++ afm_render_item i) (rs_items rs))
                                 ++ ";" ++ String "010" "") (ad_rels d))
   ++ String "010" ""
   ++ "%Attributes" ++ String "010" ""
   ++ str_concat (map (fun a => at_feature a ++ "." ++ at_name a ++ ": "
                                ++ match at_domain a with
                                   | ARange l => "Integer " ++ str_concat (map (fun ab => "[" ++ fst ab ++ " to " ++ snd ab ++ "]") l)
                                   | ADiscrete l => "[" ++ str_join "," (map afm_render_value l) ++ "]"
                                   end
                                ++ "," ++ afm_render_value (at_default a) ++ "," ++ afm_render_value (at_null a)
                                ++ ";" ++ String "010" "")
                      (match ad_attrs d with Some l => l | None => [] end))
   ++ String "010" ""
   ++ "%Constraints" ++ String "010" ""
   ++ str_concat (map (fun c => match c with
                                | CSimple _ t => t ++ ";" ++ String "010" ""
                                | CBrackets _ _ => ""
                                end) (match ad_ctcs d with Some l => l | None => [] end)))%string.

Definition afm_write (m : fm) : result string :=
  match afm_cst m with Err e => Err e | Ok d => Ok (afm_render d) end.

(* ------------------------------------------------------------------------------- reader *)
Definition afm_to_int (s : string) : result Z :=
  match string_to_z s with Some z => Ok z | None => Err ValueError end.

(* append relations to the (unique) feature called [target]; None when there is none *)
Fixpoint add_rels (target : string) (new : list relation) (f : feature) : option feature :=
  match f with
  | Feature i rs =>
      if String.eqb (f_name i) target then Some (Feature i (rs ++ new))
      else
        (fix go (pre post : list relation) : option feature :=
           match post with
           | [] => None
           | Relation a b cs :: rest =>
               match (fix goc (cpre cpost : list feature) : option (list feature) :=
                        match cpost with
                        | [] => None
                        | c :: crest =>
                            match add_rels target new c with
                            | Some c' => Some (cpre ++ c' :: crest)
                            | None => goc (cpre ++ [c]) crest
                            end
                        end) [] cs with
               | Some cs' => Some (Feature i (pre ++ Relation a b cs' :: rest))
               | None => go (pre ++ [Relation a b cs]) rest
               end
           end) [] rs
  end.

Fixpoint add_attr (target : string) (a : attr) (f : feature) : option feature :=
  match f with
  | Feature i rs =>
      if String.eqb (f_name i) target
      then Some (Feature {| f_name := f_name i; f_abstract := f_abstract i; f_type := f_type i;
                            f_cmin := f_cmin i; f_cmax := f_cmax i; f_attrs := f_attrs i ++ [a] |} rs)
      else
        (fix go (pre post : list relation) : option feature :=
           match post with
           | [] => None
           | Relation x y cs :: rest =>
               match (fix goc (cpre cpost : list feature) : option (list feature) :=
                        match cpost with
                        | [] => None
                        | c :: crest =>
                            match add_attr target a c with
                            | Some c' => Some (cpre ++ c' :: crest)
                            | None => goc (cpre ++ [c]) crest
                            end
                        end) [] cs with
               | Some cs' => Some (Feature i (pre ++ Relation x y cs' :: rest))
               | None => go (pre ++ [Relation x y cs]) rest
               end
           end) [] rs
  end.

Definition item_relations (items : list aitem) : result (list relation) :=
  (* non-cardinal specs first, then the cardinal ones, each in textual order *)
  let singles := flat_map (fun i => match i with
                                    | ISingle opt n => [Relation (if opt then 0 else 1)%Z 1%Z [leaf n]]
                                    | _ => []
                                    end) items in
  match mapM (fun i => match i with
                       | IGroup a b cs =>
                           match afm_to_int a with Err e => Err e | Ok a' =>
                           match afm_to_int b with Err e => Err e | Ok b' =>
                             Ok [Relation a' b' (map leaf cs)] end end
                       | _ => Ok []
                       end) items with
  | Err e => Err e
  | Ok groups => Ok (singles ++ List.concat groups)
  end.

Definition item_names (items : list aitem) : list string :=
  flat_map (fun i => match i with ISingle _ n => [n] | IGroup _ _ cs => cs end) items.

(* the reader model is exact only while names stay unique (lookups are by name) *)
Definition fresh_names (new : list string) (f : feature) : bool :=
  nodupb new && forallb (fun n => negb (list_existsb_eq n (names f))) new.

Definition afm_value_aval (v : avalue) : result aval :=
  match v with
  | AvInt t => match afm_to_int t with Err e => Err e | Ok z => Ok (VInt z) end
  | AvText t => Ok (VStr t)
  | AvDouble _ r => Ok (VFloat r)
  end.

Fixpoint afm_read_expr (prefix : string) (e : aexpr) : result node :=
  match e with
  (* fix: inside a block  F { ... }  only a bare attribute name (a LOWERCASE token) is relative to F; feature names and
     qualified attributes (they start with a capital: WORD tokens) are not prefixed *)
  | EVar t => Ok (term (if match t with String c _ => is_lower c | EmptyString => false end then prefix ++ t else t)%string)
  (* fix: a number is an operand of arithmetic / relational expressions only, which the reader does not support: it used
     to become a term that get_features reports as a feature *)
  | ENum t => Err FlamaException
  | EBin op a b =>
      match afm_operator_of_keyword op with
      | None => Err FlamaException
      | Some o =>
          match afm_read_expr prefix a with Err e => Err e | Ok a' =>
          match afm_read_expr prefix b with Err e => Err e | Ok b' => Ok (bin o a' b') end end
      end
  | ENot a => match afm_read_expr prefix a with Err e => Err e | Ok a' => Ok (un NOT a') end
  | EParen a => afm_read_expr prefix a
  end.

Definition afm_read_cst (d : adoc) : result pfm :=
  match ad_rels d with
  | [] => Err IndexError
  | first :: others =>
      let root0 := leaf (rs_parent first) in
      match (fix go (specs : list arelspec) (cur : feature) : result feature :=
               match specs with
               | [] => Ok cur
               | s :: rest =>
                   if negb (fresh_names (item_names (rs_items s)) cur) then Err OtherExn
                   else
                     match item_relations (rs_items s) with Err e => Err e | Ok rels_ =>
                     match add_rels (rs_parent s) rels_ cur with
                     | None => Err FlamaException
                     | Some cur' => go rest cur'
                     end end
               end) (first :: others) root0 with
      | Err e => Err e
      | Ok tree =>
          match (fix goa (specs : list aattrspec) (cur : feature) : result feature :=
                   match specs with
                   | [] => Ok cur
                   | s :: rest =>
                       if negb (list_existsb_eq (at_feature s) (names cur)) then Err FlamaException
                       else
                         let dom : result domain :=
                           match at_domain s with
                           | ADiscrete l => match mapM afm_value_aval l with
                                            | Err e => Err e
                                            | Ok vs => Ok {| dom_ranges := []; dom_elems := vs |}
                                            end
                           | ARange l =>
                               match mapM (fun ab => match afm_to_int (fst ab) with Err e => Err e | Ok a =>
                                                     match afm_to_int (snd ab) with Err e => Err e | Ok b =>
                                                       Ok {| rg_min := VInt a; rg_max := VInt b |} end end) l with
                               | Err e => Err e
                               | Ok rs => Ok {| dom_ranges := rs; dom_elems := [] |}
                               end
                           end in
                         match dom with Err e => Err e | Ok dm =>
                         match afm_value_aval (at_default s) with Err e => Err e | Ok dv =>
                         match afm_value_aval (at_null s) with Err e => Err e | Ok nv =>
                         match add_attr (at_feature s) {| a_name := at_name s; a_dom := Some dm;
                                                          a_default := dv; a_null := nv |} cur with
                         | None => Err FlamaException
                         | Some cur' => goa rest cur'
                         end end end end
                   end) (match ad_attrs d with Some l => l | None => [] end) tree with
          | Err e => Err e
          | Ok tree2 =>
              match mapM (fun c => match c with
                                   | CSimple e t =>
                                       match afm_read_expr "" e with
                                       | Err x => Err x
                                       | Ok n => Ok [{| c_name := t; c_ast := n |}]
                                       end
                                   | CBrackets w l =>
                                       mapM (fun et => match afm_read_expr (w ++ ".")%string (fst et) with
                                                       | Err x => Err x
                                                       | Ok n => Ok {| c_name := snd et; c_ast := n |}
                                                       end) l
                                   end) (match ad_ctcs d with Some l => l | None => [] end) with
              | Err e => Err e
              | Ok css => Ok (annotate_fm {| root := tree2; ctcs := List.concat css |})
              end
          end
      end
  end.
