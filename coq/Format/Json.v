(* Format/Json.v — json_writer.py (to_json and below) and json_reader.py (parse_tree and below).
   A JSON value is an [aval] (VMap = object with insertion-ordered keys). *)
From Coq Require Import List Bool Ascii String ZArith.
From FM Require Import Base.Result Base.Str Base.AstOp Model.Ast Model.FM Model.PFM Model.Queries
     Gen.Tables_json.
Import ListNotations.
Local Open Scope string_scope.
Local Open Scope list_scope.

(* ------------------------------------------------------------------------------- writer *)
Definition json_relation_type (r : relation) : string :=
  if rel_is_alternative r then jt_XOR
  else if rel_is_or r then jt_OR
  else if rel_is_mutex r then jt_MUTEX
  else if rel_is_cardinal r then jt_CARDINALITY
  else if rel_is_mandatory r then jt_MANDATORY
  else if rel_is_optional r then jt_OPTIONAL
  else jt_FEATURE.

Definition json_attributes (attrs : list attr) : list aval :=
  map (fun a => VMap (("name", VStr (a_name a))
                      :: match a_default a with VNone => [] | v => [("value", v)] end)) attrs.

Fixpoint json_tree (f : feature) : aval :=
  match f with
  | Feature i rs =>
      VMap ([("name", VStr (f_name i)); ("abstract", f_abstract i);
             ("relations",
              VList (map (fun r => match r with
                                   | Relation a b cs =>
                                       VMap [("type", VStr (json_relation_type r));
                                             ("card_min", VInt a); ("card_max", VInt b);
                                             ("children", VList (map json_tree cs))]
                                   end) rs))]
            ++ match f_attrs i with [] => [] | at_ => [("attributes", VList (json_attributes at_))] end)
  end.

Definition json_of_data (d : ndata) : aval :=
  match d with
  | DStr s => VStr s | DInt z => VInt z | DFloat r => VFloat r | DBool b => VBool b
  | DOp o => VStr (astop_value o)     (* unreachable: operators are not terms *)
  end.

(* get_ctc_info: AttributeError when an operator has no left operand *)
Fixpoint json_ctc (n : node) : result aval :=
  match n with
  | Node d l r =>
      if is_term n then Ok (VMap [("type", VStr jt_FEATURE); ("operands", VList [json_of_data d])])
      else
        match l with
        | None => Err AttributeError
        | Some a =>
            match json_ctc a with Err e => Err e | Ok ja =>
              match r with
              | None => Ok (VMap [("type", VStr (data_label d)); ("operands", VList [ja])])
              | Some b =>
                  match json_ctc b with Err e => Err e | Ok jb =>
                    Ok (VMap [("type", VStr (data_label d)); ("operands", VList [ja; jb])])
                  end
              end
            end
        end
  end.

Definition json_constraints (cs : list ctc) : result (list aval) :=
  mapM (fun c =>
          match pretty_str (c_ast c) with Err e => Err e | Ok expr =>
          match json_ctc (c_ast c) with Err e => Err e | Ok j =>
            Ok (VMap [("name", VStr (c_name c)); ("expr", VStr expr); ("ast", j)])
          end end) cs.

Definition json_write (m : fm) : result aval :=
  let tree := json_tree (root m) in
  match json_constraints (ctcs m) with
  | Err e => Err e
  | Ok cs => Ok (VMap [("features", tree); ("constraints", VList cs)])
  end.

(* ------------------------------------------------------------------------------- reader *)
Fixpoint assoc (k : string) (kv : list (string * aval)) : option aval :=
  match kv with
  | [] => None
  | (k', v) :: rest => if String.eqb k k' then Some v else assoc k rest
  end.

(* obj[key] *)
Definition jget (k : string) (v : aval) : result aval :=
  match v with
  | VMap kv => match assoc k kv with Some x => Ok x | None => Err KeyError end
  | _ => Err TypeError
  end.
(* key in obj   (only objects are in the modelled shape grammar) *)
Definition jhas (k : string) (v : aval) : bool :=
  match v with VMap kv => match assoc k kv with Some _ => true | None => false end | _ => false end.
Definition jlist (v : aval) : result (list aval) :=
  match v with VList l => Ok l | _ => Err OtherExn end.
Definition jstr (v : aval) : result string :=
  match v with VStr s => Ok s | _ => Err OtherExn end.
Definition jint (v : aval) : result Z :=
  match v with VInt z => Ok z | _ => Err OtherExn end.

Definition json_read_attributes (node : aval) : result (list attr) :=
  if jhas "attributes" node then
    match jget "attributes" node with Err e => Err e | Ok al =>
    match jlist al with Err e => Err e | Ok l =>
      mapM (fun a =>
              match jget "name" a with Err e => Err e | Ok n =>
              match jstr n with Err e => Err e | Ok name =>
                let v := match a with
                         | VMap kv => match assoc "value" kv with Some x => x | None => VNone end
                         | _ => VNone
                         end in
                Ok {| a_name := name; a_dom := None; a_default := v; a_null := VNone |}
              end end) l
    end end
  else Ok [].

(* 'True' / 'False' strings of earlier versions *)
Definition json_abstract (v : aval) : aval :=
  match v with VStr s => VBool (String.eqb s "True") | _ => v end.

Definition json_relation_cards (rtype : string) (rel : aval) (n : nat) : result (Z * Z) :=
  if String.eqb rtype jt_OPTIONAL then Ok (0, 1)%Z
  else if String.eqb rtype jt_MANDATORY then Ok (1, 1)%Z
  else if String.eqb rtype jt_XOR then Ok (1, 1)%Z
  else if String.eqb rtype jt_OR then Ok (1, Z.of_nat n)%Z
  else if String.eqb rtype jt_MUTEX then Ok (0, 1)%Z
  else if String.eqb rtype jt_CARDINALITY then
    match jget "card_min" rel with Err e => Err e | Ok a =>
    match jget "card_max" rel with Err e => Err e | Ok b =>
    (* fix: a cardinality is an integer (a float, a Boolean, a string, null are rejected) *)
    match jint a with Err _ => Err ParsingException | Ok a' =>
    match jint b with Err _ => Err ParsingException | Ok b' => Ok (a', b') end end end end
  else Err ParsingException.

(* fuel = nesting depth of the document; structural recursion on the JSON value is awkward because
   children sit inside VMap/VList layers, so the depth is passed explicitly and exhaustion is
   [Err OtherExn] *)
Fixpoint json_parse_tree (fuel : nat) (here : path) (parent : ptr) (node : aval) : result pfeature :=
  match fuel with
  | O => Err OtherExn
  | S fuel' =>
      match jget "name" node with Err e => Err e | Ok n =>
      match jget "abstract" node with Err e => Err e | Ok ab =>
      match jstr n with Err _ => Err ParsingException | Ok name =>      (* fix: a name is a string *)
      match json_read_attributes node with Err e => Err e | Ok attrs =>
      let info := {| f_name := name; f_abstract := json_abstract ab; f_type := TBoolean;
                     f_cmin := 1; f_cmax := 1; f_attrs := attrs |} in
      let relsr :=
        if jhas "relations" node then
          match jget "relations" node with Err e => Err e | Ok rl =>
          match jlist rl with Err e => Err e | Ok rels =>
            (fix go (k : nat) (rels : list aval) : result (list prelation) :=
               match rels with
               | [] => Ok []
               | rel :: rest =>
                   match jget "children" rel with Err e => Err e | Ok chv =>
                   match jlist chv with Err e => Err e | Ok chl =>
                   match (fix goc (j : nat) (chl : list aval) : result (list pfeature) :=
                            match chl with
                            | [] => Ok []
                            | c :: cs =>
                                match json_parse_tree fuel' (here ++ [(k, j)]) (PPath here) c with
                                | Err e => Err e
                                | Ok pc => match goc (S j) cs with
                                           | Err e => Err e
                                           | Ok pcs => Ok (pc :: pcs)
                                           end
                                end
                            end) 0%nat chl with
                   | Err e => Err e
                   | Ok [] => Err ParsingException     (* fix: a relation without children is rejected *)
                   | Ok ((_ :: _) as children) =>
                       match jget "type" rel with Err e => Err e | Ok tv =>
                       match jstr tv with Err e => Err e | Ok rtype =>
                       match json_relation_cards rtype rel (List.length children) with
                       | Err e => Err e
                       | Ok (a, b) =>
                           match go (S k) rest with
                           | Err e => Err e
                           | Ok prs => Ok (PRelation (PPath here) a b children :: prs)
                           end
                       end end end
                   end end end
               end) 0%nat rels
          end end
        else Ok [] in
      match relsr with
      | Err e => Err e
      | Ok prs => Ok (PFeature info parent (map (fun _ => PPath here) attrs) prs)
      end
      end end end end
  end.

Definition data_of_json (v : aval) : result ndata :=
  match v with
  | VStr s => Ok (DStr s) | VInt z => Ok (DInt z) | VFloat r => Ok (DFloat r) | VBool b => Ok (DBool b)
  | _ => Err ParsingException        (* fix: null, a list or a map is no term *)
  end.

(* functools.reduce(lambda l, r: Node(op, l, r), op_list): TypeError on an empty list *)
Definition reduce_op (o : astop) (l : list node) : result node :=
  match l with
  | [] => Err TypeError
  | x :: xs => Ok (fold_left (fun acc y => bin o acc y) xs x)
  end.

Definition nth_operand (l : list aval) (i : nat) : result aval :=
  match nth_error l i with Some x => Ok x | None => Err IndexError end.

Fixpoint json_parse_ctc (fuel : nat) (info : aval) : result node :=
  match fuel with
  | O => Err OtherExn
  | S fuel' =>
      match jget "type" info with Err e => Err e | Ok tv =>
      match jget "operands" info with Err e => Err e | Ok ov =>
      (* fix: "operands" must be a list (a string used to be indexed by character); a type that is no string matches no
         known type *)
      match jlist ov with Err _ => Err ParsingException | Ok ops =>
      match jstr tv with Err _ => Err ParsingException | Ok ty =>
        let sub (i : nat) : result node :=
          match nth_operand ops i with Err e => Err e | Ok x => json_parse_ctc fuel' x end in
        let bin2 (o : astop) : result node :=
          match sub 0%nat with Err e => Err e | Ok a =>
          match sub 1%nat with Err e => Err e | Ok b => Ok (bin o a b) end end in
        if String.eqb ty jt_FEATURE then
          match nth_operand ops 0 with Err e => Err e | Ok x =>
          match data_of_json x with Err e => Err e | Ok d => Ok (Node d None None) end end
        else if String.eqb ty (astop_value NOT) then
          match sub 0%nat with Err e => Err e | Ok a => Ok (un NOT a) end
        else if String.eqb ty (astop_value IMPLIES) then bin2 IMPLIES
        else if String.eqb ty (astop_value REQUIRES) then bin2 REQUIRES
        else if String.eqb ty (astop_value EXCLUDES) then bin2 EXCLUDES
        else if String.eqb ty (astop_value EQUIVALENCE) then bin2 EQUIVALENCE
        else if String.eqb ty (astop_value AND) then
          match mapM (json_parse_ctc fuel') ops with Err e => Err e | Ok l => reduce_op AND l end
        else if String.eqb ty (astop_value OR) then
          match mapM (json_parse_ctc fuel') ops with Err e => Err e | Ok l => reduce_op OR l end
        else if String.eqb ty (astop_value XOR) then
          match mapM (json_parse_ctc fuel') ops with Err e => Err e | Ok l => reduce_op XOR l end
        else Err ParsingException
      end end end end
  end.

Fixpoint aval_depth (v : aval) : nat :=
  match v with
  | VList l => S (fold_right Nat.max 0 (map aval_depth l))
  | VMap kv => S (fold_right Nat.max 0 (map (fun p => aval_depth (snd p)) kv))
  | _ => 1
  end.

Definition json_read (doc : aval) : result pfm :=
  match jget "features" doc with Err e => Err e | Ok fv =>
  match jget "constraints" doc with Err e => Err e | Ok cv =>
  match json_parse_tree (aval_depth fv) [] PNone fv with Err e => Err e | Ok proot_ =>
  match jlist cv with Err e => Err e | Ok cl =>
  match mapM (fun ci =>
                match jget "name" ci with Err e => Err e | Ok nv =>
                match jget "ast" ci with Err e => Err e | Ok av =>
                match jstr nv with Err e => Err e | Ok name =>
                match json_parse_ctc (aval_depth av) av with Err e => Err e | Ok n =>
                  Ok {| c_name := name; c_ast := n |}
                end end end end) cl with
  | Err e => Err e
  | Ok cs => Ok {| proot := proot_; pctcs := cs |}
  end end end end end.

(* the fragment of C05 *)
Fixpoint aval_jsonable (v : aval) : bool :=
  match v with
  | VList l => forallb aval_jsonable l
  | VMap kv => nodupb (map fst kv) && forallb (fun p => aval_jsonable (snd p)) kv
  | _ => true
  end.
