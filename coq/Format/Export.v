(* Format/Export.v — splot_writer.py, pl_writer.py, clafer_writer.py: structured documents, the
   target formats' own semantics, the writers, and the text rendering. *)
From Coq Require Import List Bool Ascii String ZArith.
From FM Require Import Base.Result Base.Str Base.AstOp Gen.Tables_core Model.Ast Model.FM Model.Ctc
     Model.Queries Model.Sem Format.Glencoe Format.Xml.
Import ListNotations.
Local Open Scope string_scope.
Local Open Scope list_scope.

Definition nl : string := String "010" "".
Definition tab : string := String "009" "".
Fixpoint tabs (n : nat) : string := match n with O => "" | S k => (tab ++ tabs k)%string end.

(* the writers' common safename: quote unless [A-Za-z0-9_]* *)
Definition w_safename (s : string) : string := if str_forallb is_safechar s then s else quote s.
(* clafer_writer.safename: also quotes the words the writer itself emits as keywords *)
Definition clafer_keywords : list string :=
  ["abstract"; "xor"; "or"; "mux"; "not"; "true"; "false"; "integer"; "double"; "string"; "boolean"].
Definition cl_safename (s : string) : string :=
  if existsb (String.eqb s) clafer_keywords then quote s else w_safename s.

(* =============================================================================== SPLOT (SXFM) *)
Inductive sxf := SxF (name : string) (items : list sxitem)
with sxitem :=
| SxSolitary (optional : bool) (f : sxf)
| SxGroup (mn mx : Z) (members : list sxf).

Definition sx_name (f : sxf) := match f with SxF n _ => n end.

Record splot_doc := { sp_model_name : string; sp_root : sxf; sp_clauses : list (list (bool * string)) }.

(* add_features: optional first, then mandatory, every other relation is a group *)
Fixpoint splot_tree (f : feature) : sxf :=
  match f with
  | Feature i rs =>
      SxF (f_name i)
          (map (fun r => match r with
                         | Relation mn mx cs =>
                             if rel_is_optional r then
                               match cs with c :: _ => SxSolitary true (splot_tree c) | [] => SxGroup mn mx [] end
                             else if rel_is_mandatory r then
                               match cs with c :: _ => SxSolitary false (splot_tree c) | [] => SxGroup mn mx [] end
                             else SxGroup mn mx (map splot_tree cs)
                         end) rs)
  end.

(* add_constraints: the literals of the CNF clauses; '-name' is a negative literal *)
Definition splot_literal (d : ndata) : result (bool * string) :=
  match d with
  | DStr t => match t with
              | String "-" rest => Ok (true, rest)
              | _ => Ok (false, t)
              end
  | _ => Err AttributeError
  end.

Definition splot_clauses (cs : list ctc) : result (list (list (bool * string))) :=
  match mapM (fun c => match get_clauses (c_ast c) with
                       | Err e => Err e
                       | Ok cls => mapM (mapM splot_literal) cls
                       end) cs with
  | Err e => Err e
  | Ok l => Ok (List.concat l)
  end.

Definition splot_write (m : fm) : result splot_doc :=
  match splot_clauses (ctcs m) with
  | Err e => Err e
  | Ok cl => Ok {| sp_model_name := str_remove_char " " (name (root m)); sp_root := splot_tree (root m);
                   sp_clauses := cl |}
  end.

(* ---- the format's semantics ---- *)
Section SxSem.
  Variable σ : string -> bool.
  Fixpoint sx_none (f : sxf) : bool :=
    match f with
    | SxF n items =>
        negb (σ n)
        && forallb (fun it => match it with
                              | SxSolitary _ c => sx_none c
                              | SxGroup _ _ ms => forallb sx_none ms
                              end) items
    end.
  Fixpoint sx_sem (f : sxf) : bool :=
    match f with
    | SxF n items =>
        σ n
        && forallb (fun it => match it with
                              | SxSolitary opt c =>
                                  if σ (sx_name c) then sx_sem c else (opt && sx_none c)
                              | SxGroup mn mx ms =>
                                  card_okb mn mx (List.length ms)
                                           (Z.of_nat (List.length (filter (fun c => σ (sx_name c)) ms)))
                                  && forallb (fun c => if σ (sx_name c) then sx_sem c else sx_none c) ms
                              end) items
    end.
  Definition clause_true (cl : list (bool * string)) : bool :=
    existsb (fun l : bool * string => if fst l then negb (σ (snd l)) else σ (snd l)) cl.
  Definition sxfm_sat (d : splot_doc) : bool := sx_sem (sp_root d) && forallb clause_true (sp_clauses d).
End SxSem.

(* ---- rendering ---- *)
(* splot_writer.safename: also quotes the clause separator 'or' *)
Definition sx_safename (s : string) : string := if String.eqb s "or" then quote s else w_safename s.
Definition sx_label (n : string) : string := (sx_safename n ++ " (" ++ sx_safename n ++ ")")%string.
Definition card_star (mx : Z) : string := if (mx =? -1)%Z then "*" else z_to_string mx.

Fixpoint sx_lines (f : sxf) (ntabs : nat) : list string :=
  match f with
  | SxF _ items =>
      flat_map (fun it => match it with
                          | SxSolitary opt c =>
                              (tabs ntabs ++ (if opt then ":o " else ":m ") ++ sx_label (sx_name c))%string
                              :: sx_lines c (S ntabs)
                          | SxGroup mn mx ms =>
                              (tabs ntabs ++ ":g [" ++ z_to_string mn ++ "," ++ card_star mx ++ "]")%string
                              :: flat_map (fun c => (tabs (S ntabs) ++ ": " ++ sx_label (sx_name c))%string
                                                    :: sx_lines c (S (S ntabs))) ms
                          end) items
  end.

(* xml.sax.saxutils.escape: the text of the two sections is XML character data *)
Fixpoint xml_escape (quot : bool) (s : string) : string :=
  match s with
  | EmptyString => ""
  | String c r =>
      ((if Ascii.eqb c "&" then "&amp;"
        else if Ascii.eqb c "<" then "&lt;"
        else if Ascii.eqb c ">" then "&gt;"
        else if quot && Ascii.eqb c """" then "&quot;"
        else String c "") ++ xml_escape quot r)%string
  end.

Definition render_splot (d : splot_doc) : string :=
  str_join nl
    (["<?xml version=""1.0"" encoding=""UTF-8"" standalone=""no""?>";
      ("<feature_model name=""" ++ xml_escape true (sp_model_name d) ++ """>")%string;
      "<feature_tree>"]
     ++ map (xml_escape false)
            ((":r " ++ sx_label (sx_name (sp_root d)))%string :: sx_lines (sp_root d) 1)
     ++ ["</feature_tree>"; "<constraints>"]
     ++ map (xml_escape false) ((fix go (i : Z) (cls : list (list (bool * string))) : list string :=
           match cls with
           | [] => []
           | cl :: rest =>
               (tab ++ "C" ++ z_to_string i ++ ": "
                ++ str_join " or " (map (fun l : bool * string => if fst l then "~" ++ sx_safename (snd l) else sx_safename (snd l)) cl))%string
               :: go (i + 1)%Z rest
           end) 1%Z (sp_clauses d))
     ++ ["</constraints>"; "</feature_model>"]).

Definition splot_text (m : fm) : result string :=
  match splot_write m with Err e => Err e | Ok d => Ok (render_splot d) end.

(* =============================================================================== propositional (.exp) *)
Inductive pl :=
| PVar (s : string) | PNot (p : pl) | PAnd (a b : pl) | POr (a b : pl) | PImp (a b : pl) | PIff (a b : pl)
| PParen (p : pl).

Fixpoint pl_eval (σ : string -> bool) (p : pl) : bool :=
  match p with
  | PVar s => σ s
  | PNot a => negb (pl_eval σ a)
  | PAnd a b => pl_eval σ a && pl_eval σ b
  | POr a b => pl_eval σ a || pl_eval σ b
  | PImp a b => implb (pl_eval σ a) (pl_eval σ b)
  | PIff a b => Bool.eqb (pl_eval σ a) (pl_eval σ b)
  | PParen a => pl_eval σ a
  end.

Fixpoint render_pl (p : pl) : string :=
  match p with
  | PVar s => s
  | PNot a => ("not " ++ render_pl a)%string
  | PAnd a b => (render_pl a ++ " and " ++ render_pl b)%string
  | POr a b => (render_pl a ++ " or " ++ render_pl b)%string
  | PImp a b => (render_pl a ++ " -> " ++ render_pl b)%string
  | PIff a b => (render_pl a ++ " <-> " ++ render_pl b)%string
  | PParen a => ("(" ++ render_pl a ++ ")")%string
  end.

(* ' and '.join / ' or '.join of a non-empty list *)
Definition pjoin (op : pl -> pl -> pl) (l : list pl) (empty : pl) : pl :=
  match l with [] => empty | x :: xs => fold_left op xs x end.

(* itertools.combinations(range(n), k) as index lists, in itertools' order *)
Fixpoint combs (k : nat) (l : list nat) : list (list nat) :=
  match k with
  | O => [[]]
  | S k' => match l with
            | [] => []
            | x :: xs => map (cons x) (combs k' xs) ++ combs k xs
            end
  end.

Definition pl_relation (owner : string) (r : relation) : result pl :=
  let P := PVar owner in
  let cs := map name (r_children r) in
  let n := List.length cs in
  if rel_is_mandatory r then Ok (PIff P (PVar (hd "" cs)))
  else if rel_is_optional r then Ok (PImp (PVar (hd "" cs)) P)
  else if rel_is_or r then Ok (PIff P (PParen (pjoin POr (map PVar cs) P)))
  else if rel_is_alternative r then
    Ok (pjoin PAnd
              (map (fun i => PParen (PIff (PVar (nth i cs ""))
                                          (PParen (pjoin PAnd
                                                         (map (fun j => PNot (PVar (nth j cs "")))
                                                              (filter (fun j => negb (Nat.eqb j i)) (seq 0 n))
                                                          ++ [P]) P))))
                   (seq 0 n)) P)
  else
    (* mutex and cardinality *)
    if (r_min r <? 0)%Z then Err ValueError
    else
      let card_max := if (r_max r =? -1)%Z then Z.of_nat n else r_max r in
      let ks := map (fun d => (Z.to_nat (r_min r) + d)%nat)
                    (seq 0 (Z.to_nat (card_max + 1 - r_min r))) in
      let combos :=
        flat_map (fun k => map (fun positives =>
                                  PParen (pjoin PAnd
                                                (map (fun i => if existsb (Nat.eqb i) positives
                                                               then PVar (nth i cs "")
                                                               else PNot (PVar (nth i cs "")))
                                                     (seq 0 n)) P))
                               (combs k (seq 0 n))) ks in
      let combos' := match combos with [] => [PParen (PAnd P (PNot P))] | _ => combos end in
      let cip := pjoin PAnd (map (fun c => PParen (PImp (PVar c) P)) cs) P in
      Ok (PAnd cip (PParen (PImp P (PParen (pjoin POr combos' P))))).

(* _node_formula / _operand_formula *)
Fixpoint pl_node (n : node) : result pl :=
  match n with
  | Node d l r =>
      let operand (c : option node) : result pl :=
        match c with
        | None => Err AttributeError
        | Some x => match pl_node x with
                    | Err e => Err e
                    | Ok px => Ok (if is_op x then PParen px else px)
                    end
        end in
      match d with
      | DOp NOT => match operand l with Err e => Err e | Ok a => Ok (PNot a) end
      | DOp o =>
          match operand l with Err e => Err e | Ok a =>
          match operand r with Err e => Err e | Ok b =>
            match o with
            | AND => Ok (PAnd a b)
            | OR => Ok (POr a b)
            | IMPLIES | REQUIRES => Ok (PImp a b)
            | EQUIVALENCE => Ok (PIff a b)
            | EXCLUDES => Ok (PImp a (PNot b))
            | XOR => Ok (PAnd (PParen (POr a b)) (PNot (PParen (PAnd a b))))
            | _ => Err ValueError
            end
          end end
      | _ => Ok (PVar (data_str d))
      end
  end.

(* to_exp: the root, one formula per relation, one per logical constraint.  The implementation visits
   the relations with an explicit stack; the model lists them in [subrelations_ctx] order (the lines
   are compared as a multiset). *)
Definition pl_write (m : fm) : result (list pl) :=
  match mapM (fun pr => pl_relation (name (fst pr)) (snd pr)) (subrelations_ctx (root m)) with
  | Err e => Err e
  | Ok rels_ =>
      match mapM (fun c => pl_node (c_ast c)) (filter (fun c => is_logical (c_ast c)) (ctcs m)) with
      | Err e => Err e
      | Ok cs => Ok (PVar (name (root m)) :: rels_ ++ cs)
      end
  end.

Definition pl_sat (σ : string -> bool) (d : list pl) : bool := forallb (pl_eval σ) d.
Definition pl_lines (m : fm) : result (list string) :=
  match pl_write m with Err e => Err e | Ok d => Ok (map render_pl d) end.

(* =============================================================================== Clafer *)
Inductive cgroup := GXor | GOr | GMux | GCardC (mn mx : Z).
Inductive clf :=
  Clf (group : option cgroup) (name : string) (attributed optional : bool)
      (attr_ctcs : list (string * string)) (children : list clf).

Inductive cexpr :=
| CxVar (s : string) | CxNot (a : cexpr) | CxBin (op : string) (a b : cexpr) | CxParen (a : cexpr).

Record cdoc := { cd_attrdecls : list (string * string); cd_root : clf; cd_ctcs : list cexpr;
                 cd_instance_of : string }.

Definition clafer_group (f : feature) : option cgroup :=
  if feat_is_alternative_group f then Some GXor
  else if feat_is_or_group f then Some GOr
  else if feat_is_cardinality_group f then
    match find rel_is_cardinal (rels f) with
    | Some r => Some (GCardC (r_min r) (r_max r))
    | None => None
    end
  else if feat_is_mutex_group f then Some GMux
  else None.

(* the text of an attribute value *)
Fixpoint py_str (v : aval) : string :=
  match v with
  | VNone => "None" | VBool true => "True" | VBool false => "False" | VInt z => z_to_string z
  | VFloat r => r | VStr s => ("'" ++ s ++ "'")%string
  | VList l => ("[" ++ str_join ", " (map py_str l) ++ "]")%string
  | VMap _ => "{...}"
  end.
Definition clafer_value (v : aval) : string :=
  match v with
  | VNone => ""
  | VStr s => quote s
  | VBool b => if b then "true" else "false"
  | VInt z => z_to_string z
  | VFloat r => match py_positional r with Some t => t | None => r end   (* fix: positional; non-finite: see clafer_write *)
  | other => py_str other
  end.
Definition clafer_type (v : aval) : string :=
  match v with
  | VBool _ => "boolean" | VInt _ => "integer" | VFloat _ => "double" | VStr _ => "string" | _ => ""
  end.

(* fix: 0..* is Clafer's DEFAULT group cardinality, under which a child is 1..1 unless marked: the members of a [0..*]
   group are written with "?" *)
Definition in_any_number_group (p : option feature) (f : feature) : bool :=
  match p with
  | None => false
  | Some q => existsb (fun r => rel_is_cardinal r && (r_min r =? 0)%Z && (r_max r =? -1)%Z && in_children f r) (rels q)
  end.

Fixpoint clafer_tree (p : option feature) (f : feature) : clf :=
  match f with
  | Feature i rs =>
      Clf (clafer_group f) (cl_safename (f_name i))
          (negb (Nat.eqb (List.length (f_attrs i)) 0))
          (feat_is_optional p f || in_any_number_group p f)
          (map (fun a => (cl_safename (a_name a), clafer_value (a_default a))) (f_attrs i))
          (flat_map (fun r => match r with Relation _ _ cs => map (clafer_tree (Some f)) cs end) rs)
  end.

Definition clafer_operator (o : astop) : option string :=
  match o with
  | NOT => Some "not" | AND => Some "&&" | OR => Some "||" | XOR => Some "xor" | IMPLIES => Some "=>"
  | REQUIRES => Some "=>" | EQUIVALENCE => Some "<=>" | _ => None
  end.

Fixpoint clafer_node (n : node) : result cexpr :=
  match n with
  | Node d l r =>
      let operand (c : option node) : result cexpr :=
        match c with
        | None => Err AttributeError
        | Some x => match clafer_node x with
                    | Err e => Err e
                    | Ok cx => Ok (if is_op x then CxParen cx else cx)
                    end
        end in
      match d with
      | DOp NOT => match operand l with Err e => Err e | Ok a => Ok (CxNot a) end
      | DOp o =>
          match operand l with Err e => Err e | Ok a =>
          match operand r with Err e => Err e | Ok b =>
            if astop_eqb o EXCLUDES then Ok (CxBin "=>" a (CxNot b))
            else match clafer_operator o with
                 | Some s => Ok (CxBin s a b)
                 | None => Err KeyError
                 end
          end end
      | _ => Ok (CxVar (cl_safename (data_str d)))
      end
  end.

Definition clafer_attrdecls (m : fm) : list (string * string) :=
  let all := flat_map (fun f => map (fun a => (a_name a, clafer_type (a_default a))) (f_attrs (info f)))
                      (get_features m) in
  let d := fold_left (fun acc kv => dict_set acc (fst kv) (VStr (snd kv))) all [] in
  map (fun kv => (cl_safename (fst kv), match snd kv with VStr s => s | _ => "" end)) d.

Definition nonfinite_float (v : aval) : bool :=
  match v with VFloat r => match py_positional r with None => true | Some _ => false end | _ => false end.

Definition clafer_write (m : fm) : result cdoc :=
  if existsb (fun f => existsb (fun a => nonfinite_float (a_default a)) (f_attrs (info f))) (get_features m)
  then Err FlamaException      (* fix: Clafer has no literal for an infinity or NaN *)
  else
  match mapM (fun c => clafer_node (c_ast c)) (ctcs m) with
  | Err e => Err e
  | Ok cs => Ok {| cd_attrdecls := clafer_attrdecls m; cd_root := clafer_tree None (root m); cd_ctcs := cs;
                   cd_instance_of := cl_safename (name (root m)) |}
  end.

(* ---- Clafer's semantics on the feature hierarchy: the identifiers are the (safe-named) feature names ---- *)
Section ClaferSem.
  Variable σ : string -> bool.
  Definition cl_name (c : clf) := match c with Clf _ n _ _ _ _ => n end.
  Definition cl_optional (c : clf) := match c with Clf _ _ _ o _ _ => o end.
  Fixpoint cl_none (c : clf) : bool :=
    match c with Clf _ n _ _ _ kids => negb (σ n) && forallb cl_none kids end.
  Definition group_bounds (g : cgroup) (n : nat) : Z * Z :=
    match g with
    | GXor => (1, 1)%Z | GOr => (1, Z.of_nat n)%Z | GMux => (0, 1)%Z
    | GCardC a b => (a, if (b =? -1)%Z then Z.of_nat n else b)
    end.
  (* a clafer with a group cardinality OTHER THAN 0..* (the default, also when written out): its children default to
     0..1 and are counted by the group; otherwise a child is 1..1 unless marked ?  (Clafer's analyzeCard) *)
  Definition default_gcard (g : option cgroup) : bool :=
    match g with
    | None => true
    | Some (GCardC a b) => (a =? 0)%Z && (b =? -1)%Z
    | Some _ => false
    end.
  Fixpoint cl_sem (c : clf) : bool :=
    match c with
    | Clf g n _ _ _ kids =>
        σ n
        && match (if default_gcard g then None else g) with
           | Some gr =>
               let (a, b) := group_bounds gr (List.length kids) in
               let k := Z.of_nat (List.length (filter (fun d => σ (cl_name d)) kids)) in
               ((a <=? k) && (k <=? b))%Z
               && forallb (fun d => if σ (cl_name d) then cl_sem d else cl_none d) kids
           | None =>
               forallb (fun d => if σ (cl_name d) then cl_sem d else (cl_optional d && cl_none d)) kids
           end
    end.
  Fixpoint cx_eval (e : cexpr) : bool :=
    match e with
    | CxVar s => σ s
    | CxNot a => negb (cx_eval a)
    | CxParen a => cx_eval a
    | CxBin op a b =>
        let x := cx_eval a in let y := cx_eval b in
        if String.eqb op "&&" then x && y
        else if String.eqb op "||" then x || y
        else if String.eqb op "xor" then xorb x y
        else if String.eqb op "=>" then implb x y
        else if String.eqb op "<=>" then Bool.eqb x y
        else false
    end.
  Definition clafer_sat (d : cdoc) : bool := cl_sem (cd_root d) && forallb cx_eval (cd_ctcs d).
End ClaferSem.

(* ---- rendering ---- *)
Definition render_cgroup (g : cgroup) : string :=
  match g with
  | GXor => "xor" | GOr => "or" | GMux => "mux"
  | GCardC a b => (z_to_string a ++ ".." ++ card_star b)%string
  end.

Fixpoint render_clf (c : clf) (ntabs : nat) : string :=
  match c with
  | Clf g n attributed opt actcs kids =>
      (tabs ntabs
       ++ match g with Some gr => render_cgroup gr ++ " " | None => "" end
       ++ n
       ++ (if attributed then " : AttributedFeature" else "")
       ++ (if opt then " ?" else "")
       ++ str_concat (map (fun kv => nl ++ tabs (S ntabs) ++ "[" ++ fst kv ++ " = " ++ snd kv ++ "]") actcs)
       ++ nl
       ++ str_concat (map (fun k => render_clf k (S ntabs)) kids))%string
  end.

Fixpoint render_cexpr (e : cexpr) : string :=
  match e with
  | CxVar s => s
  | CxNot a => ("not " ++ render_cexpr a)%string
  | CxBin op a b => (render_cexpr a ++ " " ++ op ++ " " ++ render_cexpr b)%string
  | CxParen a => ("(" ++ render_cexpr a ++ ")")%string
  end.

Definition render_clafer (d : cdoc) : string :=
  ((match cd_attrdecls d with
    | [] => ""
    | l => "abstract AttributedFeature" ++ nl
           ++ str_concat (map (fun kv => tab ++ fst kv ++ " -> " ++ snd kv ++ nl) l)
    end)
   ++ nl ++ "abstract " ++ render_clf (cd_root d) 0
   ++ str_concat (map (fun e => nl ++ "[" ++ render_cexpr e ++ "]") (cd_ctcs d))
   ++ nl ++ nl ++ "CP : " ++ cd_instance_of d ++ nl)%string.

Definition clafer_text (m : fm) : result string :=
  match clafer_write m with Err e => Err e | Ok d => Ok (render_clafer d) end.
