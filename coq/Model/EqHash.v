(* Model/EqHash.v — __eq__ / __hash__ / __lt__ of Feature, Relation, Constraint, FeatureModel.
   [hash_key] is the value Python's hash() is applied to (frozenset = sorted duplicate-free list);
   hash itself is never modelled: equal keys give equal hashes for any hash function. *)
From Coq Require Import List Bool Ascii String ZArith.
From FM Require Import Base.Result Base.Str Base.AstOp Model.Ast Model.FM Model.Queries.
Import ListNotations.
Local Open Scope list_scope.

(* ---- stable insertion sort by a strict order on keys (Python's sorted(l, key=...) with __lt__ on the keys) ---- *)
Section Sort.
  Context {A K : Type}.
  Variable key : A -> K.
  Variable ltb : K -> K -> bool.

  (* insert x before the first element with a greater key, i.e. AFTER every element whose key is not greater *)
  Fixpoint insert (x : A) (l : list A) : list A :=
    match l with
    | [] => [x]
    | y :: ys => if ltb (key x) (key y) then x :: l else y :: insert x ys
    end.
  (* the elements are inserted from left to right, so an element lands after the earlier elements with an equal
     key: the sort is STABLE (equal keys keep their order), and it is the list Python's sorted() returns — the
     same left fold as py_sorted_str / py_sorted_lt of Model/PyRt.v *)
  Definition sort_by (l : list A) : list A := fold_left (fun acc x => insert x acc) l [].
End Sort.

Fixpoint list_eqb {A} (eqb : A -> A -> bool) (l1 l2 : list A) : bool :=
  match l1, l2 with
  | [], [] => true
  | x :: xs, y :: ys => eqb x y && list_eqb eqb xs ys
  | _, _ => false
  end.

(* lexicographic order on lists of strings (Python list comparison) *)
Fixpoint strs_ltb (a b : list string) : bool :=
  match a, b with
  | [], [] => false
  | [], _ :: _ => true
  | _ :: _, [] => false
  | x :: xs, y :: ys => if str_ltb x y then true else if str_ltb y x then false else strs_ltb xs ys
  end.

Definition sort_strs (l : list string) : list string := sort_by (fun s => s) str_ltb l.

Fixpoint dedup_sorted (l : list string) : list string :=
  match l with
  | x :: ((y :: _) as rest) => if String.eqb x y then dedup_sorted rest else x :: dedup_sorted rest
  | _ => l
  end.
(* frozenset of names *)
Definition strset (l : list string) : list string := dedup_sorted (sort_strs l).

(* ---- Feature ---- *)
Definition feature_eqb (a b : feature) : bool := String.eqb (name a) (name b).
Definition feature_hash_key (f : feature) : string := name f.

(* ---- Relation (with the name of its owner) ---- *)
Definition orel := (string * relation)%type.
Definition child_names (r : relation) : list string := map name (r_children r).

Definition relation_eqb (a b : orel) : bool :=
  String.eqb (fst a) (fst b)
  && list_eqb String.eqb (sort_strs (child_names (snd a))) (sort_strs (child_names (snd b)))
  && (r_min (snd a) =? r_min (snd b))%Z && (r_max (snd a) =? r_max (snd b))%Z.

Definition rkey := (string * list string * Z * Z)%type.
Definition relation_hash_key (a : orel) : rkey :=
  (fst a, strset (child_names (snd a)), r_min (snd a), r_max (snd a)).
(* Relation._sort_key *)
Definition relation_sort_key (a : orel) : rkey :=
  (fst a, sort_strs (child_names (snd a)), r_min (snd a), r_max (snd a)).
Definition rkey_ltb (a b : rkey) : bool :=
  match a, b with
  | (p1, c1, mn1, mx1), (p2, c2, mn2, mx2) =>
      if str_ltb p1 p2 then true else if str_ltb p2 p1 then false
      else if strs_ltb c1 c2 then true else if strs_ltb c2 c1 then false
      else if (mn1 <? mn2)%Z then true else if (mn2 <? mn1)%Z then false
      else (mx1 <? mx2)%Z
  end.

(* ---- Constraint ---- *)
Section Lower.
  Variable lower : string -> string.     (* str.lower(); ASCII lowering in the executable instance *)
  Definition ctc_key (c : ctc) : string := lower (node_str (c_ast c)).
  Definition ctc_eqb (a b : ctc) : bool := String.eqb (ctc_key a) (ctc_key b).

  (* ---- FeatureModel ---- *)
  Definition fm_relations (m : fm) : list orel :=
    map (fun pr => (name (fst pr), snd pr)) (subrelations_ctx (root m)).

  Definition fm_eqb (a b : fm) : bool :=
    feature_eqb (root a) (root b)
    && list_eqb feature_eqb (sort_by name str_ltb (get_features a)) (sort_by name str_ltb (get_features b))
    && list_eqb relation_eqb (sort_by relation_sort_key rkey_ltb (fm_relations a))
                             (sort_by relation_sort_key rkey_ltb (fm_relations b))
    && list_eqb ctc_eqb (sort_by ctc_key str_ltb (ctcs a)) (sort_by ctc_key str_ltb (ctcs b)).

  (* frozenset of relations: duplicate-free list of hash keys under a canonical order *)
  Definition rkey_eqb (a b : rkey) : bool :=
    match a, b with
    | (p1, c1, mn1, mx1), (p2, c2, mn2, mx2) =>
        String.eqb p1 p2 && list_eqb String.eqb c1 c2 && (mn1 =? mn2)%Z && (mx1 =? mx2)%Z
    end.
  Fixpoint dedup_rkeys (l : list rkey) : list rkey :=
    match l with
    | x :: ((y :: _) as rest) => if rkey_eqb x y then dedup_rkeys rest else x :: dedup_rkeys rest
    | _ => l
    end.
  Definition rkeyset (l : list rkey) : list rkey := dedup_rkeys (sort_by (fun k => k) rkey_ltb l).

  Definition fm_hash_key (m : fm) : string * list string * list rkey * list string :=
    (name (root m), strset (map name (get_features m)),
     rkeyset (map relation_hash_key (fm_relations m)), strset (map ctc_key (ctcs m))).
End Lower.
