(* Model/PFM.v — pointer-annotated feature trees: what a reader returns, with the back pointers
   (Feature.parent, Relation.parent, Attribute.parent) explicit so that a wrong pointer is
   representable (C02).  A pointer is a path from the root: the feature reached from the root by
   following, for each (i, j) of the path, relation i and then child j. *)
From Coq Require Import List Bool Ascii String ZArith.
From FM Require Import Base.Result Base.Str Base.AstOp Model.Ast Model.FM.
Import ListNotations.
Local Open Scope list_scope.

Definition path := list (nat * nat).
Inductive ptr := PNone | PPath (p : path) | PExt.

Definition path_eqb (a b : path) : bool :=
  (fix go (a b : path) : bool :=
     match a, b with
     | [], [] => true
     | (i, j) :: a', (k, l) :: b' => Nat.eqb i k && Nat.eqb j l && go a' b'
     | _, _ => false
     end) a b.
Definition ptr_eqb (a b : ptr) : bool :=
  match a, b with
  | PNone, PNone | PExt, PExt => true
  | PPath p, PPath q => path_eqb p q
  | _, _ => false
  end.

Inductive pfeature :=
  PFeature (i : finfo) (parent : ptr) (attr_parents : list ptr) (rels : list prelation)
with prelation :=
  PRelation (rparent : ptr) (rmin rmax : Z) (children : list pfeature).

Record pfm := { proot : pfeature; pctcs : list ctc }.

Definition pinfo (f : pfeature) := match f with PFeature i _ _ _ => i end.
Definition pparent (f : pfeature) := match f with PFeature _ p _ _ => p end.
Definition pattr_parents (f : pfeature) := match f with PFeature _ _ a _ => a end.
Definition prels (f : pfeature) := match f with PFeature _ _ _ r => r end.
Definition pr_parent (r : prelation) := match r with PRelation p _ _ _ => p end.
Definition pr_children (r : prelation) := match r with PRelation _ _ _ c => c end.

Section PFeatureInd.
  Variable P : pfeature -> Prop.
  Variable Q : prelation -> Prop.
  Hypothesis HF : forall i p a rs, Forall Q rs -> P (PFeature i p a rs).
  Hypothesis HR : forall p a b cs, Forall P cs -> Q (PRelation p a b cs).
  Fixpoint pfeature_ind2 (f : pfeature) : P f :=
    match f with
    | PFeature i p a rs =>
        HF i p a rs ((fix go (l : list prelation) : Forall Q l :=
                        match l with
                        | [] => Forall_nil Q
                        | r :: l' => Forall_cons r (prelation_ind2 r) (go l')
                        end) rs)
    end
  with prelation_ind2 (r : prelation) : Q r :=
    match r with
    | PRelation p a b cs =>
        HR p a b cs ((fix go (l : list pfeature) : Forall P l :=
                        match l with
                        | [] => Forall_nil P
                        | c :: l' => Forall_cons c (pfeature_ind2 c) (go l')
                        end) cs)
    end.
End PFeatureInd.

(* forget the pointers *)
Fixpoint erase (f : pfeature) : feature :=
  match f with
  | PFeature i _ _ rs =>
      Feature i (map (fun r => match r with
                               | PRelation _ a b cs => Relation a b (map erase cs)
                               end) rs)
  end.
Definition erase_fm (m : pfm) : fm := {| root := erase (proot m); ctcs := pctcs m |}.

(* annotate a functional tree with the correct pointers (what a correct reader returns) *)
Fixpoint annotate (here : path) (parent : ptr) (f : feature) : pfeature :=
  match f with
  | Feature i rs =>
      PFeature i parent (map (fun _ => PPath here) (f_attrs i))
        ((fix go (k : nat) (rs : list relation) : list prelation :=
            match rs with
            | [] => []
            | Relation a b cs :: rs' =>
                PRelation (PPath here) a b
                  ((fix goc (j : nat) (cs : list feature) : list pfeature :=
                      match cs with
                      | [] => []
                      | c :: cs' => annotate (here ++ [(k, j)]) (PPath here) c :: goc (S j) cs'
                      end) 0%nat cs)
                  :: go (S k) rs'
            end) 0%nat rs)
  end.
Definition annotate_fm (m : fm) : pfm := {| proot := annotate [] PNone (root m); pctcs := ctcs m |}.

(* well-formed pointers: the tree rooted at f, located at path [here], whose parent pointer must be
   [expected] *)
Fixpoint ptr_wf_at (here : path) (expected : ptr) (f : pfeature) : bool :=
  match f with
  | PFeature i p ap rs =>
      ptr_eqb p expected
      && forallb (ptr_eqb (PPath here)) ap
      && Nat.eqb (List.length ap) (List.length (f_attrs i))
      && (fix go (k : nat) (rs : list prelation) : bool :=
            match rs with
            | [] => true
            | PRelation rp _ _ cs :: rs' =>
                ptr_eqb rp (PPath here)
                && (fix goc (j : nat) (cs : list pfeature) : bool :=
                      match cs with
                      | [] => true
                      | c :: cs' => ptr_wf_at (here ++ [(k, j)]) (PPath here) c && goc (S j) cs'
                      end) 0%nat cs
                && go (S k) rs'
            end) 0%nat rs
  end.
Definition ptr_wf (m : pfm) : bool := ptr_wf_at [] PNone (proot m).

(* every relation has at least one child *)
Fixpoint rels_nonempty_p (f : pfeature) : bool :=
  match f with
  | PFeature _ _ _ rs =>
      forallb (fun r => match r with
                        | PRelation _ _ _ cs =>
                            negb (Nat.eqb (List.length cs) 0) && forallb rels_nonempty_p cs
                        end) rs
  end.

(* the shape of a constraint tree the rest of the library consumes: a term has no children, a unary
   operator has its operand on the left only, every other operator has both operands *)
Fixpoint node_shape_ok (n : node) : bool :=
  match n with
  | Node (DOp o) l r =>
      if astop_eqb o NOT then
        match l, r with Some a, None => node_shape_ok a | _, _ => false end
      else
        match l, r with Some a, Some b => node_shape_ok a && node_shape_ok b | _, _ => false end
  | Node _ None None => true
  | Node _ _ _ => false
  end.
