(* Model/Heap.v — feature OBJECTS and the public calls that link them (feature_model.py: Feature.__init__,
   Feature.add_relation, Relation.__init__, Relation.add_child, the public attributes `parent` and `relations`).

   The tree type of Model/FM.v is what a finished model IS; this file models how a client gets there: objects with
   a mutable parent pointer and a mutable list of relations, created and linked by a sequence of public calls.
   An object is its index in the heap.  Every operation is total: an index that does not exist leaves the heap
   unchanged (the harness never sends one; the theorems are about guarded runs, where it is excluded). *)
From Coq Require Import List Bool String ZArith Arith.
Import ListNotations.
Local Open Scope list_scope.

Record hrel := { hr_owner : nat;            (* Relation.parent, as given to the constructor *)
                 hr_min : Z; hr_max : Z;
                 hr_children : list nat }.
Record hfeat := { hf_name : string; hf_parent : option nat; hf_rels : list hrel }.
Definition heap := list hfeat.

Inductive hop :=
| HNew (name : string) (parent : option nat)        (* Feature(name, parent=parent) *)
| HAddRel (f rp : nat) (mn mx : Z) (cs : list nat)   (* f.add_relation(Relation(rp, cs, mn, mx)) *)
| HDelRel (f k : nat)                                (* del f.relations[k] *)
| HAddChild (f k c : nat)                            (* f.relations[k].add_child(c) *)
| HSetParent (c : nat) (p : option nat).             (* c.parent = p *)

Fixpoint update_nth {A} (n : nat) (g : A -> A) (l : list A) : list A :=
  match l, n with
  | [], _ => []
  | x :: xs, O => g x :: xs
  | x :: xs, S n' => x :: update_nth n' g xs
  end.

Fixpoint remove_nth {A} (n : nat) (l : list A) : list A :=
  match l, n with
  | [], _ => []
  | _ :: xs, O => xs
  | x :: xs, S n' => x :: remove_nth n' xs
  end.

Definition set_parent (p : option nat) (x : hfeat) : hfeat :=
  {| hf_name := hf_name x; hf_parent := p; hf_rels := hf_rels x |}.
Definition set_rels (g : list hrel -> list hrel) (x : hfeat) : hfeat :=
  {| hf_name := hf_name x; hf_parent := hf_parent x; hf_rels := g (hf_rels x) |}.
Definition add_child_rel (c : nat) (r : hrel) : hrel :=
  {| hr_owner := hr_owner r; hr_min := hr_min r; hr_max := hr_max r; hr_children := hr_children r ++ [c] |}.

(* add_relation: append the relation, then point every child at the receiver *)
Definition step (h : heap) (o : hop) : heap :=
  match o with
  | HNew name parent => h ++ [{| hf_name := name; hf_parent := parent; hf_rels := [] |}]
  | HAddRel f rp mn mx cs =>
      if Nat.ltb f (List.length h) then
        fold_left (fun h' c => update_nth c (set_parent (Some f)) h') cs
          (update_nth f (set_rels (fun rs => rs ++ [{| hr_owner := rp; hr_min := mn; hr_max := mx; hr_children := cs |}])) h)
      else h
  | HDelRel f k => update_nth f (set_rels (remove_nth k)) h
  | HAddChild f k c => update_nth f (set_rels (update_nth k (add_child_rel c))) h
  | HSetParent c p => update_nth c (set_parent p) h
  end.

Definition run (h : heap) (ops : list hop) : heap := fold_left step ops h.

(* ---- queries that follow the parent pointer (Feature.get_parent / is_root / is_leaf / get_children /
        is_mandatory / is_optional; membership `self in r.children` compares NAMES: Feature.__eq__) ---- *)
Definition h_name (h : heap) (i : nat) : string :=
  match nth_error h i with Some x => hf_name x | None => EmptyString end.
Definition h_parent (h : heap) (i : nat) : option nat :=
  match nth_error h i with Some x => hf_parent x | None => None end.
Definition h_rels (h : heap) (i : nat) : list hrel :=
  match nth_error h i with Some x => hf_rels x | None => [] end.
Definition h_children (h : heap) (i : nat) : list nat := flat_map hr_children (h_rels h i).
Definition h_is_root (h : heap) (i : nat) : bool := match h_parent h i with None => true | Some _ => false end.
Definition h_is_leaf (h : heap) (i : nat) : bool := match h_rels h i with [] => true | _ => false end.

Definition hrel_is_mandatory (r : hrel) : bool :=
  (hr_min r =? 1)%Z && (hr_max r =? 1)%Z && Nat.eqb (List.length (hr_children r)) 1.
Definition hrel_is_optional (r : hrel) : bool :=
  (hr_min r =? 0)%Z && (hr_max r =? 1)%Z && Nat.eqb (List.length (hr_children r)) 1.

Definition named_in (h : heap) (c : nat) (r : hrel) : bool :=
  existsb (fun d => String.eqb (h_name h d) (h_name h c)) (hr_children r).

Definition h_is_kind (kind : hrel -> bool) (h : heap) (c : nat) : bool :=
  match h_parent h c with
  | Some p => existsb (fun r => kind r && named_in h c r) (h_rels h p)
  | None => false
  end.
Definition h_is_mandatory := h_is_kind hrel_is_mandatory.
Definition h_is_optional := h_is_kind hrel_is_optional.

(* ---- the guard of a call: what a client has to respect for the objects to stay a forest ---- *)
Definition occurs (h : heap) (c : nat) : bool :=
  existsb (fun x => existsb (fun r => existsb (Nat.eqb c) (hr_children r)) (hf_rels x)) h.

Fixpoint nodupb_nat (l : list nat) : bool :=
  match l with
  | [] => true
  | x :: xs => negb (existsb (Nat.eqb x) xs) && nodupb_nat xs
  end.

Definition guard (h : heap) (o : hop) : bool :=
  match o with
  | HNew _ _ => true
  | HAddRel f rp _ _ cs =>
      Nat.ltb f (List.length h) && Nat.eqb rp f
      && forallb (fun c => Nat.ltb c (List.length h) && negb (occurs h c)) cs && nodupb_nat cs
  | HDelRel _ _ => true
  | HAddChild f k c =>
      Nat.ltb c (List.length h) && negb (occurs h c)
      && match h_parent h c with Some p => Nat.eqb p f | None => false end
  | HSetParent c _ => negb (occurs h c)
  end.

Fixpoint guards (h : heap) (ops : list hop) : bool :=
  match ops with
  | [] => true
  | o :: rest => guard h o && guards (step h o) rest
  end.
