(* Model/Queries.v — Relation.is_*, Feature.is_*, FeatureModel.get_* (feature_model.py) *)
From Coq Require Import List Bool Ascii String ZArith.
From FM Require Import Base.Result Base.Str Base.AstOp Model.Ast Model.FM Model.Ctc.
Import ListNotations.
Open Scope string_scope.

Definition nchildren (r : relation) : Z := Z.of_nat (List.length (r_children r)).

(* ---- Relation ---- *)
Definition rel_is_mandatory (r : relation) : bool :=
  (r_min r =? 1)%Z && (r_max r =? 1)%Z && (nchildren r =? 1)%Z.
Definition rel_is_optional (r : relation) : bool :=
  (r_min r =? 0)%Z && (r_max r =? 1)%Z && (nchildren r =? 1)%Z.
Definition rel_is_or (r : relation) : bool :=
  (r_min r =? 1)%Z && (r_max r =? nchildren r)%Z && (1 <? nchildren r)%Z.
Definition rel_is_alternative (r : relation) : bool :=
  (r_min r =? 1)%Z && (r_max r =? 1)%Z && (1 <? nchildren r)%Z.
Definition rel_is_mutex (r : relation) : bool :=
  (r_min r =? 0)%Z && (r_max r =? 1)%Z && (1 <? nchildren r)%Z.
Definition rel_is_group (r : relation) : bool := (1 <? nchildren r)%Z.
Definition rel_is_cardinal (r : relation) : bool :=
  negb (rel_is_mandatory r) && negb (rel_is_optional r) && negb (rel_is_alternative r)
  && negb (rel_is_or r) && negb (rel_is_mutex r).

(* Relation.__str__ given the owner's name *)
Definition rel_type_str (r : relation) : string :=
  if rel_is_alternative r then "alternative"
  else if rel_is_or r then "or"
  else if rel_is_mandatory r then "mandatory"
  else if rel_is_optional r then "optional"
  else if rel_is_mutex r then "mutex"
  else if rel_is_cardinal r then "cardinality"
  else "Other".

Definition strip_last_space (s : string) : string :=
  if ends_with_char " " s then str_rev (match str_rev s with String _ t => t | EmptyString => "" end)
  else s.

Definition rel_str (owner : string) (r : relation) : string :=
  let res := owner ++ "[" ++ z_to_string (r_min r) ++ "," ++ z_to_string (r_max r) ++ "]"
             ++ str_concat (map (fun c => name c ++ " ") (r_children r)) in
  strip_last_space ("(" ++ rel_type_str r ++ ") " ++ res).

(* ---- listings ---- *)
(* FeatureModel.get_relations, with the owner of each relation *)
Fixpoint subrelations_ctx (f : feature) : list (feature * relation) :=
  match f with
  | Feature _ rs =>
      flat_map (fun r => match r with
                         | Relation _ _ cs => (f, r) :: flat_map subrelations_ctx cs
                         end) rs
  end.

Definition get_relations (m : fm) : list relation := subrelations (root m).

(* FeatureModel.get_features: the root, then the children of every relation in get_relations order *)
Definition get_features (m : fm) : list feature :=
  root m :: flat_map r_children (get_relations m).

(* the same with the parent of each feature *)
Definition get_features_ctx (m : fm) : list (option feature * feature) :=
  (None, root m)
    :: flat_map (fun pr => map (fun c => (Some (fst pr), c)) (r_children (snd pr)))
                (subrelations_ctx (root m)).

(* ---- Feature ---- *)
(* `self in r.children` uses Feature.__eq__, i.e. the name *)
Definition in_children (f : feature) (r : relation) : bool :=
  existsb (fun c => String.eqb (name c) (name f)) (r_children r).

Definition feat_is_root (p : option feature) : bool := match p with None => true | _ => false end.
Definition feat_is_mandatory (p : option feature) (f : feature) : bool :=
  match p with
  | None => false
  | Some q => existsb (fun r => rel_is_mandatory r && in_children f r) (rels q)
  end.
Definition feat_is_optional (p : option feature) (f : feature) : bool :=
  match p with
  | None => false
  | Some q => existsb (fun r => rel_is_optional r && in_children f r) (rels q)
  end.
Definition feat_is_or_group (f : feature) := existsb rel_is_or (rels f).
Definition feat_is_alternative_group (f : feature) := existsb rel_is_alternative (rels f).
Definition feat_is_mutex_group (f : feature) := existsb rel_is_mutex (rels f).
Definition feat_is_cardinality_group (f : feature) := existsb rel_is_cardinal (rels f).
Definition feat_is_group (f : feature) := existsb rel_is_group (rels f).
Definition feat_is_multiple_group_decomposition (f : feature) :=
  Nat.ltb 1 (List.length (filter rel_is_group (rels f))).
Definition feat_is_leaf (f : feature) := Nat.eqb (List.length (rels f)) 0.
Definition feat_is_boolean (f : feature) := ftype_eqb (f_type (info f)) TBoolean.
Definition feat_is_numerical (f : feature) :=
  ftype_eqb (f_type (info f)) TInteger || ftype_eqb (f_type (info f)) TReal.
Definition feat_is_string (f : feature) := ftype_eqb (f_type (info f)) TString.
Definition feat_is_multifeature (f : feature) :=
  negb (f_cmin (info f) =? 1)%Z || negb (f_cmax (info f) =? 1)%Z.
Definition feat_is_empty (p : option feature) (f : feature) :=
  feat_is_root p && Nat.eqb (List.length (rels f)) 0.

Definition filter_ctx (p : option feature -> feature -> bool) (m : fm) : list feature :=
  map snd (filter (fun x => p (fst x) (snd x)) (get_features_ctx m)).

Definition get_boolean_features m := filter feat_is_boolean (get_features m).
Definition get_numerical_features m := filter feat_is_numerical (get_features m).
Definition get_string_features m := filter feat_is_string (get_features m).
Definition get_mandatory_features m := filter_ctx feat_is_mandatory m.
Definition get_optional_features m := filter_ctx feat_is_optional m.
Definition get_alternative_group_features m := filter feat_is_alternative_group (get_features m).
Definition get_or_group_features m := filter feat_is_or_group (get_features m).

Definition get_feature_by_name (m : fm) (n : string) : option feature :=
  find (fun f => String.eqb (name f) n) (get_features m).

(* constraint listings: indices into m.ctcs; an exception inside a predicate propagates *)
Definition filterM_idx {A} (p : A -> result bool) (l : list A) : result (list nat) :=
  (fix go (i : nat) (l : list A) : result (list nat) :=
     match l with
     | [] => Ok []
     | x :: xs => match p x with
                  | Err e => Err e
                  | Ok b => match go (S i) xs with
                            | Err e => Err e
                            | Ok r => Ok (if b then i :: r else r)
                            end
                  end
     end) 0 l.

Definition ctc_listing (p : node -> result bool) (m : fm) : result (list nat) :=
  filterM_idx (fun c => p (c_ast c)) (ctcs m).

Definition get_logical_constraints := ctc_listing (fun n => Ok (is_logical n)).
Definition get_arithmetic_constraints := ctc_listing (fun n => Ok (is_arithmetic n)).
Definition get_aggregations_constraints := ctc_listing (fun n => Ok (is_aggregation n)).
Definition get_complex_constraints := ctc_listing is_complex.
Definition get_simple_constraints := ctc_listing is_simple.
Definition get_pseudocomplex_constraints := ctc_listing is_pseudocomplex.
Definition get_strictcomplex_constraints := ctc_listing is_strictcomplex.
Definition get_excludes_constraints := ctc_listing is_excludes.
Definition get_requires_constraints := ctc_listing is_requires.
