(* Model/Loc.v — located listings: what the translated sources (Gen/Src_*.v) return, described on the
   tree.  A located feature (Model/PyRt.v) is a feature with its chain of ancestors, nearest first.
   These definitions are the specification side of the source tie (Proofs/Src*Facts.v): erasing the
   locations gives the listings of Model/Queries.v and Model/Ops.v. *)
From Coq Require Import List Bool Ascii String ZArith.
From FM Require Import Base.Result Base.Str Base.AstOp Model.Ast Model.FM Model.PyRt.
Import ListNotations.
Local Open Scope list_scope.

(* FeatureModel.get_relations(feature) for the feature f located under anc: pre-order *)
Fixpoint loc_subrelations (f : feature) (anc : list feature) : list lrel :=
  match f with
  | Feature _ rs =>
      flat_map (fun r => match r with
                         | Relation _ _ cs =>
                             (r, (f, anc)) :: flat_map (fun c => loc_subrelations c (f :: anc)) cs
                         end) rs
  end.

Definition loc_relations (m : fm) : list lrel := loc_subrelations (root m) [].

(* FeatureModel.get_features: the root, then the children of every relation in get_relations order *)
Definition loc_features (m : fm) : list lfeat :=
  fm_root_l m :: flat_map lr_children (loc_relations m).

(* the objects get_feature_ancestors returns for a feature whose ancestors are anc *)
Fixpoint loc_ancestors (anc : list feature) : list lfeat :=
  match anc with [] => [] | p :: a => (p, a) :: loc_ancestors a end.

(* every feature of the sub-tree, located, pre-order *)
Fixpoint loc_subfeatures (f : feature) (anc : list feature) : list lfeat :=
  match f with
  | Feature _ rs =>
      (f, anc) :: flat_map (fun r => match r with
                                     | Relation _ _ cs =>
                                         flat_map (fun c => loc_subfeatures c (f :: anc)) cs
                                     end) rs
  end.

(* fuel that is enough for every translated function on a tree / on a constraint *)
Definition fuel_tree (f : feature) : nat := S (S (fsize f)).
Definition fuel_node (n : node) : nat := 2 * nsize n + 3.

(* fuel that is enough for the writers: the tree plus every constraint *)
Definition fuel_ctcs (cs : list ctc) : nat := list_sum (map (fun c => fuel_node (c_ast c)) cs).
Definition fuel_model (m : fm) : nat := fuel_tree (root m) + fuel_ctcs (ctcs m).
