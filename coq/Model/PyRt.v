(* Model/PyRt.v — the run-time library of the source translator (tools/py2coq.py).

   The translator turns the Python text of /repo into Gallina definitions (Gen/Src_*.v, regenerated
   on every run).  What a Python OBJECT is in those definitions, and what the Python built-ins the
   source uses mean, is fixed here by hand; this file and the translator are the trusted part of the
   "regenerated model" tie (DESIGN §10).

   A Feature object is a LOCATED feature: the tree value together with the chain of its ancestors,
   nearest first.  `f.parent` is then the head of that chain (with the rest of the chain as its own
   ancestors) and the children of a relation of `f` are located below `f`.  This is the functional
   reading of a *linked* object graph (a relation's parent is its holder, a child's parent pointer is
   the holder: exactly the invariant C03_construction_linked proves for every guarded run of the
   public constructors). *)
From Coq Require Import List Bool Ascii String ZArith.
From FM Require Import Base.Result Base.Str Base.AstOp Base.PyFloat Model.Ast Model.FM.
Import ListNotations.
Local Open Scope list_scope.

Definition lfeat := (feature * list feature)%type.
Definition lrel := (relation * lfeat)%type.

Definition lf_parent (x : lfeat) : option lfeat :=
  match snd x with [] => None | p :: a => Some (p, a) end.
Definition lf_relations (x : lfeat) : list lrel := map (fun r => (r, x)) (rels (fst x)).
Definition lr_children (x : lrel) : list lfeat :=
  map (fun c => (c, fst (snd x) :: snd (snd x))) (r_children (fst x)).
Definition lr_parent (x : lrel) : lfeat := snd x.
Definition fm_root_l (m : fm) : lfeat := (root m, []).

(* ---- control ---- *)
Definition foldM {S A} (f : S -> A -> result S) : list A -> S -> result S :=
  fix go l s := match l with
                | [] => Ok s
                | x :: xs => match f s x with Err e => Err e | Ok s' => go xs s' end
                end.

(* `while`: [step] answers None when the condition is false, the next state otherwise.  Running out
   of fuel is Python's RecursionError / a loop that does not end (RuntimeError here). *)
Fixpoint whileM {S} (fuel : nat) (step : S -> result (option S)) (s : S) : result S :=
  match fuel with
  | O => Err RuntimeError
  | S k => match step s with
           | Err e => Err e
           | Ok None => Ok s
           | Ok (Some s') => whileM k step s'
           end
  end.

Definition py_existsM {A} (f : A -> result bool) : list A -> result bool :=
  fix go l := match l with
              | [] => Ok false
              | x :: xs => match f x with
                           | Err e => Err e
                           | Ok true => Ok true
                           | Ok false => go xs
                           end
              end.
Definition py_forallM {A} (f : A -> result bool) : list A -> result bool :=
  fix go l := match l with
              | [] => Ok true
              | x :: xs => match f x with
                           | Err e => Err e
                           | Ok false => Ok false
                           | Ok true => go xs
                           end
              end.
Definition py_flat_mapM {A B} (f : A -> result (list B)) : list A -> result (list B) :=
  fix go l := match l with
              | [] => Ok []
              | x :: xs => match f x with
                           | Err e => Err e
                           | Ok y => match go xs with Err e => Err e | Ok ys => Ok (y ++ ys) end
                           end
              end.

(* ---- built-ins ---- *)
Definition py_len {A} (l : list A) : Z := Z.of_nat (List.length l).
Definition py_is_nil {A} (l : list A) : bool := match l with [] => true | _ => false end.
Definition py_sum (l : list Z) : Z := fold_right Z.add 0%Z l.
Definition py_count (l : list bool) : Z := Z.of_nat (List.length (filter (fun b => b) l)).
Definition py_prod (l : list Z) : Z := fold_right Z.mul 1%Z l.
Definition py_max (l : list Z) : result Z :=
  match l with [] => Err ValueError | x :: xs => Ok (fold_left Z.max xs x) end.

(* l[i] *)
Definition py_index {A} (l : list A) (i : Z) : result A :=
  let n := py_len l in
  let j := if (i <? 0)%Z then (i + n)%Z else i in
  if (j <? 0)%Z then Err IndexError
  else match nth_error l (Z.to_nat j) with Some x => Ok x | None => Err IndexError end.

(* l[a:b] *)
Definition py_slice {A} (l : list A) (a b : Z) : list A :=
  let n := py_len l in
  let norm (x : Z) := if (x <? 0)%Z then Z.max 0 (x + n) else Z.min x n in
  let a' := norm a in let b' := norm b in
  firstn (Z.to_nat (b' - a')) (skipn (Z.to_nat a') l).

(* l.pop() : the last element and the list without it *)
Definition py_pop {A} (l : list A) : result (A * list A) :=
  match rev l with [] => Err IndexError | x :: r => Ok (x, rev r) end.

(* d[k] = v on an insertion-ordered dict whose keys compare with [eqb]: an existing key keeps its
   place (and the key object first inserted), a new one goes to the end *)
Fixpoint py_dict_set {K V} (eqb : K -> K -> bool) (d : list (K * V)) (k : K) (v : V) : list (K * V) :=
  match d with
  | [] => [(k, v)]
  | (k', v') :: d' => if eqb k' k then (k', v) :: d' else (k', v') :: py_dict_set eqb d' k v
  end.

Fixpoint py_enumerate_from {A} (i : Z) (l : list A) : list (Z * A) :=
  match l with [] => [] | x :: xs => (i, x) :: py_enumerate_from (i + 1)%Z xs end.

(* node.data == ASTOperation.X *)
Definition ndata_is_op (d : ndata) (o : astop) : bool :=
  match d with DOp o' => astop_eqb o' o | _ => false end.
Definition ndata_in_ops (d : ndata) (l : list astop) : bool := existsb (ndata_is_op d) l.

(* key equality of term data in a dict.  Only string data reaches a dict in the translated sources
   (numbers are skipped before); data of the same kind are compared exactly, data of different kinds
   are reported different (Python equates 1, 1.0 and True: not modelled). *)
Definition ndata_key_eqb (a b : ndata) : bool :=
  match a, b with
  | DStr x, DStr y => String.eqb x y
  | DInt x, DInt y => Z.eqb x y
  | DOp x, DOp y => astop_eqb x y
  | DBool x, DBool y => Bool.eqb x y
  | DFloat x, DFloat y => String.eqb x y
  | _, _ => false
  end.

(* isinstance(d, (int, float))  /  d.startswith("'")  on the data of a term *)
Definition ndata_is_number (d : ndata) : bool :=
  match d with DInt _ | DFloat _ | DBool _ => true | _ => false end.

(* x.left / x.right followed by a use: None has no attributes *)
Definition py_need {A} (c : option A) : result A :=
  match c with Some x => Ok x | None => Err AttributeError end.

Definition ftype_in (t : ftype) (l : list ftype) : bool := existsb (ftype_eqb t) l.

(* round(a / b, nd) for naturals, as the integer number of 10^-nd units (Base/PyFloat.v);
   ZeroDivisionError for b = 0 *)
Definition py_round_div (a b nd : Z) : result Z :=
  if (b =? 0)%Z then Err ZeroDivisionError else Ok (pyround_div a b nd).

(* ---- JSON-like values (Any / Dict[str, Any]) ---- *)
(* d[k] = v on a dict created in the function *)
Definition aval_set (d : aval) (k : string) (v : aval) : aval :=
  match d with VMap kv => VMap (py_dict_set String.eqb kv k v) | _ => d end.
Definition any_of_data (d : ndata) : aval :=
  match d with
  | DStr s => VStr s | DInt z => VInt z | DFloat r => VFloat r | DBool b => VBool b
  | DOp o => VStr (astop_value o)
  end.

(* bool(v) *)
Definition aval_truthy (v : aval) : bool :=
  match v with
  | VNone => false
  | VBool b => b
  | VInt z => negb (Z.eqb z 0%Z)
  | VFloat r => negb (String.eqb r "0.0" || String.eqb r "-0.0")
  | VStr s => negb (String.eqb s "")
  | VList l => negb (py_is_nil l)
  | VMap kv => negb (py_is_nil kv)
  end.

(* d[k] *)
Definition aval_get (d : aval) (k : string) : result aval :=
  match d with
  | VMap kv => match find (fun p => String.eqb (fst p) k) kv with Some p => Ok (snd p) | None => Err KeyError end
  | _ => Err TypeError
  end.

(* sorted(l, key=...) for string keys: STABLE (equal keys keep their order), as Python's sort is.
   Elements are inserted from left to right, each after the elements whose key is not greater. *)
Fixpoint py_insert_str {A} (key : A -> string) (x : A) (l : list A) : list A :=
  match l with
  | [] => [x]
  | y :: ys => if str_ltb (key x) (key y) then x :: l else y :: py_insert_str key x ys
  end.
Definition py_sorted_str {A} (key : A -> string) (l : list A) : list A :=
  fold_left (fun acc x => py_insert_str key x acc) l [].

(* sorted(l) with the elements' own `<`: STABLE insertion from left to right, each element after those
   that are not greater *)
Fixpoint py_insert_lt {A} (ltb : A -> A -> bool) (x : A) (l : list A) : list A :=
  match l with
  | [] => [x]
  | y :: ys => if ltb x y then x :: l else y :: py_insert_lt ltb x ys
  end.
Definition py_sorted_lt {A} (ltb : A -> A -> bool) (l : list A) : list A :=
  fold_left (fun acc x => py_insert_lt ltb x acc) l [].

(* l1 == l2 on lists: same length, elementwise == *)
Fixpoint py_list_eqb {A} (eqb : A -> A -> bool) (l1 l2 : list A) : bool :=
  match l1, l2 with
  | [], [] => true
  | x :: xs, y :: ys => eqb x y && py_list_eqb eqb xs ys
  | _, _ => false
  end.

(* l1 < l2 on lists: the first position where the two differ (by ==) decides with <; a proper prefix is less *)
Fixpoint py_list_ltb {A} (ltb eqb : A -> A -> bool) (l1 l2 : list A) : bool :=
  match l1, l2 with
  | [], [] => false
  | [], _ :: _ => true
  | _ :: _, [] => false
  | x :: xs, y :: ys => if eqb x y then py_list_ltb ltb eqb xs ys else ltb x y
  end.

(* range(a, b) *)
Definition py_range (a b : Z) : list Z := map (fun i => (a + Z.of_nat i)%Z) (seq 0 (Z.to_nat (b - a))).

(* itertools.combinations(l, k), in itertools' order; a negative k is a ValueError *)
Fixpoint py_combs {A} (k : nat) (l : list A) : list (list A) :=
  match k with
  | O => [[]]
  | S k' => match l with
            | [] => []
            | x :: xs => map (cons x) (py_combs k' xs) ++ py_combs k xs
            end
  end.
Definition py_combinations {A} (l : list A) (k : Z) : result (list (list A)) :=
  if (k <? 0)%Z then Err ValueError else Ok (py_combs (Z.to_nat k) l).

(* s * n *)
Definition py_str_repeat (s : string) (n : Z) : string :=
  (fix go (k : nat) : string := match k with O => EmptyString | S k' => (s ++ go k')%string end) (Z.to_nat n).

(* xml.sax.saxutils.escape(s), and escape(s, quot) with the extra entity for the double quote *)
Fixpoint py_xml_escape (quot : bool) (s : string) : string :=
  match s with
  | EmptyString => EmptyString
  | String c r =>
      ((if Ascii.eqb c "&" then "&amp;"
        else if Ascii.eqb c "<" then "&lt;"
        else if Ascii.eqb c ">" then "&gt;"
        else if quot && Ascii.eqb c """" then "&quot;"
        else String c EmptyString) ++ py_xml_escape quot r)%string
  end.

(* str(v) / repr(v) of a JSON-like value: strings are quoted inside containers only *)
Fixpoint aval_repr (v : aval) : string :=
  match v with
  | VNone => "None" | VBool true => "True" | VBool false => "False" | VInt z => z_to_string z
  | VFloat r => r | VStr s => ("'" ++ s ++ "'")%string
  | VList l => ("[" ++ str_join ", " (map aval_repr l) ++ "]")%string
  | VMap _ => "{...}"
  end.
Definition aval_str (v : aval) : string := match v with VStr s => s | _ => aval_repr v end.

(* math.isfinite of a float given by its repr: finite exactly when the positional spelling exists *)
Definition py_float_isfinite (r : string) : bool :=
  match py_positional r with Some _ => true | None => false end.

(* {k: v for ...}: later pairs overwrite earlier ones, the first insertion fixes the position *)
Definition py_dict_of_pairs {K V} (eqb : K -> K -> bool) (l : list (K * V)) : list (K * V) :=
  fold_left (fun d kv => py_dict_set eqb d (fst kv) (snd kv)) l [].

(* ---- set objects (aliasing): a store of sets; a value of type set is an index into it ---- *)
Definition py_store := list (list lfeat).
Definition py_store_get (st : py_store) (r : nat) : list lfeat := nth r st [].
(* s.add(x): nothing when an equal element is present *)
Definition py_set_add (eqb : lfeat -> lfeat -> bool) (s : list lfeat) (x : lfeat) : list lfeat :=
  if existsb (fun y => eqb y x) s then s else s ++ [x].
Definition py_set_of (eqb : lfeat -> lfeat -> bool) (l : list lfeat) : list lfeat :=
  fold_left (py_set_add eqb) l [].
Fixpoint py_store_add (eqb : lfeat -> lfeat -> bool) (st : py_store) (r : nat) (x : lfeat) : py_store :=
  match st, r with
  | [], _ => []
  | s :: rest, O => py_set_add eqb s x :: rest
  | s :: rest, S r' => s :: py_store_add eqb rest r' x
  end.

(* re.fullmatch(r'[A-Za-z][A-Za-z0-9_]*', s) is not None *)
Definition py_is_identifier (s : string) : bool :=
  match s with
  | EmptyString => false
  | String c r => is_alpha c && str_forallb is_safechar r
  end.

(* Node(x) for a JSON value x used as the data of a term *)
Definition py_ndata_of_any (v : aval) : result ndata :=
  match v with
  | VStr s => Ok (DStr s) | VInt z => Ok (DInt z) | VFloat r => Ok (DFloat r) | VBool b => Ok (DBool b)
  | _ => Err TypeError
  end.

(* functools.reduce(f, l) without initial value: TypeError on an empty sequence *)
Definition py_reduce {A} (f : A -> A -> A) (l : list A) : result A :=
  match l with [] => Err TypeError | x :: xs => Ok (fold_left f xs x) end.

(* d[k] for a key that is itself a loaded JSON value: a string is looked up, a list / dict is unhashable (TypeError),
   any other value is a key that no JSON object has (KeyError) *)
Definition aval_get_any (d k : aval) : result aval :=
  match d with
  | VMap _ => match k with
              | VStr s => aval_get d s
              | VList _ | VMap _ => Err TypeError
              | _ => Err KeyError
              end
  | _ => Err TypeError
  end.

(* ---- builder mode (readers): feature objects as tree values; parent pointers are not represented ---- *)
Definition py_add_relation (f : feature) (r : relation) : feature :=
  match f with Feature i rs => Feature i (rs ++ [r]) end.
Definition py_add_attribute (f : feature) (a : attr) : feature :=
  match f with
  | Feature i rs => Feature {| f_name := f_name i; f_abstract := f_abstract i; f_type := f_type i; f_cmin := f_cmin i;
                               f_cmax := f_cmax i; f_attrs := f_attrs i ++ [a] |} rs
  end.
(* 'k' in d  /  d.get(k) *)
Definition aval_has (d : aval) (k : string) : bool :=
  match d with VMap kv => existsb (fun p => String.eqb (fst p) k) kv | _ => false end.
Definition aval_get_default (d : aval) (k : string) (dflt : aval) : aval :=
  match d with
  | VMap kv => match find (fun p => String.eqb (fst p) k) kv with Some p => snd p | None => dflt end
  | _ => dflt
  end.

(* s[:-1] *)
Definition py_str_drop_last (s : string) : string :=
  str_rev (match str_rev s with String _ t => t | EmptyString => EmptyString end).

(* ---- metrics (flamapy.core Metrics.construct_result / get_ratio, the statistics module) ---- *)
Inductive py_mres := PMNames (l : list string) | PMStr (s : string) | PMInt (z : Z) | PMHund (h : Z).
Record py_metric := { pm_name : string; pm_result : py_mres; pm_size : option Z; pm_ratio : option Z;
                      pm_parent : option string; pm_level : Z }.
(* m["result"] used as a collection *)
Definition py_metric_names (m : py_metric) : list string :=
  match pm_result m with PMNames l => l | PMStr s => map (fun c => String c EmptyString) (list_ascii_of_string s) | _ => [] end.
(* Metrics.get_ratio(c1, c2, precision) in ten-thousandths: 0.0 when the second collection is empty *)
Definition py_get_ratio (n1 n2 precision : Z) : Z :=
  if (n2 =? 0)%Z then 0%Z else (pyround_div n1 n2 precision * 10 ^ (4 - precision))%Z.
Definition py_min (l : list Z) : result Z :=
  match l with [] => Err ValueError | x :: xs => Ok (fold_left Z.min xs x) end.
Definition py_min_default (l : list Z) (d : Z) : Z :=
  match l with [] => d | x :: xs => fold_left Z.min xs x end.
(* statistics.mean of integers as (sum, n); round(mean, 2) in hundredths *)
Definition py_stat_mean (l : list Z) : result (Z * Z) :=
  match l with [] => Err StatisticsError | _ => Ok (py_sum l, py_len l) end.
Definition py_round_mean (m : Z * Z) : Z := if (fst m =? 0)%Z then 0%Z else pyround_div (fst m) (snd m) 2.
(* statistics.median of integers, doubled (an integer or a half): the sorted middle element(s) *)
Definition py_stat_median (l : list Z) : result Z :=
  match l with
  | [] => Err StatisticsError
  | _ => let s := py_sorted_lt Z.ltb l in
         let n := List.length s in
         Ok (if Nat.even n then (nth (n / 2 - 1) s 0 + nth (n / 2) s 0)%Z else (2 * nth (n / 2) s 0)%Z)
  end.
(* list(dict.fromkeys(l)): first occurrences, in order *)
Definition py_dedup {A} (eqb : A -> A -> bool) (l : list A) : list A :=
  fold_left (fun acc x => if existsb (fun y => eqb y x) acc then acc else acc ++ [x]) l [].
Definition py_dict_get {K V} (eqb : K -> K -> bool) (d : list (K * V)) (k : K) : result V :=
  match find (fun p => eqb (fst p) k) d with Some p => Ok (snd p) | None => Err KeyError end.

(* ---- field assignment on a Node object that only the assigning function can reach (tools/py2coq.py, assign_node_field):
   n.left = v / n.right = v, and n.left.left = v, … through py_set_in_* (None.left = v is AttributeError) ---- *)
Definition py_set_left (n v : node) : node := match n with Node d _ r => Node d (Some v) r end.
Definition py_set_right (n v : node) : node := match n with Node d l _ => Node d l (Some v) end.
Definition py_set_in_left (n : node) (f : node -> node) : result node :=
  match n with Node d (Some l) r => Ok (Node d (Some (f l)) r) | Node _ None _ => Err AttributeError end.
Definition py_set_in_right (n : node) (f : node -> node) : result node :=
  match n with Node d l (Some r) => Ok (Node d l (Some (f r))) | Node _ _ None => Err AttributeError end.
