(* Model/Ctc.v — Constraint predicates and the constraint utilities of feature_model.py *)
From Coq Require Import List Bool Ascii String ZArith.
From FM Require Import Base.Result Base.Str Base.AstOp Gen.Tables_core Model.Ast.
Import ListNotations.
Open Scope string_scope.

Definition fld (c : option node) : result node := need c.   (* x.left / x.right then use *)

Definition add_once (s : string) (acc : list string) : list string :=
  if list_existsb_eq s acc then acc else (acc ++ [s])%list.

(* Constraint.get_features: the names, first occurrence order (Python returns list(set)) *)
Fixpoint ctc_features_acc (n : node) (acc : list string) : list string :=
  match n with
  | Node d l r =>
      if is_unique_term n then
        match d with
        | DStr s => if starts_with_char "'" s then acc else add_once s acc
        | _ => acc
        end
      else
        (* every operator node, whatever its arity (aggregates included): left operand, then right *)
        let acc1 := match l with Some a => ctc_features_acc a acc | None => acc end in
        match r with Some b => ctc_features_acc b acc1 | None => acc1 end
  end.
Definition ctc_features (n : node) : list string := ctc_features_acc n [].

Definition is_logical (n : node) : bool := forallb (fun o => op_in o logical_ops) (get_operators n).
Definition is_arithmetic (n : node) : bool := existsb (fun o => op_in o arithmetic_ops) (get_operators n).
Definition is_aggregation (n : node) : bool := existsb (fun o => op_in o aggregation_ops) (get_operators n).

(* is_single_feature_constraint *)
Definition is_single_feature (n : node) : bool :=
  if is_term n then true
  else if data_is NOT n then
         match n_left n with
         | Some a => is_term a
         | None => match n_right n with Some b => is_term b | None => false end
         end
       else false.

(* x.data == NOT and x.left.is_term()   for x = an operand *)
Definition neg_of_term (x : node) : result bool :=
  if data_is NOT x then
    match fld (n_left x) with Err e => Err e | Ok y => Ok (is_term y) end
  else Ok false.

Definition is_requires (n : node) : result bool :=
  if is_binary_op n then
    if data_is REQUIRES n || data_is IMPLIES n then
      match fld (n_left n) with Err e => Err e | Ok a =>
        if is_term a then
          match fld (n_right n) with Err e => Err e | Ok b => Ok (is_term b) end
        else Ok false
      end
    else if data_is OR n then
      match fld (n_left n) with Err e => Err e | Ok a =>
      match neg_of_term a with Err e => Err e | Ok neg_left =>
      match fld (n_right n) with Err e => Err e | Ok b =>
      match neg_of_term b with Err e => Err e | Ok neg_right =>
        Ok ((neg_left && is_term b) || (neg_right && is_term a))
      end end end end
    else Ok false
  else Ok false.

Definition is_excludes (n : node) : result bool :=
  if is_binary_op n then
    if data_is EXCLUDES n then
      match fld (n_left n) with Err e => Err e | Ok a =>
        if is_term a then
          match fld (n_right n) with Err e => Err e | Ok b => Ok (is_term b) end
        else Ok false
      end
    else if data_is REQUIRES n || data_is IMPLIES n then
      match fld (n_right n) with Err e => Err e | Ok b =>
      match neg_of_term b with Err e => Err e | Ok neg_right =>
      match fld (n_left n) with Err e => Err e | Ok a =>
        Ok (is_term a && neg_right)
      end end end
    else if data_is OR n then
      match fld (n_left n) with Err e => Err e | Ok a =>
      match neg_of_term a with Err e => Err e | Ok neg_left =>
      match fld (n_right n) with Err e => Err e | Ok b =>
      match neg_of_term b with Err e => Err e | Ok neg_right =>
        Ok (neg_left && neg_right)
      end end end end
    else Ok false
  else Ok false.

Definition is_simple (n : node) : result bool :=
  match is_requires n with
  | Err e => Err e
  | Ok true => Ok true
  | Ok false => is_excludes n
  end.

Definition is_complex (n : node) : result bool :=
  if is_logical n then
    match is_simple n with Err e => Err e | Ok b => Ok (negb b) end
  else Ok false.

(* split_formula: split on AND at the root, recursively.  AST(None).root.data raises. *)
Fixpoint split_formula (n : node) : result (list node) :=
  match n with
  | Node (DOp AND) l r =>
      match l with None => Err AttributeError | Some a =>
      match split_formula a with Err e => Err e | Ok la =>
      match r with None => Err AttributeError | Some b =>
      match split_formula b with Err e => Err e | Ok lb => Ok (la ++ lb)%list end end end end
  | _ => Ok [n]
  end.

Definition flat_mapM {A B} (f : A -> result (list B)) (l : list A) : result (list B) :=
  match mapM f l with Err e => Err e | Ok ls => Ok (List.concat ls) end.

(* split_constraint: the list of ASTs (names are name ++ index) *)
Definition split_asts (n : node) : result (list node) :=
  match split_formula n with Err e => Err e | Ok l0 =>
  match mapM (fun a => simplify_fuel (default_fuel a) a) l0 with Err e => Err e | Ok l1 =>
  match flat_mapM split_formula l1 with Err e => Err e | Ok l2 =>
  match mapM (fun a => propagate_negation a false) l2 with Err e => Err e | Ok l3 =>
  match flat_mapM split_formula l3 with Err e => Err e | Ok l4 =>
  match mapM (fun a => to_cnf_fuel (default_fuel a) a) l4 with Err e => Err e | Ok l5 =>
    flat_mapM split_formula l5
  end end end end end end.

Definition forallM {A} (f : A -> result bool) (l : list A) : result bool :=
  (fix go l := match l with
               | [] => Ok true
               | x :: xs => match f x with
                            | Err e => Err e
                            | Ok false => Ok false      (* all() stops at the first False *)
                            | Ok true => go xs
                            end
               end) l.
Definition existsM {A} (f : A -> result bool) (l : list A) : result bool :=
  (fix go l := match l with
               | [] => Ok false
               | x :: xs => match f x with
                            | Err e => Err e
                            | Ok true => Ok true
                            | Ok false => go xs
                            end
               end) l.

Definition is_pseudocomplex (n : node) : result bool :=
  match is_complex n with Err e => Err e | Ok false => Ok false | Ok true =>
    match split_asts n with Err e => Err e | Ok l => forallM is_simple l end
  end.

Definition is_strictcomplex (n : node) : result bool :=
  match is_complex n with Err e => Err e | Ok false => Ok false | Ok true =>
    match split_asts n with Err e => Err e | Ok l => existsM is_complex l end
  end.

(* left_right_features_from_simple_constraint *)
Definition left_right (n : node) : result (ndata * ndata) :=
  let is_not (d : ndata) := match d with DOp NOT => true | _ => false end in
  if data_is REQUIRES n || data_is IMPLIES n || data_is EXCLUDES n then
    match fld (n_left n) with Err e => Err e | Ok a =>
    match fld (n_right n) with Err e => Err e | Ok b =>
      if is_not (n_data b) then
        match fld (n_left b) with Err e => Err e | Ok y => Ok (n_data a, n_data y) end
      else Ok (n_data a, n_data b)
    end end
  else if data_is OR n then
    match fld (n_left n) with Err e => Err e | Ok a =>
    match fld (n_right n) with Err e => Err e | Ok b =>
      if is_not (n_data a) && is_not (n_data b) then
        match fld (n_left a) with Err e => Err e | Ok x =>
        match fld (n_left b) with Err e => Err e | Ok y => Ok (n_data x, n_data y) end end
      else if is_not (n_data a) then
        match fld (n_left a) with Err e => Err e | Ok x => Ok (n_data x, n_data b) end
      else if is_not (n_data b) then
        match fld (n_left b) with Err e => Err e | Ok y => Ok (n_data y, n_data a) end
      else Ok (n_data a, n_data b)
    end end
  else Err UnboundLocalError.

(* get_new_ctc_name: prefix, prefix1, prefix2, ... first one not in the list.
   The loop runs at most length(names)+1 times. *)
Fixpoint new_ctc_name_aux (fuel : nat) (names : list string) (prefix : string) (count : Z)
         (cur : string) : string :=
  match fuel with
  | O => cur
  | S fuel' =>
      if list_existsb_eq cur names
      then new_ctc_name_aux fuel' names prefix (count + 1) (prefix ++ z_to_string count)
      else cur
  end.
Definition get_new_ctc_name (names : list string) (prefix : string) : string :=
  new_ctc_name_aux (S (List.length names)) names prefix 1 prefix.
