(* Model/Ops.v — the tree-based operations of operations/*.py *)
From Coq Require Import List Bool Ascii String ZArith.
From FM Require Import Base.Result Base.Str Base.PyFloat Base.AstOp Model.Ast Model.FM Model.Ctc
     Model.Queries Model.Sem.
Import ListNotations.
Local Open Scope list_scope.

(* ------------------------------------------------------------------ estimated configurations *)
Definition zprod (l : list Z) : Z := fold_right Z.mul 1%Z l.
Definition zsum (l : list Z) : Z := fold_right Z.add 0%Z l.

(* coefficients = [c + count * p for c, p in zip(coefficients + [0], [0] + coefficients)] *)
Definition poly_step (coeffs : list Z) (count : Z) : list Z :=
  map (fun cp => (fst cp + count * snd cp)%Z) (combine (coeffs ++ [0%Z]) (0%Z :: coeffs)).
Definition poly (counts : list Z) : list Z := fold_left poly_step counts [1%Z].

(* Python's  l[a : b]  for 0 <= a; b may be anything *)
Definition slice (l : list Z) (a b : Z) : list Z :=
  let n := Z.of_nat (List.length l) in
  let norm (x : Z) := if (x <? 0)%Z then Z.max 0 (x + n) else Z.min x n in
  let a' := norm a in let b' := norm b in
  firstn (Z.to_nat (b' - a')) (skipn (Z.to_nat a') l).

Fixpoint estimate (f : feature) : Z :=
  match f with
  | Feature _ rs =>
      match rs with
      | [] => 1%Z
      | _ =>
          zprod (flat_map
                   (fun r => match r with
                             | Relation mn mx cs =>
                                 if rel_is_mandatory r then
                                   [match cs with c :: _ => estimate c | [] => 0%Z end]
                                 else if rel_is_optional r then
                                   [(match cs with c :: _ => estimate c | [] => 0%Z end + 1)%Z]
                                 else if rel_is_alternative r then [zsum (map estimate cs)]
                                 else if rel_is_or r then
                                   [(zprod (map (fun c => estimate c + 1)%Z cs) - 1)%Z]
                                 else
                                   let counts := map estimate cs in
                                   let card_max := if (mx =? -1)%Z
                                                   then Z.of_nat (List.length counts) else mx in
                                   [zsum (slice (poly counts) mn (card_max + 1))]
                             end) rs)
      end
  end.

(* ------------------------------------------------------------------ core features *)
(* relation.is_mandatory() or relation.card_min == len(relation.children) > 0 *)
Definition forces_all (r : relation) : bool :=
  rel_is_mandatory r
  || ((r_min r =? nchildren r)%Z && (0 <? nchildren r)%Z).

(* structural (pre-order) form of the work-list loop; the implementation's list is a permutation of
   it (compared as a multiset) *)
Fixpoint core_features (f : feature) : list feature :=
  match f with
  | Feature _ rs =>
      f :: flat_map (fun r => match r with
                              | Relation _ _ cs =>
                                  if forces_all r then flat_map core_features cs else []
                              end) rs
  end.

(* ------------------------------------------------------------------ atomic sets *)
(* child.is_mandatory() for a child of f *)
Definition child_is_mandatory (f c : feature) : bool := feat_is_mandatory (Some f) c.

(* the atomic set started at c: c and, recursively, its mandatory children *)
Fixpoint closure (c : feature) : list string :=
  match c with
  | Feature i rs =>
      f_name i :: flat_map (fun r => match r with
                                     | Relation _ _ cs =>
                                         flat_map (fun d => if child_is_mandatory c d
                                                            then closure d else []) cs
                                     end) rs
  end.

(* the features that start a new set, in the order the sets are created (DFS pre-order) *)
Fixpoint starters (f : feature) : list feature :=
  match f with
  | Feature i rs =>
      flat_map (fun r => match r with
                         | Relation _ _ cs =>
                             flat_map (fun d => (if child_is_mandatory f d then [] else [d])
                                                ++ starters d) cs
                         end) rs
  end.

Definition atomic_sets (m : fm) : list (list string) :=
  map closure (root m :: starters (root m)).

(* ------------------------------------------------------------------ tree shape *)
Definition count_leafs (m : fm) : Z :=
  Z.of_nat (List.length (filter feat_is_leaf (get_features m))).
Definition leaf_features (m : fm) : list feature := filter feat_is_leaf (get_features m).

(* every feature of the sub-tree with its ancestors, nearest first (get_feature_ancestors) *)
Fixpoint with_ancestors (f : feature) (anc : list feature) : list (feature * list feature) :=
  match f with
  | Feature _ rs =>
      (f, anc) :: flat_map (fun r => match r with
                                     | Relation _ _ cs =>
                                         flat_map (fun c => with_ancestors c (f :: anc)) cs
                                     end) rs
  end.

Definition ancestors_table (m : fm) : list (feature * list feature) := with_ancestors (root m) [].

(* max(len(get_feature_ancestors(f)) for f in leaves) *)
Definition max_depth_tree (m : fm) : Z :=
  fold_right Z.max 0%Z
             (map (fun fa => Z.of_nat (List.length (snd fa)))
                  (filter (fun fa => feat_is_leaf (fst fa)) (ancestors_table m))).

(* average_branching_factor: hundredths of round(children / branches, 2); 0.0 without branches *)
Definition branch_counts (m : fm) : Z * Z :=
  let fs := filter (fun f => negb (feat_is_leaf f)) (get_features m) in
  (Z.of_nat (List.length fs),
   zsum (map (fun f => zsum (map (fun r => nchildren r) (rels f))) fs)).

Definition average_branching_factor (m : fm) : Z :=
  let (branches, nchild) := branch_counts m in
  if (branches =? 0)%Z then 0%Z else pyround_div nchild branches 2.

(* variation points: feature -> children of its non-mandatory relations (when non-empty) *)
Definition variants (f : feature) : list feature :=
  flat_map (fun r => if rel_is_mandatory r then [] else r_children r) (rels f).
Definition variation_points (m : fm) : list (feature * list feature) :=
  filter (fun fv => negb (Nat.eqb (List.length (snd fv)) 0))
         (map (fun f => (f, variants f)) (subfeatures (root m))).
