(* Model/GenRandom.v — operations/fm_generate_random_attribute.py over an oracle stream of draws.
   random.choice / random.uniform / random.randint are the oracle: each call consumes one recorded
   draw.  Float results are exact decimals h * 10^-d (Python returns the double nearest to it). *)
From Coq Require Import List Bool Ascii String ZArith.
From FM Require Import Base.Result Base.Str Base.PyFloat Base.AstOp Model.Ast Model.FM Model.Queries.
Import ListNotations.
Local Open Scope string_scope.
Local Open Scope list_scope.

Inductive draw :=
| DChoice (idx : nat)              (* random.choice(seq): the index chosen *)
| DUniform (num den : Z)           (* random.uniform(a, b): the exact value num/den of the double *)
| DRandint (z : Z).                (* random.randint(a, b) *)

(* a decimal m * 10^e *)
Record dec := { d_m : Z; d_e : Z }.

(* exact decimal value of a float repr such as "12.5", "-0.001", "1e-05", "1.5e+20" *)
Fixpoint digits_to_z (s : string) (acc : Z) : option Z :=
  match s with
  | EmptyString => Some acc
  | String c rest => if is_digit c then digits_to_z rest (acc * 10 + Z.of_N (ascii_n c) - 48)%Z else None
  end.
Fixpoint split_at (c : ascii) (s acc : string) : string * option string :=
  match s with
  | EmptyString => (str_rev acc, None)
  | String d rest => if Ascii.eqb c d then (str_rev acc, Some rest) else split_at c rest (String d acc)
  end.
Definition str_len (s : string) : Z := Z.of_nat (String.length s).

Definition signed (s : string) : bool * string :=
  match s with
  | String "-" rest => (true, rest)
  | String "+" rest => (false, rest)
  | _ => (false, s)
  end.

Definition dec_of_repr (r : string) : option dec :=
  let (mant, expo) := split_at "e" r "" in
  let (neg, mant') := signed mant in
  let (ip, fp) := split_at "." mant' "" in
  let fp' := match fp with Some f => f | None => "" end in
  match digits_to_z (ip ++ fp')%string 0 with
  | None => None
  | Some m =>
      let e10 := match expo with
                 | None => Some 0%Z
                 | Some ex => let (eneg, ex') := signed ex in
                              match digits_to_z ex' 0 with
                              | Some z => Some (if eneg then (- z)%Z else z)
                              | None => None
                              end
                 end in
      match e10 with
      | None => None
      | Some e => Some {| d_m := if neg then (- m)%Z else m; d_e := (e - str_len fp')%Z |}
      end
  end.

Definition dec_of_bound (v : aval) : option dec :=
  match v with
  | VInt z => Some {| d_m := z; d_e := 0 |}
  | VFloat r => dec_of_repr r
  | _ => None
  end.

(* compare two decimals exactly *)
Definition dec_leb (a b : dec) : bool :=
  let e := Z.min (d_e a) (d_e b) in
  (d_m a * 10 ^ (d_e a - e) <=? d_m b * 10 ^ (d_e b - e))%Z.

(* str(x)[::-1].find('.'): number of characters after the last '.', -1 without a '.' *)
Definition dot_digits (v : aval) : Z :=
  match v with
  | VFloat r =>
      (fix go (s : string) (n : Z) : Z :=
         match s with
         | EmptyString => (-1)%Z
         | String c rest => if Ascii.eqb c "." then n else go rest (n + 1)%Z
         end) (str_rev r) 0%Z
  | _ => (-1)%Z
  end.

(* round(num/den, digits) as an exact decimal (round-half-even on the exact value) *)
Definition round_dec (num den digits : Z) : dec :=
  let neg := (num <? 0)%Z in
  let n := Z.abs num in
  let q := if (0 <=? digits)%Z then div_rne (n * 10 ^ digits) den
           else div_rne n (den * 10 ^ (- digits)) in
  {| d_m := if neg then (- q)%Z else q; d_e := (- digits)%Z |}.

Definition is_float (v : aval) : bool := match v with VFloat _ => true | _ => false end.
Definition is_int (v : aval) : bool := match v with VInt _ => true | _ => false end.

(* the generated value *)
Inductive gval := GElem (v : aval) | GInt (z : Z) | GDec (d : dec) | GBound (v : aval) | GNone.

(* get_random_value_from_ranges *)
Definition value_from_ranges (ranges : list range) (draws : list draw) : result (gval * list draw) :=
  match draws with
  | DChoice i :: rest =>
      match nth_error ranges i with
      | None => Err IndexError
      | Some rg =>
          let lo := rg_min rg in let hi := rg_max rg in
          if is_float lo || is_float hi then
            match rest with
            | DUniform num den :: rest' =>
                let digits := Z.max (dot_digits lo) (dot_digits hi) in
                let v := round_dec num den digits in
                match dec_of_bound lo, dec_of_bound hi with
                | Some dlo, Some dhi =>
                    (* min(max(value, lo), hi) *)
                    let v1 := if dec_leb dlo v then GDec v else GBound lo in
                    let v1d := if dec_leb dlo v then v else dlo in
                    Ok ((if dec_leb v1d dhi then v1 else GBound hi), rest')
                | _, _ => Err TypeError
                end
            | _ => Err OtherExn
            end
          else if is_int lo && is_int hi then
            match rest with
            | DRandint z :: rest' => Ok (GInt z, rest')
            | _ => Err OtherExn
            end
          else Err FlamaException
      end
  | _ => Err OtherExn
  end.

(* get_random_value_from_domain *)
Definition value_from_domain (d : domain) (draws : list draw) : result (gval * list draw) :=
  match dom_elems d, dom_ranges d with
  | _ :: _, _ :: _ =>
      match draws with
      | DChoice i :: rest =>
          match nth_error (dom_elems d) i with
          | None => Err IndexError
          | Some el =>
              match value_from_ranges (dom_ranges d) rest with
              | Err e => Err e
              | Ok (rv, rest') =>
                  match rest' with
                  | DChoice j :: rest'' =>
                      if Nat.eqb j 0 then Ok (GElem el, rest'')
                      else if Nat.eqb j 1 then Ok (rv, rest'') else Err IndexError
                  | _ => Err OtherExn
                  end
              end
          end
      | _ => Err OtherExn
      end
  | _ :: _, [] =>
      match draws with
      | DChoice i :: rest => match nth_error (dom_elems d) i with
                             | Some el => Ok (GElem el, rest)
                             | None => Err IndexError
                             end
      | _ => Err OtherExn
      end
  | [], _ :: _ => value_from_ranges (dom_ranges d) draws
  | [], [] => Ok (GNone, draws)
  end.

(* the attribute value stored: floats are carried as a tagged text the harness turns into a double *)
Definition gval_aval (g : gval) : aval :=
  match g with
  | GElem v | GBound v => v
  | GInt z => VInt z
  | GDec d => VFloat ("dec " ++ z_to_string (d_m d) ++ " " ++ z_to_string (d_e d))%string
  | GNone => VNone
  end.

Definition has_attr (nm : string) (f : feature) : bool :=
  existsb (fun a => String.eqb nm (a_name a)) (f_attrs (info f)).

(* generate_random_attribute_values: features are visited in get_features order; because that order
   is not the structural order, the pass first decides the value for each feature of get_features
   (consuming the draws) and then rebuilds the tree with the new attributes looked up by position *)
Definition targeted (only_leaf : bool) (nm : string) (f : feature) : bool :=
  (negb only_leaf || feat_is_leaf f) && negb (has_attr nm f).

Fixpoint decide (fs : list feature) (only_leaf : bool) (nm : string) (d : domain) (draws : list draw)
  : result (list (option aval) * list draw) :=
  match fs with
  | [] => Ok ([], draws)
  | f :: rest =>
      if targeted only_leaf nm f then
        match value_from_domain d draws with
        | Err e => Err e
        | Ok (g, draws') =>
            match decide rest only_leaf nm d draws' with
            | Err e => Err e
            | Ok (vs, dr) => Ok (Some (gval_aval g) :: vs, dr)
            end
        end
      else
        match decide rest only_leaf nm d draws with
        | Err e => Err e
        | Ok (vs, dr) => Ok (None :: vs, dr)
        end
  end.

(* the new attribute for the feature called [n] (names are unique in the generated models) *)
Fixpoint lookup_value (n : string) (fs : list feature) (vs : list (option aval)) : option aval :=
  match fs, vs with
  | f :: fs', v :: vs' => if String.eqb (name f) n then v else lookup_value n fs' vs'
  | _, _ => None
  end.

Fixpoint apply_values (nm : string) (d : domain) (fs : list feature) (vs : list (option aval)) (f : feature)
  : feature :=
  match f with
  | Feature i rs =>
      let i' := match lookup_value (f_name i) fs vs with
                | Some v => {| f_name := f_name i; f_abstract := f_abstract i; f_type := f_type i;
                               f_cmin := f_cmin i; f_cmax := f_cmax i;
                               f_attrs := f_attrs i ++ [{| a_name := nm; a_dom := Some d; a_default := v;
                                                           a_null := VNone |}] |}
                | None => i
                end in
      Feature i' (map (fun r => match r with
                                | Relation a b cs => Relation a b (map (apply_values nm d fs vs) cs)
                                end) rs)
  end.

(* GenerateRandomAttribute.execute *)
Definition gen_random_attribute (nm : string) (dom : option domain) (only_leaf : bool) (draws : list draw)
           (m : fm) : result fm :=
  match dom with
  | None => Err FlamaException
  | Some d =>
      (* fix: nothing can be drawn from a domain without elements and without ranges (every targeted feature used to
         get the value None) *)
      if match dom_elems d, dom_ranges d with [], [] => true | _, _ => false end then Err FlamaException else
      let fs := get_features m in
      match decide fs only_leaf nm d draws with
      | Err e => Err e
      | Ok (vs, _) => Ok {| root := apply_values nm d fs vs (root m); ctcs := ctcs m |}
      end
  end.
