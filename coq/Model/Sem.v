(* Model/Sem.v — configuration semantics of the feature tree (DESIGN §4.0).

   Two forms:
   * name form  [sem f σ] : the sub-tree rooted at the *selected* feature f is consistent with the
     selection σ : string -> bool (used by C14, C15, C10, C11);
   * bit-vector form: a configuration of the sub-tree of f is a [list bool] of length [fsize f] in
     the pre-order of [subfeatures f]; [Valid f bits] is the relational specification and
     [confs f] enumerates it (used by C13). *)
From Coq Require Import List Bool Ascii String ZArith.
From FM Require Import Base.Result Base.Str Base.AstOp Model.Ast Model.FM.
Import ListNotations.
Local Open Scope list_scope.

(* upper bound of a relation: max = -1 is UVL's [a..*] *)
Definition eff_max (mx : Z) (n : nat) : Z := if (mx =? -1)%Z then Z.of_nat n else mx.
Definition card_okb (mn mx : Z) (n : nat) (k : Z) : bool :=
  ((mn <=? k) && (k <=? eff_max mx n))%Z.

(* ---------------------------------------------------------------- name form *)
Section NameSem.
  Variable σ : string -> bool.

  (* no feature of the sub-tree is selected *)
  Fixpoint none_selected (f : feature) : bool :=
    match f with
    | Feature i rs =>
        negb (σ (f_name i))
        && forallb (fun r => match r with
                             | Relation _ _ cs => forallb none_selected cs
                             end) rs
    end.

  Definition count_sel (cs : list feature) : Z :=
    Z.of_nat (List.length (filter (fun c => σ (name c)) cs)).

  (* f is selected and its sub-tree obeys the tree rules *)
  Fixpoint sem (f : feature) : bool :=
    match f with
    | Feature i rs =>
        σ (f_name i)
        && forallb (fun r => match r with
                             | Relation mn mx cs =>
                                 card_okb mn mx (List.length cs) (count_sel cs)
                                 && forallb (fun c => if σ (name c) then sem c else none_selected c) cs
                             end) rs
    end.
End NameSem.

(* evaluation of a logical constraint under σ; None for a tree that is not a well-formed logical
   constraint over names *)
Fixpoint eval (σ : string -> bool) (n : node) : option bool :=
  match n with
  | Node (DStr s) None None => Some (σ s)
  | Node (DOp NOT) (Some a) None => option_map negb (eval σ a)
  | Node (DOp o) (Some a) (Some b) =>
      match eval σ a, eval σ b with
      | Some x, Some y =>
          match o with
          | AND => Some (x && y)
          | OR => Some (x || y)
          | IMPLIES | REQUIRES => Some (implb x y)
          | EXCLUDES => Some (negb (x && y))
          | XOR => Some (xorb x y)
          | EQUIVALENCE => Some (Bool.eqb x y)
          | _ => None
          end
      | _, _ => None
      end
  | _ => None
  end.

(* a configuration of the model: tree rules from the root, every (evaluable) constraint true *)
Definition valid (m : fm) (σ : string -> bool) : bool :=
  sem σ (root m) && forallb (fun c => match eval σ (c_ast c) with Some b => b | None => false end) (ctcs m).

(* ---------------------------------------------------------------- bit-vector form *)
Definition zeros (n : nat) : list bool := repeat false n.

Inductive Valid : feature -> list bool -> Prop :=
| V_feat : forall i rs bs, RsValid rs bs -> Valid (Feature i rs) (true :: bs)
with RsValid : list relation -> list bool -> Prop :=
| RsV_nil : RsValid [] []
| RsV_cons : forall mn mx cs rs bs1 bs2 k,
    CsValid cs bs1 k -> card_okb mn mx (List.length cs) k = true -> RsValid rs bs2 ->
    RsValid (Relation mn mx cs :: rs) (bs1 ++ bs2)
with CsValid : list feature -> list bool -> Z -> Prop :=
| CsV_nil : CsValid [] [] 0%Z
| CsV_sel : forall c cs bs1 bs2 k,
    Valid c bs1 -> CsValid cs bs2 k -> CsValid (c :: cs) (bs1 ++ bs2) (k + 1)%Z
| CsV_unsel : forall c cs bs2 k,
    CsValid cs bs2 k -> CsValid (c :: cs) (zeros (fsize c) ++ bs2) k.

Scheme Valid_mind := Induction for Valid Sort Prop
  with RsValid_mind := Induction for RsValid Sort Prop
  with CsValid_mind := Induction for CsValid Sort Prop.
Combined Scheme Valid_mutind from Valid_mind, RsValid_mind, CsValid_mind.

(* the enumerator *)
Definition prod_app {A} (xs ys : list (list A)) : list (list A) :=
  flat_map (fun x => map (fun y => x ++ y) ys) xs.

(* children of one relation: all (number selected, bits) *)
Definition csconfs_with (confs : feature -> list (list bool)) : list feature -> list (Z * list bool) :=
  fix go cs :=
    match cs with
    | [] => [(0%Z, [])]
    | c :: cs' =>
        let rest := go cs' in
        map (fun kb => (fst kb, zeros (fsize c) ++ snd kb)) rest
        ++ flat_map (fun x => map (fun kb => ((fst kb + 1)%Z, x ++ snd kb)) rest) (confs c)
    end.

Definition rconfs_with (confs : feature -> list (list bool)) (r : relation) : list (list bool) :=
  match r with
  | Relation mn mx cs =>
      map snd (filter (fun kb => card_okb mn mx (List.length cs) (fst kb)) (csconfs_with confs cs))
  end.

Definition rsconfs_with (confs : feature -> list (list bool)) : list relation -> list (list bool) :=
  fix go rs :=
    match rs with
    | [] => [[]]
    | r :: rs' => prod_app (rconfs_with confs r) (go rs')
    end.

Fixpoint confs (f : feature) : list (list bool) :=
  match f with
  | Feature _ rs =>
      map (cons true)
          ((fix go (rs : list relation) : list (list bool) :=
              match rs with
              | [] => [[]]
              | r :: rs' =>
                  prod_app
                    (match r with
                     | Relation mn mx cs =>
                         map snd
                             (filter (fun kb => card_okb mn mx (List.length cs) (fst kb))
                                     ((fix goc (cs : list feature) : list (Z * list bool) :=
                                         match cs with
                                         | [] => [(0%Z, [])]
                                         | c :: cs' =>
                                             let rest := goc cs' in
                                             map (fun kb => (fst kb, zeros (fsize c) ++ snd kb)) rest
                                             ++ flat_map (fun x => map (fun kb => ((fst kb + 1)%Z, x ++ snd kb)) rest)
                                                         (confs c)
                                         end) cs))
                     end)
                    (go rs')
              end) rs)
  end.

(* the names selected by a bit-vector (for comparison with the name-set oracle) *)
Definition selected_names (f : feature) (bits : list bool) : list string :=
  map fst (filter snd (combine (names f) bits)).

(* σ from a list of selected names *)
Definition sigma_of (sel : list string) : string -> bool := fun n => list_existsb_eq n sel.

(* all subsets of a list of names (as selections), for executable brute force on small models *)
Fixpoint all_subsets (l : list string) : list (list string) :=
  match l with
  | [] => [[]]
  | x :: xs => let r := all_subsets xs in map (cons x) r ++ r
  end.

Definition valid_selections (m : fm) : list (list string) :=
  filter (fun sel => valid m (sigma_of sel)) (all_subsets (names (root m))).
