(* Model/Metrics.v — FMMetrics (operations/fm_metrics.py) with Metrics.execute / get_ratio /
   construct_result of flamapy.core.  Names are assumed unique (the dict-keyed caches of the
   implementation collapse duplicates; the correspondence only generates unique names). *)
From Coq Require Import List Bool Ascii String ZArith.
From FM Require Import Base.Result Base.Str Base.PyFloat Base.AstOp Model.Ast Model.FM Model.Ctc
     Model.Queries Model.Ops Model.EqHash Gen.Tables_metrics.
Import ListNotations.
Local Open Scope string_scope.
Local Open Scope list_scope.

Inductive mval := MNames (l : list string) | MStr (s : string) | MInt (z : Z) | MHund (h : Z).

Record entry := {
  me_method : string; me_name : string; me_result : mval; me_size : option Z;
  me_ratio : option Z;            (* ten-thousandths *)
  me_parent : option string; me_level : Z }.

Definition zlen {A} (l : list A) : Z := Z.of_nat (List.length l).

(* Metrics.get_ratio(c1, c2, precision) in ten-thousandths *)
Definition get_ratio (n1 n2 : Z) (precision : Z) : Z :=
  if (n2 =? 0)%Z then 0%Z
  else (pyround_div n1 n2 precision * 10 ^ (4 - precision))%Z.

Definition mk (meth name : string) (r : mval) (size : option Z) (ratio : option Z)
           (parent : option string) (level : Z) : entry :=
  {| me_method := meth; me_name := name; me_result := r; me_size := size; me_ratio := ratio;
     me_parent := parent; me_level := level |}.

Definition listing (meth name : string) (l base : list string) (parent : string) (level : Z) : entry :=
  mk meth name (MNames l) (Some (zlen l)) (Some (get_ratio (zlen l) (zlen base) 4)) (Some parent) level.

Definition ctc_str (c : ctc) : string := ("(" ++ c_name c ++ ") " ++ node_str (c_ast c))%string.

Definition is_abstract_truthy (f : feature) : bool :=
  match f_abstract (info f) with
  | VNone => false | VBool b => b | VInt z => negb (z =? 0)%Z | VStr s => negb (String.eqb s "")
  | VFloat r => negb (String.eqb r "0.0" || String.eqb r "-0.0") | VList l => negb (Nat.eqb (List.length l) 0)
  | VMap kv => negb (Nat.eqb (List.length kv) 0)
  end.

(* FMMetrics._is_grouped *)
Definition feat_is_grouped (p : option feature) (f : feature) : bool :=
  match p with
  | None => false
  | Some q => existsb (fun r => rel_is_group r && in_children f r) (rels q)
  end.

Definition zmin_list (l : list Z) (default : Z) : Z :=
  match l with [] => default | x :: xs => fold_left Z.min xs x end.
Definition zmax_list (l : list Z) (default : Z) : Z :=
  match l with [] => default | x :: xs => fold_left Z.max xs x end.

(* statistics.median of integers, in hundredths *)
Definition zsort (l : list Z) : list Z := sort_by (fun z => z) Z.ltb l.
Definition median_hund (l : list Z) : Z :=
  let s := zsort l in
  let n := List.length s in
  if Nat.even n then (50 * (nth (n / 2 - 1) s 0 + nth (n / 2) s 0))%Z
  else (100 * nth (n / 2) s 0)%Z.
(* round(statistics.mean(l), 2) *)
Definition mean_hund (l : list Z) : Z :=
  let s := zsum l in
  if (s =? 0)%Z then 0%Z else pyround_div s (zlen l) 2.

Section Report.
  Variable m : fm.

  Definition fctx := get_features_ctx m.
  Definition feats := get_features m.
  Definition fnames := map name feats.
  Definition abstract_names := map name (filter is_abstract_truthy feats).
  Definition concrete_names := map name (filter (fun f => negb (is_abstract_truthy f)) feats).
  Definition leaf_names_ := map name (filter feat_is_leaf feats).
  Definition nchildren_of (f : feature) : Z := zsum (map nchildren (rels f)).
  Definition cpf : list Z :=
    let per_ctc := map (fun c => ctc_features (c_ast c)) (ctcs m) in
    map (fun f => zlen (filter (fun l => list_existsb_eq (name f) l) per_ctc)) feats.
  Definition leaf_depths : list Z :=
    map (fun fa => zlen (snd fa)) (filter (fun fa => feat_is_leaf (fst fa)) (ancestors_table m)).
  (* leaf depths in get_features order: the multiset is what max/mean/median use *)
  (* FMMetrics._is_group_feature *)
  Definition is_group_feature (f : feature) : bool := feat_is_group f || feat_is_cardinality_group f.
  Definition group_names := map name (filter is_group_feature feats).
  Definition solitary_names :=
    map (fun x => name (snd x))
        (filter (fun x => negb (feat_is_root (fst x)) && negb (feat_is_grouped (fst x) (snd x))) fctx).
  Definition grouped_names :=
    map (fun x => name (snd x))
        (filter (fun x => negb (feat_is_root (fst x)) && feat_is_grouped (fst x) (snd x)) fctx).

  Definition ctc_strs (idx : list nat) : list string :=
    map (fun i => match nth_error (ctcs m) i with Some c => ctc_str c | None => "" end) idx.

  Definition ctc_listing_entry (meth name_ : string) (l base : result (list nat)) (parent : string)
             (level : Z) : result entry :=
    match l with Err e => Err e | Ok li =>
    match base with Err e => Err e | Ok bi =>
      Ok (listing meth name_ (ctc_strs li) (map (fun _ => "") bi) parent level)
    end end.

  Definition all_ctc_idx : result (list nat) := Ok (seq 0 (List.length (ctcs m))).

  Definition metric (meth : string) : result entry :=
    let ok := @Ok entry in
    if String.eqb meth "features" then
      ok (mk meth "Features" (MNames fnames) (Some (zlen fnames)) None None 0)
    else if String.eqb meth "abstract_features" then
      ok (listing meth "Abstract features" abstract_names fnames "Features" 1)
    else if String.eqb meth "concrete_features" then
      ok (listing meth "Concrete features" concrete_names fnames "Features" 1)
    else if String.eqb meth "leaf_features" then
      ok (listing meth "Leaf features" leaf_names_ fnames "Features" 1)
    else if String.eqb meth "compound_features" then
      ok (listing meth "Compound features"
                  (map name (filter (fun f => negb (feat_is_leaf f)) feats)) fnames "Features" 1)
    else if String.eqb meth "concrete_compound_features" then
      ok (listing meth "Concrete compound features"
                  (map name (filter (fun f => negb (is_abstract_truthy f) && negb (feat_is_leaf f)) feats))
                  concrete_names "Concrete features" 2)
    else if String.eqb meth "concrete_leaf_features" then
      ok (listing meth "Concrete leaf features"
                  (map name (filter (fun f => negb (is_abstract_truthy f) && feat_is_leaf f) feats))
                  concrete_names "Concrete features" 2)
    else if String.eqb meth "abstract_compound_features" then
      ok (listing meth "Abstract compound features"
                  (map name (filter (fun f => is_abstract_truthy f && negb (feat_is_leaf f)) feats))
                  abstract_names "Abstract features" 2)
    else if String.eqb meth "abstract_leaf_features" then
      ok (listing meth "Abstract leaf features"
                  (map name (filter (fun f => is_abstract_truthy f && feat_is_leaf f) feats))
                  abstract_names "Abstract features" 2)
    else if String.eqb meth "tree_relationships" then
      let l := map (fun pr => rel_str (name (fst pr)) (snd pr)) (subrelations_ctx (root m)) in
      ok (mk meth "Tree relationships" (MNames l) (Some (zlen l)) None None 0)
    else if String.eqb meth "root_feature" then
      ok (mk meth "Root feature" (MStr (name (root m))) (Some 1%Z)
             (Some (get_ratio 1 (zlen fnames) 4)) (Some "Features") 1)
    else if String.eqb meth "top_features" then
      ok (listing meth "Top features" (map name (children (root m))) fnames "Root feature" 2)
    else if String.eqb meth "solitary_features" then
      ok (listing meth "Solitary features" solitary_names fnames "Features" 1)
    else if String.eqb meth "grouped_features" then
      ok (listing meth "Grouped features" grouped_names fnames "Features" 1)
    else if String.eqb meth "mandatory_features" then
      ok (listing meth "Mandatory features" (map name (get_mandatory_features m)) solitary_names
                  "Tree relationships" 1)
    else if String.eqb meth "optional_features" then
      ok (listing meth "Optional features" (map name (get_optional_features m)) solitary_names
                  "Tree relationships" 1)
    else if String.eqb meth "feature_groups" then
      ok (listing meth "Feature groups" group_names (map (fun _ => "") (get_relations m))
                  "Tree relationships" 1)
    else if String.eqb meth "alternative_groups" then
      ok (listing meth "Alternative groups" (map name (get_alternative_group_features m)) group_names
                  "Feature groups" 2)
    else if String.eqb meth "or_groups" then
      ok (listing meth "Or groups" (map name (get_or_group_features m)) group_names "Feature groups" 2)
    else if String.eqb meth "mutex_groups" then
      ok (listing meth "Mutex groups" (map name (filter feat_is_mutex_group feats)) group_names
                  "Feature groups" 2)
    else if String.eqb meth "cardinality_groups" then
      ok (listing meth "Cardinality groups" (map name (filter feat_is_cardinality_group feats))
                  group_names "Feature groups" 2)
    else if String.eqb meth "branching_factor" then
      ok (mk meth "Branching factor" (MHund (average_branching_factor m)) None None None 0)
    else if String.eqb meth "min_children_per_feature" then
      ok (mk meth "Min children per feature"
             (MInt (zmin_list (map nchildren_of (filter (fun f => negb (feat_is_leaf f)) feats)) 0))
             None None (Some "Branching factor") 1)
    else if String.eqb meth "max_children_per_feature" then
      ok (mk meth "Max children per feature" (MInt (zmax_list (map nchildren_of feats) 0))
             None None (Some "Branching factor") 1)
    else if String.eqb meth "avg_children_per_feature" then
      let s := zsum (map nchildren_of feats) in
      ok (mk meth "Avg children per feature"
             (MHund (if (s =? 0)%Z then 0%Z else pyround_div s (zlen feats) 2))
             None None (Some "Branching factor") 1)
    else if String.eqb meth "depth_tree" then
      ok (mk meth "Depth of tree" (MInt (zmax_list leaf_depths 0)) None None None 0)
    else if String.eqb meth "max_depth_tree" then
      ok (mk meth "Max depth of tree" (MInt (zmax_list leaf_depths 0)) None None (Some "Depth of tree") 1)
    else if String.eqb meth "mean_depth_tree" then
      ok (mk meth "Mean depth of tree" (MHund (mean_hund leaf_depths)) None None (Some "Depth of tree") 1)
    else if String.eqb meth "median_depth_tree" then
      ok (mk meth "Median depth of tree" (MHund (median_hund leaf_depths)) None None (Some "Depth of tree") 1)
    else if String.eqb meth "cross_tree_constraints" then
      let l := map ctc_str (ctcs m) in
      ok (mk meth "Cross-tree constraints" (MNames l) (Some (zlen l)) None None 0)
    else if String.eqb meth "simple_constraints" then
      ctc_listing_entry meth "Simple constraints" (get_simple_constraints m) all_ctc_idx
                        "Cross-tree constraints" 1
    else if String.eqb meth "requires_constraints" then
      ctc_listing_entry meth "Requires constraints" (get_requires_constraints m)
                        (get_simple_constraints m) "Simple constraints" 2
    else if String.eqb meth "excludes_constraints" then
      ctc_listing_entry meth "Excludes constraints" (get_excludes_constraints m)
                        (get_simple_constraints m) "Simple constraints" 2
    else if String.eqb meth "complex_constraints" then
      ctc_listing_entry meth "Complex constraints" (get_complex_constraints m) all_ctc_idx
                        "Cross-tree constraints" 1
    else if String.eqb meth "pseudo_complex_constraints" then
      ctc_listing_entry meth "Pseudo-complex constraints" (get_pseudocomplex_constraints m)
                        (get_complex_constraints m) "Complex constraints" 2
    else if String.eqb meth "strict_complex_constraints" then
      ctc_listing_entry meth "Strict-complex constraints" (get_strictcomplex_constraints m)
                        (get_complex_constraints m) "Complex constraints" 2
    else if String.eqb meth "min_constraints_per_feature" then
      ok (mk meth "Min constraints per feature" (MInt (zmin_list cpf 0)) None None
             (Some "Cross-tree constraints") 1)
    else if String.eqb meth "max_constraints_per_feature" then
      ok (mk meth "Max constraints per feature" (MInt (zmax_list cpf 0)) None None
             (Some "Cross-tree constraints") 1)
    else if String.eqb meth "avg_constraints_per_feature" then
      ok (mk meth "Avg constraints per feature" (MHund (mean_hund cpf)) None None
             (Some "Cross-tree constraints") 1)
    else if String.eqb meth "extra_constraint_representativeness" then
      let l := filter (fun s => list_existsb_eq s fnames)
                      (fold_left (fun acc c => fold_left (fun a s => add_once s a) (ctc_features (c_ast c)) acc)
                                 (ctcs m) []) in
      ok (mk meth "Features in constraints" (MNames l) (Some (zlen l))
             (Some (get_ratio (zlen l) (zlen fnames) 2)) (Some "Cross-tree constraints") 1)
    else Err OtherExn.

  (* calculate_metamodel_metrics with an optional filter of method names *)
  Definition report (flt : option (list string)) : result (list entry) :=
    let methods := match flt with
                   | None => metric_methods
                   | Some l => filter (fun n => list_existsb_eq n l) metric_methods
                   end in
    mapM metric methods.
End Report.

(* Metrics.execute as a state machine over the operation object: state = the stored result.
   FMMetrics.execute empties the result before Metrics.execute extends it. *)
Definition metrics_step (st : list entry) (flt : option (list string)) (m : fm)
  : result (list entry) :=
  match report m flt with
  | Err e => Err e
  | Ok r => Ok ([] ++ r)
  end.
