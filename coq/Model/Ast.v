(* Model/Ast.v — flamapy.core.models.ast, transcribed.
   Node keeps Python's shape: data plus *optional* left/right. *)
From Coq Require Import List Bool Ascii String ZArith.
From FM Require Import Base.Result Base.Str Base.AstOp Gen.Tables_core.
Import ListNotations.
Open Scope string_scope.

(* DFloat carries the shortest repr of the float; DBool is Python's True/False used as a term *)
Inductive ndata := DOp (o : astop) | DStr (s : string) | DInt (z : Z) | DFloat (repr : string)
                 | DBool (b : bool).

Inductive node := Node (d : ndata) (l r : option node).

Definition n_data (n : node) := match n with Node d _ _ => d end.
Definition n_left (n : node) := match n with Node _ l _ => l end.
Definition n_right (n : node) := match n with Node _ _ r => r end.

Definition term (s : string) : node := Node (DStr s) None None.
Definition un (o : astop) (a : node) : node := Node (DOp o) (Some a) None.
Definition bin (o : astop) (a b : node) : node := Node (DOp o) (Some a) (Some b).

(* str(node.data) for a term; for an operator, what an f-string prints for the enum member *)
Definition data_str (d : ndata) : string :=
  match d with
  | DOp o => "ASTOperation." ++ astop_value o
  | DStr s => s
  | DInt z => z_to_string z
  | DFloat r => r
  | DBool true => "True"
  | DBool false => "False"
  end.

Section Tables.
  (* LOGICAL_OPERATORS / ARITHMETIC_OPERATORS / AGGREGATION_OPERATORS are read from the installed
     flamapy.core on every run into Gen/Tables_core.v *)

  Definition is_op (n : node) : bool := match n_data n with DOp _ => true | _ => false end.
  Definition is_term (n : node) : bool := negb (is_op n).
  Definition is_unary_op (n : node) : bool :=
    match n_data n with DOp o => op_in o [NOT] | _ => false end.
  Definition is_unique_term (n : node) : bool :=
    negb (is_op n) && match n_left n with None => true | Some _ => false end.
  Definition is_aggregate_op (n : node) : bool :=
    match n_data n with DOp o => op_in o aggregation_ops | _ => false end.
  Definition is_binary_op (n : node) : bool :=
    negb (is_unique_term n) && negb (is_unary_op n) && negb (is_aggregate_op n).

  Definition data_label (d : ndata) : string :=
    match d with DOp o => astop_value o | _ => core_safename (data_str d) end.

  (* Node.__str__ *)
  Fixpoint node_str (n : node) : string :=
    match n with
    | Node d l r =>
        let data := data_label d in
        match l, r with
        | Some a, Some b => data ++ "[" ++ node_str a ++ "][" ++ node_str b ++ "]"
        | Some a, None => data ++ "[" ++ node_str a ++ "][]"
        | None, Some b => data ++ "[][" ++ node_str b ++ "]"
        | None, None => data
        end
    end.

  (* Node.pretty_str / _get_pretty_str_node; UnboundLocalError for an aggregate without right *)
  Fixpoint pretty_str (n : node) : result string :=
    match n with
    | Node d l r =>
        let sub (c : option node) : result string :=
          match c with
          | None => Ok ""
          | Some x =>
              if is_op x then
                match pretty_str x with
                | Ok s => if is_binary_op x then Ok ("(" ++ s ++ ")") else Ok s
                | Err e => Err e
                end
              else Ok (node_str x)
          end in
        match sub l with
        | Err e => Err e
        | Ok sl =>
            match sub r with
            | Err e => Err e
            | Ok sr =>
                let data := data_label d in
                if is_unique_term n then Ok data
                else if is_unary_op n then Ok (data ++ " " ++ sl)
                else if is_aggregate_op n then
                       match r with
                       | Some _ => Ok (data ++ "(" ++ sl ++ ", " ++ sr ++ ")")
                       | None => Err UnboundLocalError
                       end
                     else Ok (sl ++ " " ++ data ++ " " ++ sr)
            end
        end
    end.

  Definition self_op (n : node) : list astop := match n_data n with DOp o => [o] | _ => [] end.

  (* AST.get_operators: the explicit stack visits node, left subtree, right subtree; children of
     aggregate operators are not visited *)
  Fixpoint get_operators (n : node) : list astop :=
    match n with
    | Node d l r =>
        let ol := match l with Some a => get_operators a | None => [] end in
        let or_ := match r with Some b => get_operators b | None => [] end in
        if is_unary_op n then (self_op n ++ ol)%list
        else if is_binary_op n then (self_op n ++ ol ++ or_)%list
        else self_op n
    end.

  (* AST.get_operands *)
  Fixpoint get_operands (n : node) : list ndata :=
    match n with
    | Node d l r =>
        let ol := match l with Some a => get_operands a | None => [] end in
        let or_ := match r with Some b => get_operands b | None => [] end in
        if is_term n then [d]
        else if is_unary_op n then ol
        else if is_binary_op n then (ol ++ or_)%list
        else []
    end.

  Definition data_is (o : astop) (n : node) : bool :=
    match n_data n with DOp o' => astop_eqb o o' | _ => false end.

  Definition height : node -> nat :=
    fix go n := match n with
                | Node _ l r => S (Nat.max (match l with Some a => go a | None => 0 end)
                                           (match r with Some b => go b | None => 0 end))
                end.
  Definition nsize : node -> nat :=
    fix go n := match n with
                | Node _ l r => S ((match l with Some a => go a | None => 0 end)
                                   + (match r with Some b => go b | None => 0 end))
                end.

  (* AST(x).root.data on x = None raises AttributeError *)
  Definition need (c : option node) : result node :=
    match c with Some x => Ok x | None => Err AttributeError end.

  (* simplify_formula, literal transcription with fuel (the XOR branch re-simplifies a tree it has
     just built, so the recursion is not structural).  RuntimeError... no: fuel exhaustion is
     [Err OtherExn], excluded by every theorem. *)
  Fixpoint simplify_fuel (fuel : nat) (n : node) : result node :=
    match fuel with
    | O => Err OtherExn
    | S fuel' =>
        let S' := simplify_fuel fuel' in
        let sub (c : option node) := match need c with Ok x => S' x | Err e => Err e end in
        match n with
        | Node (DOp o) l r =>
            match o with
            | REQUIRES | IMPLIES =>
                match sub l with Err e => Err e | Ok l' =>
                match sub r with Err e => Err e | Ok r' =>
                  Ok (bin OR (un NOT l') r') end end
            | EXCLUDES =>
                match sub l with Err e => Err e | Ok l' =>
                match sub r with Err e => Err e | Ok r' =>
                  Ok (bin OR (un NOT l') (un NOT r')) end end
            | EQUIVALENCE =>
                (* left = simplify(IMPLIES(left, right)); right = simplify(IMPLIES(right, left))
                   — the second call sees the *reassigned* left *)
                match S' (Node (DOp IMPLIES) l r) with Err e => Err e | Ok l' =>
                match S' (Node (DOp IMPLIES) r (Some l')) with Err e => Err e | Ok r' =>
                  Ok (bin AND l' r') end end
            | XOR =>
                (* left = simplify(AND(left, NOT right)); left = simplify(AND(NOT left, right));
                   result = OR(left, right)  — [right] is the untouched original operand *)
                match S' (Node (DOp AND) l (Some (Node (DOp NOT) r None))) with Err e => Err e
                | Ok l1 =>
                match S' (Node (DOp AND) (Some (Node (DOp NOT) (Some l1) None)) r) with
                | Err e => Err e
                | Ok l2 => Ok (Node (DOp OR) (Some l2) r) end end
            | AND =>
                match sub l with Err e => Err e | Ok l' =>
                match sub r with Err e => Err e | Ok r' => Ok (bin AND l' r') end end
            | OR =>
                match sub l with Err e => Err e | Ok l' =>
                match sub r with Err e => Err e | Ok r' => Ok (bin OR l' r') end end
            | NOT =>
                match sub l with Err e => Err e | Ok l' => Ok (un NOT l') end
            | _ => Ok n
            end
        | _ => Ok n
        end
    end.

  (* the structural version for XOR-free trees with all operands present; equal to the literal one
     there (Proofs/AstFacts.v).  Note the EQUIVALENCE case: the code re-uses the reassigned [left],
     so P <=> Q becomes (!P | Q) & (!Q | (!P | Q)), which is only P => Q (open finding). *)
  Fixpoint simplify (n : node) : node :=
    match n with
    | Node (DOp o) (Some l) (Some r) =>
        match o with
        | REQUIRES | IMPLIES => bin OR (un NOT (simplify l)) (simplify r)
        | EXCLUDES => bin OR (un NOT (simplify l)) (un NOT (simplify r))
        | EQUIVALENCE => let l' := bin OR (un NOT (simplify l)) (simplify r) in
                         bin AND l' (bin OR (un NOT (simplify r)) l')
        | AND => bin AND (simplify l) (simplify r)
        | OR => bin OR (simplify l) (simplify r)
        | _ => n
        end
    | Node (DOp NOT) (Some l) None => un NOT (simplify l)
    | _ => n
    end.

  (* propagate_negation(node, negated) — structural *)
  Fixpoint propagate_negation (n : node) (negated : bool) : result node :=
    match n with
    | Node (DOp NOT) l _ =>
        match l with Some a => propagate_negation a (negb negated) | None => Err AttributeError end
    | Node (DOp AND) l r =>
        match l, r with
        | Some a, Some b =>
            match propagate_negation a negated with Err e => Err e | Ok a' =>
            match propagate_negation b negated with Err e => Err e | Ok b' =>
              Ok (bin (if negated then OR else AND) a' b') end end
        | _, _ => Err AttributeError
        end
    | Node (DOp OR) l r =>
        match l, r with
        | Some a, Some b =>
            match propagate_negation a negated with Err e => Err e | Ok a' =>
            match propagate_negation b negated with Err e => Err e | Ok b' =>
              Ok (bin (if negated then AND else OR) a' b') end end
        | _, _ => Err AttributeError
        end
    | _ => Ok (if negated then un NOT n else n)
    end.

  (* to_cnf, literal transcription with fuel *)
  Fixpoint to_cnf_fuel (fuel : nat) (n : node) : result node :=
    match fuel with
    | O => Err OtherExn
    | S fuel' =>
        let C := to_cnf_fuel fuel' in
        let sub (c : option node) := match need c with Ok x => C x | Err e => Err e end in
        match n with
        | Node (DOp AND) l r =>
            match sub l with Err e => Err e | Ok l' =>
            match sub r with Err e => Err e | Ok r' => Ok (bin AND l' r') end end
        | Node (DOp OR) l r =>
            match sub l with Err e => Err e | Ok l' =>
            match sub r with Err e => Err e | Ok r' =>
              if data_is AND l' then
                C (bin AND (Node (DOp OR) (n_left l') (Some r')) (Node (DOp OR) (n_right l') (Some r')))
              else if data_is AND r' then
                C (bin AND (Node (DOp OR) (Some l') (n_left r')) (Node (DOp OR) (Some l') (n_right r')))
              else Ok (bin OR l' r')
            end end
        | _ => Ok n
        end
    end.

  Definition default_fuel (n : node) : nat := 64 + 16 * nsize n * nsize n.

  (* convert_into_cnf *)
  Definition convert_into_cnf (n : node) : result node :=
    match simplify_fuel (default_fuel n) n with Err e => Err e | Ok s =>
    match propagate_negation s false with Err e => Err e | Ok p =>
      to_cnf_fuel (default_fuel p) p end end.

  (* clause elements: Python puts node.data (str/int/float) or the string '-' + name *)
  Definition neg_lit_plus (d : ndata) : result ndata :=     (* '-' + node.left.data *)
    match d with DStr s => Ok (DStr ("-" ++ s)) | _ => Err TypeError end.
  Definition neg_lit_fmt (d : ndata) : ndata := DStr ("-" ++ data_str d).   (* f'-{data}' *)

  Fixpoint clause_from_or (n : node) : result (list ndata) :=
    match n with
    | Node _ l r =>
        let side (c : option node) : result (list ndata) :=
          match c with
          | None => Err AttributeError
          | Some x =>
              if is_op x && data_is OR x then clause_from_or x
              else if is_term x then Ok [n_data x]
              else match n_left x with
                   | Some y => Ok [neg_lit_fmt (n_data y)]
                   | None => Err AttributeError
                   end
          end in
        match side l with Err e => Err e | Ok a =>
        match side r with Err e => Err e | Ok b => Ok (a ++ b)%list end end
    end.

  (* get_clauses(ast) on an already converted tree *)
  Fixpoint clauses_of (n : node) : result (list (list ndata)) :=
    match n with
    | Node d l r =>
        if is_term n then Ok [[d]]
        else if data_is NOT n then
               match l with
               | Some a => match neg_lit_plus (n_data a) with Ok x => Ok [[x]] | Err e => Err e end
               | None => Err AttributeError
               end
        else if data_is OR n then
               match clause_from_or n with Ok c => Ok [c] | Err e => Err e end
        else if data_is AND n then
               match l, r with
               | Some a, Some b =>
                   match clauses_of a with Err e => Err e | Ok ca =>
                   match clauses_of b with Err e => Err e | Ok cb => Ok (ca ++ cb)%list end end
               | _, _ => Err AttributeError
               end
        else Ok []
    end.

  (* AST.get_clauses *)
  Definition get_clauses (n : node) : result (list (list ndata)) :=
    match convert_into_cnf n with Err e => Err e | Ok c => clauses_of c end.

End Tables.
