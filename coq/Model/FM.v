(* Model/FM.v — the feature-model metamodel as a functional tree. *)
From Coq Require Import List Bool Ascii String ZArith.
From FM Require Import Base.Result Base.Str Base.AstOp Model.Ast.
Import ListNotations.
Open Scope string_scope.

Inductive ftype := TBoolean | TInteger | TReal | TString.

Definition ftype_eqb (a b : ftype) : bool :=
  match a, b with
  | TBoolean, TBoolean | TInteger, TInteger | TReal, TReal | TString, TString => true
  | _, _ => false
  end.

(* attribute / JSON-like values.  VFloat carries the shortest repr. *)
Inductive aval :=
| VNone | VBool (b : bool) | VInt (z : Z) | VFloat (repr : string) | VStr (s : string)
| VList (l : list aval) | VMap (kv : list (string * aval)).

Record range := { rg_min : aval; rg_max : aval }.
Record domain := { dom_ranges : list range; dom_elems : list aval }.
Record attr := { a_name : string; a_dom : option domain; a_default : aval; a_null : aval }.

Record finfo := {
  f_name : string;
  f_abstract : aval;          (* VBool for constructor-built models; readers may store other values *)
  f_type : ftype;
  f_cmin : Z; f_cmax : Z;     (* feature_cardinality *)
  f_attrs : list attr
}.

Inductive feature := Feature (i : finfo) (rels : list relation)
with relation := Relation (rmin rmax : Z) (children : list feature).

Definition info (f : feature) := match f with Feature i _ => i end.
Definition rels (f : feature) := match f with Feature _ rs => rs end.
Definition name (f : feature) := f_name (info f).
Definition r_min (r : relation) := match r with Relation a _ _ => a end.
Definition r_max (r : relation) := match r with Relation _ b _ => b end.
Definition r_children (r : relation) := match r with Relation _ _ cs => cs end.

Record ctc := { c_name : string; c_ast : node }.
Record fm := { root : feature; ctcs : list ctc }.

Definition mk_info (n : string) : finfo :=
  {| f_name := n; f_abstract := VBool false; f_type := TBoolean; f_cmin := 1; f_cmax := 1;
     f_attrs := [] |}.
Definition leaf (n : string) : feature := Feature (mk_info n) [].

(* ---- induction principle for the mutual/nested type ---- *)
Section FeatureInd.
  Variable P : feature -> Prop.
  Variable Q : relation -> Prop.
  Hypothesis HF : forall i rs, Forall Q rs -> P (Feature i rs).
  Hypothesis HR : forall a b cs, Forall P cs -> Q (Relation a b cs).

  Fixpoint feature_ind2 (f : feature) : P f :=
    match f with
    | Feature i rs =>
        HF i rs ((fix go (l : list relation) : Forall Q l :=
                    match l with
                    | [] => Forall_nil Q
                    | r :: l' => Forall_cons r (relation_ind2 r) (go l')
                    end) rs)
    end
  with relation_ind2 (r : relation) : Q r :=
    match r with
    | Relation a b cs =>
        HR a b cs ((fix go (l : list feature) : Forall P l :=
                      match l with
                      | [] => Forall_nil P
                      | c :: l' => Forall_cons c (feature_ind2 c) (go l')
                      end) cs)
    end.

  Lemma feature_relation_ind : (forall f, P f) /\ (forall r, Q r).
  Proof. split; [exact feature_ind2 | exact relation_ind2]. Qed.
End FeatureInd.

(* ---- structural measures and the natural pre-order listing (specification side) ---- *)
Fixpoint fsize (f : feature) : nat :=
  match f with
  | Feature _ rs => S (list_sum (map (fun r => match r with
                                               | Relation _ _ cs => list_sum (map fsize cs)
                                               end) rs))
  end.

(* all features of the sub-tree, pre-order *)
Fixpoint subfeatures (f : feature) : list feature :=
  match f with
  | Feature _ rs =>
      f :: flat_map (fun r => match r with
                              | Relation _ _ cs => flat_map subfeatures cs
                              end) rs
  end.

(* all relations of the sub-tree, pre-order — this is FeatureModel.get_relations *)
Fixpoint subrelations (f : feature) : list relation :=
  match f with
  | Feature _ rs =>
      flat_map (fun r => match r with
                         | Relation _ _ cs => r :: flat_map subrelations cs
                         end) rs
  end.

Definition children (f : feature) : list feature := flat_map r_children (rels f).

Definition names (f : feature) : list string := map name (subfeatures f).

(* well-formedness used by the properties: unique non-empty names, non-empty relations,
   0 <= min <= max <= n *)
Definition rel_card_ok (r : relation) : bool :=
  (0 <=? r_min r)%Z && (r_min r <=? r_max r)%Z && (r_max r <=? Z.of_nat (List.length (r_children r)))%Z
  && negb (Nat.eqb (List.length (r_children r)) 0).

Definition wf_names (f : feature) : bool :=
  nodupb (names f) && forallb (fun n => negb (String.eqb n "")) (names f).

Definition wf (f : feature) : bool :=
  wf_names f && forallb rel_card_ok (subrelations f).
