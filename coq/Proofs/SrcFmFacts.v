(* Proofs/SrcFmFacts.v — the source tie for the tree part of feature_model.py (Relation, Feature, FeatureModel):
   the generated translations (Gen/Src_fm.v, Gen/Src_ops.v) equal the hand-written model
   (Model/Queries.v, Model/Ops.v) on the located listings of Model/Loc.v. *)
From Coq Require Import List Bool Ascii String ZArith Lia Permutation.
From FM Require Import Base.Result Base.Str Base.AstOp Base.PyFloat Model.Ast Model.FM Model.Ctc
     Model.Queries Model.Sem Model.Ops Model.PyRt Model.Loc Gen.Src_fm
     Proofs.FMFacts Proofs.QueriesFacts Proofs.C16Facts.
Import ListNotations.
Local Open Scope list_scope.

(* ------------------------------------------------------------------ generic list helpers *)
Lemma fm_flat_map_single {A B} (g : A -> B) (l : list A) : flat_map (fun x => [g x]) l = map g l.
Proof. induction l as [|x xs IH]; cbn [flat_map map app]; [reflexivity|]. rewrite IH. reflexivity. Qed.

Lemma fm_flat_map_id {A} (l : list A) : flat_map (fun x => [x]) l = l.
Proof. rewrite (fm_flat_map_single (fun x => x)). apply map_id. Qed.

Lemma fm_flat_map_filter {A} (p : A -> bool) (l : list A) :
  flat_map (fun x => if p x then [x] else []) l = filter p l.
Proof.
  induction l as [|x xs IH]; cbn [flat_map filter]; [reflexivity|].
  rewrite IH. destruct (p x); reflexivity.
Qed.

Lemma fm_flat_map_map {A B C} (h : A -> B) (g : B -> list C) (l : list A) :
  flat_map g (map h l) = flat_map (fun x => g (h x)) l.
Proof. induction l as [|x xs IH]; cbn [flat_map map]; [reflexivity|]. rewrite IH. reflexivity. Qed.

Lemma fm_map_flat_map {A B C} (h : B -> C) (g : A -> list B) (l : list A) :
  map h (flat_map g l) = flat_map (fun x => map h (g x)) l.
Proof.
  induction l as [|x xs IH]; cbn [flat_map map]; [reflexivity|].
  rewrite map_app, IH. reflexivity.
Qed.

Lemma fm_flat_map_ext_in {A B} (f g : A -> list B) (l : list A) :
  (forall x, In x l -> f x = g x) -> flat_map f l = flat_map g l.
Proof.
  induction l as [|x xs IH]; intros H; cbn [flat_map]; [reflexivity|].
  rewrite (H x (or_introl eq_refl)), IH; [reflexivity|].
  intros y Hy. apply H. right. exact Hy.
Qed.

Lemma fm_filter_map {A B} (h : A -> B) (p : B -> bool) (l : list A) :
  filter p (map h l) = map h (filter (fun x => p (h x)) l).
Proof.
  induction l as [|x xs IH]; cbn [filter map]; [reflexivity|].
  rewrite IH. destruct (p (h x)); reflexivity.
Qed.

Lemma fm_filter_ext {A} (p q : A -> bool) (l : list A) :
  (forall x, p x = q x) -> filter p l = filter q l.
Proof.
  intros H. induction l as [|x xs IH]; cbn [filter]; [reflexivity|]. rewrite H, IH. reflexivity.
Qed.

Lemma fm_existsb_map {A B} (h : A -> B) (p : B -> bool) (l : list A) :
  existsb p (map h l) = existsb (fun x => p (h x)) l.
Proof. induction l as [|x xs IH]; cbn [existsb map]; [reflexivity|]. rewrite IH. reflexivity. Qed.

Lemma fm_existsb_ext {A} (p q : A -> bool) (l : list A) :
  (forall x, p x = q x) -> existsb p l = existsb q l.
Proof.
  intros H. induction l as [|x xs IH]; cbn [existsb]; [reflexivity|]. rewrite H, IH. reflexivity.
Qed.

Lemma fm_count_map {A} (p : A -> bool) (l : list A) :
  List.length (filter (fun b : bool => b) (map p l)) = List.length (filter p l).
Proof.
  induction l as [|x xs IH]; cbn [filter map]; [reflexivity|].
  destruct (p x); cbn [List.length]; rewrite IH; reflexivity.
Qed.

Lemma fm_head_find {A} (p : A -> bool) (l : list A) :
  match map (fun x => Some x) (filter p l) with x :: _ => x | [] => None end = find p l.
Proof.
  induction l as [|x xs IH]; cbn [filter find map]; [reflexivity|].
  destruct (p x); cbn [map]; [reflexivity|exact IH].
Qed.

Lemma fm_find_map {A B} (h : A -> B) (p : B -> bool) (l : list A) :
  find p (map h l) = option_map h (find (fun x => p (h x)) l).
Proof.
  induction l as [|x xs IH]; cbn [find map]; [reflexivity|].
  destruct (p (h x)); [reflexivity|exact IH].
Qed.

Lemma fm_ltb_1_nat (n : nat) : (1 <? Z.of_nat n)%Z = Nat.ltb 1 n.
Proof.
  destruct (Z.ltb_spec 1 (Z.of_nat n)) as [H|H]; destruct (Nat.ltb_spec 1 n) as [H'|H'];
    try reflexivity; lia.
Qed.

Lemma fm_eqb_0_nat (n : nat) : (Z.of_nat n =? 0)%Z = Nat.eqb n 0.
Proof.
  destruct (Z.eqb_spec (Z.of_nat n) 0) as [H|H]; destruct (Nat.eqb_spec n 0) as [H'|H'];
    try reflexivity; lia.
Qed.

(* ------------------------------------------------------------------ control helpers *)
Lemma foldM_append {A B} (f : list B -> A -> result (list B)) (g : A -> list B) (l : list A) :
  (forall s x, In x l -> f s x = Ok (s ++ g x)) ->
  forall s, foldM f l s = Ok (s ++ flat_map g l).
Proof.
  induction l as [|x xs IH]; intros H s; cbn [foldM flat_map].
  - rewrite app_nil_r. reflexivity.
  - rewrite (H s x (or_introl eq_refl)).
    change (foldM f xs (s ++ g x) = Ok (s ++ g x ++ flat_map g xs)).
    rewrite IH; [rewrite app_assoc; reflexivity|].
    intros s' y Hy. apply H. right. exact Hy.
Qed.

Lemma foldM_count_sum {A} (step : Z * Z -> A -> result (Z * Z)) (p : A -> bool) (w : A -> Z)
      (l : list A) :
  (forall b c x, In x l -> step (b, c) x = Ok (if p x then ((b + 1)%Z, (c + w x)%Z) else (b, c))) ->
  forall b c, foldM step l (b, c)
              = Ok ((b + Z.of_nat (List.length (filter p l)))%Z, (c + zsum (map w (filter p l)))%Z).
Proof.
  induction l as [|x xs IH]; intros H b c; cbn [foldM filter].
  - cbn [List.length map zsum fold_right]. f_equal. f_equal; lia.
  - rewrite (H b c x (or_introl eq_refl)).
    assert (Hxs : forall b c y, In y xs ->
                  step (b, c) y = Ok (if p y then ((b + 1)%Z, (c + w y)%Z) else (b, c))).
    { intros b' c' y Hy. apply H. right. exact Hy. }
    destruct (p x).
    + change (foldM step xs ((b + 1)%Z, (c + w x)%Z)
              = Ok ((b + Z.of_nat (List.length (x :: filter p xs)))%Z,
                    (c + zsum (map w (x :: filter p xs)))%Z)).
      rewrite (IH Hxs). cbn [map]. rewrite zsum_cons. cbn [List.length].
      f_equal. f_equal; lia.
    + change (foldM step xs (b, c)
              = Ok ((b + Z.of_nat (List.length (filter p xs)))%Z,
                    (c + zsum (map w (filter p xs)))%Z)).
      apply (IH Hxs).
Qed.

Lemma py_flat_mapM_ok {A B} (f : A -> result (list B)) (g : A -> list B) (l : list A) :
  (forall x, In x l -> f x = Ok (g x)) -> py_flat_mapM f l = Ok (flat_map g l).
Proof.
  induction l as [|x xs IH]; intros H; cbn [py_flat_mapM flat_map]; [reflexivity|].
  rewrite (H x (or_introl eq_refl)).
  change (match py_flat_mapM f xs with Err e => Err e | Ok ys => Ok (g x ++ ys) end
          = Ok (g x ++ flat_map g xs)).
  rewrite IH; [reflexivity|]. intros y Hy. apply H. right. exact Hy.
Qed.

(* ------------------------------------------------------------------ Relation predicates *)
Lemma py_len_children r o : py_len (lr_children (r, o)) = nchildren r.
Proof. unfold py_len, lr_children, nchildren. cbn [fst snd]. rewrite map_length. reflexivity. Qed.

Lemma src_rel_is_mandatory : forall r o, py_Relation_is_mandatory (r, o) = rel_is_mandatory r.
Proof.
  intros r o. unfold py_Relation_is_mandatory, rel_is_mandatory.
  rewrite py_len_children. cbn [fst]. rewrite andb_assoc. reflexivity.
Qed.

Lemma src_rel_is_optional : forall r o, py_Relation_is_optional (r, o) = rel_is_optional r.
Proof.
  intros r o. unfold py_Relation_is_optional, rel_is_optional.
  rewrite py_len_children. cbn [fst]. rewrite andb_assoc. reflexivity.
Qed.

Lemma src_rel_is_or : forall r o, py_Relation_is_or (r, o) = rel_is_or r.
Proof.
  intros r o. unfold py_Relation_is_or, rel_is_or.
  rewrite py_len_children. cbn [fst]. rewrite andb_assoc. reflexivity.
Qed.

Lemma src_rel_is_alternative : forall r o, py_Relation_is_alternative (r, o) = rel_is_alternative r.
Proof.
  intros r o. unfold py_Relation_is_alternative, rel_is_alternative.
  rewrite py_len_children. cbn [fst]. rewrite andb_assoc. reflexivity.
Qed.

Lemma src_rel_is_mutex : forall r o, py_Relation_is_mutex (r, o) = rel_is_mutex r.
Proof.
  intros r o. unfold py_Relation_is_mutex, rel_is_mutex.
  rewrite py_len_children. cbn [fst]. rewrite andb_assoc. reflexivity.
Qed.

Lemma src_rel_is_cardinal : forall r o, py_Relation_is_cardinal (r, o) = rel_is_cardinal r.
Proof.
  intros r o. unfold py_Relation_is_cardinal, rel_is_cardinal.
  rewrite src_rel_is_mandatory, src_rel_is_optional, src_rel_is_alternative, src_rel_is_or,
    src_rel_is_mutex.
  destruct (rel_is_mandatory r), (rel_is_optional r), (rel_is_alternative r), (rel_is_or r);
    reflexivity.
Qed.

Lemma src_rel_is_group : forall r o, py_Relation_is_group (r, o) = rel_is_group r.
Proof.
  intros r o. unfold py_Relation_is_group, rel_is_group. rewrite py_len_children. reflexivity.
Qed.

(* ------------------------------------------------------------------ Feature predicates *)
Lemma src_feat_eq : forall x y, py_Feature___eq__ x y = String.eqb (name (fst x)) (name (fst y)).
Proof. intros x y. unfold py_Feature___eq__. reflexivity. Qed.

Lemma lf_parent_hd f anc : option_map fst (lf_parent (f, anc)) = hd_error anc.
Proof. destruct anc as [|p a]; reflexivity. Qed.

Lemma src_feat_is_root : forall f anc, py_Feature_is_root (f, anc) = feat_is_root (hd_error anc).
Proof. intros f anc. destruct anc as [|p a]; reflexivity. Qed.

Lemma py_is_nil_length {A} (l : list A) : py_is_nil l = Nat.eqb (List.length l) 0.
Proof. destruct l; reflexivity. Qed.

Lemma lf_relations_length x : List.length (lf_relations x) = List.length (rels (fst x)).
Proof. unfold lf_relations. apply map_length. Qed.

Lemma src_feat_is_empty : forall f anc, py_Feature_is_empty (f, anc) = feat_is_empty (hd_error anc) f.
Proof.
  intros f anc. unfold py_Feature_is_empty, feat_is_empty.
  destruct anc as [|p a]; cbn [lf_parent snd hd_error feat_is_root andb]; [|reflexivity].
  rewrite py_is_nil_length, lf_relations_length. reflexivity.
Qed.

Lemma existsb_lf_relations (p : lrel -> bool) (q : relation -> bool) x :
  (forall r, p (r, x) = q r) -> existsb p (lf_relations x) = existsb q (rels (fst x)).
Proof.
  intros H. unfold lf_relations. rewrite fm_existsb_map. apply fm_existsb_ext. exact H.
Qed.

Lemma in_children_loc f anc r o :
  existsb (fun y => py_Feature___eq__ y (f, anc)) (lr_children (r, o)) = in_children f r.
Proof.
  unfold lr_children, in_children. cbn [fst snd]. rewrite fm_existsb_map.
  apply fm_existsb_ext. intros c. reflexivity.
Qed.

Lemma src_feat_is_mandatory : forall f anc,
  py_Feature_is_mandatory (f, anc) = feat_is_mandatory (hd_error anc) f.
Proof.
  intros f anc. unfold py_Feature_is_mandatory, feat_is_mandatory.
  destruct anc as [|p a]; cbn [lf_parent snd hd_error]; [reflexivity|].
  unfold py_Feature_get_relations.
  apply (existsb_lf_relations _ (fun r => rel_is_mandatory r && in_children f r) (p, a)).
  intros r. rewrite src_rel_is_mandatory, in_children_loc. reflexivity.
Qed.

Lemma src_feat_is_optional : forall f anc,
  py_Feature_is_optional (f, anc) = feat_is_optional (hd_error anc) f.
Proof.
  intros f anc. unfold py_Feature_is_optional, feat_is_optional.
  destruct anc as [|p a]; cbn [lf_parent snd hd_error]; [reflexivity|].
  unfold py_Feature_get_relations.
  apply (existsb_lf_relations _ (fun r => rel_is_optional r && in_children f r) (p, a)).
  intros r. rewrite src_rel_is_optional, in_children_loc. reflexivity.
Qed.

Lemma src_feat_is_or_group : forall x, py_Feature_is_or_group x = feat_is_or_group (fst x).
Proof.
  intros x. unfold py_Feature_is_or_group, feat_is_or_group, py_Feature_get_relations.
  apply existsb_lf_relations. intros r. apply src_rel_is_or.
Qed.

Lemma src_feat_is_alternative_group : forall x,
  py_Feature_is_alternative_group x = feat_is_alternative_group (fst x).
Proof.
  intros x. unfold py_Feature_is_alternative_group, feat_is_alternative_group,
    py_Feature_get_relations.
  apply existsb_lf_relations. intros r. apply src_rel_is_alternative.
Qed.

Lemma src_feat_is_mutex_group : forall x, py_Feature_is_mutex_group x = feat_is_mutex_group (fst x).
Proof.
  intros x. unfold py_Feature_is_mutex_group, feat_is_mutex_group, py_Feature_get_relations.
  apply existsb_lf_relations. intros r. apply src_rel_is_mutex.
Qed.

Lemma src_feat_is_cardinality_group : forall x,
  py_Feature_is_cardinality_group x = feat_is_cardinality_group (fst x).
Proof.
  intros x. unfold py_Feature_is_cardinality_group, feat_is_cardinality_group,
    py_Feature_get_relations.
  apply existsb_lf_relations. intros r. apply src_rel_is_cardinal.
Qed.

Lemma src_feat_is_group : forall x, py_Feature_is_group x = feat_is_group (fst x).
Proof.
  intros x. unfold py_Feature_is_group, feat_is_group, py_Feature_get_relations.
  apply existsb_lf_relations. intros r. apply src_rel_is_group.
Qed.

Lemma src_feat_is_multiple_group_decomposition : forall x,
  py_Feature_is_multiple_group_decomposition x = feat_is_multiple_group_decomposition (fst x).
Proof.
  intros x. unfold py_Feature_is_multiple_group_decomposition,
    feat_is_multiple_group_decomposition, py_Feature_get_relations, py_count.
  rewrite fm_flat_map_single, fm_count_map, fm_ltb_1_nat.
  unfold lf_relations. rewrite fm_filter_map, map_length.
  rewrite (fm_filter_ext _ rel_is_group); [reflexivity|].
  intros r. apply src_rel_is_group.
Qed.

Lemma src_feat_is_leaf : forall x, py_Feature_is_leaf x = feat_is_leaf (fst x).
Proof.
  intros x. unfold py_Feature_is_leaf, feat_is_leaf, py_Feature_get_relations, py_len.
  rewrite lf_relations_length. apply fm_eqb_0_nat.
Qed.

Lemma src_feat_is_boolean : forall x, py_Feature_is_boolean x = feat_is_boolean (fst x).
Proof. intros x. reflexivity. Qed.

Lemma src_feat_is_numerical : forall x, py_Feature_is_numerical x = feat_is_numerical (fst x).
Proof.
  intros x. unfold py_Feature_is_numerical, feat_is_numerical.
  destruct (f_type (info (fst x))); reflexivity.
Qed.

Lemma src_feat_is_string : forall x, py_Feature_is_string x = feat_is_string (fst x).
Proof. intros x. reflexivity. Qed.

Lemma src_feat_is_multifeature : forall x, py_Feature_is_multifeature x = feat_is_multifeature (fst x).
Proof. intros x. reflexivity. Qed.

Lemma map_fst_lr_children x : map fst (lr_children x) = r_children (fst x).
Proof.
  unfold lr_children. rewrite map_map. cbn [fst]. apply map_id.
Qed.

Lemma src_feat_get_children : forall x, map fst (py_Feature_get_children x) = children (fst x).
Proof.
  intros x. unfold py_Feature_get_children, py_Feature_get_relations, children, lf_relations.
  rewrite fm_map_flat_map, fm_flat_map_map.
  apply flat_map_ext. intros r. rewrite fm_flat_map_id. apply map_fst_lr_children.
Qed.

Lemma src_feat_get_parent : forall f anc,
  option_map fst (py_Feature_get_parent (f, anc)) = hd_error anc.
Proof. intros f anc. unfold py_Feature_get_parent. apply lf_parent_hd. Qed.

(* ------------------------------------------------------------------ located listings, erased *)
Lemma loc_subrelations_erase : forall f anc, map fst (loc_subrelations f anc) = subrelations f.
Proof.
  apply (feature_ind2
           (fun f => forall anc, map fst (loc_subrelations f anc) = subrelations f)
           (fun r => forall anc, map fst (flat_map (fun c => loc_subrelations c anc) (r_children r))
                                 = flat_map subrelations (r_children r))).
  - intros i rs IH anc. cbn [loc_subrelations subrelations].
    generalize (Feature i rs). intros owner.
    induction IH as [|r rs' Hr _ IHrs]; cbn [flat_map map]; [reflexivity|].
    rewrite map_app. f_equal; [|exact IHrs].
    destruct r as [a b cs]. cbn [map fst r_children] in *. f_equal. apply Hr.
  - intros a b cs IH anc. cbn [r_children].
    induction IH as [|c cs' Hc _ IHcs]; cbn [flat_map map]; [reflexivity|].
    rewrite map_app. f_equal; [apply Hc|exact IHcs].
Qed.

Lemma loc_relations_erase : forall m, map fst (loc_relations m) = get_relations m.
Proof. intros m. apply loc_subrelations_erase. Qed.

Lemma loc_subrelations_ctx : forall f anc,
  map (fun x : lrel => (fst (snd x), fst x)) (loc_subrelations f anc) = subrelations_ctx f.
Proof.
  apply (feature_ind2
           (fun f => forall anc, map (fun x : lrel => (fst (snd x), fst x)) (loc_subrelations f anc)
                                 = subrelations_ctx f)
           (fun r => forall anc, map (fun x : lrel => (fst (snd x), fst x))
                                     (flat_map (fun c => loc_subrelations c anc) (r_children r))
                                 = flat_map subrelations_ctx (r_children r))).
  - intros i rs IH anc. cbn [loc_subrelations subrelations_ctx].
    generalize (Feature i rs). intros owner.
    induction IH as [|r rs' Hr _ IHrs]; cbn [flat_map map]; [reflexivity|].
    rewrite map_app. f_equal; [|exact IHrs].
    destruct r as [a b cs]. cbn [map fst snd r_children] in *. f_equal. apply Hr.
  - intros a b cs IH anc. cbn [r_children].
    induction IH as [|c cs' Hc _ IHcs]; cbn [flat_map map]; [reflexivity|].
    rewrite map_app. f_equal; [apply Hc|exact IHcs].
Qed.

Lemma loc_features_erase : forall m, map fst (loc_features m) = get_features m.
Proof.
  intros m. unfold loc_features, get_features. cbn [map fm_root_l fst]. f_equal.
  rewrite fm_map_flat_map. rewrite <- loc_relations_erase. rewrite fm_flat_map_map.
  apply flat_map_ext. intros x. apply map_fst_lr_children.
Qed.

Lemma loc_features_ctx : forall m,
  map (fun x => (hd_error (snd x), fst x)) (loc_features m) = get_features_ctx m.
Proof.
  intros m. unfold loc_features, get_features_ctx. cbn [map fm_root_l fst snd hd_error]. f_equal.
  rewrite fm_map_flat_map. unfold loc_relations.
  rewrite <- (loc_subrelations_ctx (root m) []). rewrite fm_flat_map_map.
  apply flat_map_ext. intros x. unfold lr_children. rewrite map_map. cbn [fst snd hd_error].
  reflexivity.
Qed.

(* the located listing is a permutation of the pre-order table *)
Lemma loc_sub_perm : forall f anc,
  Permutation ((f, anc) :: flat_map lr_children (loc_subrelations f anc)) (with_ancestors f anc).
Proof.
  apply (feature_ind2
           (fun f => forall anc,
                Permutation ((f, anc) :: flat_map lr_children (loc_subrelations f anc))
                            (with_ancestors f anc))
           (fun r => forall anc,
                Permutation (map (fun c => (c, anc)) (r_children r)
                               ++ flat_map lr_children
                                    (flat_map (fun c => loc_subrelations c anc) (r_children r)))
                            (flat_map (fun c => with_ancestors c anc) (r_children r)))).
  - intros i rs IH anc. cbn [loc_subrelations with_ancestors]. constructor.
    generalize (Feature i rs). intros owner.
    induction IH as [|r rs' Hr _ IHrs]; cbn [flat_map]; [constructor|].
    destruct r as [a b cs]. cbn [r_children] in Hr.
    rewrite flat_map_app'. cbn [flat_map app].
    apply Permutation_app; [|exact IHrs].
    unfold lr_children at 1. cbn [fst snd r_children].
    apply Hr.
  - intros a b cs IH anc. cbn [r_children].
    induction IH as [|c cs' Hc _ IHcs]; cbn [flat_map map app]; [constructor|].
    rewrite !flat_map_app'.
    transitivity (((c, anc) :: flat_map lr_children (loc_subrelations c anc))
                    ++ (map (fun c0 => (c0, anc)) cs'
                          ++ flat_map lr_children
                               (flat_map (fun c0 => loc_subrelations c0 anc) cs'))).
    + cbn [app]. constructor.
      rewrite !app_assoc. apply Permutation_app_tail. apply Permutation_app_comm.
    + apply Permutation_app; [apply Hc|exact IHcs].
Qed.

Lemma loc_features_perm : forall m, Permutation (loc_features m) (ancestors_table m).
Proof. intros m. apply (loc_sub_perm (root m) []). Qed.

(* ------------------------------------------------------------------ get_relations *)
Lemma le_list_sum (x : nat) (l : list nat) : In x l -> (x <= list_sum l)%nat.
Proof.
  induction l as [|y ys IH]; intros H; [contradiction|].
  rewrite list_sum_cons. destruct H as [<- | H]; [lia|]. apply IH in H. lia.
Qed.

Lemma fsize_child i rs r c :
  In r rs -> In c (r_children r) -> (fsize c < fsize (Feature i rs))%nat.
Proof.
  intros Hr Hc. cbn [fsize].
  assert (H1 : (fsize c <= list_sum (map fsize (r_children r)))%nat).
  { apply le_list_sum. apply in_map. exact Hc. }
  assert (H2 : (list_sum (map fsize (r_children r))
                <= list_sum (map (fun r => match r with
                                           | Relation _ _ cs => list_sum (map fsize cs)
                                           end) rs))%nat).
  { apply le_list_sum. apply in_map_iff. exists r. split; [|exact Hr].
    destruct r as [a b cs]. reflexivity. }
  lia.
Qed.

(* a located relation followed by the relations below its children *)
Definition lr_sub (x : lrel) : list lrel :=
  x :: flat_map (fun c : lfeat => loc_subrelations (fst c) (snd c)) (lr_children x).

Lemma loc_subrelations_unfold f anc :
  loc_subrelations f anc = flat_map lr_sub (lf_relations (f, anc)).
Proof.
  destruct f as [i rs]. cbn [loc_subrelations]. unfold lf_relations. cbn [fst rels].
  rewrite fm_flat_map_map. apply flat_map_ext. intros r. destruct r as [a b cs].
  unfold lr_sub, lr_children. cbn [fst snd r_children]. rewrite fm_flat_map_map. reflexivity.
Qed.

Lemma root_is_empty m : py_Feature_is_empty (fm_root_l m) = Nat.eqb (List.length (rels (root m))) 0.
Proof. unfold fm_root_l. rewrite src_feat_is_empty. reflexivity. Qed.

Lemma src_get_relations_some m :
  py_Feature_is_empty (fm_root_l m) = false ->
  forall f anc fuel, (fsize f <= fuel)%nat ->
    py_FeatureModel_get_relations fuel m (Some (f, anc)) = Ok (loc_subrelations f anc).
Proof.
  intros Hne f.
  apply (feature_ind_in
           (fun f => forall anc fuel, (fsize f <= fuel)%nat ->
              py_FeatureModel_get_relations fuel m (Some (f, anc)) = Ok (loc_subrelations f anc))).
  clear f. intros i rs IH anc fuel Hfuel.
  destruct fuel as [|k]; [cbn [fsize] in Hfuel; lia|].
  cbn [py_FeatureModel_get_relations]. rewrite Hne.
  rewrite loc_subrelations_unfold.
  rewrite (foldM_append _ lr_sub).
  { cbn [bind app]. reflexivity. }
  intros s x Hx.
  unfold lf_relations in Hx. cbn [fst rels] in Hx.
  apply in_map_iff in Hx. destruct Hx as (r & <- & Hr).
  rewrite (foldM_append _ (fun c : lfeat => loc_subrelations (fst c) (snd c))).
  { cbn [bind]. unfold lr_sub. rewrite <- app_assoc. reflexivity. }
  intros s' c Hc.
  unfold lr_children in Hc. cbn [fst snd] in Hc.
  apply in_map_iff in Hc. destruct Hc as (c0 & <- & Hc0).
  rewrite (IH r c0 Hr Hc0).
  { cbn [bind fst snd]. reflexivity. }
  pose proof (fsize_child i rs r c0 Hr Hc0) as Hlt. lia.
Qed.

Lemma src_get_relations_none_some m fuel :
  py_FeatureModel_get_relations fuel m None
  = py_FeatureModel_get_relations fuel m (Some (fm_root_l m)).
Proof.
  destruct fuel as [|k]; [reflexivity|].
  cbn [py_FeatureModel_get_relations].
  destruct (py_Feature_is_empty (fm_root_l m)); reflexivity.
Qed.

Lemma src_get_relations : forall m fuel, (fuel_tree (root m) <= fuel)%nat ->
  py_FeatureModel_get_relations fuel m None = Ok (loc_relations m).
Proof.
  intros m fuel Hfuel. unfold fuel_tree in Hfuel.
  destruct (py_Feature_is_empty (fm_root_l m)) eqn:Hemp.
  - destruct fuel as [|k]; [lia|].
    cbn [py_FeatureModel_get_relations]. rewrite Hemp.
    rewrite root_is_empty in Hemp. unfold loc_relations.
    destruct (root m) as [i rs]. cbn [rels] in Hemp.
    destruct rs as [|r rs]; [reflexivity|discriminate Hemp].
  - rewrite src_get_relations_none_some. unfold fm_root_l, loc_relations.
    apply src_get_relations_some; [exact Hemp|lia].
Qed.

(* ------------------------------------------------------------------ get_features and filters *)
Lemma src_get_features : forall m fuel, (fuel_tree (root m) <= fuel)%nat ->
  py_FeatureModel_get_features fuel m = Ok (loc_features m).
Proof.
  intros m fuel Hfuel. unfold py_FeatureModel_get_features.
  rewrite (src_get_relations m fuel Hfuel). cbn [bind].
  rewrite (foldM_append _ lr_children).
  - cbn [bind app]. reflexivity.
  - intros s x _. reflexivity.
Qed.

Lemma map_fst_filter_loc (p : feature -> bool) (l : list lfeat) :
  map fst (filter (fun x => p (fst x)) l) = filter p (map fst l).
Proof. rewrite fm_filter_map. reflexivity. Qed.

Lemma src_filter_plain m fuel (q : lfeat -> bool) (p : feature -> bool) :
  (fuel_tree (root m) <= fuel)%nat -> (forall x, q x = p (fst x)) ->
  exists l, bind (py_FeatureModel_get_features fuel m)
                 (fun v => Ok (flat_map (fun f => if q f then [f] else []) v)) = Ok l
            /\ map fst l = filter p (get_features m).
Proof.
  intros Hfuel Hq. rewrite (src_get_features m fuel Hfuel). cbn [bind].
  eexists. split; [reflexivity|].
  rewrite fm_flat_map_filter, (fm_filter_ext q (fun x => p (fst x)) _ Hq).
  rewrite map_fst_filter_loc, loc_features_erase. reflexivity.
Qed.

Lemma src_filter_ctx m fuel (q : lfeat -> bool) (p : option feature -> feature -> bool) :
  (fuel_tree (root m) <= fuel)%nat -> (forall x, q x = p (hd_error (snd x)) (fst x)) ->
  exists l, bind (py_FeatureModel_get_features fuel m)
                 (fun v => Ok (flat_map (fun f => if q f then [f] else []) v)) = Ok l
            /\ map fst l = filter_ctx p m.
Proof.
  intros Hfuel Hq. rewrite (src_get_features m fuel Hfuel). cbn [bind].
  eexists. split; [reflexivity|].
  rewrite fm_flat_map_filter, (fm_filter_ext q _ _ Hq).
  unfold filter_ctx. rewrite <- loc_features_ctx. rewrite fm_filter_map, map_map.
  cbn [fst snd]. reflexivity.
Qed.

Lemma src_get_boolean_features : forall m fuel, (fuel_tree (root m) <= fuel)%nat ->
  exists l, py_FeatureModel_get_boolean_features fuel m = Ok l /\ map fst l = get_boolean_features m.
Proof.
  intros m fuel Hfuel.
  apply (src_filter_plain m fuel _ feat_is_boolean Hfuel). exact src_feat_is_boolean.
Qed.

Lemma src_get_numerical_features : forall m fuel, (fuel_tree (root m) <= fuel)%nat ->
  exists l, py_FeatureModel_get_numerical_features fuel m = Ok l
            /\ map fst l = get_numerical_features m.
Proof.
  intros m fuel Hfuel.
  apply (src_filter_plain m fuel _ feat_is_numerical Hfuel). exact src_feat_is_numerical.
Qed.

Lemma src_get_string_features : forall m fuel, (fuel_tree (root m) <= fuel)%nat ->
  exists l, py_FeatureModel_get_string_features fuel m = Ok l /\ map fst l = get_string_features m.
Proof.
  intros m fuel Hfuel.
  apply (src_filter_plain m fuel _ feat_is_string Hfuel). exact src_feat_is_string.
Qed.

Lemma src_get_mandatory_features : forall m fuel, (fuel_tree (root m) <= fuel)%nat ->
  exists l, py_FeatureModel_get_mandatory_features fuel m = Ok l
            /\ map fst l = get_mandatory_features m.
Proof.
  intros m fuel Hfuel.
  apply (src_filter_ctx m fuel _ feat_is_mandatory Hfuel).
  intros [f anc]. apply src_feat_is_mandatory.
Qed.

Lemma src_get_optional_features : forall m fuel, (fuel_tree (root m) <= fuel)%nat ->
  exists l, py_FeatureModel_get_optional_features fuel m = Ok l
            /\ map fst l = get_optional_features m.
Proof.
  intros m fuel Hfuel.
  apply (src_filter_ctx m fuel _ feat_is_optional Hfuel).
  intros [f anc]. apply src_feat_is_optional.
Qed.

Lemma src_get_alternative_group_features : forall m fuel, (fuel_tree (root m) <= fuel)%nat ->
  exists l, py_FeatureModel_get_alternative_group_features fuel m = Ok l
            /\ map fst l = get_alternative_group_features m.
Proof.
  intros m fuel Hfuel.
  apply (src_filter_plain m fuel _ feat_is_alternative_group Hfuel).
  exact src_feat_is_alternative_group.
Qed.

Lemma src_get_or_group_features : forall m fuel, (fuel_tree (root m) <= fuel)%nat ->
  exists l, py_FeatureModel_get_or_group_features fuel m = Ok l
            /\ map fst l = get_or_group_features m.
Proof.
  intros m fuel Hfuel.
  apply (src_filter_plain m fuel _ feat_is_or_group Hfuel). exact src_feat_is_or_group.
Qed.

Lemma src_get_feature_by_name : forall m fuel n, (fuel_tree (root m) <= fuel)%nat ->
  exists r, py_FeatureModel_get_feature_by_name fuel m n = Ok r
            /\ option_map fst r = get_feature_by_name m n.
Proof.
  intros m fuel n Hfuel. unfold py_FeatureModel_get_feature_by_name.
  rewrite (src_get_features m fuel Hfuel). cbn [bind].
  eexists. split; [reflexivity|].
  rewrite fm_flat_map_filter, fm_head_find.
  unfold get_feature_by_name. rewrite <- loc_features_erase, fm_find_map. reflexivity.
Qed.

Print Assumptions src_get_features.
Print Assumptions src_feat_is_mandatory.
Print Assumptions src_get_feature_by_name.
