(* Proofs/C20Facts.v — equality and hashing obey the contract (Model/EqHash.v):
   the orders are strict total orders, sorting is canonical, __eq__ is reflexive and symmetric,
   equal objects have equal hash keys, and model equality is equality of canonical multisets. *)
From Coq Require Import List Bool Ascii String ZArith NArith Lia Permutation Sorted.
From FM Require Import Base.Result Base.Str Base.AstOp Model.Ast Model.FM Model.Ctc Model.Queries
  Model.EqHash Proofs.FMFacts.
Import ListNotations.
Local Open Scope list_scope.

(* ------------------------------------------------------------------------------------------ *)
(* strict total orders given by a boolean "less than"                                          *)
(* ------------------------------------------------------------------------------------------ *)
Section Order.
  Context {K : Type} (ltb : K -> K -> bool).
  Definition irreflexive := forall a, ltb a a = false.
  Definition transitive := forall a b c, ltb a b = true -> ltb b c = true -> ltb a c = true.
  Definition total := forall a b, ltb a b = false -> ltb b a = false -> a = b.
  Definition strict_total := irreflexive /\ transitive /\ total.

  Hypothesis ST : strict_total.

  Lemma st_asym a b : ltb a b = true -> ltb b a = false.
  Proof.
    destruct ST as (I & T & _). intros H.
    destruct (ltb b a) eqn:E; auto.
    pose proof (T _ _ _ H E) as X. rewrite I in X. discriminate.
  Qed.

  (* one step of a lexicographic comparison: [if a < b then true else if b < a then false else rest] *)
  Lemma lexstep_irrefl a (p : bool) :
    p = false -> (if ltb a a then true else if ltb a a then false else p) = false.
  Proof. destruct ST as (I & _). intros Hp. rewrite I. exact Hp. Qed.

  Lemma lexstep_trans a b c (p q r : bool) :
    (p = true -> q = true -> r = true) ->
    (if ltb a b then true else if ltb b a then false else p) = true ->
    (if ltb b c then true else if ltb c b then false else q) = true ->
    (if ltb a c then true else if ltb c a then false else r) = true.
  Proof.
    destruct ST as (I & T & Tot). intros Hpqr.
    destruct (ltb a b) eqn:Eab.
    - intros _. destruct (ltb b c) eqn:Ebc.
      + intros _. rewrite (T _ _ _ Eab Ebc). reflexivity.
      + destruct (ltb c b) eqn:Ecb; [discriminate|]. intros _.
        assert (b = c) as Hbc by (apply Tot; auto). subst c. rewrite Eab. reflexivity.
    - destruct (ltb b a) eqn:Eba; [discriminate|]. intros Hp.
      assert (a = b) as Hab by (apply Tot; auto). subst b.
      destruct (ltb a c) eqn:Eac; [auto|].
      destruct (ltb c a) eqn:Eca; [discriminate|]. intros Hq. auto.
  Qed.

  Lemma lexstep_total a b (p q : bool) (X : Prop) :
    (if ltb a b then true else if ltb b a then false else p) = false ->
    (if ltb b a then true else if ltb a b then false else q) = false ->
    (p = false -> q = false -> X) ->
    a = b /\ X.
  Proof.
    destruct ST as (I & T & Tot).
    destruct (ltb a b) eqn:Eab; [discriminate|].
    destruct (ltb b a) eqn:Eba; [intros _; discriminate|].
    intros Hp Hq HX. split; auto.
  Qed.
End Order.

(* bytes *)
Definition asc_ltb (x y : ascii) : bool := N.ltb (ascii_n x) (ascii_n y).

Lemma asc_st : strict_total asc_ltb.
Proof.
  unfold asc_ltb, ascii_n. repeat split.
  - intros a. apply N.ltb_irrefl.
  - intros a b c H1 H2. apply N.ltb_lt in H1. apply N.ltb_lt in H2. apply N.ltb_lt. lia.
  - intros a b H1 H2. apply N.ltb_ge in H1. apply N.ltb_ge in H2.
    assert (N_of_ascii a = N_of_ascii b) as E by lia.
    rewrite <- (ascii_N_embedding a), <- (ascii_N_embedding b), E. reflexivity.
Qed.

Lemma Zltb_st : strict_total Z.ltb.
Proof.
  repeat split.
  - intros a. apply Z.ltb_irrefl.
  - intros a b c H1 H2. apply Z.ltb_lt in H1. apply Z.ltb_lt in H2. apply Z.ltb_lt. lia.
  - intros a b H1 H2. apply Z.ltb_ge in H1. apply Z.ltb_ge in H2. lia.
Qed.

(* ---- str_ltb ---- *)
Lemma str_ltb_irrefl : forall a, str_ltb a a = false.
Proof.
  induction a as [|x a IH]; [reflexivity|].
  cbn [str_ltb]. apply (lexstep_irrefl asc_ltb asc_st x). exact IH.
Qed.

Lemma str_ltb_trans : forall a b c, str_ltb a b = true -> str_ltb b c = true -> str_ltb a c = true.
Proof.
  induction a as [|x a IH]; intros [|y b] [|z c]; cbn [str_ltb]; try discriminate; auto.
  apply (lexstep_trans asc_ltb asc_st x y z). apply IH.
Qed.

Lemma str_ltb_total : forall a b, str_ltb a b = false -> str_ltb b a = false -> a = b.
Proof.
  induction a as [|x a IH]; intros [|y b]; cbn [str_ltb]; try discriminate; auto.
  intros H1 H2.
  destruct (lexstep_total asc_ltb asc_st x y _ _ (a = b) H1 H2 (IH b)) as [Hxy Hab].
  subst. reflexivity.
Qed.

Lemma str_st : strict_total str_ltb.
Proof. exact (conj str_ltb_irrefl (conj str_ltb_trans str_ltb_total)). Qed.

(* ---- strs_ltb ---- *)
Lemma strs_ltb_irrefl : forall a, strs_ltb a a = false.
Proof.
  induction a as [|x a IH]; [reflexivity|].
  cbn [strs_ltb]. apply (lexstep_irrefl str_ltb str_st x). exact IH.
Qed.

Lemma strs_ltb_trans : forall a b c, strs_ltb a b = true -> strs_ltb b c = true -> strs_ltb a c = true.
Proof.
  induction a as [|x a IH]; intros [|y b] [|z c]; cbn [strs_ltb]; try discriminate; auto.
  apply (lexstep_trans str_ltb str_st x y z). apply IH.
Qed.

Lemma strs_ltb_total : forall a b, strs_ltb a b = false -> strs_ltb b a = false -> a = b.
Proof.
  induction a as [|x a IH]; intros [|y b]; cbn [strs_ltb]; try discriminate; auto.
  intros H1 H2.
  destruct (lexstep_total str_ltb str_st x y _ _ (a = b) H1 H2 (IH b)) as [Hxy Hab].
  subst. reflexivity.
Qed.

Lemma strs_st : strict_total strs_ltb.
Proof. exact (conj strs_ltb_irrefl (conj strs_ltb_trans strs_ltb_total)). Qed.

(* ---- rkey_ltb ---- *)
Lemma rkey_ltb_irrefl : forall a, rkey_ltb a a = false.
Proof.
  intros [[[p c] mn] mx]. unfold rkey_ltb.
  apply (lexstep_irrefl str_ltb str_st p).
  apply (lexstep_irrefl strs_ltb strs_st c).
  apply (lexstep_irrefl Z.ltb Zltb_st mn).
  apply Z.ltb_irrefl.
Qed.

Lemma rkey_ltb_trans : forall a b c, rkey_ltb a b = true -> rkey_ltb b c = true -> rkey_ltb a c = true.
Proof.
  intros [[[p1 c1] mn1] mx1] [[[p2 c2] mn2] mx2] [[[p3 c3] mn3] mx3]. unfold rkey_ltb.
  apply (lexstep_trans str_ltb str_st p1 p2 p3).
  apply (lexstep_trans strs_ltb strs_st c1 c2 c3).
  apply (lexstep_trans Z.ltb Zltb_st mn1 mn2 mn3).
  destruct Zltb_st as (_ & T & _). apply T.
Qed.

Lemma rkey_ltb_total : forall a b, rkey_ltb a b = false -> rkey_ltb b a = false -> a = b.
Proof.
  intros [[[p1 c1] mn1] mx1] [[[p2 c2] mn2] mx2]. unfold rkey_ltb. intros H1 H2.
  assert (p1 = p2 /\ c1 = c2 /\ mn1 = mn2 /\ mx1 = mx2) as (Hp & Hc & Hmn & Hmx).
  { apply (lexstep_total str_ltb str_st p1 p2 _ _ _ H1 H2). clear H1 H2. intros H1 H2.
    apply (lexstep_total strs_ltb strs_st c1 c2 _ _ _ H1 H2). clear H1 H2. intros H1 H2.
    apply (lexstep_total Z.ltb Zltb_st mn1 mn2 _ _ _ H1 H2). clear H1 H2. intros H1 H2.
    destruct Zltb_st as (_ & _ & Tot). apply Tot; assumption. }
  subst. reflexivity.
Qed.

Lemma rkey_st : strict_total rkey_ltb.
Proof. exact (conj rkey_ltb_irrefl (conj rkey_ltb_trans rkey_ltb_total)). Qed.

(* ------------------------------------------------------------------------------------------ *)
(* sorting                                                                                      *)
(* ------------------------------------------------------------------------------------------ *)
Lemma insert_perm : forall A K (key : A -> K) ltb x l, Permutation (insert key ltb x l) (x :: l).
Proof.
  intros A K key ltb x l. induction l as [|y ys IH]; cbn [insert]; auto.
  destruct (ltb (key x) (key y)); auto.
  eapply perm_trans; [apply perm_skip, IH | apply perm_swap].
Qed.

(* [sort_by] inserts from left to right: the last element is inserted last *)
Lemma sort_by_snoc : forall A K (key : A -> K) ltb l x,
  sort_by key ltb (l ++ [x]) = insert key ltb x (sort_by key ltb l).
Proof. intros A K key ltb l x. unfold sort_by. rewrite fold_left_app. reflexivity. Qed.

Lemma sort_by_nil : forall A K (key : A -> K) ltb, sort_by key ltb [] = [].
Proof. reflexivity. Qed.

Lemma sort_by_fold_right : forall A K (key : A -> K) ltb l,
  sort_by key ltb l = fold_right (insert key ltb) [] (rev l).
Proof. intros A K key ltb l. unfold sort_by. rewrite <- fold_left_rev_right. reflexivity. Qed.

Lemma sort_by_perm : forall A K (key : A -> K) ltb l, Permutation (sort_by key ltb l) l.
Proof.
  intros A K key ltb l. induction l as [|x xs IH] using rev_ind; [apply perm_nil|].
  rewrite sort_by_snoc.
  eapply perm_trans; [apply insert_perm |].
  eapply perm_trans; [apply perm_skip, IH | apply Permutation_cons_append].
Qed.

(* sorting by a key is sorting the keys *)
Definition idk {K : Type} (k : K) : K := k.

Lemma map_key_insert : forall A K (key : A -> K) ltb x l,
  map key (insert key ltb x l) = insert idk ltb (key x) (map key l).
Proof.
  intros A K key ltb x l. induction l as [|y ys IH]; cbn [insert map]; auto.
  unfold idk at 1 2. destruct (ltb (key x) (key y)); cbn [map]; [reflexivity|].
  rewrite IH. reflexivity.
Qed.

Lemma map_key_sort : forall A K (key : A -> K) ltb l,
  map key (sort_by key ltb l) = sort_by idk ltb (map key l).
Proof.
  intros A K key ltb l. induction l as [|x xs IH] using rev_ind; [reflexivity|].
  rewrite map_app. cbn [map]. rewrite !sort_by_snoc, map_key_insert, IH. reflexivity.
Qed.

Section SortK.
  Context {K : Type} (ltb : K -> K -> bool).
  Hypothesis ST : strict_total ltb.

  Lemma insertK_comm x y l :
    insert idk ltb x (insert idk ltb y l) = insert idk ltb y (insert idk ltb x l).
  Proof.
    destruct ST as (I & T & Tot). unfold idk.
    induction l as [|z zs IH]; cbn [insert].
    - destruct (ltb x y) eqn:Exy.
      + rewrite (st_asym ltb ST _ _ Exy). reflexivity.
      + destruct (ltb y x) eqn:Eyx; [reflexivity|].
        rewrite (Tot _ _ Exy Eyx). reflexivity.
    - destruct (ltb y z) eqn:Eyz; destruct (ltb x z) eqn:Exz; cbn [insert].
      + rewrite Exz, Eyz.
        destruct (ltb x y) eqn:Exy.
        * rewrite (st_asym ltb ST _ _ Exy). reflexivity.
        * destruct (ltb y x) eqn:Eyx; [reflexivity|].
          rewrite (Tot _ _ Exy Eyx). reflexivity.
      + rewrite Exz, Eyz.
        destruct (ltb x y) eqn:Exy; [|reflexivity].
        rewrite (T _ _ _ Exy Eyz) in Exz. discriminate.
      + rewrite Exz, Eyz.
        destruct (ltb y x) eqn:Eyx; [|reflexivity].
        rewrite (T _ _ _ Eyx Exz) in Eyz. discriminate.
      + rewrite Exz, Eyz. rewrite IH. reflexivity.
  Qed.

  Lemma sortK_perm l1 l2 : Permutation l1 l2 -> sort_by idk ltb l1 = sort_by idk ltb l2.
  Proof.
    intros HP. rewrite !sort_by_fold_right.
    assert (HR : Permutation (rev l1) (rev l2)).
    { eapply perm_trans; [apply Permutation_sym, Permutation_rev|].
      eapply perm_trans; [exact HP|apply Permutation_rev]. }
    clear HP. induction HR as [|x l l' _ IH|x y l|l l' l'' _ IH1 _ IH2]; cbn [fold_right].
    - reflexivity.
    - rewrite IH. reflexivity.
    - apply insertK_comm.
    - rewrite IH1. exact IH2.
  Qed.
End SortK.

Lemma sort_by_keys_canonical : forall A K (key : A -> K) (ltb : K -> K -> bool),
  (forall a, ltb a a = false) ->
  (forall a b c, ltb a b = true -> ltb b c = true -> ltb a c = true) ->
  (forall a b, ltb a b = false -> ltb b a = false -> a = b) ->
  forall l1 l2, Permutation (map key l1) (map key l2) ->
  map key (sort_by key ltb l1) = map key (sort_by key ltb l2).
Proof.
  intros A K key ltb I T Tot l1 l2 HP.
  rewrite !map_key_sort. apply sortK_perm; [exact (conj I (conj T Tot)) | exact HP].
Qed.

(* the converse: equal sorted key sequences come from equal key multisets *)
Lemma sort_by_keys_iff : forall A K (key : A -> K) (ltb : K -> K -> bool),
  strict_total ltb ->
  forall l1 l2, map key (sort_by key ltb l1) = map key (sort_by key ltb l2)
                <-> Permutation (map key l1) (map key l2).
Proof.
  intros A K key ltb (I & T & Tot) l1 l2. split.
  - intros E.
    eapply perm_trans; [apply Permutation_sym, Permutation_map, (sort_by_perm A K key ltb l1)|].
    rewrite E. apply Permutation_map, sort_by_perm.
  - apply sort_by_keys_canonical; assumption.
Qed.

(* the result is sorted: no element is smaller than its predecessor *)
Lemma sort_by_sorted : forall A K (key : A -> K) (ltb : K -> K -> bool),
  (forall a, ltb a a = false) ->
  (forall a b c, ltb a b = true -> ltb b c = true -> ltb a c = true) ->
  forall l, Sorted (fun x y => ltb (key y) (key x) = false) (sort_by key ltb l).
Proof.
  intros A K key ltb I T l.
  induction l as [|x xs IH] using rev_ind; [constructor|]. rewrite sort_by_snoc.
  generalize dependent (sort_by key ltb xs). clear xs.
  intros l HS. induction HS as [|y ys HSys IHys Hd]; cbn [insert].
  - constructor; constructor.
  - destruct (ltb (key x) (key y)) eqn:Exy.
    + constructor; [constructor; assumption|]. constructor.
      destruct (ltb (key y) (key x)) eqn:Eyx; [|reflexivity].
      pose proof (T _ _ _ Exy Eyx) as X. rewrite I in X. discriminate.
    + constructor; [exact IHys|].
      destruct Hd as [|z zs Hyz]; cbn [insert].
      * constructor. exact Exy.
      * destruct (ltb (key x) (key z)); constructor; assumption.
Qed.

(* ------------------------------------------------------------------------------------------ *)
(* elementwise comparison of lists                                                              *)
(* ------------------------------------------------------------------------------------------ *)
Lemma list_eqb_keys : forall A K (key : A -> K) (eqb : A -> A -> bool),
  (forall x y, eqb x y = true <-> key x = key y) ->
  forall l1 l2, list_eqb eqb l1 l2 = true <-> map key l1 = map key l2.
Proof.
  intros A K key eqb Heq. induction l1 as [|x xs IH]; intros [|y ys]; cbn [list_eqb map].
  - tauto.
  - split; discriminate.
  - split; discriminate.
  - rewrite andb_true_iff, Heq, IH. split.
    + intros [H1 H2]. rewrite H1, H2. reflexivity.
    + intros H. injection H as H1 H2. auto.
Qed.

Lemma list_eqb_refl : forall A (eqb : A -> A -> bool),
  (forall x, eqb x x = true) -> forall l, list_eqb eqb l l = true.
Proof.
  intros A eqb Hr. induction l as [|x xs IH]; cbn [list_eqb]; auto.
  rewrite Hr, IH. reflexivity.
Qed.

Lemma list_eqb_sym : forall A (eqb : A -> A -> bool),
  (forall x y, eqb x y = eqb y x) -> forall l1 l2, list_eqb eqb l1 l2 = list_eqb eqb l2 l1.
Proof.
  intros A eqb Hs. induction l1 as [|x xs IH]; intros [|y ys]; cbn [list_eqb]; auto.
  rewrite Hs, IH. reflexivity.
Qed.

Lemma list_eqb_streq : forall l1 l2, list_eqb String.eqb l1 l2 = true <-> l1 = l2.
Proof.
  intros l1 l2.
  rewrite (list_eqb_keys string string idk String.eqb (fun x y => String.eqb_eq x y)).
  unfold idk. rewrite !map_id. tauto.
Qed.

(* ------------------------------------------------------------------------------------------ *)
(* each __eq__ compares a key                                                                   *)
(* ------------------------------------------------------------------------------------------ *)
Lemma feature_eqb_iff : forall a b, feature_eqb a b = true <-> name a = name b.
Proof. intros a b. unfold feature_eqb. apply String.eqb_eq. Qed.

Lemma relation_eqb_iff : forall x y,
  relation_eqb x y = true <-> relation_sort_key x = relation_sort_key y.
Proof.
  intros x y. unfold relation_eqb, relation_sort_key.
  rewrite !andb_true_iff, String.eqb_eq, list_eqb_streq, !Z.eqb_eq. split.
  - intros [[[H1 H2] H3] H4]. rewrite H1, H2, H3, H4. reflexivity.
  - intros H. injection H as H1 H2 H3 H4. auto.
Qed.

Lemma ctc_eqb_iff : forall lower a b, ctc_eqb lower a b = true <-> ctc_key lower a = ctc_key lower b.
Proof. intros lower a b. unfold ctc_eqb. apply String.eqb_eq. Qed.

(* ---- reflexivity and symmetry ---- *)
Theorem feature_eqb_refl : forall a, feature_eqb a a = true.
Proof. intros a. apply feature_eqb_iff. reflexivity. Qed.

Theorem feature_eqb_sym : forall a b, feature_eqb a b = feature_eqb b a.
Proof. intros a b. unfold feature_eqb. apply String.eqb_sym. Qed.

Theorem relation_eqb_refl : forall a, relation_eqb a a = true.
Proof. intros a. apply relation_eqb_iff. reflexivity. Qed.

Theorem relation_eqb_sym : forall a b, relation_eqb a b = relation_eqb b a.
Proof.
  intros a b. unfold relation_eqb.
  rewrite (String.eqb_sym (fst a)), (Z.eqb_sym (r_min (snd a))), (Z.eqb_sym (r_max (snd a))).
  rewrite (list_eqb_sym string String.eqb String.eqb_sym (sort_strs (child_names (snd a)))).
  reflexivity.
Qed.

Theorem ctc_eqb_refl : forall lower a, ctc_eqb lower a a = true.
Proof. intros lower a. apply ctc_eqb_iff. reflexivity. Qed.

Theorem ctc_eqb_sym : forall lower a b, ctc_eqb lower a b = ctc_eqb lower b a.
Proof. intros lower a b. unfold ctc_eqb. apply String.eqb_sym. Qed.

Theorem fm_eqb_refl : forall lower a, fm_eqb lower a a = true.
Proof.
  intros lower a. unfold fm_eqb.
  rewrite feature_eqb_refl.
  rewrite (list_eqb_refl feature feature_eqb feature_eqb_refl).
  rewrite (list_eqb_refl orel relation_eqb relation_eqb_refl).
  rewrite (list_eqb_refl ctc (ctc_eqb lower) (ctc_eqb_refl lower)).
  reflexivity.
Qed.

Theorem fm_eqb_sym : forall lower a b, fm_eqb lower a b = fm_eqb lower b a.
Proof.
  intros lower a b. unfold fm_eqb.
  rewrite (feature_eqb_sym (root a)).
  rewrite (list_eqb_sym feature feature_eqb feature_eqb_sym (sort_by name str_ltb (get_features a))).
  rewrite (list_eqb_sym orel relation_eqb relation_eqb_sym
             (sort_by relation_sort_key rkey_ltb (fm_relations a))).
  rewrite (list_eqb_sym ctc (ctc_eqb lower) (ctc_eqb_sym lower)
             (sort_by (ctc_key lower) str_ltb (ctcs a))).
  reflexivity.
Qed.

(* ------------------------------------------------------------------------------------------ *)
(* model equality = equality of the canonical multisets                                         *)
(* ------------------------------------------------------------------------------------------ *)
Theorem fm_eqb_iff : forall lower a b,
  fm_eqb lower a b = true <->
  (name (root a) = name (root b)
   /\ Permutation (map name (get_features a)) (map name (get_features b))
   /\ Permutation (map relation_sort_key (fm_relations a)) (map relation_sort_key (fm_relations b))
   /\ Permutation (map (ctc_key lower) (ctcs a)) (map (ctc_key lower) (ctcs b))).
Proof.
  intros lower a b. unfold fm_eqb.
  rewrite !andb_true_iff, feature_eqb_iff.
  rewrite (list_eqb_keys feature string name feature_eqb feature_eqb_iff).
  rewrite (list_eqb_keys orel rkey relation_sort_key relation_eqb relation_eqb_iff).
  rewrite (list_eqb_keys ctc string (ctc_key lower) (ctc_eqb lower) (ctc_eqb_iff lower)).
  rewrite (sort_by_keys_iff feature string name str_ltb str_st).
  rewrite (sort_by_keys_iff orel rkey relation_sort_key rkey_ltb rkey_st).
  rewrite (sort_by_keys_iff ctc string (ctc_key lower) str_ltb str_st).
  tauto.
Qed.

(* ------------------------------------------------------------------------------------------ *)
(* equal objects have equal hash keys                                                           *)
(* ------------------------------------------------------------------------------------------ *)
Theorem feature_eq_hash : forall a b, feature_eqb a b = true -> feature_hash_key a = feature_hash_key b.
Proof. intros a b H. apply feature_eqb_iff in H. exact H. Qed.

(* the hash key of a relation is a function of its sort key *)
Definition hash_of_sort_key (k : rkey) : rkey :=
  match k with (p, c, mn, mx) => (p, dedup_sorted c, mn, mx) end.

Lemma relation_hash_of_sort : forall a, relation_hash_key a = hash_of_sort_key (relation_sort_key a).
Proof. intros a. reflexivity. Qed.

Theorem relation_eq_hash : forall a b, relation_eqb a b = true -> relation_hash_key a = relation_hash_key b.
Proof.
  intros a b H. apply relation_eqb_iff in H. rewrite !relation_hash_of_sort, H. reflexivity.
Qed.

Theorem ctc_eq_hash : forall lower a b, ctc_eqb lower a b = true -> ctc_key lower a = ctc_key lower b.
Proof. intros lower a b H. apply ctc_eqb_iff in H. exact H. Qed.

Lemma strset_perm : forall l1 l2, Permutation l1 l2 -> strset l1 = strset l2.
Proof.
  intros l1 l2 HP. unfold strset, sort_strs. f_equal.
  apply (sortK_perm str_ltb str_st). exact HP.
Qed.

Lemma rkeyset_perm : forall l1 l2, Permutation l1 l2 -> rkeyset l1 = rkeyset l2.
Proof.
  intros l1 l2 HP. unfold rkeyset. f_equal.
  apply (sortK_perm rkey_ltb rkey_st). exact HP.
Qed.

Theorem fm_eq_hash : forall lower a b, fm_eqb lower a b = true -> fm_hash_key lower a = fm_hash_key lower b.
Proof.
  intros lower a b H. apply fm_eqb_iff in H. destruct H as (H1 & H2 & H3 & H4).
  unfold fm_hash_key.
  rewrite H1, (strset_perm _ _ H2), (strset_perm _ _ H4).
  assert (forall m, map relation_hash_key (fm_relations m)
                    = map hash_of_sort_key (map relation_sort_key (fm_relations m))) as E.
  { intros m. rewrite map_map. apply map_ext. intros x. apply relation_hash_of_sort. }
  rewrite !E.
  rewrite (rkeyset_perm _ _ (Permutation_map hash_of_sort_key H3)).
  reflexivity.
Qed.

(* ---- relation equality ignores the order of the children ---- *)
Lemma sort_strs_perm : forall l1 l2, Permutation l1 l2 -> sort_strs l1 = sort_strs l2.
Proof. intros l1 l2 HP. unfold sort_strs. apply (sortK_perm str_ltb str_st). exact HP. Qed.

Theorem relation_eqb_perm : forall o mn mx cs cs', Permutation (map name cs) (map name cs') ->
  relation_eqb (o, Relation mn mx cs) (o, Relation mn mx cs') = true.
Proof.
  intros o mn mx cs cs' HP. apply relation_eqb_iff. unfold relation_sort_key, child_names.
  cbn [fst snd r_children r_min r_max]. rewrite (sort_strs_perm _ _ HP). reflexivity.
Qed.

(* ------------------------------------------------------------------------------------------ *)
(* an order-permuted copy has the same canonical multisets                                      *)
(* ------------------------------------------------------------------------------------------ *)
Inductive fperm : feature -> feature -> Prop :=
| fperm_intro : forall i rs rs1 rs', Forall2 rperm rs rs1 -> Permutation rs1 rs' ->
                                     fperm (Feature i rs) (Feature i rs')
with rperm : relation -> relation -> Prop :=
| rperm_intro : forall a b cs cs1 cs', Forall2 fperm cs cs1 -> Permutation cs1 cs' ->
                                       rperm (Relation a b cs) (Relation a b cs').

Section FpermInd.
  Variable P : feature -> feature -> Prop.
  Variable Q : relation -> relation -> Prop.
  Hypothesis HF : forall i rs rs1 rs', Forall2 rperm rs rs1 -> Forall2 Q rs rs1 ->
                                       Permutation rs1 rs' -> P (Feature i rs) (Feature i rs').
  Hypothesis HR : forall a b cs cs1 cs', Forall2 fperm cs cs1 -> Forall2 P cs cs1 ->
                                         Permutation cs1 cs' -> Q (Relation a b cs) (Relation a b cs').

  Fixpoint fperm_ind2 (f g : feature) (H : fperm f g) {struct H} : P f g :=
    match H in fperm f0 g0 return P f0 g0 with
    | fperm_intro i rs rs1 rs' H2 HP =>
        HF i rs rs1 rs' H2
           ((fix go (l l1 : list relation) (h : Forall2 rperm l l1) {struct h} : Forall2 Q l l1 :=
               match h in Forall2 _ l0 l2 return Forall2 Q l0 l2 with
               | Forall2_nil _ => Forall2_nil Q
               | @Forall2_cons _ _ _ x y t t' hxy ht =>
                   @Forall2_cons _ _ Q x y t t' (rperm_ind2 x y hxy) (go t t' ht)
               end) rs rs1 H2) HP
    end
  with rperm_ind2 (r s : relation) (H : rperm r s) {struct H} : Q r s :=
    match H in rperm r0 s0 return Q r0 s0 with
    | rperm_intro a b cs cs1 cs' H2 HP =>
        HR a b cs cs1 cs' H2
           ((fix go (l l1 : list feature) (h : Forall2 fperm l l1) {struct h} : Forall2 P l l1 :=
               match h in Forall2 _ l0 l2 return Forall2 P l0 l2 with
               | Forall2_nil _ => Forall2_nil P
               | @Forall2_cons _ _ _ x y t t' hxy ht =>
                   @Forall2_cons _ _ P x y t t' (fperm_ind2 x y hxy) (go t t' ht)
               end) cs cs1 H2) HP
    end.
End FpermInd.

Theorem fperm_name : forall f g, fperm f g -> name f = name g.
Proof. intros f g H. destruct H. reflexivity. Qed.

Lemma map_flat_map : forall A B C (g : B -> C) (f : A -> list B) l,
  map g (flat_map f l) = flat_map (fun x => map g (f x)) l.
Proof.
  intros A B C g f l. induction l as [|x xs IH]; cbn [flat_map map]; auto.
  rewrite map_app, IH. reflexivity.
Qed.

(* elementwise permuted pieces, then a permutation of the pieces *)
Lemma flat_map_F2_perm : forall A B (F : A -> list B) l l1 l',
  Forall2 (fun x y => Permutation (F x) (F y)) l l1 -> Permutation l1 l' ->
  Permutation (flat_map F l) (flat_map F l').
Proof.
  intros A B F l l1 l' H2 HP.
  apply perm_trans with (flat_map F l1); [|apply Permutation_flat_map; exact HP].
  clear HP. induction H2 as [|x y t t' Hxy _ IH]; cbn [flat_map]; auto.
  apply Permutation_app; assumption.
Qed.

Lemma fperm_names_eq : forall cs cs1, Forall2 fperm cs cs1 -> map name cs = map name cs1.
Proof.
  intros cs cs1 H. induction H as [|x y t t' Hxy _ IH]; cbn [map]; auto.
  rewrite (fperm_name _ _ Hxy), IH. reflexivity.
Qed.

(* names of the sub-tree *)
Definition NF (f : feature) : list string := map name (subfeatures f).

Lemma NF_unfold : forall i rs,
  NF (Feature i rs) = f_name i :: flat_map (fun r => flat_map NF (r_children r)) rs.
Proof.
  intros i rs. unfold NF. cbn [subfeatures map]. f_equal.
  rewrite map_flat_map. apply flat_map_ext. intros [a b cs]. cbn [r_children].
  apply map_flat_map.
Qed.

Theorem fperm_features : forall f g, fperm f g ->
  Permutation (map name (subfeatures f)) (map name (subfeatures g)).
Proof.
  apply (fperm_ind2
           (fun f g => Permutation (NF f) (NF g))
           (fun r s => Permutation (flat_map NF (r_children r)) (flat_map NF (r_children s)))).
  - intros i rs rs1 rs' _ HQ HP. rewrite !NF_unfold. apply perm_skip.
    apply (flat_map_F2_perm _ _ (fun r => flat_map NF (r_children r)) rs rs1 rs' HQ HP).
  - intros a b cs cs1 cs' _ HPs HP. cbn [r_children].
    apply (flat_map_F2_perm _ _ NF cs cs1 cs' HPs HP).
Qed.

(* relation keys of the sub-tree *)
Definition RK (f : feature) : list rkey :=
  map relation_sort_key (map (fun pr => (name (fst pr), snd pr)) (subrelations_ctx f)).
Definition RKr (n : string) (r : relation) : list rkey :=
  (n, sort_strs (child_names r), r_min r, r_max r) :: flat_map RK (r_children r).

Lemma RK_unfold : forall i rs, RK (Feature i rs) = flat_map (RKr (f_name i)) rs.
Proof.
  intros i rs. unfold RK. cbn [subrelations_ctx]. rewrite !map_flat_map.
  apply flat_map_ext. intros [a b cs]. unfold RKr. cbn [map fst snd r_children].
  f_equal. rewrite !map_flat_map. reflexivity.
Qed.

Theorem fperm_relations : forall f g, fperm f g ->
  Permutation (map relation_sort_key (map (fun pr => (name (fst pr), snd pr)) (subrelations_ctx f)))
              (map relation_sort_key (map (fun pr => (name (fst pr), snd pr)) (subrelations_ctx g))).
Proof.
  apply (fperm_ind2
           (fun f g => Permutation (RK f) (RK g))
           (fun r s => forall n, Permutation (RKr n r) (RKr n s))).
  - intros i rs rs1 rs' _ HQ HP. rewrite !RK_unfold.
    apply (flat_map_F2_perm _ _ (RKr (f_name i)) rs rs1 rs'); [|exact HP].
    clear HP. induction HQ as [|x y t t' Hxy _ IH]; constructor; [apply Hxy | exact IH].
  - intros a b cs cs1 cs' HF2 HPs HP n. unfold RKr, child_names. cbn [r_children r_min r_max].
    rewrite (fperm_names_eq _ _ HF2).
    rewrite (sort_strs_perm _ _ (Permutation_map name HP)).
    apply perm_skip.
    apply (flat_map_F2_perm _ _ RK cs cs1 cs' HPs HP).
Qed.

Theorem permuted_copy_equal : forall lower a b,
  fperm (root a) (root b) -> Permutation (ctcs a) (ctcs b) -> fm_eqb lower a b = true.
Proof.
  intros lower a b HF HC. apply fm_eqb_iff. repeat split.
  - apply fperm_name. exact HF.
  - eapply perm_trans; [apply Permutation_map, get_features_perm|].
    eapply perm_trans; [apply fperm_features, HF|].
    apply Permutation_sym, Permutation_map, get_features_perm.
  - unfold fm_relations. apply fperm_relations. exact HF.
  - apply Permutation_map. exact HC.
Qed.

(* ------------------------------------------------------------------------------------------ *)
(* example: two alternative groups {A,B} and {C,D}                                              *)
(* ------------------------------------------------------------------------------------------ *)
Definition ex_model (groups : list relation) : fm :=
  {| root := Feature (mk_info "R"%string) groups; ctcs := [] |}.
Definition ex_A := leaf "A"%string.
Definition ex_B := leaf "B"%string.
Definition ex_C := leaf "C"%string.
Definition ex_D := leaf "D"%string.
Definition ex_orig := ex_model [Relation 1 1 [ex_A; ex_B]; Relation 1 1 [ex_C; ex_D]].
Definition ex_swapped := ex_model [Relation 1 1 [ex_D; ex_C]; Relation 1 1 [ex_B; ex_A]].
Definition ex_exchanged := ex_model [Relation 1 1 [ex_A; ex_C]; Relation 1 1 [ex_B; ex_D]].

Example ex_swapped_equal : fm_eqb str_lower ex_orig ex_swapped = true.
Proof. vm_compute. reflexivity. Qed.
Example ex_swapped_hash : fm_hash_key str_lower ex_orig = fm_hash_key str_lower ex_swapped.
Proof. vm_compute. reflexivity. Qed.
Example ex_exchanged_unequal : fm_eqb str_lower ex_orig ex_exchanged = false.
Proof. vm_compute. reflexivity. Qed.

(* the swapped copy is an order-permuted copy in the sense of [fperm] *)
Lemma fperm_leaf : forall n, fperm (leaf n) (leaf n).
Proof. intros n. apply (fperm_intro (mk_info n) [] [] []); constructor. Qed.

Example ex_swapped_fperm : fperm (root ex_orig) (root ex_swapped).
Proof.
  apply (fperm_intro _ _ [Relation 1 1 [ex_B; ex_A]; Relation 1 1 [ex_D; ex_C]]).
  - constructor; [|constructor; [|constructor]].
    + apply (rperm_intro 1 1 _ [ex_A; ex_B]); [repeat constructor; apply fperm_leaf | apply perm_swap].
    + apply (rperm_intro 1 1 _ [ex_C; ex_D]); [repeat constructor; apply fperm_leaf | apply perm_swap].
  - apply perm_swap.
Qed.

Print Assumptions str_ltb_irrefl.
Print Assumptions str_ltb_trans.
Print Assumptions str_ltb_total.
Print Assumptions strs_ltb_irrefl.
Print Assumptions strs_ltb_trans.
Print Assumptions strs_ltb_total.
Print Assumptions rkey_ltb_irrefl.
Print Assumptions rkey_ltb_trans.
Print Assumptions rkey_ltb_total.
Print Assumptions sort_by_perm.
Print Assumptions sort_by_sorted.
Print Assumptions sort_by_keys_canonical.
Print Assumptions sort_by_keys_iff.
Print Assumptions relation_eqb_iff.
Print Assumptions feature_eqb_refl.
Print Assumptions feature_eqb_sym.
Print Assumptions relation_eqb_refl.
Print Assumptions relation_eqb_sym.
Print Assumptions ctc_eqb_refl.
Print Assumptions ctc_eqb_sym.
Print Assumptions fm_eqb_refl.
Print Assumptions fm_eqb_sym.
Print Assumptions feature_eq_hash.
Print Assumptions relation_eq_hash.
Print Assumptions ctc_eq_hash.
Print Assumptions fm_eq_hash.
Print Assumptions relation_eqb_perm.
Print Assumptions fm_eqb_iff.
Print Assumptions fperm_name.
Print Assumptions fperm_features.
Print Assumptions fperm_relations.
Print Assumptions permuted_copy_equal.
Print Assumptions ex_swapped_equal.
Print Assumptions ex_swapped_hash.
Print Assumptions ex_exchanged_unequal.
Print Assumptions ex_swapped_fperm.
