(* Proofs/SrcCoreFacts.v — the translated get_core_features (work-list loop, Gen/Src_ops.v) returns a
   permutation of [core_features] *)
From Coq Require Import List Bool Ascii String ZArith Lia Permutation.
From FM Require Import Base.Result Base.Str Base.AstOp Model.Ast Model.FM Model.Ctc Model.Queries Model.Sem
     Model.Ops Model.PyRt Model.Loc Gen.Src_fm Gen.Src_ops Proofs.FMFacts Proofs.SrcBaseFacts.
Import ListNotations.
Local Open Scope list_scope.
(* ------------------------------------------------------------------ get_core_features *)

(* the children the loop pushes for one popped feature: on the tree / located *)
Definition forced (f : feature) : list feature :=
  flat_map (fun r => if forces_all r then r_children r else []) (rels f).
Definition lforced (x : lfeat) : list lfeat :=
  flat_map (fun lr => if forces_all (fst lr) then lr_children lr else []) (lf_relations x).
(* the core features strictly below f *)
Definition core_below (f : feature) : list feature := tl (core_features f).

Lemma map_fst_lforced x : map fst (lforced x) = forced (fst x).
Proof.
  unfold lforced, forced, lf_relations. rewrite flat_map_map', map_flat_map'. cbn [fst].
  apply flat_map_ext. intros r. destruct (forces_all r); [|reflexivity].
  apply map_fst_lr_children.
Qed.

Lemma core_features_cons f : core_features f = f :: core_below f.
Proof. destruct f as [i rs]. reflexivity. Qed.

Lemma core_below_eq f :
  core_below f
  = flat_map (fun r => if forces_all r then flat_map core_features (r_children r) else []) (rels f).
Proof.
  destruct f as [i rs]. unfold core_below. cbn [core_features tl rels].
  apply flat_map_ext. intros [a b cs]. reflexivity.
Qed.

Lemma flat_core_features_perm cs :
  Permutation (cs ++ flat_map core_below cs) (flat_map core_features cs).
Proof.
  induction cs as [|c cs IH]; [constructor|].
  cbn [flat_map app]. rewrite core_features_cons. cbn [app]. constructor.
  transitivity (core_below c ++ (cs ++ flat_map core_below cs)).
  - rewrite !app_assoc. apply Permutation_app_tail. apply Permutation_app_comm.
  - apply Permutation_app_head. exact IH.
Qed.

Lemma forced_core_perm f :
  Permutation (forced f ++ flat_map core_below (forced f)) (core_below f).
Proof.
  rewrite core_below_eq. unfold forced.
  set (A := fun r => if forces_all r then r_children r else []).
  assert (E : flat_map core_below (flat_map A (rels f))
              = flat_map (fun r => flat_map core_below (A r)) (rels f)).
  { induction (rels f) as [|r rs IH]; [reflexivity|].
    cbn [flat_map]. rewrite flat_map_app', IH. reflexivity. }
  rewrite E.
  etransitivity; [apply flat_map_app_perm|].
  apply flat_map_perm_pointwise. intros r _. unfold A.
  destruct (forces_all r); [|constructor].
  apply flat_core_features_perm.
Qed.

Definition stack_size (st : list lfeat) : nat := list_sum (map (fun x => fsize (fst x)) st).

Lemma stack_size_app a b : stack_size (a ++ b) = (stack_size a + stack_size b)%nat.
Proof. unfold stack_size. rewrite map_app, list_sum_app. reflexivity. Qed.

Lemma forced_size f : (list_sum (map fsize (forced f)) < fsize f)%nat.
Proof.
  destruct f as [i rs]. rewrite fsize_eq'. unfold forced. cbn [rels].
  assert (H : (list_sum (map fsize (flat_map (fun r => if forces_all r then r_children r else []) rs))
               <= list_sum (map (fun r => list_sum (map fsize (r_children r))) rs))%nat).
  { induction rs as [|r rs IH]; [simpl; lia|].
    cbn [flat_map map list_sum]. rewrite map_app, list_sum_app.
    destruct (forces_all r); simpl; lia. }
  lia.
Qed.

Lemma lforced_size x : (stack_size (lforced x) < fsize (fst x))%nat.
Proof.
  unfold stack_size. rewrite <- (map_map fst fsize), map_fst_lforced. apply forced_size.
Qed.

(* the work-list loop, for any step function that behaves as the translated one *)
Lemma core_loop (step : list lfeat * list lfeat -> result (option (list lfeat * list lfeat))) :
  (forall acc, step ([], acc) = Ok None) ->
  (forall rest x acc, step (rest ++ [x], acc) = Ok (Some (rest ++ lforced x, acc ++ lforced x))) ->
  forall fuel st acc, (stack_size st < fuel)%nat ->
    exists out, whileM fuel step (st, acc) = Ok ([], acc ++ out)
                /\ Permutation (map fst out) (flat_map core_below (map fst st)).
Proof.
  intros Hnil Hsnoc.
  induction fuel as [|fuel IH]; intros st acc Hfuel; [lia|].
  destruct (list_snoc_cases st) as [->|[rest [x ->]]].
  - exists []. cbn [whileM]. rewrite Hnil, app_nil_r. split; [reflexivity|constructor].
  - cbn [whileM]. rewrite Hsnoc.
    rewrite stack_size_app in Hfuel. unfold stack_size at 2 in Hfuel.
    cbn [map list_sum fold_right] in Hfuel.
    pose proof (lforced_size x) as Hx.
    destruct (IH (rest ++ lforced x) (acc ++ lforced x)) as [out [Hrun Hperm]].
    { rewrite stack_size_app. lia. }
    exists (lforced x ++ out). split.
    + rewrite Hrun, app_assoc. reflexivity.
    + rewrite map_app, map_fst_lforced.
      rewrite map_app, flat_map_app' in Hperm. rewrite map_fst_lforced in Hperm.
      rewrite map_app, flat_map_app'. cbn [map flat_map fst]. rewrite app_nil_r.
      transitivity (forced (fst x)
                    ++ (flat_map core_below (map fst rest)
                        ++ flat_map core_below (forced (fst x)))).
      * apply Permutation_app_head. exact Hperm.
      * transitivity (flat_map core_below (map fst rest)
                      ++ (forced (fst x) ++ flat_map core_below (forced (fst x)))).
        -- rewrite !app_assoc. apply Permutation_app_tail. apply Permutation_app_comm.
        -- apply Permutation_app_head. apply forced_core_perm.
Qed.

Lemma src_forces_all r o :
  (if py_Relation_is_mandatory (r, o) then true
   else (Z.eqb (r_min r) (py_len (lr_children (r, o)))) && (Z.ltb 0%Z (py_len (lr_children (r, o)))))
  = forces_all r.
Proof.
  rewrite src_rel_is_mandatory, py_len_lr_children. unfold forces_all.
  destruct (rel_is_mandatory r); reflexivity.
Qed.

Lemma src_get_core_features : forall m fuel, (fuel_tree (root m) <= fuel)%nat ->
  exists l, py_get_core_features fuel m = Ok l /\ Permutation (map fst l) (core_features (root m)).
Proof.
  intros m fuel Hfuel. unfold py_get_core_features.
  match goal with
  | |- context [whileM _ ?stp _] => set (step := stp)
  end.
  assert (Hnil : forall acc, step ([], acc) = Ok None) by (intros acc; reflexivity).
  assert (Hsnoc : forall rest x acc,
             step (rest ++ [x], acc) = Ok (Some (rest ++ lforced x, acc ++ lforced x))).
  { intros rest x acc. unfold step.
    rewrite py_is_nil_snoc. cbn [negb]. rewrite py_pop_snoc. cbn [bind].
    match goal with
    | |- context [foldM ?F ?l (?a, ?b)] =>
        rewrite (foldM_append2 F (fun lr => if forces_all (fst lr) then lr_children lr else [])
                               l a b)
    end.
    - reflexivity.
    - intros lr Hlr a b. apply in_lf_relations in Hlr. destruct Hlr as [r [-> _]].
      cbv beta iota zeta. cbn [fst]. rewrite <- (src_forces_all r x).
      destruct (py_Relation_is_mandatory (r, x)); [reflexivity|].
      destruct ((r_min r =? py_len (lr_children (r, x)))%Z
                && (0 <? py_len (lr_children (r, x)))%Z); [reflexivity|].
      rewrite !app_nil_r. reflexivity. }
  destruct (core_loop step Hnil Hsnoc fuel [fm_root_l m] [fm_root_l m]) as [out [Hrun Hperm]].
  { unfold stack_size, fm_root_l, fuel_tree in *. cbn [map list_sum fold_right fst]. lia. }
  exists ([fm_root_l m] ++ out). split.
  - rewrite Hrun. reflexivity.
  - cbn [app map fst fm_root_l]. rewrite core_features_cons. constructor.
    cbn [map flat_map fst fm_root_l] in Hperm. rewrite app_nil_r in Hperm. exact Hperm.
Qed.

Print Assumptions src_get_core_features.

