(* Proofs/SrcFideFacts.v — the source tie of featureide_writer.py: the translations in Gen/Src_fide.v
   (py__tag_element, py__get_attributes, py__get_ctc_info, py__get_constraints_info) are equal to the
   hand-written writer of Format/Xml.v (fide_tag, fide_attributes, fide_ctc_info and the constraint
   listing of fide_write), error cases included, for every fuel that covers the constraints. *)
From Coq Require Import List Bool Ascii String ZArith Lia.
From FM Require Import Base.Result Base.Str Base.AstOp Model.Ast Model.FM Model.PFM Model.Queries
     Gen.Tables_fide Format.Json Format.Xml Model.PyRt Model.Loc Gen.Src_fm Gen.Src_fide
     Proofs.FMFacts Proofs.SrcFmFacts.
Import ListNotations.
Local Open Scope list_scope.

(* ------------------------------------------------------------------ general helpers *)

(* a loop whose body appends one element that may fail is a mapM *)
Lemma sfide_foldM_snoc_mapM : forall {A B} (F : list B -> A -> result (list B)) (g : A -> result B)
  (l : list A),
  (forall acc x, In x l ->
     F acc x = match g x with Ok v => Ok (acc ++ [v]) | Err e => Err e end) ->
  forall acc, foldM F l acc = match mapM g l with Ok vs => Ok (acc ++ vs) | Err e => Err e end.
Proof.
  intros A B F g l. induction l as [|x xs IH]; intros HF acc.
  - cbn. now rewrite app_nil_r.
  - cbn [foldM mapM]. rewrite (HF acc x (or_introl eq_refl)).
    destruct (g x) as [v|e]; [|reflexivity].
    change (foldM F xs (acc ++ [v]) =
            match match mapM g xs with Err e => Err e | Ok ys => Ok (v :: ys) end with
            | Ok vs => Ok (acc ++ vs) | Err e => Err e end).
    rewrite IH.
    + destruct (mapM g xs) as [ys|e]; [|reflexivity]. now rewrite <- app_assoc.
    + intros acc' y Hy. apply HF. now right.
Qed.

Lemma sfide_in_list_sum_le : forall {A} (f : A -> nat) (l : list A) (x : A),
  In x l -> (f x <= list_sum (map f l))%nat.
Proof.
  intros A f l x. induction l as [|y ys IH]; intros Hin; [destruct Hin|].
  cbn [map]. change (list_sum (f y :: map f ys)) with (f y + list_sum (map f ys))%nat.
  destruct Hin as [->|Hin]; [lia|]. specialize (IH Hin). lia.
Qed.

Lemma sfide_nsize_node : forall d l r,
  nsize (Node d l r) = S ((match l with Some a => nsize a | None => 0 end)
                          + (match r with Some b => nsize b | None => 0 end)).
Proof. reflexivity. Qed.

Lemma sfide_mapM_ext : forall {A B} (f g : A -> result B) (l : list A),
  (forall x, In x l -> f x = g x) -> mapM f l = mapM g l.
Proof.
  intros A B f g l. induction l as [|x xs IH]; intros H; [reflexivity|].
  cbn [mapM]. rewrite (H x (or_introl eq_refl)).
  change (match g x with Err e => Err e | Ok y =>
            match mapM f xs with Err e => Err e | Ok ys => Ok (y :: ys) end end =
          match g x with Err e => Err e | Ok y =>
            match mapM g xs with Err e => Err e | Ok ys => Ok (y :: ys) end end).
  rewrite IH; [reflexivity|]. intros y Hy. apply H. now right.
Qed.

(* ------------------------------------------------------------------ bool(v): the two readings agree *)
Lemma sfide_is_nil_length : forall {A} (l : list A), py_is_nil l = Nat.eqb (List.length l) 0.
Proof. intros A l. destruct l; reflexivity. Qed.

Lemma aval_truthy_agree : forall v, PyRt.aval_truthy v = Xml.aval_truthy v.
Proof.
  intros v. destruct v; cbn [PyRt.aval_truthy Xml.aval_truthy]; try reflexivity.
  all: now rewrite sfide_is_nil_length.
Qed.

(* ------------------------------------------------------------------ _tag_element *)
Lemma src_fide_tag : forall x, py__tag_element x = fide_tag (fst x).
Proof.
  intros x. unfold py__tag_element, fide_tag. cbv zeta.
  rewrite src_feat_is_leaf, src_feat_is_or_group, src_feat_is_alternative_group.
  reflexivity.
Qed.

(* ------------------------------------------------------------------ _get_attributes *)
Lemma src_fide_attributes : forall f anc, py__get_attributes (f, anc) = fide_attributes (hd_error anc) f.
Proof.
  intros f anc. unfold py__get_attributes, fide_attributes. cbv zeta.
  rewrite src_feat_is_mandatory. cbn [fst]. rewrite aval_truthy_agree.
  destruct (feat_is_mandatory (hd_error anc) f);
    destruct (Xml.aval_truthy (f_abstract (info f))); reflexivity.
Qed.

(* ------------------------------------------------------------------ _get_ctc_info *)
(* the dict the code builds for a node of the intermediate tree *)
Fixpoint cinfo_aval (c : cinfo) : aval :=
  match c with
  | CVar nm => VMap [("type"%string, VStr fide_TAG_VAR); ("operands"%string, VList [VStr nm])]
  | COp ty ops => VMap [("type"%string, VStr ty); ("operands"%string, VList (map cinfo_aval ops))]
  end.

Lemma sfide_fuel_node_pos : forall n, (3 <= fuel_node n)%nat.
Proof. intros n. unfold fuel_node. lia. Qed.

Lemma src_fide_ctc_info : forall n fuel, (fuel_node n <= fuel)%nat -> py__get_ctc_info fuel n = rmap cinfo_aval (fide_ctc_info n).
Proof.
  intros n fuel; revert n. induction fuel as [|fuel IH]; intros n Hfuel.
  - pose proof (sfide_fuel_node_pos n). lia.
  - destruct n as [d l r]. unfold fuel_node in Hfuel. rewrite sfide_nsize_node in Hfuel.
    cbn [py__get_ctc_info fide_ctc_info]. cbv zeta.
    destruct (is_term (Node d l r)) eqn:Eterm.
    + reflexivity.
    + destruct d as [o|s|z|q|b]; try (cbv in Eterm; discriminate Eterm).
      clear Eterm.
      cbn [n_data n_left n_right ndata_is_op].
      assert (Hl : forall a, l = Some a -> py__get_ctc_info fuel a = rmap cinfo_aval (fide_ctc_info a)).
      { intros a ->. apply IH. unfold fuel_node. lia. }
      assert (Hr : forall b, r = Some b -> py__get_ctc_info fuel b = rmap cinfo_aval (fide_ctc_info b)).
      { intros b ->. apply IH. unfold fuel_node. lia. }
      clear IH Hfuel.
      destruct l as [a|]; destruct r as [b|]; cbn [bind py_need];
        try (rewrite (Hl a eq_refl); destruct (fide_ctc_info a) as [ja|ea]);
        try (rewrite (Hr b eq_refl); destruct (fide_ctc_info b) as [jb|eb]);
        clear Hl Hr; destruct o; reflexivity.
Qed.

(* ------------------------------------------------------------------ _get_constraints_info *)
Lemma src_fide_constraints_info : forall cs fuel, (fuel_ctcs cs <= fuel)%nat ->
  py__get_constraints_info fuel cs =
  mapM (fun c => match pretty_str (c_ast c) with
                 | Err e => Err e
                 | Ok ex => rmap (fun ci => VMap [("name"%string, VStr (c_name c)); ("expr"%string, VStr ex); ("ast"%string, cinfo_aval ci)])
                                 (fide_ctc_info (c_ast c))
                 end) cs.
Proof.
  intros cs fuel Hfuel. unfold py__get_constraints_info. cbv zeta.
  rewrite sfide_foldM_snoc_mapM with
    (g := fun c => match pretty_str (c_ast c) with
                   | Err e => Err e
                   | Ok ex => rmap (fun ci => VMap [("name"%string, VStr (c_name c)); ("expr"%string, VStr ex); ("ast"%string, cinfo_aval ci)])
                                   (fide_ctc_info (c_ast c))
                   end).
  - match goal with |- context [mapM ?g cs] => destruct (mapM g cs) as [vs|e] end; reflexivity.
  - intros acc c Hc.
    rewrite src_fide_ctc_info.
    + destruct (pretty_str (c_ast c)) as [expr|e]; [|reflexivity].
      destruct (fide_ctc_info (c_ast c)) as [j|e]; reflexivity.
    + pose proof (sfide_in_list_sum_le (fun c => fuel_node (c_ast c)) cs c Hc) as Hle.
      cbn beta in Hle. unfold fuel_ctcs in Hfuel. lia.
Qed.

(* the constraint listing of fide_write is the listing of the code with the dicts erased: the code's
   listing succeeds exactly when the model's does, with the same exception otherwise *)
Lemma src_fide_constraints_info_write : forall cs fuel, (fuel_ctcs cs <= fuel)%nat ->
  rmap (fun _ => tt) (py__get_constraints_info fuel cs) =
  rmap (fun _ => tt)
       (mapM (fun c => match pretty_str (c_ast c) with
                       | Err e => Err e
                       | Ok _ => fide_ctc_info (c_ast c)
                       end) cs).
Proof.
  intros cs fuel Hfuel. rewrite src_fide_constraints_info by exact Hfuel. clear Hfuel.
  induction cs as [|c cs IH]; [reflexivity|].
  cbn [mapM].
  destruct (pretty_str (c_ast c)) as [ex|e]; [|reflexivity].
  destruct (fide_ctc_info (c_ast c)) as [ci|e]; [|reflexivity].
  cbn [rmap].
  match goal with
  | |- rmap _ (match ?X with _ => _ end) = rmap _ (match ?Y with _ => _ end) =>
      change (rmap (fun _ => tt) X = rmap (fun _ => tt) Y) in IH;
      destruct X as [xs|ex1]; destruct Y as [ys|ey1]; cbn [rmap] in IH |- *;
      try reflexivity; try discriminate IH; exact IH
  end.
Qed.

Print Assumptions src_fide_tag.
Print Assumptions src_fide_constraints_info.
Print Assumptions src_fide_ctc_info.
Print Assumptions src_fide_attributes.
