(* Proofs/SrcTreeOpsFacts.v — the translated tree operations that go through get_features (Gen/Src_ops.v):
   the generated translations (Gen/Src_fm.v, Gen/Src_ops.v) equal the hand-written model
   (Model/Queries.v, Model/Ops.v) on the located listings of Model/Loc.v. *)
From Coq Require Import List Bool Ascii String ZArith Lia Permutation.
From FM Require Import Base.Result Base.Str Base.AstOp Base.PyFloat Model.Ast Model.FM Model.Ctc
     Model.Queries Model.Sem Model.Ops Model.PyRt Model.Loc Gen.Src_fm Gen.Src_ops
     Proofs.FMFacts Proofs.QueriesFacts Proofs.C16Facts Proofs.SrcFmFacts.
Import ListNotations.
Local Open Scope list_scope.
(* ------------------------------------------------------------------ operations over get_features *)
Lemma src_count_leaf_features : forall m fuel, (fuel_tree (root m) <= fuel)%nat ->
  py_count_leaf_features fuel m = Ok (count_leafs m).
Proof.
  intros m fuel Hfuel. unfold py_count_leaf_features.
  rewrite (src_get_features m fuel Hfuel). cbn [bind].
  unfold py_count, count_leafs. rewrite fm_flat_map_single, fm_count_map.
  rewrite (fm_filter_ext _ (fun x => feat_is_leaf (fst x)) _ src_feat_is_leaf).
  rewrite <- loc_features_erase, fm_filter_map, map_length. reflexivity.
Qed.

(* the leaf test written in-line by get_leaf_features *)
Lemma leaf_test_inline (x : lfeat) :
  (py_len (py_Feature_get_relations x) =? 0)%Z = feat_is_leaf (fst x).
Proof. exact (src_feat_is_leaf x). Qed.

Lemma src_get_leaf_features_eq m fuel : (fuel_tree (root m) <= fuel)%nat ->
  py_get_leaf_features fuel m = Ok (filter (fun x => feat_is_leaf (fst x)) (loc_features m)).
Proof.
  intros Hfuel. unfold py_get_leaf_features.
  rewrite (src_get_features m fuel Hfuel). cbn [bind].
  rewrite fm_flat_map_filter.
  rewrite (fm_filter_ext _ (fun x => feat_is_leaf (fst x)) _ leaf_test_inline). reflexivity.
Qed.

Lemma src_get_leaf_features : forall m fuel, (fuel_tree (root m) <= fuel)%nat ->
  exists l, py_get_leaf_features fuel m = Ok l /\ map fst l = leaf_features m.
Proof.
  intros m fuel Hfuel. rewrite (src_get_leaf_features_eq m fuel Hfuel).
  eexists. split; [reflexivity|].
  rewrite map_fst_filter_loc, loc_features_erase. reflexivity.
Qed.

(* ------------------------------------------------------------------ ancestors *)
Lemma whileM_ancestors (step : list lfeat * option lfeat -> result (option (list lfeat * option lfeat))) :
  (forall acc s, step (acc, Some s) = Ok (Some (acc ++ [s], lf_parent s))) ->
  (forall acc, step (acc, None) = Ok None) ->
  forall anc acc fuel f, (List.length anc < fuel)%nat ->
    whileM fuel step (acc, lf_parent (f, anc)) = Ok (acc ++ loc_ancestors anc, None).
Proof.
  intros Hs Hn anc. induction anc as [|p a IH]; intros acc fuel f Hfuel.
  - destruct fuel as [|k]; [cbn [List.length] in Hfuel; lia|].
    cbn [whileM lf_parent snd loc_ancestors]. rewrite Hn, app_nil_r. reflexivity.
  - destruct fuel as [|k]; [cbn [List.length] in Hfuel; lia|].
    cbn [whileM lf_parent snd loc_ancestors]. rewrite Hs. cbn beta iota.
    etransitivity.
    + apply (IH (acc ++ [(p, a)]) k p). cbn [List.length] in Hfuel. lia.
    + rewrite <- app_assoc. reflexivity.
Qed.

Lemma src_get_feature_ancestors : forall f anc fuel, (List.length anc < fuel)%nat ->
  py_get_feature_ancestors fuel (f, anc) = Ok (loc_ancestors anc).
Proof.
  intros f anc fuel Hfuel. unfold py_get_feature_ancestors, py_Feature_get_parent.
  rewrite (whileM_ancestors _ (fun acc s => eq_refl) (fun acc => eq_refl) anc [] fuel f Hfuel).
  cbn [bind app]. reflexivity.
Qed.

Lemma loc_ancestors_length anc : List.length (loc_ancestors anc) = List.length anc.
Proof. induction anc as [|p a IH]; cbn [loc_ancestors List.length]; [reflexivity|]. rewrite IH. reflexivity. Qed.

(* ------------------------------------------------------------------ max depth *)
Lemma with_ancestors_depth_bound : forall f anc0 x,
  In x (with_ancestors f anc0) -> (List.length (snd x) < List.length anc0 + fsize f)%nat.
Proof.
  intros f.
  apply (feature_ind_in
           (fun f => forall anc0 x, In x (with_ancestors f anc0) ->
                       (List.length (snd x) < List.length anc0 + fsize f)%nat)).
  clear f. intros i rs IH anc0 x Hin.
  apply in_with_ancestors_inv in Hin.
  destruct Hin as [-> | (r & c & Hr & Hc & Hin)].
  - cbn [snd fsize]. lia.
  - pose proof (IH r c Hr Hc _ _ Hin) as Hb.
    pose proof (fsize_child i rs r c Hr Hc) as Hlt.
    cbn [List.length] in Hb. lia.
Qed.

Lemma loc_features_depth_bound m x :
  In x (loc_features m) -> (List.length (snd x) < fsize (root m))%nat.
Proof.
  intros Hin.
  apply (Permutation_in _ (loc_features_perm m)) in Hin.
  apply (with_ancestors_depth_bound (root m) [] x) in Hin. cbn [List.length] in Hin. lia.
Qed.

Lemma zmaxfold_perm l l' : Permutation l l' -> fold_right Z.max 0%Z l = fold_right Z.max 0%Z l'.
Proof.
  induction 1 as [|x l l' _ IH|x y l|l l' l'' _ IH1 _ IH2]; cbn [fold_right].
  - reflexivity.
  - rewrite IH. reflexivity.
  - lia.
  - rewrite IH1. exact IH2.
Qed.

Lemma fold_left_zmax x xs : (0 <= x)%Z ->
  fold_left Z.max xs x = Z.max x (fold_right Z.max 0%Z xs).
Proof.
  revert x. induction xs as [|y ys IH]; intros x Hx; cbn [fold_left fold_right].
  - lia.
  - rewrite IH; lia.
Qed.

Lemma py_max_nonneg (l : list Z) :
  l <> [] -> Forall (fun z => (0 <= z)%Z) l -> py_max l = Ok (fold_right Z.max 0%Z l).
Proof.
  intros Hne Hall. destruct l as [|x xs]; [congruence|].
  unfold py_max. rewrite fold_left_zmax; [reflexivity|].
  apply (Forall_inv Hall).
Qed.

(* a tree whose relations all have a child has a leaf *)
Lemma exists_leaf : forall f, rels_nonempty f ->
  exists l, In l (subfeatures f) /\ feat_is_leaf l = true.
Proof.
  apply (feature_ind_in
           (fun f => rels_nonempty f -> exists l, In l (subfeatures f) /\ feat_is_leaf l = true)).
  intros i rs IH Hne.
  destruct rs as [|r rs'].
  - exists (Feature i []). split; [left; reflexivity|reflexivity].
  - destruct r as [a b cs]. unfold rels_nonempty in Hne.
    cbn [subrelations flat_map] in Hne.
    apply Forall_app in Hne. destruct Hne as [Hne1 _].
    pose proof (Forall_inv Hne1) as Hcs. cbn [r_children] in Hcs.
    apply Forall_inv_tail in Hne1.
    destruct cs as [|c cs']; [congruence|].
    cbn [flat_map] in Hne1. apply Forall_app in Hne1. destruct Hne1 as [Hc _].
    destruct (IH (Relation a b (c :: cs')) c (or_introl eq_refl) (or_introl eq_refl) Hc)
      as (l & Hl & Hleaf).
    exists l. split; [|exact Hleaf].
    cbn [subfeatures flat_map]. right. apply in_or_app. left. apply in_or_app. left. exact Hl.
Qed.

Definition depth_of (x : lfeat) : Z := Z.of_nat (List.length (snd x)).

Lemma src_max_depth_tree : forall m fuel, (fuel_tree (root m) <= fuel)%nat -> rels_nonempty (root m) ->
  py_max_depth_tree fuel m = Ok (max_depth_tree m).
Proof.
  intros m fuel Hfuel Hne. unfold py_max_depth_tree.
  rewrite (src_get_leaf_features_eq m fuel Hfuel). cbn [bind].
  rewrite (py_flat_mapM_ok _ (fun x => [depth_of x])).
  2:{ intros x Hx. apply filter_In in Hx. destruct Hx as [Hx _].
      apply loc_features_depth_bound in Hx. destruct x as [f anc]. cbn [snd] in Hx.
      rewrite src_get_feature_ancestors; [|unfold fuel_tree in Hfuel; lia].
      cbn [bind]. unfold py_len, depth_of. rewrite loc_ancestors_length. reflexivity. }
  cbn [bind]. rewrite fm_flat_map_single.
  assert (Hperm : Permutation
                    (map depth_of (filter (fun x => feat_is_leaf (fst x)) (loc_features m)))
                    (map depth_of (filter (fun x => feat_is_leaf (fst x)) (ancestors_table m)))).
  { apply Permutation_map. apply filter_perm. apply loc_features_perm. }
  rewrite py_max_nonneg.
  - rewrite (zmaxfold_perm _ _ Hperm). reflexivity.
  - intros Hnil. rewrite Hnil in Hperm. apply Permutation_nil in Hperm.
    destruct (exists_leaf (root m) Hne) as (l & Hl & Hleaf).
    rewrite <- ancestors_features in Hl. apply in_map_iff in Hl.
    destruct Hl as (x & Hfst & Hx).
    assert (Hin : In (depth_of x)
                     (map depth_of (filter (fun x => feat_is_leaf (fst x)) (ancestors_table m)))).
    { apply in_map. apply filter_In. split; [exact Hx|]. rewrite Hfst. exact Hleaf. }
    rewrite Hperm in Hin. contradiction.
  - apply Forall_forall. intros z Hz. apply in_map_iff in Hz. destruct Hz as (x & <- & _).
    unfold depth_of. lia.
Qed.

(* without the hypothesis: a root whose only relation has no child is not a leaf and has no
   descendants, so the Python max() raises ValueError where the model answers 0 *)
Example src_max_depth_tree_empty_relation :
  let m := {| root := Feature (mk_info "r") [Relation 0 0 []]; ctcs := [] |} in
  py_max_depth_tree 10 m = Err ValueError /\ max_depth_tree m = 0%Z.
Proof. split; reflexivity. Qed.

(* ------------------------------------------------------------------ average branching factor *)
Lemma nch_loc (x : lfeat) :
  py_sum (flat_map (fun r => [py_len (lr_children r)]) (py_Feature_get_relations x)) = nch (fst x).
Proof.
  unfold py_Feature_get_relations, lf_relations, nch.
  rewrite fm_flat_map_single, map_map.
  change (zsum (map (fun r => py_len (lr_children (r, x))) (rels (fst x)))
          = zsum (map (fun r => nchildren r) (rels (fst x)))).
  f_equal. apply map_ext. intros r. apply py_len_children.
Qed.

Lemma nonleaf_loc (x : lfeat) :
  negb (py_is_nil (py_Feature_get_relations x)) = negb (feat_is_leaf (fst x)).
Proof.
  unfold py_Feature_get_relations, feat_is_leaf.
  rewrite py_is_nil_length, lf_relations_length. reflexivity.
Qed.

Lemma abf_final (b c : Z) :
  (if (b =? 0)%Z then Ok 0%Z else py_round_div c b 2)
  = Ok (if (b =? 0)%Z then 0%Z else pyround_div c b 2).
Proof. unfold py_round_div. destruct (b =? 0)%Z; reflexivity. Qed.

Lemma src_average_branching_factor : forall m fuel, (fuel_tree (root m) <= fuel)%nat ->
  py_average_branching_factor fuel m 2%Z = Ok (average_branching_factor m).
Proof.
  intros m fuel Hfuel. unfold py_average_branching_factor.
  rewrite (src_get_features m fuel Hfuel). cbn [bind].
  rewrite (foldM_count_sum _ (fun x : lfeat => negb (feat_is_leaf (fst x)))
                           (fun x : lfeat => nch (fst x))).
  2:{ intros b c x _. cbn beta iota. rewrite nonleaf_loc, nch_loc.
      destruct (negb (feat_is_leaf (fst x))); reflexivity. }
  cbn [bind]. cbn beta iota.
  rewrite abf_final. f_equal.
  unfold average_branching_factor, branch_counts.
  rewrite <- loc_features_erase.
  rewrite (fm_filter_map fst (fun f => negb (feat_is_leaf f))), map_length, map_map.
  rewrite !Z.add_0_l. reflexivity.
Qed.

Print Assumptions src_max_depth_tree.
Print Assumptions src_average_branching_factor.
