(* Proofs/SrcGlencoeFacts.v — the source tie for glencoe_writer.py: the generated translations
   (Gen/Src_glencoe.v) equal the writer part of the hand-written model (Format/Glencoe.v). *)
From Coq Require Import List Bool Ascii String ZArith Lia Permutation Sorted.
From FM Require Import Base.Result Base.Str Base.AstOp Model.Ast Model.FM Model.PFM Model.Queries
     Model.EqHash Format.Json Gen.Tables_glencoe Format.Glencoe Model.PyRt Model.Loc Gen.Src_fm
     Gen.Src_glencoe Proofs.FMFacts Proofs.C20Facts Proofs.GlencoeFacts Proofs.SrcFmFacts.
Import ListNotations.
Local Open Scope list_scope.

(* ------------------------------------------------------------------ dictionaries *)
Lemma sg_dict_set_eq kv k v : py_dict_set String.eqb kv k v = dict_set kv k v.
Proof.
  induction kv as [|[k0 v0] kv IH]; cbn [py_dict_set dict_set]; [reflexivity|].
  rewrite (String.eqb_sym k0 k). destruct (String.eqb_spec k k0) as [E|N].
  - subst k0. reflexivity.
  - rewrite IH. reflexivity.
Qed.

Lemma sg_aval_set_map kv k v : aval_set (VMap kv) k v = VMap (dict_set kv k v).
Proof. cbn [aval_set]. rewrite sg_dict_set_eq. reflexivity. Qed.

Lemma sg_find_dict_set kv k v :
  find (fun p : string * aval => String.eqb (fst p) k) (py_dict_set String.eqb kv k v)
  = Some (match find (fun p : string * aval => String.eqb (fst p) k) kv with
          | Some p => (fst p, v)
          | None => (k, v)
          end).
Proof.
  induction kv as [|[k0 v0] kv IH]; cbn [py_dict_set find fst].
  - rewrite String.eqb_refl. reflexivity.
  - destruct (String.eqb k0 k) eqn:E; cbn [find fst]; rewrite E; [reflexivity|]. exact IH.
Qed.

Lemma sg_aval_get_set kv k v : aval_get (aval_set (VMap kv) k v) k = Ok v.
Proof.
  cbn [aval_set aval_get]. rewrite sg_find_dict_set.
  destruct (find (fun p : string * aval => String.eqb (fst p) k) kv); reflexivity.
Qed.

Lemma sg_dict_set_set (kv : list (string * aval)) k v v' :
  py_dict_set String.eqb (py_dict_set String.eqb kv k v) k v' = py_dict_set String.eqb kv k v'.
Proof.
  induction kv as [|[k0 v0] kv IH]; cbn [py_dict_set].
  - rewrite String.eqb_refl. reflexivity.
  - destruct (String.eqb k0 k) eqn:E; cbn [py_dict_set]; rewrite E; [reflexivity|].
    rewrite IH. reflexivity.
Qed.

Lemma sg_aval_set_set kv k v v' :
  aval_set (aval_set (VMap kv) k v) k v' = aval_set (VMap kv) k v'.
Proof. cbn [aval_set]. rewrite sg_dict_set_set. reflexivity. Qed.

(* d[k] = v ; d[k][k1] = v1 ; d[k][k2] = v2 *)
Lemma sg_aval_update kv k v k1 v1 :
  bind (aval_get (aval_set (VMap kv) k v) k)
       (fun inner => Ok (aval_set (aval_set (VMap kv) k v) k (aval_set inner k1 v1)))
  = Ok (aval_set (VMap kv) k (aval_set v k1 v1)).
Proof. rewrite sg_aval_get_set. cbn [bind]. rewrite sg_aval_set_set. reflexivity. Qed.

(* ------------------------------------------------------------------ the two sorts *)
Lemma sg_insert_eq {A} (key : A -> string) x l : py_insert_str key x l = insert key str_ltb x l.
Proof.
  induction l as [|y ys IH]; cbn [py_insert_str insert]; [reflexivity|].
  rewrite IH. reflexivity.
Qed.

(* the stable sort of the code IS the sort of the model: both insert from left to right, an element after
   the earlier elements whose key is not greater *)
Lemma sg_sorted_sort_by {A} (key : A -> string) l :
  py_sorted_str key l = sort_by key str_ltb l.
Proof.
  unfold py_sorted_str, sort_by. generalize (@nil A) as acc.
  induction l as [|x xs IH]; intros acc; cbn [fold_left]; [reflexivity|].
  rewrite sg_insert_eq. apply IH.
Qed.

(* ------------------------------------------------------------------ loops *)
Lemma sg_flat_mapM_single {A B} (f : A -> result (list B)) (g : A -> B) (l : list A) :
  (forall x, In x l -> f x = Ok [g x]) -> py_flat_mapM f l = Ok (map g l).
Proof.
  intros H. rewrite (py_flat_mapM_ok f (fun x => [g x])); [|exact H].
  rewrite fm_flat_map_single. reflexivity.
Qed.

Lemma sg_foldM_dict {A} (step : aval -> A -> result aval) (kf : A -> string) (vf : A -> aval)
      (l : list A) :
  (forall kv x, In x l -> step (VMap kv) x = Ok (VMap (dict_set kv (kf x) (vf x)))) ->
  forall kv, foldM step l (VMap kv)
             = Ok (VMap (fold_left (fun acc x => dict_set acc (kf x) (vf x)) l kv)).
Proof.
  induction l as [|x xs IH]; intros H kv; cbn [foldM fold_left]; [reflexivity|].
  rewrite (H kv x (or_introl eq_refl)).
  change (foldM step xs (VMap (dict_set kv (kf x) (vf x)))
          = Ok (VMap (fold_left (fun acc x => dict_set acc (kf x) (vf x)) xs
                                (dict_set kv (kf x) (vf x))))).
  apply IH. intros kv' y Hy. apply H. right. exact Hy.
Qed.

(* ------------------------------------------------------------------ _get_ctc_info *)
Lemma sg_fuel_node_pos n : (3 <= fuel_node n)%nat.
Proof. unfold fuel_node. lia. Qed.

Lemma src_glencoe_ctc_info : forall n fuel, (fuel_node n <= fuel)%nat -> py__get_ctc_info fuel n = glencoe_ctc n.
Proof.
  induction n as [d|d a IHa|d b IHb|d a b IHa IHb] using gl_node_ind; intros fuel Hf;
    (destruct fuel as [|fuel]; [pose proof (sg_fuel_node_pos (Node d None None)); unfold fuel_node in *; cbn [nsize] in *; lia|]).
  all: unfold fuel_node in *; cbn [nsize] in Hf.
  all: cbn [py__get_ctc_info glencoe_ctc].
  all: destruct d as [o|s|z|r|b0]; try reflexivity.
  all: cbn [is_term is_op n_data negb n_left n_right py_need bind].
  all: destruct (glencoe_ctc_type o) as [ty|]; cbn [bind]; try reflexivity.
  - rewrite IHa by lia. destruct (glencoe_ctc a) as [ja|e]; reflexivity.
  - rewrite IHa by lia. destruct (glencoe_ctc a) as [ja|e]; cbn [bind]; [|reflexivity].
    rewrite IHb by lia. destruct (glencoe_ctc b) as [jb|e]; reflexivity.
Qed.

(* ------------------------------------------------------------------ _get_constraints_info *)
Lemma sg_foldM_dictM {A} (step : aval -> A -> result aval) (kf : A -> string)
      (vf : A -> result aval) (l : list A) :
  (forall kv x, In x l ->
     step (VMap kv) x = rmap (fun v => VMap (dict_set kv (kf x) v)) (vf x)) ->
  forall kv, foldM step l (VMap kv)
             = rmap VMap ((fix go (l : list A) (acc : list (string * aval))
                             : result (list (string * aval)) :=
                             match l with
                             | [] => Ok acc
                             | x :: l' => match vf x with
                                          | Err e => Err e
                                          | Ok j => go l' (dict_set acc (kf x) j)
                                          end
                             end) l kv).
Proof.
  induction l as [|x xs IH]; intros H kv; cbn [foldM]; [reflexivity|].
  rewrite (H kv x (or_introl eq_refl)).
  destruct (vf x) as [j|e]; cbn [rmap]; [|reflexivity].
  apply IH. intros kv' y Hy. apply H. right. exact Hy.
Qed.

Lemma sg_constraints_info cs fuel : (fuel_ctcs cs <= fuel)%nat ->
  py__get_constraints_info fuel cs = rmap VMap (gl_ctc_go cs []).
Proof.
  intros Hf. unfold py__get_constraints_info.
  rewrite (sg_foldM_dictM _ c_name (fun c => glencoe_ctc (c_ast c))).
  - change ((fix go (l : list ctc) (acc : list (string * aval)) : result (list (string * aval)) :=
               match l with
               | [] => Ok acc
               | x :: l' => match glencoe_ctc (c_ast x) with
                            | Err e => Err e
                            | Ok j => go l' (dict_set acc (c_name x) j)
                            end
               end) cs []) with (gl_ctc_go cs []).
    destruct (gl_ctc_go cs []) as [d|e]; reflexivity.
  - intros kv c Hc. rewrite src_glencoe_ctc_info.
    + destruct (glencoe_ctc (c_ast c)) as [j|e]; cbn [bind rmap]; [|reflexivity].
      rewrite sg_aval_set_map. reflexivity.
    + eapply Nat.le_trans; [|exact Hf]. unfold fuel_ctcs. apply le_list_sum.
      apply (in_map (fun c => fuel_node (c_ast c))). exact Hc.
Qed.

Lemma src_glencoe_constraints_info : forall cs fuel, (fuel_ctcs cs <= fuel)%nat ->
  exists r, py__get_constraints_info fuel cs = r /\
    (* the same dict, or the same error, as the loop inside glencoe_write *)
    r = rmap VMap ((fix go (cs : list ctc) (acc : list (string * aval)) : result (list (string * aval)) :=
           match cs with
           | [] => Ok acc
           | c :: cs' => match glencoe_ctc (c_ast c) with
                         | Err e => Err e
                         | Ok j => go cs' (dict_set acc (c_name c) j)
                         end
           end) cs []).
Proof.
  intros cs fuel Hf. eexists. split; [reflexivity|].
  rewrite (sg_constraints_info cs fuel Hf). reflexivity.
Qed.

(* ------------------------------------------------------------------ _get_tree_info *)
Lemma sg_sorted_map {A B} (key : A -> string) (key' : B -> string) (g : A -> B) l :
  (forall x, key' (g x) = key x) ->
  py_sorted_str key' (map g l) = map g (py_sorted_str key l).
Proof.
  intros Hk. rewrite !sg_sorted_sort_by. apply sort_by_map. exact Hk.
Qed.

Lemma sg_children_loc f anc :
  py_Feature_get_children (f, anc) = map (fun c => (c, f :: anc)) (children f).
Proof.
  unfold py_Feature_get_children, py_Feature_get_relations, lf_relations, children. cbn [fst].
  rewrite fm_flat_map_map, fm_map_flat_map. apply flat_map_ext. intros r.
  rewrite fm_flat_map_id. reflexivity.
Qed.

Lemma sg_glencoe_tree_unfold f :
  glencoe_tree f
  = VMap (("id", VStr (name f))
          :: match sort_by name str_ltb (children f) with
             | [] => []
             | _ :: _ => [("children", VList (map glencoe_tree (sort_by name str_ltb (children f))))]
             end).
Proof.
  destruct f as [i rs].
  assert (E : flat_map (fun r => match r with
                                 | Relation _ _ cs => map (fun c => (name c, glencoe_tree c)) cs
                                 end) rs
              = map (fun c => (name c, glencoe_tree c)) (children (Feature i rs))).
  { unfold children. cbn [rels]. rewrite fm_map_flat_map. apply flat_map_ext.
    intros [a b cs]. reflexivity. }
  change (glencoe_tree (Feature i rs))
    with (VMap (("id", VStr (f_name i))
                :: match sort_by fst str_ltb
                           (flat_map (fun r => match r with
                                               | Relation _ _ cs => map (fun c => (name c, glencoe_tree c)) cs
                                               end) rs) with
                   | [] => []
                   | _ :: _ => [("children",
                                 VList (map snd (sort_by fst str_ltb
                                   (flat_map (fun r => match r with
                                                       | Relation _ _ cs => map (fun c => (name c, glencoe_tree c)) cs
                                                       end) rs))))]
                   end)).
  rewrite E.
  rewrite (sort_by_map name fst (fun c => (name c, glencoe_tree c))) by (intros x; reflexivity).
  rewrite map_map. cbn [snd].
  destruct (sort_by name str_ltb (children (Feature i rs))); reflexivity.
Qed.

Lemma sg_fsize_child f c : In c (children f) -> (fsize c < fsize f)%nat.
Proof.
  destruct f as [i rs]. unfold children. cbn [rels]. intros Hin.
  apply in_flat_map in Hin. destruct Hin as [r [Hr Hc]].
  eapply fsize_child; eassumption.
Qed.

Lemma src_glencoe_tree_info : forall f anc fuel, (fsize f <= fuel)%nat ->
  py__get_tree_info fuel (f, anc) = Ok (glencoe_tree f).
Proof.
  intros f anc fuel. revert f anc.
  induction fuel as [|fuel IH]; intros f anc Hf.
  - destruct f as [i rs]. cbn [fsize] in Hf. lia.
  - cbn [py__get_tree_info]. rewrite sg_children_loc.
    rewrite (sg_sorted_map name (fun x : lfeat => name (fst x)) (fun c => (c, f :: anc)))
      by (intros x; reflexivity).
    rewrite (sg_sorted_sort_by name (children f)).
    rewrite (sg_flat_mapM_single _ (fun x : lfeat => glencoe_tree (fst x))).
    + cbn [bind]. rewrite map_map. cbn [fst]. rewrite sg_glencoe_tree_unfold.
      destruct (sort_by name str_ltb (children f)) as [|c cs]; reflexivity.
    + intros x Hx. apply in_map_iff in Hx. destruct Hx as [c [<- Hc]].
      assert (Hc' : In c (children f)).
      { eapply Permutation_in; [apply sort_by_perm|exact Hc]. }
      rewrite IH.
      * reflexivity.
      * pose proof (sg_fsize_child f c Hc'). lia.
Qed.

(* ------------------------------------------------------------------ _get_features_info *)
Lemma sg_genor_rels x :
  flat_map (fun r => if py_Relation_is_cardinal r then [r]
                     else if py_Relation_is_mutex r then [r] else [])
           (py_Feature_get_relations x)
  = map (fun r => (r, x)) (filter (fun r => rel_is_cardinal r || rel_is_mutex r) (rels (fst x))).
Proof.
  unfold py_Feature_get_relations, lf_relations. rewrite fm_flat_map_map.
  induction (rels (fst x)) as [|r rs IH]; cbn [flat_map filter]; [reflexivity|].
  rewrite src_rel_is_cardinal, src_rel_is_mutex, IH.
  destruct (rel_is_cardinal r); [reflexivity|]. destruct (rel_is_mutex r); reflexivity.
Qed.

Lemma sg_find_filter {A} (p : A -> bool) l : find p l = hd_error (filter p l).
Proof.
  induction l as [|x xs IH]; cbn [find filter]; [reflexivity|].
  destruct (p x); [reflexivity|exact IH].
Qed.

Lemma sg_existsb_filter {A} (q p : A -> bool) l :
  (forall x, q x = true -> p x = true) -> existsb q l = true -> filter p l <> [].
Proof.
  intros Hqp He EF. apply existsb_exists in He. destruct He as [x [Hx Hq]].
  assert (Hin : In x (filter p l)) by (apply filter_In; split; [exact Hx|apply Hqp; exact Hq]).
  rewrite EF in Hin. contradiction.
Qed.

Ltac sg_consts := cbn [String.eqb Ascii.eqb Bool.eqb andb].

(* the GENOR branch: the first cardinal-or-mutex relation exists *)
Lemma sg_genor_first f :
  feat_is_cardinality_group f || feat_is_mutex_group f = true ->
  exists r rest, filter (fun r => rel_is_cardinal r || rel_is_mutex r) (rels f) = r :: rest
                 /\ find (fun r => rel_is_cardinal r || rel_is_mutex r) (rels f) = Some r.
Proof.
  intros H. rewrite sg_find_filter.
  destruct (filter (fun r => rel_is_cardinal r || rel_is_mutex r) (rels f)) as [|r rest] eqn:EF.
  - exfalso. apply orb_true_iff in H. destruct H as [H|H].
    + revert EF. apply (sg_existsb_filter rel_is_cardinal); [|exact H].
      intros x Hx. rewrite Hx. reflexivity.
    + revert EF. apply (sg_existsb_filter rel_is_mutex); [|exact H].
      intros x Hx. rewrite Hx. apply orb_true_r.
  - exists r, rest. split; reflexivity.
Qed.

Lemma sg_features_info_any (l : list lfeat) :
  py__get_features_info l
  = Ok (VMap (fold_left (fun acc (x : lfeat) =>
                           dict_set acc (name (fst x)) (glencoe_feature_info (hd_error (snd x)) (fst x)))
                        (py_sorted_str (fun x : lfeat => name (fst x)) l) [])).
Proof.
  unfold py__get_features_info.
  rewrite (sg_foldM_dict _ (fun x : lfeat => name (fst x))
                         (fun x : lfeat => glencoe_feature_info (hd_error (snd x)) (fst x))).
  - reflexivity.
  - intros kv [f anc] _. cbv zeta. cbn [fst snd].
    rewrite src_feat_is_alternative_group, src_feat_is_or_group, src_feat_is_cardinality_group,
      src_feat_is_mutex_group, src_feat_is_mandatory. cbn [fst].
    rewrite sg_genor_rels. cbn [fst].
    unfold glencoe_feature_info, glencoe_feature_type.
    destruct (feat_is_alternative_group f) eqn:Ealt.
    { sg_consts. rewrite sg_aval_set_map. reflexivity. }
    destruct (feat_is_or_group f) eqn:Eor.
    { sg_consts. rewrite sg_aval_set_map. reflexivity. }
    destruct (feat_is_cardinality_group f || feat_is_mutex_group f) eqn:Egen.
    + destruct (sg_genor_first f Egen) as [r [rest [EF Efind]]].
      rewrite EF, Efind. cbn [map].
      destruct (feat_is_cardinality_group f) eqn:Ecard;
        [|destruct (feat_is_mutex_group f) eqn:Emut; [|discriminate Egen]].
      all: sg_consts; cbn [bind fst]; rewrite sg_aval_update; cbn [bind];
        rewrite sg_aval_update; cbn [bind]; rewrite sg_aval_set_map; reflexivity.
    + apply orb_false_iff in Egen. destruct Egen as [Ecard Emut]. rewrite Ecard, Emut.
      sg_consts. rewrite sg_aval_set_map. reflexivity.
Qed.

Lemma sg_fold_left_map {A B S} (f : S -> B -> S) (g : A -> B) l :
  forall s, fold_left f (map g l) s = fold_left (fun a x => f a (g x)) l s.
Proof. induction l as [|x xs IH]; intros s; cbn [map fold_left]; [reflexivity|]. apply IH. Qed.

Lemma src_glencoe_features_info : forall m,
  py__get_features_info (loc_features m) = Ok (glencoe_features m).
Proof.
  intros m. rewrite sg_features_info_any. unfold glencoe_features.
  rewrite <- loc_features_ctx.
  rewrite (sort_by_map (fun x : lfeat => name (fst x))
                       (fun pf : option feature * feature => name (snd pf))
                       (fun x : lfeat => (hd_error (snd x), fst x))) by (intros x; reflexivity).
  rewrite sg_fold_left_map. cbn [fst snd].
  rewrite sg_sorted_sort_by. reflexivity.
Qed.

(* ------------------------------------------------------------------ _to_json *)
(* no hypothesis on the names: the model's sort_by is the stable sort of the code (sg_sorted_sort_by), so the
   two agree also on siblings of one name *)
Theorem src_glencoe_to_json : forall m fuel, (fuel_model m <= fuel)%nat ->
  py__to_json fuel m = glencoe_write m.
Proof.
  intros m fuel Hf. unfold fuel_model, fuel_tree in Hf.
  unfold py__to_json. rewrite src_get_features by (unfold fuel_tree; lia).
  cbn [bind]. rewrite (src_glencoe_features_info m). cbn [bind].
  unfold fm_root_l. rewrite (src_glencoe_tree_info (root m) [] fuel) by lia.
  cbn [bind]. unfold py_FeatureModel_get_constraints.
  rewrite (sg_constraints_info (ctcs m) fuel) by lia.
  rewrite glencoe_write_unfold.
  destruct (gl_ctc_go (ctcs m) []) as [d|e]; reflexivity.
Qed.

(* two siblings of one name (where an unstable sort of the model would differ from the code) *)
Example src_glencoe_equal_names :
  let m := {| root := Feature (mk_info "R")
                      [Relation 1 1 [Feature (mk_info "A")
                                       [Relation 1 2 [leaf "x"; leaf "y"]]];
                       Relation 1 1 [Feature (mk_info "A")
                                       [Relation 1 1 [leaf "z"; leaf "w"]]]];
              ctcs := [] |} in
  py__to_json (fuel_model m) m = glencoe_write m.
Proof. vm_compute. reflexivity. Qed.

Print Assumptions src_glencoe_ctc_info.
Print Assumptions src_glencoe_constraints_info.
Print Assumptions src_glencoe_tree_info.
Print Assumptions src_glencoe_features_info.
Print Assumptions src_glencoe_to_json.
