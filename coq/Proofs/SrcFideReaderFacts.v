(* Source tie for the FeatureIDE reader: the translations of FeatureIDEReader._parse_rule and
   FeatureIDEReader._read_constraints (Gen/Src_fider.v) against the hand model fide_parse_rule /
   fide_read_constraints (Format/Xml.v).

   Both are EQUALITIES of results (same tree on success, same exception otherwise) as soon as the fuel of
   the translation covers the depth of the document (and, for the `while` that skips graphics / description
   children, the number of children of a rule).

   Proof plan: a hand-written one-step function [rule_step rec rule] (what one call does, the recursive
   calls being [rec]); the translation with fuel [S n] is [rule_step] of the translation with fuel [n]
   ([src_parse_rule_S]), the model is a fixed point of [rule_step] ([fide_parse_rule_step]), and [rule_step]
   only asks [rec] about the children of the rule ([rule_step_ext]).  None of the proofs mentions a generated
   bound-variable name. *)
From Coq Require Import List Bool Ascii String ZArith Lia PeanoNat.
From FM Require Import Base.Result Base.Str Base.AstOp Model.Ast Model.FM Model.PyRt Format.Xml
  Gen.Tables_fide Gen.Src_fider.
Import ListNotations.
Local Open Scope list_scope.

(* ------------------------------------------------------------------ general helper lemmas *)
Lemma bind_ok_r {A} (r : result A) : bind r (fun x => Ok x) = r.
Proof. destruct r; reflexivity. Qed.

Lemma foldM_ext_in {S A} (f g : S -> A -> result S) : forall (l : list A) (s : S),
  (forall s' a, In a l -> f s' a = g s' a) -> foldM f l s = foldM g l s.
Proof.
  induction l as [|x xs IH]; intros s Hfg; [reflexivity|].
  cbn [foldM]. rewrite (Hfg s x (or_introl eq_refl)).
  destruct (g s x) as [s'|e]; [|reflexivity].
  apply IH. intros s'' a Ha. apply Hfg. right. exact Ha.
Qed.

Lemma py_index_nth {A} : forall (l : list A) (i : nat),
  py_index l (Z.of_nat i) = match nth_error l i with Some x => Ok x | None => Err IndexError end.
Proof.
  intros l i. unfold py_index.
  destruct (Z.of_nat i <? 0)%Z eqn:E1; [apply Z.ltb_lt in E1; lia|].
  rewrite E1. rewrite Nat2Z.id. reflexivity.
Qed.

Lemma py_index_0 {A} : forall (l : list A),
  py_index l 0%Z = match l with x :: _ => Ok x | [] => Err IndexError end.
Proof. intros l. change 0%Z with (Z.of_nat 0). rewrite (py_index_nth l 0). destruct l; reflexivity. Qed.

Lemma py_index_1 {A} : forall (l : list A),
  py_index l 1%Z = match l with _ :: x :: _ => Ok x | _ => Err IndexError end.
Proof. intros l. change 1%Z with (Z.of_nat 1). rewrite (py_index_nth l 1). destruct l as [|a [|b l]]; reflexivity. Qed.

Lemma py_index_in {A} : forall (l : list A) (i : Z) (x : A), py_index l i = Ok x -> In x l.
Proof.
  intros l i x. unfold py_index.
  destruct ((if (i <? 0)%Z then (i + py_len l)%Z else i) <? 0)%Z; [discriminate|].
  destruct (nth_error l (Z.to_nat (if (i <? 0)%Z then (i + py_len l)%Z else i))) as [y|] eqn:E; [|discriminate].
  intros H. injection H as ->. exact (nth_error_In _ _ E).
Qed.

Lemma py_index_app_here {A} : forall (pre l : list A),
  py_index (pre ++ l) (Z.of_nat (List.length pre))
  = match l with x :: _ => Ok x | [] => Err IndexError end.
Proof.
  intros pre l. rewrite py_index_nth.
  destruct l as [|x l].
  - rewrite app_nil_r. destruct (nth_error pre (List.length pre)) eqn:E; [|reflexivity].
    apply (f_equal (fun o => match o with Some _ => true | None => false end)) in E.
    assert (Hn : nth_error pre (List.length pre) = None) by (apply nth_error_None; lia).
    rewrite Hn in E. discriminate.
  - rewrite nth_error_app2 by lia. rewrite Nat.sub_diag. reflexivity.
Qed.

Lemma skipn1_in {A} : forall (l : list A) (x : A), In x (skipn 1 l) -> In x l.
Proof. intros [|a l] x H; [exact H|]. right. exact H. Qed.

Lemma list_max_map_in {A} (g : A -> nat) : forall (l : list A) (x : A),
  In x l -> (g x <= list_max (map g l))%nat.
Proof.
  induction l as [|y ys IH]; intros x Hin; [destruct Hin|].
  cbn [map list_max fold_right]. destruct Hin as [->|Hin]; [lia|].
  specialize (IH x Hin). unfold list_max in IH. lia.
Qed.

(* ------------------------------------------------------------------ depth of an element tree *)
Fixpoint xml_depth (x : xml) : nat :=
  match x with Elem _ _ _ kids => S (list_max (map xml_depth kids)) end.

Lemma xml_depth_child : forall (x k : xml), In k (x_children x) -> (xml_depth k < xml_depth x)%nat.
Proof.
  intros [tag attrs text kids] k Hin. cbn [x_children] in Hin. cbn [xml_depth].
  pose proof (list_max_map_in xml_depth kids k Hin). lia.
Qed.

Lemma xml_depth_pos : forall x : xml, (1 <= xml_depth x)%nat.
Proof. intros [tag attrs text kids]. cbn [xml_depth]. lia. Qed.

(* ------------------------------------------------------------------ one call of _parse_rule *)
Definition rs_sub (rec : xml -> result node) (kids : list xml) (i : Z) : result node :=
  match py_index kids i with Err e => Err e | Ok k => rec k end.

Definition rs_fold (rec : xml -> result node) (o : astop) (ks : list xml) (n0 : node) : result node :=
  foldM (fun acc k => match rec k with Err e => Err e | Ok n => Ok (bin o acc n) end) ks n0.

Definition rule_step (rec : xml -> result node) (rule : xml) : result node :=
  if String.eqb (x_tag rule) fide_TAG_VAR then
    match x_text rule with Some t => Ok (term t) | None => Err FlamaException end
  else if String.eqb (x_tag rule) fide_TAG_NOT then
    match rs_sub rec (x_children rule) 0%Z with Err e => Err e | Ok a => Ok (un NOT a) end
  else if String.eqb (x_tag rule) fide_TAG_IMP then
    match rs_sub rec (x_children rule) 0%Z with Err e => Err e | Ok a =>
    match rs_sub rec (x_children rule) 1%Z with Err e => Err e | Ok b => Ok (bin IMPLIES a b) end end
  else if String.eqb (x_tag rule) fide_TAG_EQ then
    match rs_sub rec (x_children rule) 0%Z with Err e => Err e | Ok a =>
    match rs_sub rec (x_children rule) 1%Z with Err e => Err e | Ok b =>
      Ok (bin AND (bin IMPLIES a b) (bin IMPLIES b a)) end end
  else if String.eqb (x_tag rule) fide_TAG_DISJ || String.eqb (x_tag rule) fide_TAG_CONJ then
    match rs_sub rec (x_children rule) 0%Z with
    | Err e => Err e
    | Ok n0 => rs_fold rec (if String.eqb (x_tag rule) fide_TAG_DISJ then OR else AND)
                       (skipn 1 (x_children rule)) n0
    end
  else Err UnboundLocalError.

Lemma rs_sub_ext : forall (rec1 rec2 : xml -> result node) (kids : list xml) (i : Z),
  (forall k, In k kids -> rec1 k = rec2 k) -> rs_sub rec1 kids i = rs_sub rec2 kids i.
Proof.
  intros rec1 rec2 kids i H. unfold rs_sub.
  destruct (py_index kids i) as [k|e] eqn:E; [|reflexivity].
  apply H. exact (py_index_in _ _ _ E).
Qed.

Lemma rs_fold_ext : forall (rec1 rec2 : xml -> result node) (o : astop) (ks : list xml) (n0 : node),
  (forall k, In k ks -> rec1 k = rec2 k) -> rs_fold rec1 o ks n0 = rs_fold rec2 o ks n0.
Proof.
  intros rec1 rec2 o ks n0 H. unfold rs_fold. apply foldM_ext_in.
  intros acc k Hk. rewrite (H k Hk). reflexivity.
Qed.

(* [rule_step] asks [rec] about the children of the rule only *)
Lemma rule_step_ext : forall (rec1 rec2 : xml -> result node) (rule : xml),
  (forall k, In k (x_children rule) -> rec1 k = rec2 k) -> rule_step rec1 rule = rule_step rec2 rule.
Proof.
  intros rec1 rec2 rule H. unfold rule_step.
  rewrite (rs_sub_ext rec1 rec2 (x_children rule) 0%Z H).
  rewrite (rs_sub_ext rec1 rec2 (x_children rule) 1%Z H).
  destruct (String.eqb (x_tag rule) fide_TAG_VAR); [reflexivity|].
  destruct (String.eqb (x_tag rule) fide_TAG_NOT); [reflexivity|].
  destruct (String.eqb (x_tag rule) fide_TAG_IMP); [reflexivity|].
  destruct (String.eqb (x_tag rule) fide_TAG_EQ); [reflexivity|].
  destruct (String.eqb (x_tag rule) fide_TAG_DISJ || String.eqb (x_tag rule) fide_TAG_CONJ); [|reflexivity].
  destruct (rs_sub rec2 (x_children rule) 0%Z) as [n0|e]; [|reflexivity].
  apply rs_fold_ext. intros k Hk. apply H. exact (skipn1_in _ _ Hk).
Qed.

(* ---- the translation: fuel S n is one step over fuel n *)
Lemma src_parse_rule_S : forall (fuel : nat) (w : py_FeatureIDEReader_state) (rule : xml),
  py_FeatureIDEReader__parse_rule (S fuel) w rule
  = rule_step (py_FeatureIDEReader__parse_rule fuel w) rule.
Proof.
  intros fuel w rule. cbn [py_FeatureIDEReader__parse_rule]. unfold rule_step, rs_sub. cbv zeta.
  destruct (String.eqb (x_tag rule) fide_TAG_VAR) eqn:Evar.
  { destruct (x_text rule) as [t|]; reflexivity. }
  destruct (String.eqb (x_tag rule) fide_TAG_NOT) eqn:Enot.
  { destruct (py_index (x_children rule) 0%Z) as [k0|e0]; [|reflexivity]. cbn [bind].
    destruct (py_FeatureIDEReader__parse_rule fuel w k0) as [a|e]; reflexivity. }
  destruct (String.eqb (x_tag rule) fide_TAG_IMP) eqn:Eimp.
  { destruct (py_index (x_children rule) 0%Z) as [k0|e0]; [|reflexivity]. cbn [bind].
    destruct (py_FeatureIDEReader__parse_rule fuel w k0) as [a|e]; [|reflexivity]. cbn [bind].
    destruct (py_index (x_children rule) 1%Z) as [k1|e1]; [|reflexivity]. cbn [bind].
    destruct (py_FeatureIDEReader__parse_rule fuel w k1) as [b|e]; reflexivity. }
  destruct (String.eqb (x_tag rule) fide_TAG_EQ) eqn:Eeq.
  { destruct (py_index (x_children rule) 0%Z) as [k0|e0]; [|reflexivity]. cbn [bind].
    destruct (py_FeatureIDEReader__parse_rule fuel w k0) as [a|e]; [|reflexivity]. cbn [bind].
    destruct (py_index (x_children rule) 1%Z) as [k1|e1]; [|reflexivity]. cbn [bind].
    destruct (py_FeatureIDEReader__parse_rule fuel w k1) as [b|e]; reflexivity. }
  cbn [existsb].
  rewrite (String.eqb_sym fide_TAG_DISJ (x_tag rule)), (String.eqb_sym fide_TAG_CONJ (x_tag rule)), orb_false_r.
  destruct (String.eqb (x_tag rule) fide_TAG_DISJ || String.eqb (x_tag rule) fide_TAG_CONJ); [|reflexivity].
  destruct (py_index (x_children rule) 0%Z) as [k0|e0]; [|reflexivity]. cbn [bind].
  destruct (py_FeatureIDEReader__parse_rule fuel w k0) as [n0|e]; [|reflexivity]. cbn [bind].
  rewrite bind_ok_r. unfold rs_fold. apply foldM_ext_in.
  intros acc k _.
  destruct (py_FeatureIDEReader__parse_rule fuel w k) as [n|e]; reflexivity.
Qed.

(* ---- the model is a fixed point of the step *)
Definition pr_go (o : astop) : node -> list xml -> result node :=
  fix go (acc : node) (ks : list xml) : result node :=
    match ks with
    | [] => Ok acc
    | k :: ks' => match fide_parse_rule k with Err e => Err e | Ok n => go (bin o acc n) ks' end
    end.

Lemma pr_go_fold : forall (o : astop) (ks : list xml) (acc : node),
  pr_go o acc ks = rs_fold fide_parse_rule o ks acc.
Proof.
  intros o. induction ks as [|k ks IH]; intros acc; [reflexivity|].
  cbn [pr_go]. unfold rs_fold. cbn [foldM].
  destruct (fide_parse_rule k) as [n|e]; [|reflexivity].
  exact (IH (bin o acc n)).
Qed.

Lemma fide_parse_rule_step : forall rule : xml, fide_parse_rule rule = rule_step fide_parse_rule rule.
Proof.
  intros [tag attrs text kids]. unfold rule_step, rs_sub. cbn [x_tag x_text x_children].
  rewrite py_index_0, py_index_1. cbn [fide_parse_rule].
  destruct (String.eqb tag fide_TAG_VAR); [reflexivity|].
  destruct (String.eqb tag fide_TAG_NOT).
  { destruct kids as [|k0 ks]; reflexivity. }
  destruct (String.eqb tag fide_TAG_IMP).
  { destruct kids as [|k0 [|k1 ks]]; reflexivity. }
  destruct (String.eqb tag fide_TAG_EQ).
  { destruct kids as [|k0 [|k1 ks]]; reflexivity. }
  destruct (String.eqb tag fide_TAG_DISJ || String.eqb tag fide_TAG_CONJ); [|reflexivity].
  destruct kids as [|k0 ks]; [reflexivity|]. cbn [skipn].
  destruct (fide_parse_rule k0) as [n0|e]; [|reflexivity].
  exact (pr_go_fold _ ks n0).
Qed.

(* ------------------------------------------------------------------ _parse_rule *)
Theorem src_fide_parse_rule : forall w rule fuel, (xml_depth rule <= fuel)%nat ->
  py_FeatureIDEReader__parse_rule fuel w rule = fide_parse_rule rule.
Proof.
  intros w rule fuel. revert rule.
  induction fuel as [|fuel IH]; intros rule Hd.
  - pose proof (xml_depth_pos rule). lia.
  - rewrite src_parse_rule_S. rewrite (fide_parse_rule_step rule).
    apply rule_step_ext. intros k Hk. apply IH.
    pose proof (xml_depth_child rule k Hk). lia.
Qed.

(* ------------------------------------------------------------------ _read_constraints *)
Fixpoint rc_skip (l : list xml) : result xml :=
  match l with
  | [] => Err IndexError
  | x :: l' => if fide_skipped x then rc_skip l' else Ok x
  end.

Fixpoint rc_go (number : Z) (rules : list xml) : result (list ctc) :=
  match rules with
  | [] => Ok []
  | r :: rest =>
      match rc_skip (x_children r) with
      | Err e => Err e
      | Ok rule =>
          match fide_parse_rule rule with Err e => Err e | Ok n =>
          match rc_go (number + 1)%Z rest with Err e => Err e | Ok cs =>
            Ok ({| c_name := z_to_string number; c_ast := n |} :: cs) end end
      end
  end.

Lemma fide_read_constraints_go : forall x : xml, fide_read_constraints x = rc_go 1%Z (x_children x).
Proof. intros x. reflexivity. Qed.

Lemma rc_skip_in : forall (l : list xml) (x : xml), rc_skip l = Ok x -> In x l.
Proof.
  induction l as [|y l IH]; intros x H; [discriminate|].
  cbn [rc_skip] in H. destruct (fide_skipped y).
  - right. exact (IH x H).
  - left. injection H as ->. reflexivity.
Qed.

(* the `while` over the index, followed by the use of the index *)
Lemma while_skip {B} : forall (l pre : list xml) (fuel : nat) (step : Z -> result (option Z)) (k : xml -> result B),
  (forall i, step i = match py_index (pre ++ l) i with
                      | Err e => Err e
                      | Ok x => if fide_skipped x then Ok (Some (i + 1)%Z) else Ok None
                      end) ->
  (List.length l < fuel)%nat ->
  bind (whileM fuel step (Z.of_nat (List.length pre))) (fun i => bind (py_index (pre ++ l) i) k)
  = match rc_skip l with Err e => Err e | Ok x => k x end.
Proof.
  induction l as [|x l IH]; intros pre fuel step k Hstep Hlen.
  - destruct fuel as [|fuel]; [cbn [List.length] in Hlen; lia|].
    cbn [whileM]. rewrite Hstep, py_index_app_here. reflexivity.
  - destruct fuel as [|fuel]; [lia|].
    cbn [whileM]. rewrite Hstep, py_index_app_here. cbn [rc_skip].
    destruct (fide_skipped x).
    + assert (Hpre : (Z.of_nat (List.length pre) + 1)%Z = Z.of_nat (List.length (pre ++ [x]))).
      { rewrite app_length. cbn [List.length]. lia. }
      rewrite Hpre.
      assert (Happ : pre ++ x :: l = (pre ++ [x]) ++ l) by (rewrite <- app_assoc; reflexivity).
      rewrite Happ. apply IH.
      * intros i. rewrite <- Happ. apply Hstep.
      * cbn [List.length] in Hlen. lia.
    + cbn [bind]. rewrite py_index_app_here. reflexivity.
Qed.

Lemma while_skip0 {B} : forall (l : list xml) (fuel : nat) (step : Z -> result (option Z)) (k : xml -> result B),
  (forall i, step i = match py_index l i with
                      | Err e => Err e
                      | Ok x => if fide_skipped x then Ok (Some (i + 1)%Z) else Ok None
                      end) ->
  (List.length l < fuel)%nat ->
  bind (whileM fuel step 0%Z) (fun i => bind (py_index l i) k)
  = match rc_skip l with Err e => Err e | Ok x => k x end.
Proof. intros l fuel step k Hstep Hlen. exact (while_skip l [] fuel step k Hstep Hlen). Qed.

(* one turn of the loop over the rules *)
Definition rc_step (parse : xml -> result node) (st : list ctc * Z) (r : xml) : result (list ctc * Z) :=
  match rc_skip (x_children r) with
  | Err e => Err e
  | Ok rule =>
      match parse rule with
      | Err e => Err e
      | Ok n => Ok (fst st ++ [{| c_name := z_to_string (snd st); c_ast := n |}], (snd st + 1)%Z)
      end
  end.

Lemma rc_fold_go : forall (l : list xml) (acc : list ctc) (num : Z),
  foldM (rc_step fide_parse_rule) l (acc, num)
  = match rc_go num l with
    | Err e => Err e
    | Ok cs => Ok (acc ++ cs, (num + Z.of_nat (List.length l))%Z)
    end.
Proof.
  induction l as [|r l IH]; intros acc num.
  - cbn [foldM rc_go List.length]. rewrite app_nil_r. replace (num + Z.of_nat 0)%Z with num by lia. reflexivity.
  - cbn [foldM rc_go]. unfold rc_step at 1. cbn [fst snd].
    destruct (rc_skip (x_children r)) as [rule|e]; [|reflexivity].
    destruct (fide_parse_rule rule) as [n|e]; [|reflexivity].
    change (foldM (rc_step fide_parse_rule) l (acc ++ [{| c_name := z_to_string num; c_ast := n |}], (num + 1)%Z)
            = match match rc_go (num + 1)%Z l with
                    | Err e => Err e
                    | Ok cs => Ok ({| c_name := z_to_string num; c_ast := n |} :: cs)
                    end with
              | Err e => Err e
              | Ok cs => Ok (acc ++ cs, (num + Z.of_nat (List.length (r :: l)))%Z)
              end).
    rewrite IH. destruct (rc_go (num + 1)%Z l) as [cs|e]; [|reflexivity].
    rewrite <- app_assoc. cbn [app List.length].
    replace (num + 1 + Z.of_nat (List.length l))%Z with (num + Z.of_nat (S (List.length l)))%Z by lia.
    reflexivity.
Qed.

(* the fuel that suffices: the depth of the document, and one more than the number of children of every rule *)
Definition rc_fuel (ctcs_root : xml) : nat :=
  (xml_depth ctcs_root + S (list_max (map (fun r => List.length (x_children r)) (x_children ctcs_root))))%nat.

Theorem src_fide_read_constraints : forall w ctcs_root, exists n0, forall fuel, (n0 <= fuel)%nat ->
  py_FeatureIDEReader__read_constraints fuel w ctcs_root = fide_read_constraints ctcs_root.
Proof.
  intros w ctcs_root. exists (rc_fuel ctcs_root). intros fuel Hfuel.
  rewrite fide_read_constraints_go. unfold py_FeatureIDEReader__read_constraints. cbv zeta.
  erewrite foldM_ext_in with (g := rc_step fide_parse_rule).
  - rewrite rc_fold_go. destruct (rc_go 1%Z (x_children ctcs_root)) as [cs|e]; reflexivity.
  - intros [cs num] r Hr. cbv beta iota.
    assert (Hlen : (List.length (x_children r) < fuel)%nat).
    { pose proof (list_max_map_in (fun r => List.length (x_children r)) (x_children ctcs_root) r Hr) as Hm.
      cbv beta in Hm. unfold rc_fuel in Hfuel. lia. }
    erewrite while_skip0; [| |exact Hlen].
    + unfold rc_step. cbn [fst snd].
      destruct (rc_skip (x_children r)) as [rule|e] eqn:Eskip; [|reflexivity].
      rewrite src_fide_parse_rule.
      * destruct (fide_parse_rule rule) as [n|e]; reflexivity.
      * pose proof (xml_depth_child r rule (rc_skip_in _ _ Eskip)).
        pose proof (xml_depth_child ctcs_root r Hr). unfold rc_fuel in Hfuel. lia.
    + intros i. cbv beta.
      destruct (py_index (x_children r) i) as [x|e]; [|reflexivity]. cbn [bind existsb].
      unfold fide_skipped.
      rewrite (String.eqb_sym fide_TAG_GRAPHICS (x_tag x)), (String.eqb_sym fide_TAG_DESCRIPTION (x_tag x)), orb_false_r.
      destruct (String.eqb (x_tag x) fide_TAG_GRAPHICS || String.eqb (x_tag x) fide_TAG_DESCRIPTION); reflexivity.
Qed.

Print Assumptions src_fide_parse_rule.
Print Assumptions src_fide_read_constraints.
