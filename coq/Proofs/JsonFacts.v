(* Proofs/JsonFacts.v — the JSON writer / reader pair (Format/Json.v):
   C05: reading what the writer wrote returns the same model with correct back pointers, for any
        number of write/read cycles;
   C02: for EVERY document the reader accepts, the back pointers are right and every constraint has
        the shape the library consumes. *)
From Coq Require Import List Bool Ascii String ZArith Lia.
From FM Require Import Base.Result Base.Str Base.AstOp Gen.Tables_core Model.Ast Model.FM Model.PFM
     Model.Queries Gen.Tables_json Format.Json Proofs.C16Facts.
Import ListNotations.
Local Open Scope string_scope.
Local Open Scope list_scope.

(* ------------------------------------------------------------------ the JSON fragment (C05) *)
(* Boolean features with default cardinality, abstract flag a Boolean, attributes without
   domain / null value, constraints = shape-correct trees over the logical operators whose terms are
   scalars *)
Definition attr_json_ok (a : attr) : bool :=
  match a_dom a, a_null a with None, VNone => true | _, _ => false end.
Definition info_json_ok (i : finfo) : bool :=
  ftype_eqb (f_type i) TBoolean && (f_cmin i =? 1)%Z && (f_cmax i =? 1)%Z
  && match f_abstract i with VBool _ => true | _ => false end
  && forallb attr_json_ok (f_attrs i).
Fixpoint feature_json_ok (f : feature) : bool :=
  match f with Feature i rs =>
    info_json_ok i && forallb (fun r => match r with Relation _ _ cs => forallb feature_json_ok cs end) rs end.
Fixpoint node_json_ok (n : node) : bool :=
  match n with
  | Node (DOp o) l r =>
      op_in o logical_ops &&
      (if astop_eqb o NOT then match l, r with Some a, None => node_json_ok a | _, _ => false end
       else match l, r with Some a, Some b => node_json_ok a && node_json_ok b | _, _ => false end)
  | Node _ None None => true
  | Node _ _ _ => false
  end.
Definition json_ok (m : fm) : bool :=
  feature_json_ok (root m) && forallb (fun c => node_json_ok (c_ast c)) (ctcs m).

(* ------------------------------------------------------------------ generic helpers *)
Lemma path_eqb_refl : forall p, path_eqb p p = true.
Proof.
  unfold path_eqb. induction p as [|[i j] p IH]; [reflexivity|].
  rewrite !Nat.eqb_refl. exact IH.
Qed.

Lemma ptr_eqb_refl : forall p, ptr_eqb p p = true.
Proof. intros [|p|]; cbn [ptr_eqb]; [reflexivity|apply path_eqb_refl|reflexivity]. Qed.

Lemma mapM_nil {A B} (f : A -> result B) : mapM f [] = Ok [].
Proof. reflexivity. Qed.

Lemma mapM_cons {A B} (f : A -> result B) x xs :
  mapM f (x :: xs) =
  match f x with
  | Err e => Err e
  | Ok y => match mapM f xs with Err e => Err e | Ok ys => Ok (y :: ys) end
  end.
Proof. reflexivity. Qed.

Lemma mapM_Forall2 {A B} (f : A -> result B) : forall l ys,
  mapM f l = Ok ys -> Forall2 (fun x y => f x = Ok y) l ys.
Proof.
  induction l as [|x xs IH]; intros ys H.
  - rewrite mapM_nil in H. inversion H. constructor.
  - rewrite mapM_cons in H. destruct (f x) as [y|e] eqn:Hx; [|discriminate].
    destruct (mapM f xs) as [ys'|e] eqn:Hxs; [|discriminate].
    inversion H; subst. constructor; [exact Hx|apply IH; reflexivity].
Qed.

Lemma mapM_ext_ok {A B} (f g : A -> result B) : forall l ys,
  (forall x y, f x = Ok y -> g x = Ok y) -> mapM f l = Ok ys -> mapM g l = Ok ys.
Proof.
  intros l ys Hfg. revert ys. induction l as [|x xs IH]; intros ys H.
  - exact H.
  - rewrite mapM_cons in H. rewrite mapM_cons.
    destruct (f x) as [y|e] eqn:Hx; [|discriminate].
    destruct (mapM f xs) as [ys'|e] eqn:Hxs; [|discriminate].
    rewrite (Hfg _ _ Hx), (IH _ eq_refl). exact H.
Qed.

Lemma fold_max_in {A} (g : A -> nat) : forall l x,
  In x l -> g x <= fold_right Nat.max 0 (map g l).
Proof.
  induction l as [|y l IH]; intros x Hin; [destruct Hin|].
  cbn [map fold_right]. destruct Hin as [->|Hin]; [lia|].
  specialize (IH _ Hin). lia.
Qed.

Lemma aval_depth_VList l : aval_depth (VList l) = S (fold_right Nat.max 0 (map aval_depth l)).
Proof. reflexivity. Qed.
Lemma aval_depth_VMap kv :
  aval_depth (VMap kv) = S (fold_right Nat.max 0 (map (fun p => aval_depth (snd p)) kv)).
Proof. reflexivity. Qed.

Lemma depth_list_in : forall l x, In x l -> aval_depth x < aval_depth (VList l).
Proof.
  intros l x Hin. rewrite aval_depth_VList.
  pose proof (fold_max_in aval_depth l x Hin). lia.
Qed.

Lemma assoc_in : forall k kv v, assoc k kv = Some v -> In (k, v) kv.
Proof.
  induction kv as [|[k' v'] kv IH]; intros v H; [discriminate|].
  cbn [assoc] in H. destruct (String.eqb k k') eqn:E.
  - apply String.eqb_eq in E. inversion H; subst. left; reflexivity.
  - right. apply IH. exact H.
Qed.

Lemma depth_map_assoc : forall k kv v, assoc k kv = Some v -> aval_depth v < aval_depth (VMap kv).
Proof.
  intros k kv v H. apply assoc_in in H. rewrite aval_depth_VMap.
  pose proof (fold_max_in (fun p : string * aval => aval_depth (snd p)) kv (k, v) H) as Hm.
  cbn [snd] in Hm. lia.
Qed.

Lemma depth_jget : forall k o v, jget k o = Ok v -> aval_depth v < aval_depth o.
Proof.
  intros k o v H. destruct o; try discriminate. cbn [jget] in H.
  destruct (assoc k kv) eqn:E; [|discriminate]. inversion H; subst.
  eapply depth_map_assoc; eassumption.
Qed.

(* ------------------------------------------------------------------ the tree reader, unfolded *)
(* the inner loops of [json_parse_tree] as top-level definitions, parametrised by the recursive call;
   they are convertible with the anonymous [fix]es of the reader *)
Definition rd_goc (rec : path -> ptr -> aval -> result pfeature) (here : path) (k : nat) :=
  fix goc (j : nat) (chl : list aval) : result (list pfeature) :=
    match chl with
    | [] => Ok []
    | c :: cs =>
        match rec (here ++ [(k, j)]) (PPath here) c with
        | Err e => Err e
        | Ok pc => match goc (S j) cs with
                   | Err e => Err e
                   | Ok pcs => Ok (pc :: pcs)
                   end
        end
    end.

Definition rd_go (rec : path -> ptr -> aval -> result pfeature) (here : path) :=
  fix go (k : nat) (rels : list aval) : result (list prelation) :=
    match rels with
    | [] => Ok []
    | rel :: rest =>
        match jget "children" rel with Err e => Err e | Ok chv =>
        match jlist chv with Err e => Err e | Ok chl =>
        match rd_goc rec here k 0%nat chl with
        | Err e => Err e
        | Ok [] => Err ParsingException
        | Ok ((_ :: _) as children) =>
            match jget "type" rel with Err e => Err e | Ok tv =>
            match jstr tv with Err e => Err e | Ok rtype =>
            match json_relation_cards rtype rel (List.length children) with
            | Err e => Err e
            | Ok (a, b) =>
                match go (S k) rest with
                | Err e => Err e
                | Ok prs => Ok (PRelation (PPath here) a b children :: prs)
                end
            end end end
        end end end
    end.

(* one relation *)
Definition rd_rel (rec : path -> ptr -> aval -> result pfeature) (here : path) (k : nat) (rel : aval)
  : result prelation :=
  match jget "children" rel with Err e => Err e | Ok chv =>
  match jlist chv with Err e => Err e | Ok chl =>
  match rd_goc rec here k 0%nat chl with
  | Err e => Err e
  | Ok [] => Err ParsingException
  | Ok ((_ :: _) as children) =>
      match jget "type" rel with Err e => Err e | Ok tv =>
      match jstr tv with Err e => Err e | Ok rtype =>
      match json_relation_cards rtype rel (List.length children) with
      | Err e => Err e
      | Ok (a, b) => Ok (PRelation (PPath here) a b children)
      end end end
  end end end.

Definition rd_rels (rec : path -> ptr -> aval -> result pfeature) (here : path) (node : aval)
  : result (list prelation) :=
  if jhas "relations" node then
    match jget "relations" node with Err e => Err e | Ok rl =>
    match jlist rl with Err e => Err e | Ok rels => rd_go rec here 0%nat rels end end
  else Ok [].

Definition rd_info (name : string) (ab : aval) (attrs : list attr) : finfo :=
  {| f_name := name; f_abstract := json_abstract ab; f_type := TBoolean;
     f_cmin := 1; f_cmax := 1; f_attrs := attrs |}.

Lemma json_parse_tree_S : forall fuel' here parent node,
  json_parse_tree (S fuel') here parent node =
  match jget "name" node with Err e => Err e | Ok n =>
  match jget "abstract" node with Err e => Err e | Ok ab =>
  match jstr n with Err _ => Err ParsingException | Ok name =>
  match json_read_attributes node with Err e => Err e | Ok attrs =>
  match rd_rels (json_parse_tree fuel') here node with
  | Err e => Err e
  | Ok prs => Ok (PFeature (rd_info name ab attrs) parent (map (fun _ => PPath here) attrs) prs)
  end end end end end.
Proof. reflexivity. Qed.

Lemma rd_goc_nil rec here k j : rd_goc rec here k j [] = Ok [].
Proof. reflexivity. Qed.
Lemma rd_goc_cons rec here k j c cs :
  rd_goc rec here k j (c :: cs) =
  match rec (here ++ [(k, j)]) (PPath here) c with
  | Err e => Err e
  | Ok pc => match rd_goc rec here k (S j) cs with
             | Err e => Err e
             | Ok pcs => Ok (pc :: pcs)
             end
  end.
Proof. reflexivity. Qed.

Lemma rd_go_nil rec here k : rd_go rec here k [] = Ok [].
Proof. reflexivity. Qed.
Lemma rd_go_cons rec here k rel rest :
  rd_go rec here k (rel :: rest) =
  match rd_rel rec here k rel with
  | Err e => Err e
  | Ok pr => match rd_go rec here (S k) rest with
             | Err e => Err e
             | Ok prs => Ok (pr :: prs)
             end
  end.
Proof.
  unfold rd_rel. change (rd_go rec here k (rel :: rest)) with
    (match jget "children" rel with Err e => Err e | Ok chv =>
     match jlist chv with Err e => Err e | Ok chl =>
     match rd_goc rec here k 0%nat chl with
     | Err e => Err e
     | Ok [] => Err ParsingException
     | Ok ((_ :: _) as children) =>
         match jget "type" rel with Err e => Err e | Ok tv =>
         match jstr tv with Err e => Err e | Ok rtype =>
         match json_relation_cards rtype rel (List.length children) with
         | Err e => Err e
         | Ok (a, b) =>
             match rd_go rec here (S k) rest with
             | Err e => Err e
             | Ok prs => Ok (PRelation (PPath here) a b children :: prs)
             end
         end end end
     end end end).
  destruct (jget "children" rel) as [chv|e]; [|reflexivity].
  destruct (jlist chv) as [chl|e]; [|reflexivity].
  destruct (rd_goc rec here k 0%nat chl) as [[|c0 children0]|e]; [reflexivity| |reflexivity].
  destruct (jget "type" rel) as [tv|e]; [|reflexivity].
  destruct (jstr tv) as [rtype|e]; [|reflexivity].
  destruct (json_relation_cards rtype rel (List.length (c0 :: children0))) as [[a b]|e]; reflexivity.
Qed.

(* ------------------------------------------------------------------ ptr_wf_at / annotate, unfolded *)
Definition wf_goc (here : path) (k : nat) :=
  fix goc (j : nat) (cs : list pfeature) : bool :=
    match cs with
    | [] => true
    | c :: cs' => ptr_wf_at (here ++ [(k, j)]) (PPath here) c && goc (S j) cs'
    end.
Definition wf_go (here : path) :=
  fix go (k : nat) (rs : list prelation) : bool :=
    match rs with
    | [] => true
    | PRelation rp _ _ cs :: rs' => ptr_eqb rp (PPath here) && wf_goc here k 0%nat cs && go (S k) rs'
    end.
Lemma ptr_wf_at_eq here expected i p ap rs :
  ptr_wf_at here expected (PFeature i p ap rs) =
  ptr_eqb p expected && forallb (ptr_eqb (PPath here)) ap
  && Nat.eqb (List.length ap) (List.length (f_attrs i)) && wf_go here 0%nat rs.
Proof. reflexivity. Qed.
Lemma wf_goc_cons here k j c cs :
  wf_goc here k j (c :: cs) = ptr_wf_at (here ++ [(k, j)]) (PPath here) c && wf_goc here k (S j) cs.
Proof. reflexivity. Qed.
Lemma wf_go_cons here k rp a b cs rs :
  wf_go here k (PRelation rp a b cs :: rs) =
  ptr_eqb rp (PPath here) && wf_goc here k 0%nat cs && wf_go here (S k) rs.
Proof. reflexivity. Qed.

Definition an_goc (here : path) (k : nat) :=
  fix goc (j : nat) (cs : list feature) : list pfeature :=
    match cs with
    | [] => []
    | c :: cs' => annotate (here ++ [(k, j)]) (PPath here) c :: goc (S j) cs'
    end.
Definition an_go (here : path) :=
  fix go (k : nat) (rs : list relation) : list prelation :=
    match rs with
    | [] => []
    | Relation a b cs :: rs' => PRelation (PPath here) a b (an_goc here k 0%nat cs) :: go (S k) rs'
    end.
Lemma annotate_eq here parent i rs :
  annotate here parent (Feature i rs) =
  PFeature i parent (map (fun _ => PPath here) (f_attrs i)) (an_go here 0%nat rs).
Proof. reflexivity. Qed.
Lemma an_goc_cons here k j c cs :
  an_goc here k j (c :: cs) = annotate (here ++ [(k, j)]) (PPath here) c :: an_goc here k (S j) cs.
Proof. reflexivity. Qed.
Lemma an_go_cons here k a b cs rs :
  an_go here k (Relation a b cs :: rs) =
  PRelation (PPath here) a b (an_goc here k 0%nat cs) :: an_go here (S k) rs.
Proof. reflexivity. Qed.
Lemma an_goc_length here k : forall cs j, List.length (an_goc here k j cs) = List.length cs.
Proof.
  induction cs as [|c cs IH]; intros j; [reflexivity|].
  rewrite an_goc_cons. cbn [List.length]. rewrite IH. reflexivity.
Qed.

(* ------------------------------------------------------------------ C02: pointers of any accepted tree *)
Definition rec_wf (rec : path -> ptr -> aval -> result pfeature) : Prop :=
  forall h p c pc, rec h p c = Ok pc -> ptr_wf_at h p pc = true.

Lemma rd_goc_wf rec here k : rec_wf rec ->
  forall chl j pcs, rd_goc rec here k j chl = Ok pcs -> wf_goc here k j pcs = true.
Proof.
  intros Hrec. induction chl as [|c cs IH]; intros j pcs H.
  - rewrite rd_goc_nil in H. inversion H. reflexivity.
  - rewrite rd_goc_cons in H.
    destruct (rec (here ++ [(k, j)]) (PPath here) c) as [pc|e] eqn:Hc; [|discriminate].
    destruct (rd_goc rec here k (S j) cs) as [pcs'|e] eqn:Hcs; [|discriminate].
    inversion H; subst. rewrite wf_goc_cons.
    rewrite (Hrec _ _ _ _ Hc), (IH _ _ Hcs). reflexivity.
Qed.

Lemma rd_rel_wf rec here k rel pr : rec_wf rec ->
  rd_rel rec here k rel = Ok pr ->
  exists a b cs, pr = PRelation (PPath here) a b cs /\ wf_goc here k 0%nat cs = true.
Proof.
  intros Hrec H. unfold rd_rel in H.
  destruct (jget "children" rel) as [chv|e]; [|discriminate].
  destruct (jlist chv) as [chl|e]; [|discriminate].
  destruct (rd_goc rec here k 0%nat chl) as [[|c0 children0]|e] eqn:Hch; [discriminate| |discriminate].
  destruct (jget "type" rel) as [tv|e]; [|discriminate].
  destruct (jstr tv) as [rtype|e]; [|discriminate].
  destruct (json_relation_cards rtype rel (List.length (c0 :: children0))) as [[a b]|e]; [|discriminate].
  inversion H; subst. exists a, b, (c0 :: children0). split; [reflexivity|].
  eapply rd_goc_wf; eassumption.
Qed.

Lemma rd_go_wf rec here : rec_wf rec ->
  forall rels k prs, rd_go rec here k rels = Ok prs -> wf_go here k prs = true.
Proof.
  intros Hrec. induction rels as [|rel rest IH]; intros k prs H.
  - rewrite rd_go_nil in H. inversion H. reflexivity.
  - rewrite rd_go_cons in H.
    destruct (rd_rel rec here k rel) as [pr|e] eqn:Hr; [|discriminate].
    destruct (rd_go rec here (S k) rest) as [prs'|e] eqn:Hrs; [|discriminate].
    inversion H; subst.
    destruct (rd_rel_wf _ _ _ _ _ Hrec Hr) as (a & b & cs & -> & Hcs).
    rewrite wf_go_cons, ptr_eqb_refl, Hcs, (IH _ _ Hrs). reflexivity.
Qed.

Lemma rd_rels_wf rec here node prs : rec_wf rec ->
  rd_rels rec here node = Ok prs -> wf_go here 0%nat prs = true.
Proof.
  intros Hrec H. unfold rd_rels in H.
  destruct (jhas "relations" node).
  - destruct (jget "relations" node) as [rl|e]; [|discriminate].
    destruct (jlist rl) as [rels|e]; [|discriminate].
    eapply rd_go_wf; eassumption.
  - inversion H. reflexivity.
Qed.

Lemma forallb_ptr_map {A} (here : path) (l : list A) :
  forallb (ptr_eqb (PPath here)) (map (fun _ => PPath here) l) = true.
Proof.
  induction l as [|x l IH]; [reflexivity|].
  cbn [map forallb]. rewrite ptr_eqb_refl, IH. reflexivity.
Qed.

Lemma json_parse_tree_wf : forall fuel, rec_wf (json_parse_tree fuel).
Proof.
  induction fuel as [|fuel IH]; intros here parent node pf H.
  - discriminate.
  - rewrite json_parse_tree_S in H.
    destruct (jget "name" node) as [n|e]; [|discriminate].
    destruct (jget "abstract" node) as [ab|e]; [|discriminate].
    destruct (jstr n) as [name|e]; [|discriminate].
    destruct (json_read_attributes node) as [attrs|e]; [|discriminate].
    destruct (rd_rels (json_parse_tree fuel) here node) as [prs|e] eqn:Hr; [|discriminate].
    inversion H; subst. rewrite ptr_wf_at_eq.
    rewrite ptr_eqb_refl, forallb_ptr_map, map_length.
    unfold rd_info; cbn [f_attrs]. rewrite Nat.eqb_refl.
    rewrite (rd_rels_wf _ _ _ _ IH Hr). reflexivity.
Qed.

Theorem json_read_ptr_wf : forall d pm, json_read d = Ok pm -> ptr_wf pm = true.
Proof.
  intros d pm H. unfold json_read in H.
  destruct (jget "features" d) as [fv|e]; [|discriminate].
  destruct (jget "constraints" d) as [cv|e]; [|discriminate].
  destruct (json_parse_tree (aval_depth fv) [] PNone fv) as [pr|e] eqn:Hp; [|discriminate].
  destruct (jlist cv) as [cl|e]; [|discriminate].
  match type of H with match ?X with _ => _ end = _ => destruct X as [cs|e]; [|discriminate] end.
  inversion H; subst. unfold ptr_wf; cbn [proot].
  eapply json_parse_tree_wf; eassumption.
Qed.

(* ------------------------------------------------------------------ C02: shape of any accepted constraint *)
Lemma json_parse_ctc_S : forall fuel' info,
  json_parse_ctc (S fuel') info =
  match jget "type" info with Err e => Err e | Ok tv =>
  match jget "operands" info with Err e => Err e | Ok ov =>
  match jlist ov with Err _ => Err ParsingException | Ok ops =>
  match jstr tv with Err _ => Err ParsingException | Ok ty =>
    let sub (i : nat) : result node :=
      match nth_operand ops i with Err e => Err e | Ok x => json_parse_ctc fuel' x end in
    let bin2 (o : astop) : result node :=
      match sub 0%nat with Err e => Err e | Ok a =>
      match sub 1%nat with Err e => Err e | Ok b => Ok (bin o a b) end end in
    if String.eqb ty jt_FEATURE then
      match nth_operand ops 0 with Err e => Err e | Ok x =>
      match data_of_json x with Err e => Err e | Ok d => Ok (Node d None None) end end
    else if String.eqb ty (astop_value NOT) then
      match sub 0%nat with Err e => Err e | Ok a => Ok (un NOT a) end
    else if String.eqb ty (astop_value IMPLIES) then bin2 IMPLIES
    else if String.eqb ty (astop_value REQUIRES) then bin2 REQUIRES
    else if String.eqb ty (astop_value EXCLUDES) then bin2 EXCLUDES
    else if String.eqb ty (astop_value EQUIVALENCE) then bin2 EQUIVALENCE
    else if String.eqb ty (astop_value AND) then
      match mapM (json_parse_ctc fuel') ops with Err e => Err e | Ok l => reduce_op AND l end
    else if String.eqb ty (astop_value OR) then
      match mapM (json_parse_ctc fuel') ops with Err e => Err e | Ok l => reduce_op OR l end
    else if String.eqb ty (astop_value XOR) then
      match mapM (json_parse_ctc fuel') ops with Err e => Err e | Ok l => reduce_op XOR l end
    else Err ParsingException
  end end end end.
Proof. reflexivity. Qed.

Lemma shape_bin o a b : astop_eqb o NOT = false ->
  node_shape_ok a = true -> node_shape_ok b = true -> node_shape_ok (bin o a b) = true.
Proof. intros Ho Ha Hb. unfold bin. cbn [node_shape_ok]. rewrite Ho, Ha, Hb. reflexivity. Qed.

Lemma shape_fold o : astop_eqb o NOT = false -> forall xs x,
  node_shape_ok x = true -> Forall (fun y => node_shape_ok y = true) xs ->
  node_shape_ok (fold_left (fun acc y => bin o acc y) xs x) = true.
Proof.
  intros Ho. induction xs as [|y ys IH]; intros x Hx Hxs; [exact Hx|].
  inversion Hxs; subst. cbn [fold_left]. apply IH; [|assumption].
  apply shape_bin; assumption.
Qed.

Lemma shape_reduce o l n : astop_eqb o NOT = false ->
  Forall (fun y => node_shape_ok y = true) l -> reduce_op o l = Ok n -> node_shape_ok n = true.
Proof.
  intros Ho Hl H. destruct l as [|x xs]; [discriminate|].
  cbn [reduce_op] in H. inversion H; subst. inversion Hl; subst.
  apply shape_fold; assumption.
Qed.

Lemma mapM_shape (f : aval -> result node) :
  (forall x n, f x = Ok n -> node_shape_ok n = true) ->
  forall l ns, mapM f l = Ok ns -> Forall (fun y => node_shape_ok y = true) ns.
Proof.
  intros Hf l ns H. apply mapM_Forall2 in H.
  induction H as [|x y l ns Hxy _ IH]; constructor; [eapply Hf; eassumption|exact IH].
Qed.

Lemma json_parse_ctc_shape : forall fuel info n,
  json_parse_ctc fuel info = Ok n -> node_shape_ok n = true.
Proof.
  induction fuel as [|fuel IH]; intros info n H; [discriminate|].
  rewrite json_parse_ctc_S in H.
  destruct (jget "type" info) as [tv|e]; [|discriminate].
  destruct (jget "operands" info) as [ov|e]; [|discriminate].
  destruct (jlist ov) as [ops|e]; [|discriminate].
  destruct (jstr tv) as [ty|e]; [|discriminate].
  cbv zeta in H.
  assert (Hbin : forall o, astop_eqb o NOT = false ->
            match match nth_operand ops 0 with Err e => Err e | Ok x => json_parse_ctc fuel x end with
            | Err e => Err e
            | Ok a => match match nth_operand ops 1 with Err e => Err e | Ok x => json_parse_ctc fuel x end with
                      | Err e => Err e | Ok b => Ok (bin o a b) end
            end = Ok n -> node_shape_ok n = true).
  { intros o Ho Hb.
    destruct (nth_operand ops 0) as [x0|e]; [|discriminate].
    destruct (json_parse_ctc fuel x0) as [a|e] eqn:Ha; [|discriminate].
    destruct (nth_operand ops 1) as [x1|e]; [|discriminate].
    destruct (json_parse_ctc fuel x1) as [b|e] eqn:Hb'; [|discriminate].
    inversion Hb; subst. apply shape_bin; [exact Ho|eapply IH; eassumption|eapply IH; eassumption]. }
  assert (Hred : forall o, astop_eqb o NOT = false ->
            match mapM (json_parse_ctc fuel) ops with Err e => Err e | Ok l => reduce_op o l end = Ok n ->
            node_shape_ok n = true).
  { intros o Ho Hr. destruct (mapM (json_parse_ctc fuel) ops) as [l|e] eqn:Hm; [|discriminate].
    eapply shape_reduce; [exact Ho| |exact Hr]. eapply mapM_shape; [exact IH|exact Hm]. }
  destruct (String.eqb ty jt_FEATURE).
  { destruct (nth_operand ops 0) as [x|e]; [|discriminate].
    destruct (data_of_json x) as [d|e] eqn:Hd; [|discriminate].
    inversion H; subst. destruct x; try discriminate; cbn [data_of_json] in Hd; inversion Hd; reflexivity. }
  destruct (String.eqb ty (astop_value NOT)).
  { destruct (nth_operand ops 0) as [x0|e]; [|discriminate].
    destruct (json_parse_ctc fuel x0) as [a|e] eqn:Ha; [|discriminate].
    inversion H; subst. unfold un. cbn [node_shape_ok astop_eqb]. eapply IH; eassumption. }
  destruct (String.eqb ty (astop_value IMPLIES)); [eapply Hbin; [|exact H]; reflexivity|].
  destruct (String.eqb ty (astop_value REQUIRES)); [eapply Hbin; [|exact H]; reflexivity|].
  destruct (String.eqb ty (astop_value EXCLUDES)); [eapply Hbin; [|exact H]; reflexivity|].
  destruct (String.eqb ty (astop_value EQUIVALENCE)); [eapply Hbin; [|exact H]; reflexivity|].
  destruct (String.eqb ty (astop_value AND)); [eapply Hred; [|exact H]; reflexivity|].
  destruct (String.eqb ty (astop_value OR)); [eapply Hred; [|exact H]; reflexivity|].
  destruct (String.eqb ty (astop_value XOR)); [eapply Hred; [|exact H]; reflexivity|].
  discriminate.
Qed.

Definition rd_ctc (ci : aval) : result ctc :=
  match jget "name" ci with Err e => Err e | Ok nv =>
  match jget "ast" ci with Err e => Err e | Ok av =>
  match jstr nv with Err e => Err e | Ok name =>
  match json_parse_ctc (aval_depth av) av with Err e => Err e | Ok n =>
    Ok {| c_name := name; c_ast := n |}
  end end end end.

Lemma json_read_eq doc :
  json_read doc =
  match jget "features" doc with Err e => Err e | Ok fv =>
  match jget "constraints" doc with Err e => Err e | Ok cv =>
  match json_parse_tree (aval_depth fv) [] PNone fv with Err e => Err e | Ok proot_ =>
  match jlist cv with Err e => Err e | Ok cl =>
  match mapM rd_ctc cl with
  | Err e => Err e
  | Ok cs => Ok {| proot := proot_; pctcs := cs |}
  end end end end end.
Proof. reflexivity. Qed.

Theorem json_read_ctc_shape : forall d pm, json_read d = Ok pm ->
  forallb (fun c => node_shape_ok (c_ast c)) (pctcs pm) = true.
Proof.
  intros d pm H. rewrite json_read_eq in H.
  destruct (jget "features" d) as [fv|e]; [|discriminate].
  destruct (jget "constraints" d) as [cv|e]; [|discriminate].
  destruct (json_parse_tree (aval_depth fv) [] PNone fv) as [pr|e]; [|discriminate].
  destruct (jlist cv) as [cl|e]; [|discriminate].
  destruct (mapM rd_ctc cl) as [cs|e] eqn:Hm; [|discriminate].
  inversion H; subst. clear H. cbn [pctcs]. apply mapM_Forall2 in Hm.
  induction Hm as [|ci c cl cs Hc _ IH]; [reflexivity|].
  cbn [forallb]. rewrite IH, andb_true_r.
  unfold rd_ctc in Hc.
  destruct (jget "name" ci) as [nv|e]; [|discriminate].
  destruct (jget "ast" ci) as [av|e]; [|discriminate].
  destruct (jstr nv) as [name|e]; [|discriminate].
  destruct (json_parse_ctc (aval_depth av) av) as [n|e] eqn:Hn; [|discriminate].
  inversion Hc; subst. cbn [c_ast]. eapply json_parse_ctc_shape; eassumption.
Qed.

(* ------------------------------------------------------------------ annotate: pointers right, erase inverse *)
Lemma annotate_ptr_wf_at : forall f here p, ptr_wf_at here p (annotate here p f) = true.
Proof.
  apply (feature_ind2
           (fun f => forall here p, ptr_wf_at here p (annotate here p f) = true)
           (fun r => Forall (fun c => forall here p, ptr_wf_at here p (annotate here p c) = true)
                            (r_children r))).
  - intros i rs IH here p. rewrite annotate_eq, ptr_wf_at_eq.
    rewrite ptr_eqb_refl, forallb_ptr_map, map_length, Nat.eqb_refl. cbn [andb].
    generalize 0%nat as k. induction IH as [|r rs Hr _ IHrs]; intros k; [reflexivity|].
    destruct r as [a b cs]. rewrite an_go_cons, wf_go_cons, ptr_eqb_refl, IHrs, andb_true_r.
    cbn [andb]. cbn [r_children] in Hr.
    generalize 0%nat as j. induction Hr as [|c cs Hc _ IHcs]; intros j; [reflexivity|].
    rewrite an_goc_cons, wf_goc_cons, Hc, IHcs. reflexivity.
  - intros a b cs IH. exact IH.
Qed.

Lemma annotate_ptr_wf : forall m, ptr_wf (annotate_fm m) = true.
Proof. intros m. unfold ptr_wf, annotate_fm; cbn [proot]. apply annotate_ptr_wf_at. Qed.

Lemma erase_eq i p ap rs :
  erase (PFeature i p ap rs) =
  Feature i (map (fun r => match r with PRelation _ a b cs => Relation a b (map erase cs) end) rs).
Proof. reflexivity. Qed.

Lemma erase_annotate : forall here p f, erase (annotate here p f) = f.
Proof.
  intros here p f. revert here p.
  apply (feature_ind2
           (fun f => forall here p, erase (annotate here p f) = f)
           (fun r => Forall (fun c => forall here p, erase (annotate here p c) = c) (r_children r))).
  - intros i rs IH here p. rewrite annotate_eq, erase_eq. f_equal.
    generalize 0%nat as k. induction IH as [|r rs Hr _ IHrs]; intros k; [reflexivity|].
    destruct r as [a b cs]. rewrite an_go_cons. cbn [map]. rewrite IHrs. f_equal. f_equal.
    cbn [r_children] in Hr.
    generalize 0%nat as j. induction Hr as [|c cs Hc _ IHcs]; intros j; [reflexivity|].
    rewrite an_goc_cons. cbn [map]. rewrite Hc, IHcs. reflexivity.
  - intros a b cs IH. exact IH.
Qed.

(* ------------------------------------------------------------------ C05: the tree part *)
Definition json_rel (r : relation) : aval :=
  match r with
  | Relation a b cs =>
      VMap [("type", VStr (json_relation_type r)); ("card_min", VInt a); ("card_max", VInt b);
            ("children", VList (map json_tree cs))]
  end.
Definition json_attr_part (i : finfo) : list (string * aval) :=
  match f_attrs i with [] => [] | at_ => [("attributes", VList (json_attributes at_))] end.

Lemma json_tree_eq i rs :
  json_tree (Feature i rs) =
  VMap (("name", VStr (f_name i)) :: ("abstract", f_abstract i)
        :: ("relations", VList (map json_rel rs)) :: json_attr_part i).
Proof. reflexivity. Qed.

(* the relation type written by the writer always lets the reader recover the cardinality *)
Lemma cards_OPTIONAL rel n : json_relation_cards jt_OPTIONAL rel n = Ok (0, 1)%Z.
Proof. reflexivity. Qed.
Lemma cards_MANDATORY rel n : json_relation_cards jt_MANDATORY rel n = Ok (1, 1)%Z.
Proof. reflexivity. Qed.
Lemma cards_XOR rel n : json_relation_cards jt_XOR rel n = Ok (1, 1)%Z.
Proof. reflexivity. Qed.
Lemma cards_OR rel n : json_relation_cards jt_OR rel n = Ok (1, Z.of_nat n)%Z.
Proof. reflexivity. Qed.
Lemma cards_MUTEX rel n : json_relation_cards jt_MUTEX rel n = Ok (0, 1)%Z.
Proof. reflexivity. Qed.
Lemma cards_CARDINALITY t a b c n :
  json_relation_cards jt_CARDINALITY
    (VMap [("type", t); ("card_min", VInt a); ("card_max", VInt b); ("children", c)]) n = Ok (a, b).
Proof. reflexivity. Qed.

Lemma json_relation_cards_type : forall r,
  json_relation_cards (json_relation_type r) (json_rel r) (List.length (r_children r))
  = Ok (r_min r, r_max r).
Proof.
  intros [a b cs]. unfold json_relation_type.
  destruct (rel_is_alternative (Relation a b cs)) eqn:Halt.
  { rewrite cards_XOR. unfold rel_is_alternative in Halt. cbn [r_min r_max] in *.
    apply andb_prop in Halt. destruct Halt as [Halt _].
    apply andb_prop in Halt. destruct Halt as [H1 H2].
    apply Z.eqb_eq in H1. apply Z.eqb_eq in H2. subst. reflexivity. }
  destruct (rel_is_or (Relation a b cs)) eqn:Hor.
  { rewrite cards_OR. unfold rel_is_or, nchildren in Hor. cbn [r_min r_max r_children] in *.
    apply andb_prop in Hor. destruct Hor as [Hor _].
    apply andb_prop in Hor. destruct Hor as [H1 H2].
    apply Z.eqb_eq in H1. apply Z.eqb_eq in H2. subst. reflexivity. }
  destruct (rel_is_mutex (Relation a b cs)) eqn:Hmx.
  { rewrite cards_MUTEX. unfold rel_is_mutex in Hmx. cbn [r_min r_max] in *.
    apply andb_prop in Hmx. destruct Hmx as [Hmx _].
    apply andb_prop in Hmx. destruct Hmx as [H1 H2].
    apply Z.eqb_eq in H1. apply Z.eqb_eq in H2. subst. reflexivity. }
  destruct (rel_is_cardinal (Relation a b cs)) eqn:Hcard.
  { unfold json_rel. rewrite cards_CARDINALITY. reflexivity. }
  destruct (rel_is_mandatory (Relation a b cs)) eqn:Hman.
  { rewrite cards_MANDATORY. unfold rel_is_mandatory in Hman. cbn [r_min r_max] in *.
    apply andb_prop in Hman. destruct Hman as [Hman _].
    apply andb_prop in Hman. destruct Hman as [H1 H2].
    apply Z.eqb_eq in H1. apply Z.eqb_eq in H2. subst. reflexivity. }
  destruct (rel_is_optional (Relation a b cs)) eqn:Hopt.
  { rewrite cards_OPTIONAL. unfold rel_is_optional in Hopt. cbn [r_min r_max] in *.
    apply andb_prop in Hopt. destruct Hopt as [Hopt _].
    apply andb_prop in Hopt. destruct Hopt as [H1 H2].
    apply Z.eqb_eq in H1. apply Z.eqb_eq in H2. subst. reflexivity. }
  (* the FEATURE fall-through is unreachable: cardinal is the negation of the other five *)
  exfalso. unfold rel_is_cardinal in Hcard.
  rewrite Hman, Hopt, Halt, Hor, Hmx in Hcard. discriminate.
Qed.

Definition rec_tree (rec : path -> ptr -> aval -> result pfeature) (c : feature) : Prop :=
  forall h p, rec h p (json_tree c) = Ok (annotate h p c).

Lemma rd_goc_tree rec here k : forall cs j,
  Forall (rec_tree rec) cs ->
  rd_goc rec here k j (map json_tree cs) = Ok (an_goc here k j cs).
Proof.
  induction cs as [|c cs IH]; intros j H; [reflexivity|].
  inversion H as [|? ? Hc Hcs]; subst.
  cbn [map]. rewrite rd_goc_cons, (Hc _ _), (IH _ Hcs), an_goc_cons. reflexivity.
Qed.

(* the reader rejects a relation without children, so the written relation has to have one *)
Lemma rd_rel_tree rec here k r :
  r_children r <> [] ->
  Forall (rec_tree rec) (r_children r) ->
  rd_rel rec here k (json_rel r) =
  Ok (PRelation (PPath here) (r_min r) (r_max r) (an_goc here k 0%nat (r_children r))).
Proof.
  intros Hne H. unfold rd_rel.
  assert (Hch : jget "children" (json_rel r) = Ok (VList (map json_tree (r_children r))))
    by (destruct r; reflexivity).
  assert (Hty : jget "type" (json_rel r) = Ok (VStr (json_relation_type r)))
    by (destruct r; reflexivity).
  rewrite Hch. cbn [jlist]. rewrite (rd_goc_tree _ _ _ _ _ H).
  destruct (an_goc here k 0%nat (r_children r)) as [|pc pcs] eqn:Ean.
  { exfalso. apply Hne. apply length_zero_iff_nil.
    rewrite <- (an_goc_length here k (r_children r) 0%nat), Ean. reflexivity. }
  rewrite Hty. cbn [jstr].
  rewrite <- Ean, an_goc_length, json_relation_cards_type. reflexivity.
Qed.

Lemma rd_rel_tree_empty rec here k a b :
  rd_rel rec here k (json_rel (Relation a b [])) = Err ParsingException.
Proof. reflexivity. Qed.

Lemma rd_go_tree rec here : forall rs k,
  Forall (fun r => r_children r <> [] /\ Forall (rec_tree rec) (r_children r)) rs ->
  rd_go rec here k (map json_rel rs) = Ok (an_go here k rs).
Proof.
  induction rs as [|r rs IH]; intros k H; [reflexivity|].
  inversion H as [|? ? [Hne Hr] Hrs]; subst.
  cbn [map]. rewrite rd_go_cons, (rd_rel_tree _ _ _ _ Hne Hr), (IH _ Hrs).
  destruct r as [a b cs]. rewrite an_go_cons. reflexivity.
Qed.

(* [rels_nonempty] (C16Facts.v: every relation of the tree has a child), one level at a time *)
Lemma rels_nonempty_children : forall cs,
  Forall (fun r => r_children r <> []) (flat_map subrelations cs) -> Forall rels_nonempty cs.
Proof.
  induction cs as [|c cs IH]; intros H; [constructor|].
  cbn [flat_map] in H. apply Forall_app in H. destruct H as [Hc Hcs].
  constructor; [exact Hc|exact (IH Hcs)].
Qed.

Lemma rels_nonempty_inv i rs : rels_nonempty (Feature i rs) ->
  Forall (fun r => r_children r <> [] /\ Forall rels_nonempty (r_children r)) rs.
Proof.
  unfold rels_nonempty at 1. cbn [subrelations].
  induction rs as [|[a b cs] rs IH]; intros H; [constructor|].
  cbn [flat_map] in H. change ((Relation a b cs :: flat_map subrelations cs) ++ ?l)
    with (Relation a b cs :: (flat_map subrelations cs ++ l)) in H.
  inversion H as [|? ? Hr Hrest]; subst. apply Forall_app in Hrest. destruct Hrest as [Hcs Hrs].
  constructor; [|exact (IH Hrs)].
  cbn [r_children] in *. split; [exact Hr|exact (rels_nonempty_children cs Hcs)].
Qed.

Lemma rels_nonempty_children_conv : forall cs,
  Forall rels_nonempty cs -> Forall (fun r => r_children r <> []) (flat_map subrelations cs).
Proof.
  induction 1 as [|c cs Hc _ IH]; [constructor|].
  cbn [flat_map]. apply Forall_app. split; [exact Hc|exact IH].
Qed.

Lemma rels_nonempty_intro i rs :
  Forall (fun r => r_children r <> [] /\ Forall rels_nonempty (r_children r)) rs ->
  rels_nonempty (Feature i rs).
Proof.
  unfold rels_nonempty at 2. cbn [subrelations].
  induction 1 as [|[a b cs] rs [Hr Hcs] _ IH]; [constructor|].
  cbn [flat_map r_children] in *. apply Forall_app. split; [|exact IH].
  constructor; [exact Hr|exact (rels_nonempty_children_conv cs Hcs)].
Qed.

(* attributes *)
Definition rd_attr (a : aval) : result attr :=
  match jget "name" a with Err e => Err e | Ok n =>
  match jstr n with Err e => Err e | Ok name =>
    let v := match a with
             | VMap kv => match assoc "value" kv with Some x => x | None => VNone end
             | _ => VNone
             end in
    Ok {| a_name := name; a_dom := None; a_default := v; a_null := VNone |}
  end end.

Lemma json_read_attributes_eq node :
  json_read_attributes node =
  if jhas "attributes" node then
    match jget "attributes" node with Err e => Err e | Ok al =>
    match jlist al with Err e => Err e | Ok l => mapM rd_attr l end end
  else Ok [].
Proof. reflexivity. Qed.

Lemma rd_attr_json : forall ats, forallb attr_json_ok ats = true ->
  mapM rd_attr (json_attributes ats) = Ok ats.
Proof.
  induction ats as [|a ats IH]; intros H; [reflexivity|].
  cbn [forallb] in H. apply andb_prop in H. destruct H as [Ha Hats].
  unfold json_attributes in *. cbn [map]. rewrite mapM_cons, (IH Hats).
  destruct a as [nm dom dflt nul]. unfold attr_json_ok in Ha. cbn [a_dom a_null] in Ha.
  destruct dom; [discriminate|]. destruct nul; try discriminate.
  cbn [a_name a_default]. destruct dflt; reflexivity.
Qed.

Lemma json_read_attributes_tree i rs : forallb attr_json_ok (f_attrs i) = true ->
  json_read_attributes (json_tree (Feature i rs)) = Ok (f_attrs i).
Proof.
  intros H. rewrite json_read_attributes_eq, json_tree_eq. unfold json_attr_part.
  destruct (f_attrs i) as [|a ats] eqn:E; [reflexivity|].
  change (jhas "attributes" _) with true. cbv iota.
  change (jget "attributes" _) with (Ok (VList (json_attributes (a :: ats)))) at 1.
  cbn [jlist]. apply rd_attr_json. exact H.
Qed.

Lemma rd_info_ok i : info_json_ok i = true ->
  rd_info (f_name i) (f_abstract i) (f_attrs i) = i.
Proof.
  intros H. unfold info_json_ok in H.
  apply andb_prop in H. destruct H as [H _].
  apply andb_prop in H. destruct H as [H Hab].
  apply andb_prop in H. destruct H as [H Hmax].
  apply andb_prop in H. destruct H as [Hty Hmin].
  destruct i as [nm ab ty cmin cmax ats]. cbn [f_name f_abstract f_type f_cmin f_cmax f_attrs] in *.
  apply Z.eqb_eq in Hmin. apply Z.eqb_eq in Hmax. subst.
  destruct ty; try discriminate. destruct ab; try discriminate. reflexivity.
Qed.

Lemma depth_child i rs r c : In r rs -> In c (r_children r) ->
  aval_depth (json_tree c) + 4 <= aval_depth (json_tree (Feature i rs)).
Proof.
  intros Hr Hc.
  assert (H1 : aval_depth (json_tree c) < aval_depth (VList (map json_tree (r_children r))))
    by (apply depth_list_in, in_map, Hc).
  assert (H2 : aval_depth (VList (map json_tree (r_children r))) < aval_depth (json_rel r))
    by (apply (depth_jget "children"); destruct r; reflexivity).
  assert (H3 : aval_depth (json_rel r) < aval_depth (VList (map json_rel rs)))
    by (apply depth_list_in, in_map, Hr).
  assert (H4 : aval_depth (VList (map json_rel rs)) < aval_depth (json_tree (Feature i rs)))
    by (apply (depth_jget "relations"); rewrite json_tree_eq; reflexivity).
  lia.
Qed.

Lemma forallb_ext' {A} (f g : A -> bool) : (forall x, f x = g x) ->
  forall l, forallb f l = forallb g l.
Proof.
  intros Hfg. induction l as [|x l IH]; [reflexivity|].
  cbn [forallb]. rewrite Hfg, IH. reflexivity.
Qed.

Lemma feature_json_ok_eq i rs :
  feature_json_ok (Feature i rs) =
  info_json_ok i && forallb (fun r => forallb feature_json_ok (r_children r)) rs.
Proof.
  cbn [feature_json_ok]. f_equal. apply forallb_ext'. intros [a b cs]. reflexivity.
Qed.

(* any fuel at least the nesting depth of the written tree suffices.
   Before the reader rejected a relation without children the statement was
     Lemma json_parse_tree_json_tree : forall f, feature_json_ok f = true ->
       forall fuel here parent, aval_depth (json_tree f) <= fuel ->
       json_parse_tree fuel here parent (json_tree f) = Ok (annotate here parent f).
   It is false now ([feature_json_ok] allows a relation without children, see [json_roundtrip_old_false] below);
   the added hypothesis is [rels_nonempty f]. *)
Lemma json_parse_tree_json_tree : forall f, feature_json_ok f = true -> rels_nonempty f ->
  forall fuel here parent, aval_depth (json_tree f) <= fuel ->
  json_parse_tree fuel here parent (json_tree f) = Ok (annotate here parent f).
Proof.
  apply (feature_ind2
           (fun f => feature_json_ok f = true -> rels_nonempty f ->
                     forall fuel here parent, aval_depth (json_tree f) <= fuel ->
                     json_parse_tree fuel here parent (json_tree f) = Ok (annotate here parent f))
           (fun r => Forall (fun f => feature_json_ok f = true -> rels_nonempty f ->
                     forall fuel here parent, aval_depth (json_tree f) <= fuel ->
                     json_parse_tree fuel here parent (json_tree f) = Ok (annotate here parent f))
                            (r_children r))).
  - intros i rs IH Hok Hne fuel here parent Hd.
    rewrite feature_json_ok_eq in Hok. apply andb_prop in Hok. destruct Hok as [Hi Hrs].
    apply rels_nonempty_inv in Hne.
    destruct fuel as [|fuel].
    { exfalso. rewrite json_tree_eq, aval_depth_VMap in Hd. lia. }
    assert (Hrec : Forall (fun r => r_children r <> []
                                    /\ Forall (rec_tree (json_parse_tree fuel)) (r_children r)) rs).
    { apply Forall_forall. intros r Hr.
      rewrite Forall_forall in Hne. destruct (Hne r Hr) as [Hne_r Hne_cs].
      split; [exact Hne_r|].
      apply Forall_forall. intros c Hc h p.
      rewrite Forall_forall in IH. specialize (IH r Hr). rewrite Forall_forall in IH.
      apply (IH c Hc).
      - rewrite forallb_forall in Hrs. specialize (Hrs r Hr).
        rewrite forallb_forall in Hrs. exact (Hrs c Hc).
      - rewrite Forall_forall in Hne_cs. exact (Hne_cs c Hc).
      - pose proof (depth_child i rs r c Hr Hc). lia. }
    rewrite json_parse_tree_S.
    assert (Hname : jget "name" (json_tree (Feature i rs)) = Ok (VStr (f_name i))) by reflexivity.
    assert (Habs : jget "abstract" (json_tree (Feature i rs)) = Ok (f_abstract i)) by reflexivity.
    assert (Hrels : rd_rels (json_parse_tree fuel) here (json_tree (Feature i rs))
                    = rd_go (json_parse_tree fuel) here 0%nat (map json_rel rs)) by reflexivity.
    rewrite Hname, Habs. cbn [jstr].
    unfold info_json_ok in Hi. pose proof Hi as Hi'.
    apply andb_prop in Hi'. destruct Hi' as [_ Hats].
    rewrite (json_read_attributes_tree i rs Hats), Hrels, (rd_go_tree _ _ _ _ Hrec).
    rewrite (rd_info_ok i Hi), annotate_eq. reflexivity.
  - intros a b cs IH. exact IH.
Qed.

(* ------------------------------------------------------------------ C05: the constraint part *)
Lemma node_ind2 (P : node -> Prop) :
  (forall d, P (Node d None None)) ->
  (forall d a, P a -> P (Node d (Some a) None)) ->
  (forall d b, P b -> P (Node d None (Some b))) ->
  (forall d a b, P a -> P b -> P (Node d (Some a) (Some b))) ->
  forall n, P n.
Proof.
  intros H0 H1 H2 H3. fix IH 1. intros [d [a|] [b|]].
  - apply H3; apply IH.
  - apply H1; apply IH.
  - apply H2; apply IH.
  - apply H0.
Qed.

(* inductive view of [node_json_ok] *)
Definition is_binlog (o : astop) : bool := op_in o logical_ops && negb (astop_eqb o NOT).
Definition is_scalar (d : ndata) : bool := match d with DOp _ => false | _ => true end.

Inductive JOK : node -> Prop :=
| JOK_term : forall d, is_scalar d = true -> JOK (Node d None None)
| JOK_not : forall a, JOK a -> JOK (un NOT a)
| JOK_bin : forall o a b, is_binlog o = true -> JOK a -> JOK b -> JOK (bin o a b).

Lemma node_json_ok_JOK : forall n, node_json_ok n = true -> JOK n.
Proof.
  induction n as [d|d a IHa|d b IHb|d a b IHa IHb] using node_ind2; intros H.
  - destruct d as [o|s|z|f|b]; try (apply JOK_term; reflexivity).
    exfalso. cbn [node_json_ok] in H. destruct (astop_eqb o NOT);
      rewrite andb_false_r in H; discriminate.
  - destruct d as [o|s|z|f|b]; cbn [node_json_ok] in H; try discriminate.
    destruct o; cbn [op_in existsb logical_ops astop_eqb orb andb] in H; try discriminate.
    apply JOK_not. auto.
  - exfalso. destruct d as [o|s|z|f|b0]; cbn [node_json_ok] in H; try discriminate.
    destruct (astop_eqb o NOT); rewrite andb_false_r in H; discriminate.
  - destruct d as [o|s|z|f|b0]; cbn [node_json_ok] in H; try discriminate.
    destruct o; cbn [op_in existsb logical_ops astop_eqb orb andb] in H; try discriminate;
      apply andb_prop in H; destruct H as [Ha Hb];
      (apply JOK_bin; [reflexivity|auto|auto]).
Qed.

Definition json_term (d : ndata) : aval :=
  VMap [("type", VStr jt_FEATURE); ("operands", VList [json_of_data d])].
Definition json_op1 (o : astop) (ja : aval) : aval :=
  VMap [("type", VStr (astop_value o)); ("operands", VList [ja])].
Definition json_op2 (o : astop) (ja jb : aval) : aval :=
  VMap [("type", VStr (astop_value o)); ("operands", VList [ja; jb])].

Lemma json_ctc_term d : is_scalar d = true -> json_ctc (Node d None None) = Ok (json_term d).
Proof. destruct d; intros H; try discriminate; reflexivity. Qed.
Lemma json_ctc_un o a :
  json_ctc (un o a) = match json_ctc a with Err e => Err e | Ok ja => Ok (json_op1 o ja) end.
Proof. reflexivity. Qed.
Lemma json_ctc_bin o a b :
  json_ctc (bin o a b) =
  match json_ctc a with Err e => Err e | Ok ja =>
  match json_ctc b with Err e => Err e | Ok jb => Ok (json_op2 o ja jb) end end.
Proof. reflexivity. Qed.

Lemma parse_ctc_term fuel' d : is_scalar d = true ->
  json_parse_ctc (S fuel') (json_term d) = Ok (Node d None None).
Proof. destruct d; intros H; try discriminate; reflexivity. Qed.

Lemma parse_ctc_not fuel' ja :
  json_parse_ctc (S fuel') (json_op1 NOT ja) =
  match json_parse_ctc fuel' ja with Err e => Err e | Ok a => Ok (un NOT a) end.
Proof. reflexivity. Qed.

Lemma parse_ctc_bin o fuel' ja jb : is_binlog o = true ->
  json_parse_ctc (S fuel') (json_op2 o ja jb) =
  match json_parse_ctc fuel' ja with Err e => Err e | Ok a =>
  match json_parse_ctc fuel' jb with Err e => Err e | Ok b => Ok (bin o a b) end end.
Proof.
  intros Ho. rewrite json_parse_ctc_S.
  destruct o; try discriminate Ho; unfold json_op2; cbn - [json_parse_ctc];
    destruct (json_parse_ctc fuel' ja) as [a|e]; try reflexivity;
    destruct (json_parse_ctc fuel' jb) as [b|e]; reflexivity.
Qed.

Lemma depth_term d : aval_depth (json_term d) = 3.
Proof. destruct d; reflexivity. Qed.
Lemma depth_op1 o ja : aval_depth ja + 2 <= aval_depth (json_op1 o ja).
Proof.
  assert (H1 : aval_depth ja < aval_depth (VList [ja])) by (apply depth_list_in; left; reflexivity).
  assert (H2 : aval_depth (VList [ja]) < aval_depth (json_op1 o ja))
    by (apply (depth_jget "operands"); reflexivity).
  lia.
Qed.
Lemma depth_op2 o ja jb :
  aval_depth ja + 2 <= aval_depth (json_op2 o ja jb) /\ aval_depth jb + 2 <= aval_depth (json_op2 o ja jb).
Proof.
  assert (H1 : aval_depth ja < aval_depth (VList [ja; jb])) by (apply depth_list_in; left; reflexivity).
  assert (H1' : aval_depth jb < aval_depth (VList [ja; jb]))
    by (apply depth_list_in; right; left; reflexivity).
  assert (H2 : aval_depth (VList [ja; jb]) < aval_depth (json_op2 o ja jb))
    by (apply (depth_jget "operands"); reflexivity).
  lia.
Qed.

Lemma ctc_roundtrip_JOK : forall n, JOK n ->
  exists j, json_ctc n = Ok j /\
            forall fuel, aval_depth j <= fuel -> json_parse_ctc fuel j = Ok n.
Proof.
  induction 1 as [d Hd|a Ha IHa|o a b Ho Ha IHa Hb IHb].
  - exists (json_term d). split; [apply json_ctc_term; exact Hd|].
    intros fuel Hf. rewrite depth_term in Hf. destruct fuel as [|fuel]; [lia|].
    apply parse_ctc_term; exact Hd.
  - destruct IHa as (ja & Hja & Hpa). exists (json_op1 NOT ja).
    split; [rewrite json_ctc_un, Hja; reflexivity|].
    intros fuel Hf. pose proof (depth_op1 NOT ja). destruct fuel as [|fuel]; [lia|].
    rewrite parse_ctc_not, Hpa; [reflexivity|lia].
  - destruct IHa as (ja & Hja & Hpa). destruct IHb as (jb & Hjb & Hpb).
    exists (json_op2 o ja jb). split; [rewrite json_ctc_bin, Hja, Hjb; reflexivity|].
    intros fuel Hf. pose proof (depth_op2 o ja jb) as [? ?]. destruct fuel as [|fuel]; [lia|].
    rewrite (parse_ctc_bin _ _ _ _ Ho), Hpa, Hpb; [reflexivity|lia|lia].
Qed.

(* the pretty printer used for the "expr" field never fails on the fragment *)
Definition psub (c : option node) : result string :=
  match c with
  | None => Ok ""
  | Some x =>
      if is_op x then
        match pretty_str x with
        | Ok s => if is_binary_op x then Ok ("(" ++ s ++ ")")%string else Ok s
        | Err e => Err e
        end
      else Ok (node_str x)
  end.

Lemma pretty_str_eq d l r :
  pretty_str (Node d l r) =
  match psub l with
  | Err e => Err e
  | Ok sl =>
      match psub r with
      | Err e => Err e
      | Ok sr =>
          let data := data_label d in
          if is_unique_term (Node d l r) then Ok data
          else if is_unary_op (Node d l r) then Ok (data ++ " " ++ sl)%string
          else if is_aggregate_op (Node d l r) then
                 match r with
                 | Some _ => Ok (data ++ "(" ++ sl ++ ", " ++ sr ++ ")")%string
                 | None => Err UnboundLocalError
                 end
               else Ok (sl ++ " " ++ data ++ " " ++ sr)%string
      end
  end.
Proof. reflexivity. Qed.

Lemma psub_ok x : (exists s, pretty_str x = Ok s) -> exists s, psub (Some x) = Ok s.
Proof.
  intros [s Hs]. unfold psub. rewrite Hs.
  destruct (is_op x); [|eexists; reflexivity].
  destruct (is_binary_op x); eexists; reflexivity.
Qed.

Lemma pretty_str_JOK : forall n, JOK n -> exists s, pretty_str n = Ok s.
Proof.
  induction 1 as [d Hd|a Ha IHa|o a b Ho Ha IHa Hb IHb].
  - destruct d; try discriminate Hd; eexists; reflexivity.
  - destruct (psub_ok a IHa) as [sa Hsa]. unfold un. rewrite pretty_str_eq, Hsa.
    eexists; reflexivity.
  - destruct (psub_ok a IHa) as [sa Hsa]. destruct (psub_ok b IHb) as [sb Hsb].
    unfold bin. rewrite pretty_str_eq, Hsa, Hsb.
    destruct o; try discriminate Ho; eexists; reflexivity.
Qed.

Definition json_ctc_entry (c : ctc) : result aval :=
  match pretty_str (c_ast c) with Err e => Err e | Ok expr =>
  match json_ctc (c_ast c) with Err e => Err e | Ok j =>
    Ok (VMap [("name", VStr (c_name c)); ("expr", VStr expr); ("ast", j)])
  end end.

Lemma json_constraints_eq cs : json_constraints cs = mapM json_ctc_entry cs.
Proof. reflexivity. Qed.

Lemma entry_roundtrip c : node_json_ok (c_ast c) = true ->
  exists j, json_ctc_entry c = Ok j /\ rd_ctc j = Ok c.
Proof.
  intros H. apply node_json_ok_JOK in H.
  destruct (pretty_str_JOK _ H) as [expr Hexpr].
  destruct (ctc_roundtrip_JOK _ H) as (j & Hj & Hp).
  unfold json_ctc_entry. rewrite Hexpr, Hj. eexists. split; [reflexivity|].
  unfold rd_ctc.
  change (jget "name" (VMap [("name", VStr (c_name c)); ("expr", VStr expr); ("ast", j)]))
    with (Ok (VStr (c_name c))).
  change (jget "ast" (VMap [("name", VStr (c_name c)); ("expr", VStr expr); ("ast", j)]))
    with (Ok j).
  cbn [jstr]. rewrite (Hp _ (le_n _)). destruct c; reflexivity.
Qed.

Lemma constraints_roundtrip : forall cs,
  forallb (fun c => node_json_ok (c_ast c)) cs = true ->
  exists js, json_constraints cs = Ok js /\ mapM rd_ctc js = Ok cs.
Proof.
  intros cs. rewrite json_constraints_eq.
  induction cs as [|c cs IH]; intros H.
  - exists []. split; reflexivity.
  - cbn [forallb] in H. apply andb_prop in H. destruct H as [Hc Hcs].
    destruct (entry_roundtrip c Hc) as (j & Hj & Hr).
    destruct (IH Hcs) as (js & Hjs & Hrs).
    exists (j :: js). split.
    + rewrite mapM_cons, Hj, Hjs. reflexivity.
    + rewrite mapM_cons, Hr, Hrs. reflexivity.
Qed.

(* ------------------------------------------------------------------ C05: the theorems *)
(* Since the reader rejects a relation without children (json_reader.py raises on "children": []), the three
   statements below need the hypothesis [rels_nonempty (root m)] (C16Facts.v: every relation of the tree has a
   child).  The statements before that change were
     Theorem json_roundtrip : forall m, json_ok m = true ->
       exists d, json_write m = Ok d /\ json_read d = Ok (annotate_fm m).
     Theorem json_roundtrip_erased : forall m, json_ok m = true ->
       exists d pm, json_write m = Ok d /\ json_read d = Ok pm /\ erase_fm pm = m.
     Theorem json_cycles : forall n m, json_ok m = true -> iter_cycle n m = Ok m.
   and are refuted by [json_roundtrip_old_false] below; the hypothesis is also necessary
   ([json_roundtrip_needs_nonempty]). *)
Theorem json_roundtrip : forall m, json_ok m = true -> rels_nonempty (root m) ->
  exists d, json_write m = Ok d /\ json_read d = Ok (annotate_fm m).
Proof.
  intros m H Hne. unfold json_ok in H. apply andb_prop in H. destruct H as [Hroot Hctcs].
  destruct (constraints_roundtrip _ Hctcs) as (js & Hjs & Hrs).
  unfold json_write. rewrite Hjs. eexists. split; [reflexivity|].
  rewrite json_read_eq.
  change (jget "features" (VMap [("features", json_tree (root m)); ("constraints", VList js)]))
    with (Ok (json_tree (root m))).
  change (jget "constraints" (VMap [("features", json_tree (root m)); ("constraints", VList js)]))
    with (Ok (VList js)).
  cbv beta iota.
  rewrite (json_parse_tree_json_tree _ Hroot Hne _ _ _ (le_n _)). cbn [jlist]. rewrite Hrs.
  reflexivity.
Qed.

Theorem json_roundtrip_erased : forall m, json_ok m = true -> rels_nonempty (root m) ->
  exists d pm, json_write m = Ok d /\ json_read d = Ok pm /\ erase_fm pm = m.
Proof.
  intros m H Hne. destruct (json_roundtrip m H Hne) as (d & Hw & Hr).
  exists d, (annotate_fm m). split; [exact Hw|]. split; [exact Hr|].
  destruct m as [r cs]. unfold erase_fm, annotate_fm. cbn [proot pctcs root ctcs].
  rewrite erase_annotate. reflexivity.
Qed.

(* any number of cycles *)
Definition json_cycle (m : fm) : result fm :=
  match json_write m with
  | Err e => Err e
  | Ok d => match json_read d with Err e => Err e | Ok pm => Ok (erase_fm pm) end
  end.
Fixpoint iter_cycle (n : nat) (m : fm) : result fm :=
  match n with
  | O => Ok m
  | S k => match json_cycle m with Err e => Err e | Ok m' => iter_cycle k m' end
  end.

Lemma json_cycle_id : forall m, json_ok m = true -> rels_nonempty (root m) -> json_cycle m = Ok m.
Proof.
  intros m H Hne. destruct (json_roundtrip_erased m H Hne) as (d & pm & Hw & Hr & He).
  unfold json_cycle. rewrite Hw, Hr, He. reflexivity.
Qed.

Theorem json_cycles : forall n m, json_ok m = true -> rels_nonempty (root m) -> iter_cycle n m = Ok m.
Proof.
  induction n as [|n IH]; intros m H Hne; [reflexivity|].
  cbn [iter_cycle]. rewrite (json_cycle_id m H Hne). apply IH; assumption.
Qed.

(* ------------------------------------------------------------------ fuel monotonicity of both readers *)
Definition rec_le (rec rec' : path -> ptr -> aval -> result pfeature) : Prop :=
  forall h p c r, rec h p c = Ok r -> rec' h p c = Ok r.

Lemma rd_goc_mono rec rec' here k : rec_le rec rec' ->
  forall chl j pcs, rd_goc rec here k j chl = Ok pcs -> rd_goc rec' here k j chl = Ok pcs.
Proof.
  intros Hle. induction chl as [|c cs IH]; intros j pcs H; [exact H|].
  rewrite rd_goc_cons in H. rewrite rd_goc_cons.
  destruct (rec (here ++ [(k, j)]) (PPath here) c) as [pc|e] eqn:Hc; [|discriminate].
  destruct (rd_goc rec here k (S j) cs) as [pcs'|e] eqn:Hcs; [|discriminate].
  rewrite (Hle _ _ _ _ Hc), (IH _ _ Hcs). exact H.
Qed.

Lemma rd_rel_mono rec rec' here k rel pr : rec_le rec rec' ->
  rd_rel rec here k rel = Ok pr -> rd_rel rec' here k rel = Ok pr.
Proof.
  intros Hle H. unfold rd_rel in *.
  destruct (jget "children" rel) as [chv|e]; [|discriminate].
  destruct (jlist chv) as [chl|e]; [|discriminate].
  destruct (rd_goc rec here k 0%nat chl) as [children|e] eqn:Hch; [|discriminate].
  rewrite (rd_goc_mono _ _ _ _ Hle _ _ _ Hch). exact H.
Qed.

Lemma rd_go_mono rec rec' here : rec_le rec rec' ->
  forall rels k prs, rd_go rec here k rels = Ok prs -> rd_go rec' here k rels = Ok prs.
Proof.
  intros Hle. induction rels as [|rel rest IH]; intros k prs H; [exact H|].
  rewrite rd_go_cons in H. rewrite rd_go_cons.
  destruct (rd_rel rec here k rel) as [pr|e] eqn:Hr; [|discriminate].
  destruct (rd_go rec here (S k) rest) as [prs'|e] eqn:Hrs; [|discriminate].
  rewrite (rd_rel_mono _ _ _ _ _ _ Hle Hr), (IH _ _ Hrs). exact H.
Qed.

Lemma rd_rels_mono rec rec' here node prs : rec_le rec rec' ->
  rd_rels rec here node = Ok prs -> rd_rels rec' here node = Ok prs.
Proof.
  intros Hle H. unfold rd_rels in *.
  destruct (jhas "relations" node); [|exact H].
  destruct (jget "relations" node) as [rl|e]; [|discriminate].
  destruct (jlist rl) as [rels|e]; [|discriminate].
  eapply rd_go_mono; eassumption.
Qed.

Lemma json_parse_tree_mono : forall fuel fuel' here parent node r,
  json_parse_tree fuel here parent node = Ok r -> fuel <= fuel' ->
  json_parse_tree fuel' here parent node = Ok r.
Proof.
  induction fuel as [|fuel IH]; intros fuel' here parent node r H Hle; [discriminate|].
  destruct fuel' as [|fuel']; [lia|].
  rewrite json_parse_tree_S in H. rewrite json_parse_tree_S.
  destruct (jget "name" node) as [n|e]; [|discriminate].
  destruct (jget "abstract" node) as [ab|e]; [|discriminate].
  destruct (jstr n) as [name|e]; [|discriminate].
  destruct (json_read_attributes node) as [attrs|e]; [|discriminate].
  destruct (rd_rels (json_parse_tree fuel) here node) as [prs|e] eqn:Hr; [|discriminate].
  assert (Hrec : rec_le (json_parse_tree fuel) (json_parse_tree fuel')).
  { intros h p c r' Hc. apply (IH fuel' h p c r' Hc). lia. }
  rewrite (rd_rels_mono _ _ _ _ _ Hrec Hr). exact H.
Qed.

Lemma json_parse_ctc_mono : forall fuel fuel' info n,
  json_parse_ctc fuel info = Ok n -> fuel <= fuel' -> json_parse_ctc fuel' info = Ok n.
Proof.
  induction fuel as [|fuel IH]; intros fuel' info n H Hle; [discriminate|].
  destruct fuel' as [|fuel']; [lia|].
  rewrite json_parse_ctc_S in H. rewrite json_parse_ctc_S.
  destruct (jget "type" info) as [tv|e]; [|discriminate].
  destruct (jget "operands" info) as [ov|e]; [|discriminate].
  destruct (jlist ov) as [ops|e]; [|discriminate].
  destruct (jstr tv) as [ty|e]; [|discriminate].
  cbv zeta in H. cbv zeta.
  assert (Hrec : forall x y, json_parse_ctc fuel x = Ok y -> json_parse_ctc fuel' x = Ok y).
  { intros x y Hx. apply (IH fuel' x y Hx). lia. }
  assert (Hsub : forall i a,
            match nth_operand ops i with Err e => Err e | Ok x => json_parse_ctc fuel x end = Ok a ->
            match nth_operand ops i with Err e => Err e | Ok x => json_parse_ctc fuel' x end = Ok a).
  { intros i a Hs. destruct (nth_operand ops i) as [x|e]; [|discriminate]. apply Hrec. exact Hs. }
  assert (Hbin : forall o,
            match match nth_operand ops 0 with Err e => Err e | Ok x => json_parse_ctc fuel x end with
            | Err e => Err e
            | Ok a => match match nth_operand ops 1 with Err e => Err e | Ok x => json_parse_ctc fuel x end with
                      | Err e => Err e | Ok b => Ok (bin o a b) end
            end = Ok n ->
            match match nth_operand ops 0 with Err e => Err e | Ok x => json_parse_ctc fuel' x end with
            | Err e => Err e
            | Ok a => match match nth_operand ops 1 with Err e => Err e | Ok x => json_parse_ctc fuel' x end with
                      | Err e => Err e | Ok b => Ok (bin o a b) end
            end = Ok n).
  { intros o Hb.
    destruct (match nth_operand ops 0 with Err e => Err e | Ok x => json_parse_ctc fuel x end)
      as [a|e] eqn:Ha; [|discriminate].
    destruct (match nth_operand ops 1 with Err e => Err e | Ok x => json_parse_ctc fuel x end)
      as [b|e] eqn:Hb'; [|discriminate].
    rewrite (Hsub _ _ Ha), (Hsub _ _ Hb'). exact Hb. }
  assert (Hred : forall o,
            match mapM (json_parse_ctc fuel) ops with Err e => Err e | Ok l => reduce_op o l end = Ok n ->
            match mapM (json_parse_ctc fuel') ops with Err e => Err e | Ok l => reduce_op o l end = Ok n).
  { intros o Hr. destruct (mapM (json_parse_ctc fuel) ops) as [l|e] eqn:Hm; [|discriminate].
    rewrite (mapM_ext_ok _ _ _ _ Hrec Hm). exact Hr. }
  destruct (String.eqb ty jt_FEATURE); [exact H|].
  destruct (String.eqb ty (astop_value NOT)).
  { destruct (match nth_operand ops 0 with Err e => Err e | Ok x => json_parse_ctc fuel x end)
      as [a|e] eqn:Ha; [|discriminate].
    rewrite (Hsub _ _ Ha). exact H. }
  destruct (String.eqb ty (astop_value IMPLIES)); [apply Hbin; exact H|].
  destruct (String.eqb ty (astop_value REQUIRES)); [apply Hbin; exact H|].
  destruct (String.eqb ty (astop_value EXCLUDES)); [apply Hbin; exact H|].
  destruct (String.eqb ty (astop_value EQUIVALENCE)); [apply Hbin; exact H|].
  destruct (String.eqb ty (astop_value AND)); [apply Hred; exact H|].
  destruct (String.eqb ty (astop_value OR)); [apply Hred; exact H|].
  destruct (String.eqb ty (astop_value XOR)); [apply Hred; exact H|].
  discriminate.
Qed.

(* ------------------------------------------------------------------ a concrete instance *)
(* six features; a mandatory relation and an or-group under the root, an alternative group below;
   an attribute whose value is a list; a name that the pretty printer has to quote; two constraints *)
Definition ex_root_info : finfo :=
  {| f_name := "Root"; f_abstract := VBool true; f_type := TBoolean; f_cmin := 1; f_cmax := 1;
     f_attrs := [ {| a_name := "tags"; a_dom := None;
                     a_default := VList [VStr "x"; VInt 2; VList [VBool false]]; a_null := VNone |};
                  {| a_name := "plain"; a_dom := None; a_default := VNone; a_null := VNone |} ] |}.
Definition ex_model : fm :=
  {| root := Feature ex_root_info
               [ Relation 1 1 [ Feature (mk_info "A")
                                  [ Relation 1 1 [leaf "my feature"; leaf "E"] ] ];
                 Relation 1 2 [leaf "B"; leaf "C"] ];
     ctcs := [ {| c_name := "c1"; c_ast := bin REQUIRES (term "B") (term "C") |};
               {| c_name := "c2";
                  c_ast := bin IMPLIES (un NOT (term "my feature"))
                             (bin AND (term "E") (bin XOR (term "C") (term "A"))) |} ] |}.

Example ex_model_nonempty : rels_nonempty (root ex_model).
Proof. repeat constructor; discriminate. Qed.

Example ex_model_roundtrip :
  json_ok ex_model = true
  /\ List.length (subfeatures (root ex_model)) = 6
  /\ match json_write ex_model with Ok d => json_read d | Err e => Err e end
     = Ok (annotate_fm ex_model)
  /\ iter_cycle 3 ex_model = Ok ex_model.
Proof. vm_compute. repeat split. Qed.

(* outside the fragment the round trip really changes the model: a null value is dropped *)
Example ex_null_dropped :
  let m := {| root := Feature {| f_name := "R"; f_abstract := VBool false; f_type := TBoolean;
                                 f_cmin := 1; f_cmax := 1;
                                 f_attrs := [ {| a_name := "a"; a_dom := None; a_default := VInt 1;
                                                 a_null := VInt 0 |} ] |} [];
              ctcs := [] |} in
  json_ok m = false /\ json_cycle m <> Ok m.
Proof. vm_compute. split; [reflexivity|discriminate]. Qed.

(* ------------------------------------------------------------------ C02: no relation of an accepted tree is empty *)
Definition jprel_ne (r : prelation) : bool :=
  negb (Nat.eqb (List.length (pr_children r)) 0) && forallb rels_nonempty_p (pr_children r).

Lemma json_rels_nonempty_p_eq : forall i p a rs,
  rels_nonempty_p (PFeature i p a rs) = forallb jprel_ne rs.
Proof.
  intros i p a rs. cbn [rels_nonempty_p].
  induction rs as [|[rp x y cs] rs IH]; [reflexivity|].
  cbn [forallb]. rewrite IH. reflexivity.
Qed.

Definition rec_ne (rec : path -> ptr -> aval -> result pfeature) : Prop :=
  forall h p c pc, rec h p c = Ok pc -> rels_nonempty_p pc = true.

Lemma rd_goc_ne rec here k : rec_ne rec ->
  forall chl j pcs, rd_goc rec here k j chl = Ok pcs -> forallb rels_nonempty_p pcs = true.
Proof.
  intros Hrec. induction chl as [|c cs IH]; intros j pcs H.
  - rewrite rd_goc_nil in H. inversion H. reflexivity.
  - rewrite rd_goc_cons in H.
    destruct (rec (here ++ [(k, j)]) (PPath here) c) as [pc|e] eqn:Hc; [|discriminate].
    destruct (rd_goc rec here k (S j) cs) as [pcs'|e] eqn:Hcs; [|discriminate].
    inversion H; subst. cbn [forallb].
    rewrite (Hrec _ _ _ _ Hc), (IH _ _ Hcs). reflexivity.
Qed.

Lemma rd_rel_ne rec here k rel pr : rec_ne rec ->
  rd_rel rec here k rel = Ok pr -> jprel_ne pr = true.
Proof.
  intros Hrec H. unfold rd_rel in H.
  destruct (jget "children" rel) as [chv|e]; [|discriminate].
  destruct (jlist chv) as [chl|e]; [|discriminate].
  destruct (rd_goc rec here k 0%nat chl) as [[|c0 children0]|e] eqn:Hch; [discriminate| |discriminate].
  destruct (jget "type" rel) as [tv|e]; [|discriminate].
  destruct (jstr tv) as [rtype|e]; [|discriminate].
  destruct (json_relation_cards rtype rel (List.length (c0 :: children0))) as [[a b]|e]; [|discriminate].
  inversion H; subst. unfold jprel_ne. cbn [pr_children].
  rewrite (rd_goc_ne _ _ _ Hrec _ _ _ Hch). reflexivity.
Qed.

Lemma rd_go_ne rec here : rec_ne rec ->
  forall rels k prs, rd_go rec here k rels = Ok prs -> forallb jprel_ne prs = true.
Proof.
  intros Hrec. induction rels as [|rel rest IH]; intros k prs H.
  - rewrite rd_go_nil in H. inversion H. reflexivity.
  - rewrite rd_go_cons in H.
    destruct (rd_rel rec here k rel) as [pr|e] eqn:Hr; [|discriminate].
    destruct (rd_go rec here (S k) rest) as [prs'|e] eqn:Hrs; [|discriminate].
    inversion H; subst. cbn [forallb].
    rewrite (rd_rel_ne _ _ _ _ _ Hrec Hr), (IH _ _ Hrs). reflexivity.
Qed.

Lemma rd_rels_ne rec here node prs : rec_ne rec ->
  rd_rels rec here node = Ok prs -> forallb jprel_ne prs = true.
Proof.
  intros Hrec H. unfold rd_rels in H.
  destruct (jhas "relations" node).
  - destruct (jget "relations" node) as [rl|e]; [|discriminate].
    destruct (jlist rl) as [rels|e]; [|discriminate].
    eapply rd_go_ne; eassumption.
  - inversion H. reflexivity.
Qed.

Lemma json_parse_tree_ne : forall fuel, rec_ne (json_parse_tree fuel).
Proof.
  induction fuel as [|fuel IH]; intros here parent node pf H.
  - discriminate.
  - rewrite json_parse_tree_S in H.
    destruct (jget "name" node) as [n|e]; [|discriminate].
    destruct (jget "abstract" node) as [ab|e]; [|discriminate].
    destruct (jstr n) as [name|e]; [|discriminate].
    destruct (json_read_attributes node) as [attrs|e]; [|discriminate].
    destruct (rd_rels (json_parse_tree fuel) here node) as [prs|e] eqn:Hr; [|discriminate].
    inversion H; subst. rewrite json_rels_nonempty_p_eq.
    exact (rd_rels_ne _ _ _ _ IH Hr).
Qed.

Theorem json_read_nonempty : forall d pm, json_read d = Ok pm -> rels_nonempty_p (proot pm) = true.
Proof.
  intros d pm H. unfold json_read in H.
  destruct (jget "features" d) as [fv|e]; [|discriminate].
  destruct (jget "constraints" d) as [cv|e]; [|discriminate].
  destruct (json_parse_tree (aval_depth fv) [] PNone fv) as [pr|e] eqn:Hp; [|discriminate].
  destruct (jlist cv) as [cl|e]; [|discriminate].
  match type of H with match ?X with _ => _ end = _ => destruct X as [cs|e]; [|discriminate] end.
  inversion H; subst. cbn [proot].
  eapply json_parse_tree_ne; eassumption.
Qed.

(* a document whose root has a relation with "children": [] is rejected *)
Example json_read_empty_children :
  json_read (VMap [("features",
                    VMap [("name", VStr "R"); ("abstract", VBool false);
                          ("relations", VList [VMap [("type", VStr jt_OPTIONAL); ("card_min", VInt 0);
                                                     ("card_max", VInt 1); ("children", VList [])]])]);
                   ("constraints", VList [])])
  = Err ParsingException.
Proof. vm_compute; reflexivity. Qed.

(* the same relation with one child is accepted (so it is the empty list that is rejected) *)
Example json_read_one_child :
  exists pm,
  json_read (VMap [("features",
                    VMap [("name", VStr "R"); ("abstract", VBool false);
                          ("relations", VList [VMap [("type", VStr jt_OPTIONAL); ("card_min", VInt 0);
                                                     ("card_max", VInt 1);
                                                     ("children", VList [VMap [("name", VStr "A");
                                                                               ("abstract", VBool false)]])]])]);
                   ("constraints", VList [])])
  = Ok pm.
Proof. vm_compute; eexists; reflexivity. Qed.

(* ------------------------------------------------------------------ the hypothesis [rels_nonempty] of C05 *)
(* the tree-level [rels_nonempty] and the pointer-tree [rels_nonempty_p] say the same *)
Lemma rels_nonempty_p_annotate : forall f here p,
  rels_nonempty_p (annotate here p f) = true -> rels_nonempty f.
Proof.
  apply (feature_ind2
           (fun f => forall here p, rels_nonempty_p (annotate here p f) = true -> rels_nonempty f)
           (fun r => Forall (fun c => forall here p, rels_nonempty_p (annotate here p c) = true -> rels_nonempty c)
                            (r_children r))).
  - intros i rs IH here p H. rewrite annotate_eq, json_rels_nonempty_p_eq in H.
    apply rels_nonempty_intro. revert H. generalize 0%nat as k.
    induction IH as [|r rs Hr _ IHrs]; intros k H; [constructor|].
    destruct r as [a b cs]. rewrite an_go_cons in H. cbn [forallb] in H.
    apply andb_prop in H. destruct H as [Hr1 Hrest].
    constructor; [|exact (IHrs _ Hrest)].
    unfold jprel_ne in Hr1. cbn [pr_children r_children] in *.
    apply andb_prop in Hr1. destruct Hr1 as [Hlen Hcs]. split.
    + intros ->. discriminate Hlen.
    + clear Hlen. revert Hcs. generalize 0%nat as j.
      induction Hr as [|c cs Hc _ IHcs]; intros j Hcs; [constructor|].
      rewrite an_goc_cons in Hcs. cbn [forallb] in Hcs.
      apply andb_prop in Hcs. destruct Hcs as [Hc1 Hcs1].
      constructor; [exact (Hc _ _ Hc1)|exact (IHcs _ Hcs1)].
  - intros a b cs IH. exact IH.
Qed.

(* the added hypothesis is necessary: a model that survives the round trip has no relation without children *)
Theorem json_roundtrip_needs_nonempty : forall m d,
  json_write m = Ok d -> json_read d = Ok (annotate_fm m) -> rels_nonempty (root m).
Proof.
  intros m d _ Hr. apply json_read_nonempty in Hr. unfold annotate_fm in Hr. cbn [proot] in Hr.
  exact (rels_nonempty_p_annotate _ _ _ Hr).
Qed.

(* the statements of C05 without that hypothesis are false: a model of the JSON fragment with a relation
   without children is written, and the reader rejects what was written *)
Definition ex_empty_rel : fm :=
  {| root := Feature (mk_info "R") [Relation 0 1 []]; ctcs := [] |}.
Example json_roundtrip_old_false :
  json_ok ex_empty_rel = true
  /\ (exists d, json_write ex_empty_rel = Ok d /\ json_read d = Err ParsingException)
  /\ json_cycle ex_empty_rel = Err ParsingException
  /\ ~ rels_nonempty (root ex_empty_rel).
Proof.
  split; [vm_compute; reflexivity|]. split; [vm_compute; eexists; split; reflexivity|].
  split; [vm_compute; reflexivity|].
  intros H. inversion H as [|? ? Hr _]; subst. apply Hr. reflexivity.
Qed.

Print Assumptions json_roundtrip.
Print Assumptions erase_annotate.
Print Assumptions json_roundtrip_erased.
Print Assumptions json_cycles.
Print Assumptions json_read_ptr_wf.
Print Assumptions json_read_ctc_shape.
Print Assumptions annotate_ptr_wf.
Print Assumptions json_parse_tree_mono.
Print Assumptions json_parse_ctc_mono.
Print Assumptions json_parse_tree_json_tree.
Print Assumptions ex_model_roundtrip.
Print Assumptions json_read_nonempty.
Print Assumptions json_read_empty_children.
Print Assumptions json_roundtrip_needs_nonempty.
Print Assumptions json_roundtrip_old_false.

(* a FEATURE term whose operand is null, and a term whose "operands" is a string instead of a list, are parsing
   errors; the same document with the operand "R" is read *)
Definition ex_ctc_doc (ast : aval) : aval :=
  VMap [("features", VMap [("name", VStr "R"); ("abstract", VBool false)]);
        ("constraints", VList [VMap [("name", VStr "c"); ("ast", ast)]])].
Example json_read_bad_term :
  json_read (ex_ctc_doc (VMap [("type", VStr jt_FEATURE); ("operands", VList [VNone])])) = Err ParsingException
  /\ json_read (ex_ctc_doc (VMap [("type", VStr jt_FEATURE); ("operands", VStr "R")])) = Err ParsingException
  /\ exists pm, json_read (ex_ctc_doc (VMap [("type", VStr jt_FEATURE); ("operands", VList [VStr "R"])])) = Ok pm.
Proof. split; [vm_compute; reflexivity|]. split; [vm_compute; reflexivity|]. vm_compute. eexists. reflexivity. Qed.
Print Assumptions json_read_bad_term.

(* a feature name that is not a string, and a cardinality bound that is not an integer (here the float 1.0), are parsing
   errors; the same CARDINALITY relation with the integer 1 is read *)
Definition ex_card_doc (cmin : aval) : aval :=
  VMap [("features",
         VMap [("name", VStr "R"); ("abstract", VBool false);
               ("relations", VList [VMap [("type", VStr jt_CARDINALITY); ("card_min", cmin);
                                          ("card_max", VInt 1);
                                          ("children", VList [VMap [("name", VStr "A");
                                                                    ("abstract", VBool false)]])]])]);
        ("constraints", VList [])].
Example json_read_bad_types :
  json_read (VMap [("features", VMap [("name", VInt 1); ("abstract", VBool false)]);
                   ("constraints", VList [])]) = Err ParsingException
  /\ json_read (ex_card_doc (VFloat "1.0")) = Err ParsingException
  /\ exists pm, json_read (ex_card_doc (VInt 1)) = Ok pm.
Proof. split; [vm_compute; reflexivity|]. split; [vm_compute; reflexivity|]. vm_compute. eexists. reflexivity. Qed.
Print Assumptions json_read_bad_types.
