(* Proofs/FMFacts.v — structural lemmas about the feature tree and its listings *)
From Coq Require Import List Bool Ascii String ZArith Lia Permutation.
From FM Require Import Base.Result Base.Str Model.Ast Model.FM Model.Ctc Model.Queries.
Import ListNotations.
Local Open Scope list_scope.

Lemma subfeatures_head f : exists tl, subfeatures f = f :: tl.
Proof. destruct f as [i rs]; simpl; eauto. Qed.

Lemma flat_map_app' {A B} (f : A -> list B) l1 l2 :
  flat_map f (l1 ++ l2) = flat_map f l1 ++ flat_map f l2.
Proof. induction l1; simpl; auto. rewrite IHl1, app_assoc; auto. Qed.

(* the children of all relations of a sub-tree are exactly the proper descendants *)
Lemma children_of_subrelations_perm :
  forall f, Permutation (f :: flat_map r_children (subrelations f)) (subfeatures f).
Proof.
  apply (feature_ind2
           (fun f => Permutation (f :: flat_map r_children (subrelations f)) (subfeatures f))
           (fun r => Permutation (r_children r ++ flat_map r_children (flat_map subrelations (r_children r)))
                                 (flat_map subfeatures (r_children r)))).
  - intros i rs IH. simpl. constructor.
    induction IH as [|r rs' Hr _ IHrs]; simpl; auto.
    destruct r as [a b cs]; simpl in *.
    rewrite flat_map_app'.
    rewrite app_assoc.
    apply Permutation_app; auto.
  - intros a b cs IH. simpl.
    induction IH as [|c cs' Hc _ IHcs]; simpl; auto.
    rewrite !flat_map_app'.
    (* c :: cs' ++ X ++ Y  ~  subfeatures c ++ flat_map subfeatures cs' *)
    transitivity ((c :: flat_map r_children (subrelations c))
                    ++ (cs' ++ flat_map r_children (flat_map subrelations cs'))).
    + simpl. constructor.
      rewrite !app_assoc. apply Permutation_app_tail. apply Permutation_app_comm.
    + apply Permutation_app; auto.
Qed.

Theorem get_features_perm m : Permutation (get_features m) (subfeatures (root m)).
Proof. apply children_of_subrelations_perm. Qed.

Lemma fsize_subfeatures : forall f, List.length (subfeatures f) = fsize f.
Proof.
  apply (feature_ind2 (fun f => List.length (subfeatures f) = fsize f)
           (fun r => List.length (flat_map subfeatures (r_children r))
                     = list_sum (map fsize (r_children r)))).
  - intros i rs IH. simpl. f_equal.
    induction IH as [|r rs' Hr _ IHrs]; simpl; auto.
    rewrite app_length. destruct r as [a b cs]; simpl in *. lia.
  - intros a b cs IH. simpl.
    induction IH as [|c cs' Hc _ IHcs]; simpl; auto.
    rewrite app_length. lia.
Qed.

Theorem get_features_length m : List.length (get_features m) = fsize (root m).
Proof.
  rewrite (Permutation_length (get_features_perm m)). apply fsize_subfeatures.
Qed.

(* the ctx listing is the plain listing with parents attached *)
Lemma map_snd_ctx_rels : forall f,
  map snd (subrelations_ctx f) = subrelations f.
Proof.
  apply (feature_ind2 (fun f => map snd (subrelations_ctx f) = subrelations f)
           (fun r => map snd (flat_map subrelations_ctx (r_children r))
                     = flat_map subrelations (r_children r))).
  - intros i rs IH. simpl. generalize (Feature i rs). intro owner.
    induction IH as [|r rs' Hr _ IHrs]; simpl; auto.
    rewrite map_app. destruct r as [a b cs]; simpl in *. rewrite Hr, IHrs. reflexivity.
  - intros a b cs IH. simpl.
    induction IH as [|c cs' Hc _ IHcs]; simpl; auto.
    rewrite map_app, Hc, IHcs. reflexivity.
Qed.

Lemma get_features_ctx_snd m : map snd (get_features_ctx m) = get_features m.
Proof.
  unfold get_features_ctx, get_features, get_relations. simpl. f_equal.
  rewrite <- (map_snd_ctx_rels (root m)).
  induction (subrelations_ctx (root m)) as [|[p r] l IH]; simpl; auto.
  rewrite map_app, map_map. simpl. rewrite map_id, IH. reflexivity.
Qed.

(* every (owner, relation) pair of the listing: the relation belongs to the owner, and the owner is
   a feature of the sub-tree *)
Lemma subrelations_ctx_sound : forall f p r,
  In (p, r) (subrelations_ctx f) -> In r (rels p) /\ In p (subfeatures f).
Proof.
  apply (feature_ind2
           (fun f => forall p r, In (p, r) (subrelations_ctx f) -> In r (rels p) /\ In p (subfeatures f))
           (fun r0 => forall p r, In (p, r) (flat_map subrelations_ctx (r_children r0)) ->
                                  In r (rels p) /\ In p (flat_map subfeatures (r_children r0)))).
  - intros i rs IH p r Hin. simpl in Hin.
    assert (Hgen : forall rs0, Forall (fun r0 => forall p r,
                       In (p, r) (flat_map subrelations_ctx (r_children r0)) ->
                       In r (rels p) /\ In p (flat_map subfeatures (r_children r0))) rs0 ->
                   forall rsall, incl rs0 rsall ->
                   In (p, r) (flat_map (fun r1 => match r1 with
                       | Relation _ _ cs => (Feature i rsall, r1) :: flat_map subrelations_ctx cs end) rs0) ->
                   In r (rels p) /\ In p (Feature i rsall ::
                        flat_map (fun r1 => match r1 with Relation _ _ cs => flat_map subfeatures cs end) rs0)).
    { induction 1 as [|r0 rs0 H0 _ IH0]; intros rsall Hincl Hin'; simpl in Hin'; [contradiction|].
      destruct r0 as [a b cs]. simpl in Hin'. destruct Hin' as [Heq | Hin'].
      - inversion Heq; subst. split; [apply Hincl; left; reflexivity | left; reflexivity].
      - apply in_app_or in Hin'. destruct Hin' as [Hin' | Hin'].
        + apply H0 in Hin'. destruct Hin' as [H1 H2]. split; auto.
          right. simpl. apply in_or_app. left. exact H2.
        + assert (Hincl' : incl rs0 rsall) by (intros x Hx; apply Hincl; right; exact Hx).
          destruct (IH0 rsall Hincl' Hin') as [H1 H2]. split; auto.
          destruct H2 as [H2 | H2]; [left; exact H2|].
          right. simpl. apply in_or_app. right. exact H2. }
    apply (Hgen rs IH rs (incl_refl _)). exact Hin.
  - intros a b cs IH p r Hin. simpl in *.
    induction IH as [|c cs' Hc _ IHcs]; simpl in *; [contradiction|].
    apply in_app_or in Hin. destruct Hin as [Hin | Hin].
    + destruct (Hc _ _ Hin) as [H1 H2]. split; auto. apply in_or_app; left; exact H2.
    + destruct (IHcs Hin) as [H1 H2]. split; auto. apply in_or_app; right; exact H2.
Qed.

(* parent query mirrors the tree: a (Some p, c) entry says c is a child of p and p is in the tree *)
Theorem get_features_ctx_parent m p c :
  In (Some p, c) (get_features_ctx m) -> In c (children p) /\ In p (subfeatures (root m)).
Proof.
  unfold get_features_ctx. simpl. intros [Heq | Hin]; [discriminate|].
  apply in_flat_map in Hin. destruct Hin as [[q r] [Hqr Hin]]. simpl in Hin.
  apply in_map_iff in Hin. destruct Hin as [c' [Heq Hc']]. inversion Heq; subst.
  destruct (subrelations_ctx_sound _ _ _ Hqr) as [H1 H2]. split; auto.
  unfold children. apply in_flat_map. exists r. split; auto.
Qed.

Theorem get_features_ctx_root m o c :
  In (o, c) (get_features_ctx m) -> o = None -> c = root m.
Proof.
  unfold get_features_ctx. simpl. intros [Heq | Hin] Ho.
  - inversion Heq; reflexivity.
  - subst. apply in_flat_map in Hin. destruct Hin as [[q r] [_ Hin]].
    apply in_map_iff in Hin. destruct Hin as [c' [Heq _]]. discriminate.
Qed.
