(* Proofs/C16Facts.v — the tree-shape operations of Model/Ops.v equal their structural definitions *)
From Coq Require Import List Bool Ascii String ZArith Lia Permutation.
From FM Require Import Base.Result Base.Str Base.PyFloat Model.Ast Model.FM Model.Ctc Model.Queries
     Model.Sem Model.Ops Proofs.FMFacts.
Import ListNotations.
Local Open Scope list_scope.

(* ------------------------------------------------------------------ specification side *)
Fixpoint depth (f : feature) : nat :=
  match f with Feature _ rs =>
    fold_right Nat.max 0
               (flat_map (fun r => match r with
                                   | Relation _ _ cs => map (fun c => S (depth c)) cs
                                   end) rs)
  end.

Definition spec_leaves (f : feature) : list feature := filter feat_is_leaf (subfeatures f).

Definition rels_nonempty (f : feature) : Prop :=
  Forall (fun r => r_children r <> []) (subrelations f).

(* ------------------------------------------------------------------ generic helpers *)
Lemma filter_perm {A} (p : A -> bool) (l l' : list A) :
  Permutation l l' -> Permutation (filter p l) (filter p l').
Proof.
  induction 1 as [|x l l' _ IH|x y l|l l' l'' _ IH1 _ IH2]; simpl.
  - constructor.
  - destruct (p x); auto.
  - destruct (p x), (p y); auto. apply perm_swap.
  - etransitivity; eauto.
Qed.

(* induction over the tree with membership hypotheses *)
Lemma feature_ind_in (P : feature -> Prop) :
  (forall i rs, (forall r c, In r rs -> In c (r_children r) -> P c) -> P (Feature i rs)) ->
  forall f, P f.
Proof.
  intros H. apply (feature_ind2 P (fun r => forall c, In c (r_children r) -> P c)).
  - intros i rs IH. apply H. intros r c Hr Hc.
    rewrite Forall_forall in IH. exact (IH r Hr c Hc).
  - intros a b cs IH c Hc. simpl in Hc. rewrite Forall_forall in IH. auto.
Qed.

(* ------------------------------------------------------------------ leaves *)
Theorem leaves_perm : forall m, Permutation (leaf_features m) (spec_leaves (root m)).
Proof.
  intros m. unfold leaf_features, spec_leaves. apply filter_perm, get_features_perm.
Qed.

Theorem count_leafs_spec : forall m, count_leafs m = Z.of_nat (List.length (spec_leaves (root m))).
Proof.
  intros m. unfold count_leafs. f_equal. apply Permutation_length. apply leaves_perm.
Qed.

(* ------------------------------------------------------------------ max depth *)
Definition leafdepths (l : list (feature * list feature)) : Z :=
  fold_right Z.max 0%Z
             (map (fun fa => Z.of_nat (List.length (snd fa)))
                  (filter (fun fa => feat_is_leaf (fst fa)) l)).

Definition zmaxs (k : nat) (ds : list nat) : Z :=
  fold_right Z.max 0%Z (map (fun d => Z.of_nat (k + d)) ds).

Lemma zmaxfold_nonneg l : (0 <= fold_right Z.max 0 l)%Z.
Proof. induction l as [|x l IH]; simpl; lia. Qed.

Lemma zmaxfold_app l1 l2 :
  fold_right Z.max 0%Z (l1 ++ l2) = Z.max (fold_right Z.max 0%Z l1) (fold_right Z.max 0%Z l2).
Proof.
  induction l1 as [|x l1 IH]; simpl.
  - pose proof (zmaxfold_nonneg l2). lia.
  - rewrite IH. lia.
Qed.

Lemma leafdepths_app l1 l2 : leafdepths (l1 ++ l2) = Z.max (leafdepths l1) (leafdepths l2).
Proof. unfold leafdepths. rewrite filter_app, map_app. apply zmaxfold_app. Qed.

Lemma zmaxs_app k l1 l2 : zmaxs k (l1 ++ l2) = Z.max (zmaxs k l1) (zmaxs k l2).
Proof. unfold zmaxs. rewrite map_app. apply zmaxfold_app. Qed.

Lemma zmaxs_S k ds : zmaxs (S k) ds = zmaxs k (map S ds).
Proof.
  unfold zmaxs. rewrite map_map. f_equal. apply map_ext. intros d. f_equal. lia.
Qed.

Lemma zmaxs_ne k ds : ds <> [] -> zmaxs k ds = Z.of_nat (k + fold_right Nat.max 0 ds).
Proof.
  induction ds as [|d ds IH]; intros Hne; [congruence|].
  destruct ds as [|d' ds'].
  - unfold zmaxs. simpl. lia.
  - assert (Hne' : d' :: ds' <> []) by discriminate.
    specialize (IH Hne').
    change (zmaxs k (d :: d' :: ds')) with (Z.max (Z.of_nat (k + d)) (zmaxs k (d' :: ds'))).
    rewrite IH.
    change (fold_right Nat.max 0 (d :: d' :: ds'))
      with (Nat.max d (fold_right Nat.max 0 (d' :: ds'))).
    lia.
Qed.

Definition depthP (f : feature) : Prop :=
  rels_nonempty f ->
  forall anc, leafdepths (with_ancestors f anc) = Z.of_nat (List.length anc + depth f).

Definition depthQ (r : relation) : Prop :=
  Forall (fun r0 => r_children r0 <> []) (flat_map subrelations (r_children r)) ->
  forall anc, leafdepths (flat_map (fun c => with_ancestors c anc) (r_children r))
              = zmaxs (List.length anc) (map depth (r_children r)).

Lemma depth_rels (owner : feature) (anc : list feature) (rs : list relation) :
  Forall depthQ rs ->
  Forall (fun r0 => r_children r0 <> [])
         (flat_map (fun r => match r with
                             | Relation _ _ cs => r :: flat_map subrelations cs
                             end) rs) ->
  leafdepths (flat_map (fun r => match r with
                                 | Relation _ _ cs =>
                                     flat_map (fun c => with_ancestors c (owner :: anc)) cs
                                 end) rs)
  = zmaxs (List.length anc)
          (flat_map (fun r => match r with
                              | Relation _ _ cs => map (fun c => S (depth c)) cs
                              end) rs).
Proof.
  intros IH. induction IH as [|r rs' Hr _ IHrs]; intros Hne.
  - reflexivity.
  - destruct r as [a b cs].
    cbn [flat_map] in Hne |- *.
    apply Forall_app in Hne. destruct Hne as [Hne1 Hne2].
    apply Forall_inv_tail in Hne1.
    rewrite leafdepths_app, zmaxs_app. f_equal.
    + unfold depthQ in Hr. cbn [r_children] in Hr.
      rewrite (Hr Hne1 (owner :: anc)).
      cbn [List.length]. rewrite zmaxs_S, map_map. reflexivity.
    + apply IHrs. exact Hne2.
Qed.

Lemma leafdepths_with_ancestors : forall f, depthP f.
Proof.
  apply (feature_ind2 depthP depthQ).
  - intros i rs IH Hne anc.
    unfold rels_nonempty in Hne. cbn [subrelations] in Hne.
    pose proof (depth_rels (Feature i rs) anc rs IH Hne) as Hmain.
    destruct rs as [|r0 rs0].
    + unfold leafdepths. simpl. lia.
    + change (leafdepths (with_ancestors (Feature i (r0 :: rs0)) anc))
        with (leafdepths
                (flat_map (fun r => match r with
                                    | Relation _ _ cs =>
                                        flat_map (fun c => with_ancestors c (Feature i (r0 :: rs0) :: anc)) cs
                                    end) (r0 :: rs0))).
      rewrite Hmain.
      rewrite zmaxs_ne.
      * reflexivity.
      * destruct r0 as [a b cs0]. cbn [flat_map] in Hne |- *.
        apply Forall_inv in Hne. cbn [r_children] in Hne.
        destruct cs0 as [|c0 cs0']; [congruence|]. simpl. discriminate.
  - intros a b cs IH. unfold depthQ. cbn [r_children].
    induction IH as [|c cs' Hc _ IHcs]; intros Hne anc.
    + reflexivity.
    + cbn [flat_map] in Hne |- *.
      apply Forall_app in Hne. destruct Hne as [Hne1 Hne2].
      rewrite leafdepths_app.
      rewrite (Hc Hne1 anc), (IHcs Hne2 anc).
      reflexivity.
Qed.

Theorem max_depth_spec : forall m,
  rels_nonempty (root m) -> max_depth_tree m = Z.of_nat (depth (root m)).
Proof.
  intros m Hne.
  change (max_depth_tree m) with (leafdepths (with_ancestors (root m) [])).
  rewrite (leafdepths_with_ancestors (root m) Hne []). reflexivity.
Qed.

(* ------------------------------------------------------------------ ancestors *)
Lemma with_ancestors_fst : forall f anc, map fst (with_ancestors f anc) = subfeatures f.
Proof.
  apply (feature_ind2
           (fun f => forall anc, map fst (with_ancestors f anc) = subfeatures f)
           (fun r => forall anc, map fst (flat_map (fun c => with_ancestors c anc) (r_children r))
                                 = flat_map subfeatures (r_children r))).
  - intros i rs IH anc. simpl. f_equal.
    generalize (Feature i rs :: anc). intros anc'.
    induction IH as [|r rs' Hr _ IHrs]; simpl; auto.
    rewrite map_app. destruct r as [a b cs]; simpl in *. rewrite Hr, IHrs. reflexivity.
  - intros a b cs IH anc. simpl.
    induction IH as [|c cs' Hc _ IHcs]; simpl; auto.
    rewrite map_app, Hc, IHcs. reflexivity.
Qed.

Theorem ancestors_features : forall m, map fst (ancestors_table m) = subfeatures (root m).
Proof. intros m. apply with_ancestors_fst. Qed.

Lemma in_with_ancestors_inv i rs anc x :
  In x (with_ancestors (Feature i rs) anc) <->
  x = (Feature i rs, anc)
  \/ exists r c, In r rs /\ In c (r_children r) /\ In x (with_ancestors c (Feature i rs :: anc)).
Proof.
  cbn [with_ancestors]. split.
  - intros [Heq | Hin]; [left; auto|]. right.
    apply in_flat_map in Hin. destruct Hin as (r & Hr & Hin).
    destruct r as [a b cs]. apply in_flat_map in Hin. destruct Hin as (c & Hc & Hin).
    exists (Relation a b cs), c. auto.
  - intros [Heq | (r & c & Hr & Hc & Hin)]; [left; auto|]. right.
    apply in_flat_map. exists r. split; [exact Hr|].
    destruct r as [a b cs]. apply in_flat_map. exists c. auto.
Qed.

Lemma with_ancestors_chain : forall f anc0 c a,
  In (c, a) (with_ancestors f anc0) ->
  (a = anc0 /\ c = f)
  \/ (exists p rest, a = p :: rest /\ In c (children p) /\ In (p, rest) (with_ancestors f anc0)).
Proof.
  intros f.
  apply (feature_ind_in
           (fun f => forall anc0 c a, In (c, a) (with_ancestors f anc0) ->
              (a = anc0 /\ c = f)
              \/ (exists p rest, a = p :: rest /\ In c (children p)
                                 /\ In (p, rest) (with_ancestors f anc0)))).
  clear f. intros i rs IH anc0 c a Hin.
  apply in_with_ancestors_inv in Hin.
  destruct Hin as [Heq | (r & c' & Hr & Hc' & Hin)].
  - inversion Heq; subst. left; auto.
  - right.
    destruct (IH r c' Hr Hc' _ _ _ Hin) as [[Ha Hc] | (p & rest & Ha & Hcp & Hp)].
    + subst. exists (Feature i rs), anc0. split; [reflexivity|]. split.
      * unfold children. cbn [rels]. apply in_flat_map. exists r. auto.
      * apply in_with_ancestors_inv. left; reflexivity.
    + exists p, rest. split; [exact Ha|]. split; [exact Hcp|].
      apply in_with_ancestors_inv. right. exists r, c'. auto.
Qed.

Theorem ancestors_chain : forall m c anc, In (c, anc) (ancestors_table m) ->
   (anc = [] /\ c = root m)
   \/ (exists p rest, anc = p :: rest /\ In c (children p) /\ In (p, rest) (ancestors_table m)).
Proof. intros m c anc Hin. apply with_ancestors_chain. exact Hin. Qed.

Lemma with_ancestors_suffix : forall f anc0 c a,
  In (c, a) (with_ancestors f anc0) -> a = anc0 \/ exists pre, a = pre ++ f :: anc0.
Proof.
  intros f.
  apply (feature_ind_in
           (fun f => forall anc0 c a, In (c, a) (with_ancestors f anc0) ->
                                      a = anc0 \/ exists pre, a = pre ++ f :: anc0)).
  clear f. intros i rs IH anc0 c a Hin.
  apply in_with_ancestors_inv in Hin.
  destruct Hin as [Heq | (r & c' & Hr & Hc' & Hin)].
  - inversion Heq; subst. left; reflexivity.
  - right. destruct (IH r c' Hr Hc' _ _ _ Hin) as [Ha | (pre & Ha)].
    + exists []. exact Ha.
    + exists (pre ++ [c']). rewrite <- app_assoc. exact Ha.
Qed.

Theorem ancestors_end_root : forall m c anc,
  In (c, anc) (ancestors_table m) -> anc <> [] -> last anc (root m) = root m.
Proof.
  intros m c anc Hin Hne.
  destruct (with_ancestors_suffix _ _ _ _ Hin) as [Ha | (pre & Ha)]; [congruence|].
  subst anc. apply last_last.
Qed.

(* ------------------------------------------------------------------ branching factor *)
Definition nch (f : feature) : Z := zsum (map (fun r => nchildren r) (rels f)).

Lemma zsum_app l1 l2 : zsum (l1 ++ l2) = (zsum l1 + zsum l2)%Z.
Proof. unfold zsum. induction l1 as [|x l1 IH]; simpl; [reflexivity|]. rewrite IH. lia. Qed.

Lemma zsum_cons x l : zsum (x :: l) = (x + zsum l)%Z.
Proof. reflexivity. Qed.

Lemma zsum_perm l l' : Permutation l l' -> zsum l = zsum l'.
Proof.
  induction 1 as [|x l l' _ IH|x y l|l l' l'' _ IH1 _ IH2].
  - reflexivity.
  - rewrite !zsum_cons, IH. reflexivity.
  - rewrite !zsum_cons. lia.
  - congruence.
Qed.

Lemma leaf_nch f : feat_is_leaf f = true -> nch f = 0%Z.
Proof.
  unfold feat_is_leaf, nch. intros H. apply Nat.eqb_eq in H.
  destruct (rels f) as [|r rs]; [reflexivity|discriminate].
Qed.

Lemma zsum_filter_nonleaf l :
  zsum (map nch (filter (fun f => negb (feat_is_leaf f)) l)) = zsum (map nch l).
Proof.
  induction l as [|f l IH]; [reflexivity|].
  cbn [filter map]. destruct (feat_is_leaf f) eqn:E; cbn [negb map].
  - rewrite zsum_cons, IH, (leaf_nch f E). lia.
  - rewrite !zsum_cons, IH. reflexivity.
Qed.

Lemma list_sum_cons x l : list_sum (x :: l) = x + list_sum l.
Proof. reflexivity. Qed.

Lemma fsize_eq i rs :
  fsize (Feature i rs)
  = S (list_sum (map (fun r => list_sum (map fsize (r_children r))) rs)).
Proof.
  cbn [fsize]. f_equal. f_equal. apply map_ext. intros [a b cs]. reflexivity.
Qed.

Lemma nch_total : forall f, zsum (map nch (subfeatures f)) = (Z.of_nat (fsize f) - 1)%Z.
Proof.
  apply (feature_ind2
           (fun f => zsum (map nch (subfeatures f)) = (Z.of_nat (fsize f) - 1)%Z)
           (fun r => zsum (map nch (flat_map subfeatures (r_children r)))
                     = (Z.of_nat (list_sum (map fsize (r_children r)))
                        - Z.of_nat (List.length (r_children r)))%Z)).
  - intros i rs IH. rewrite fsize_eq, Nat2Z.inj_succ.
    cbn [subfeatures map]. rewrite zsum_cons. unfold nch at 1. cbn [rels].
    assert (H : (zsum (map (fun r => nchildren r) rs)
                 + zsum (map nch (flat_map (fun r => match r with
                                                     | Relation _ _ cs => flat_map subfeatures cs
                                                     end) rs))
                 = Z.of_nat (list_sum (map (fun r => list_sum (map fsize (r_children r))) rs)))%Z).
    { induction IH as [|r rs' Hr _ IHrs]; [reflexivity|].
      cbn [map flat_map]. rewrite list_sum_cons, map_app, zsum_app, zsum_cons, Nat2Z.inj_add.
      destruct r as [a b cs]. cbn [r_children] in Hr |- *.
      unfold nchildren at 1. cbn [r_children]. rewrite Hr. lia. }
    lia.
  - intros a b cs IH. cbn [r_children].
    induction IH as [|c cs' Hc _ IHcs]; [reflexivity|].
    cbn [map flat_map List.length].
    rewrite list_sum_cons, map_app, zsum_app, Hc, IHcs, Nat2Z.inj_add, Nat2Z.inj_succ.
    lia.
Qed.

Theorem branch_counts_spec : forall m,
  snd (branch_counts m) = (Z.of_nat (fsize (root m)) - 1)%Z
  /\ fst (branch_counts m)
     = Z.of_nat (List.length (filter (fun f => negb (feat_is_leaf f)) (subfeatures (root m)))).
Proof.
  intros m. unfold branch_counts. cbn [fst snd]. split.
  - change (zsum (map nch (filter (fun f => negb (feat_is_leaf f)) (get_features m)))
            = (Z.of_nat (fsize (root m)) - 1)%Z).
    rewrite zsum_filter_nonleaf.
    rewrite (zsum_perm _ _ (Permutation_map nch (get_features_perm m))).
    apply nch_total.
  - f_equal. apply Permutation_length. apply filter_perm. apply get_features_perm.
Qed.

(* ------------------------------------------------------------------ rounding *)
Local Open Scope Z_scope.

Lemma div_rne_bound' n d : 0 < d -> Z.abs (2 * (div_rne n d * d - n)) <= d.
Proof.
  intros Hd. unfold div_rne.
  assert (Hd0 : d <> 0) by lia.
  pose proof (Z.div_mod n d Hd0) as E.
  pose proof (Z.mod_pos_bound n d Hd) as B.
  set (q := n / d) in *. set (r := n mod d) in *.
  destruct (2 * r <? d) eqn:C1.
  - apply Z.ltb_lt in C1. replace (q * d - n) with (- r) by lia. lia.
  - apply Z.ltb_ge in C1. destruct (d <? 2 * r) eqn:C2.
    + apply Z.ltb_lt in C2. replace ((q + 1) * d - n) with (d - r) by lia. lia.
    + apply Z.ltb_ge in C2. destruct (Z.even q).
      * replace (q * d - n) with (- r) by lia. lia.
      * replace ((q + 1) * d - n) with (d - r) by lia. lia.
Qed.

Theorem div_rne_bound : forall n d, 0 <= n -> 0 < d -> Z.abs (2 * (div_rne n d * d - n)) <= d.
Proof. intros n d _ Hd. apply div_rne_bound'. exact Hd. Qed.

(* the exponent chosen by fdiv makes the significand at least 2^52 *)
Lemma log_exponent_ok a b e :
  0 < a -> 0 < b -> e = Z.log2 a - Z.log2 b - 53 ->
  if 0 <=? e then 2 ^ 52 * (b * 2 ^ e) <= a else 2 ^ 52 * b <= a * 2 ^ (- e).
Proof.
  intros Ha Hb He.
  pose proof (Z.log2_spec a Ha) as [La _].
  pose proof (Z.log2_spec b Hb) as [_ Lb].
  pose proof (Z.log2_nonneg a) as Na.
  pose proof (Z.log2_nonneg b) as Nb.
  unfold Z.succ in Lb.
  set (la := Z.log2 a) in *. set (lb := Z.log2 b) in *.
  set (T := 2 ^ 52).
  assert (HT : 0 < T) by reflexivity.
  set (Bx := 2 ^ (lb + 1)) in *.
  destruct (0 <=? e) eqn:C.
  - apply Z.leb_le in C.
    assert (HP : 0 < 2 ^ e) by (apply Z.pow_pos_nonneg; lia).
    assert (Hla : 2 ^ la = Bx * T * 2 ^ e).
    { unfold Bx, T. rewrite <- !Z.pow_add_r by lia. f_equal. lia. }
    set (P := 2 ^ e) in *.
    assert (H1 : b * P <= Bx * P) by (apply Z.mul_le_mono_nonneg_r; lia).
    assert (H2 : T * (b * P) <= T * (Bx * P)) by (apply Z.mul_le_mono_nonneg_l; lia).
    lia.
  - apply Z.leb_gt in C.
    assert (HE : 0 < 2 ^ (- e)) by (apply Z.pow_pos_nonneg; lia).
    assert (Hla : 2 ^ la * 2 ^ (- e) = Bx * T).
    { unfold Bx, T. rewrite <- !Z.pow_add_r by lia. f_equal. lia. }
    set (E := 2 ^ (- e)) in *.
    assert (H1 : 2 ^ la * E <= a * E) by (apply Z.mul_le_mono_nonneg_r; lia).
    assert (H2 : T * b <= T * Bx) by (apply Z.mul_le_mono_nonneg_l; lia).
    lia.
Qed.

Lemma div_ge_mul n d k : 0 < d -> k <= n / d -> k * d <= n.
Proof.
  intros Hd Hk.
  pose proof (Z.mul_div_le n d Hd) as H.
  assert (H1 : k * d <= n / d * d) by (apply Z.mul_le_mono_nonneg_r; lia).
  lia.
Qed.

Lemma fdiv_shape a b :
  0 < a -> 0 < b ->
  exists e,
    fdiv a b = ((if 0 <=? e then div_rne a (b * 2 ^ e) else div_rne (a * 2 ^ (- e)) b), e)
    /\ (if 0 <=? e then 2 ^ 52 * (b * 2 ^ e) <= a else 2 ^ 52 * b <= a * 2 ^ (- e)).
Proof.
  intros Ha Hb. unfold fdiv.
  destruct (a =? 0) eqn:Ca; [apply Z.eqb_eq in Ca; lia|].
  set (e0 := Z.log2 a - Z.log2 b - 52).
  set (T := 2 ^ 52).
  destruct ((if 0 <=? e0 then a / (b * 2 ^ e0) else a * 2 ^ (- e0) / b) <? T) eqn:C.
  - exists (e0 - 1). split; [reflexivity|].
    apply log_exponent_ok; auto. unfold e0. lia.
  - exists e0. split; [reflexivity|].
    apply Z.ltb_ge in C.
    destruct (0 <=? e0) eqn:C0.
    + apply Z.leb_le in C0.
      assert (HP : 0 < 2 ^ e0) by (apply Z.pow_pos_nonneg; lia).
      assert (HD : 0 < b * 2 ^ e0) by (apply Z.mul_pos_pos; lia).
      apply div_ge_mul; assumption.
    + apply div_ge_mul; assumption.
Qed.

Lemma round_case_pos a b P m T :
  0 < b -> 0 < P -> 0 < T ->
  Z.abs (2 * (m * (b * P) - a)) <= b * P ->
  T * (b * P) <= a ->
  Z.abs (m * 100 * P * b - 100 * a) * (2 * T) <= b * T + 100 * a.
Proof.
  intros Hb HP HT Hm Hbig.
  set (X := m * (b * P) - a) in *.
  replace (m * 100 * P * b - 100 * a) with (100 * X) by (unfold X; ring).
  rewrite Z.abs_mul in *.
  change (Z.abs 100) with 100. change (Z.abs 2) with 2 in Hm.
  set (Y := Z.abs X) in *.
  assert (HY : 0 <= Y) by apply Z.abs_nonneg.
  set (D := b * P) in *.
  assert (H1 : 2 * Y * T <= D * T) by (apply Z.mul_le_mono_nonneg_r; lia).
  assert (HbT : 0 < b * T) by (apply Z.mul_pos_pos; lia).
  lia.
Qed.

Lemma round_case_neg a b E m h T :
  0 < a -> 0 < b -> 0 < E -> 0 < T ->
  Z.abs (2 * (m * b - a * E)) <= b ->
  Z.abs (2 * (h * E - m * 100)) <= E ->
  T * b <= a * E ->
  Z.abs (h * b - 100 * a) * (2 * T) <= b * T + 100 * a.
Proof.
  intros Ha Hb HE HT Hm Hh Hbig.
  set (U := h * E - m * 100) in *.
  set (V := m * b - a * E) in *.
  set (W := h * b - 100 * a).
  assert (HW : E * W = U * b + 100 * V) by (unfold U, V, W; ring).
  apply Z.abs_le in Hm. apply Z.abs_le in Hh.
  destruct Hm as [Hm1 Hm2]. destruct Hh as [Hh1 Hh2].
  assert (HbT : 0 <= b * T) by (apply Z.mul_nonneg_nonneg; lia).
  (* products with b*T and T *)
  assert (A1 : 2 * U * (b * T) <= E * (b * T)) by (apply Z.mul_le_mono_nonneg_r; lia).
  assert (A2 : - E * (b * T) <= 2 * U * (b * T)) by (apply Z.mul_le_mono_nonneg_r; lia).
  assert (A3 : 2 * V * T <= b * T) by (apply Z.mul_le_mono_nonneg_r; lia).
  assert (A4 : - b * T <= 2 * V * T) by (apply Z.mul_le_mono_nonneg_r; lia).
  assert (HEW : E * (W * (2 * T)) = 2 * U * (b * T) + 100 * (2 * V * T)).
  { replace (E * (W * (2 * T))) with ((E * W) * (2 * T)) by ring. rewrite HW. ring. }
  assert (HEW' : E * (- W * (2 * T)) = - (2 * U * (b * T)) - 100 * (2 * V * T)).
  { replace (E * (- W * (2 * T))) with (- (E * (W * (2 * T)))) by ring. rewrite HEW. ring. }
  assert (HK : E * (b * T + 100 * a) = E * (b * T) + 100 * (a * E)) by ring.
  apply (Z.mul_le_mono_pos_l _ _ E HE).
  rewrite HK.
  destruct (Z.abs_spec W) as [[_ HWa] | [_ HWa]]; rewrite HWa.
  - rewrite HEW. lia.
  - rewrite HEW'. lia.
Qed.

(* |h/100 - a/b| <= 1/200 + (a/b) * 2^-53, without division: multiply by 100 * b * 2^53 *)
Theorem pyround_div_bound_tight : forall a b, 0 < a -> 0 < b ->
  let h := pyround_div a b 2 in
  Z.abs (h * b - 100 * a) * 2 ^ 53 <= b * 2 ^ 52 + 100 * a.
Proof.
  intros a b Ha Hb h. unfold h, pyround_div.
  destruct (fdiv_shape a b Ha Hb) as (e & Hf & Hbig).
  rewrite Hf. unfold scale_round.
  change (10 ^ 2) with 100.
  change (2 ^ 53) with (2 * 2 ^ 52).
  set (T := 2 ^ 52) in *.
  assert (HT : 0 < T) by reflexivity.
  destruct (0 <=? e) eqn:C.
  - apply Z.leb_le in C.
    assert (HP : 0 < 2 ^ e) by (apply Z.pow_pos_nonneg; lia).
    assert (HD : 0 < b * 2 ^ e) by (apply Z.mul_pos_pos; lia).
    apply round_case_pos; auto.
    apply div_rne_bound'; exact HD.
  - apply Z.leb_gt in C.
    assert (HE : 0 < 2 ^ (- e)) by (apply Z.pow_pos_nonneg; lia).
    apply (round_case_neg a b (2 ^ (- e)) (div_rne (a * 2 ^ (- e)) b)); auto.
    + apply div_rne_bound'; exact Hb.
    + apply div_rne_bound'; exact HE.
Qed.

(* |h/100 - a/b| <= 1/200 + (a/b) * 2^-52, multiplied by 100 * b * 2^52 *)
Theorem pyround_div_bound_52 : forall a b, 0 < a -> 0 < b ->
  let h := pyround_div a b 2 in
  Z.abs (h * b - 100 * a) * 2 ^ 52 <= b * 2 ^ 51 + 100 * a.
Proof.
  intros a b Ha Hb h.
  pose proof (pyround_div_bound_tight a b Ha Hb) as H. cbv zeta in H. fold h in H.
  pose proof (Z.abs_nonneg (h * b - 100 * a)) as Hn.
  set (X := Z.abs (h * b - 100 * a)) in *.
  change (2 ^ 53) with (2 * 2 ^ 52) in H. change (2 ^ 52) with (2 * 2 ^ 51) in *.
  lia.
Qed.

(* the statement as given in the task (weaker than the two above) *)
Theorem pyround_div_bound : forall a b, 0 < a -> 0 < b -> a < 2 ^ 53 -> b < 2 ^ 53 ->
  let h := pyround_div a b 2 in
  Z.abs (h * b - 100 * a) * 2 ^ 52 <= b * 2 ^ 51 + 100 * a + b * 2.
Proof.
  intros a b Ha Hb _ _ h.
  pose proof (pyround_div_bound_52 a b Ha Hb) as H. cbv zeta in H. fold h in H.
  lia.
Qed.

Local Close Scope Z_scope.

(* ------------------------------------------------------------------ variation points *)
Theorem variation_points_spec : forall m f vs,
  In (f, vs) (variation_points m) <-> (In f (subfeatures (root m)) /\ vs = variants f /\ vs <> []).
Proof.
  intros m f vs. unfold variation_points. rewrite filter_In, in_map_iff. cbn [snd]. split.
  - intros [(f' & Heq & Hin) Hne]. inversion Heq; subst. split; [exact Hin|]. split; [reflexivity|].
    intros Hnil. rewrite Hnil in Hne. discriminate.
  - intros (Hin & Hvs & Hne). subst vs. split.
    + exists f. auto.
    + destruct (variants f) as [|v vs']; [congruence|reflexivity].
Qed.

Print Assumptions leaves_perm.
Print Assumptions count_leafs_spec.
Print Assumptions max_depth_spec.
Print Assumptions ancestors_features.
Print Assumptions ancestors_chain.
Print Assumptions ancestors_end_root.
Print Assumptions branch_counts_spec.
Print Assumptions div_rne_bound.
Print Assumptions pyround_div_bound_tight.
Print Assumptions pyround_div_bound_52.
Print Assumptions pyround_div_bound.
Print Assumptions variation_points_spec.
