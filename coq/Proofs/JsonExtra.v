(* Proofs/JsonExtra.v — the JSON reader ([json_read], Format/Json.v) ignores, at every level, the keys the format does
   not define; its n-ary AND / OR / XOR terms are left folds and may be flattened in first position.

   Key sets (every key the reader looks up in an object of that kind, INCLUDING the ones it looks up only
   conditionally: "attributes" / "relations" behind [jhas], "card_min" / "card_max" only for type CARDINALITY,
   "value" through [assoc] with a default):

     document            jdoc_keys   = features, constraints
     feature node        jnode_keys  = name, abstract, attributes, relations
     relation object     jrel_keys   = children, type, card_min, card_max
     attribute object    jattr_keys  = name, value
     constraint object   jentry_keys = name, ast                      ("expr" is written but never read)
     constraint term     jterm_keys  = type, operands

   The reader descends through features / relations[] / children[] / attributes[] / constraints[] / ast / operands[].
   The values of "abstract" and of an attribute's "value" are stored raw: no insertion below them. *)
From Coq Require Import List Bool Ascii String ZArith Lia Wf_nat Relations.
From FM Require Import Base.Result Base.Str Base.AstOp Gen.Tables_json Model.Ast Model.FM Model.PFM Format.Json
     Proofs.JsonFacts Proofs.C09Facts Proofs.JsonVariant.
Import ListNotations.
Local Open Scope string_scope.
Local Open Scope list_scope.

(* ================================================================== key sets *)
Definition jdoc_keys   : list string := ["features"; "constraints"].
Definition jnode_keys  : list string := ["name"; "abstract"; "attributes"; "relations"].
Definition jrel_keys   : list string := ["children"; "type"; "card_min"; "card_max"].
Definition jattr_keys  : list string := ["name"; "value"].
Definition jentry_keys : list string := ["name"; "ast"].
Definition jterm_keys  : list string := ["type"; "operands"].

(* the accepted n-ary term types of the JSON format *)
Definition jnary_ty (ty : string) (o : astop) : Prop :=
  (ty = "AND" /\ o = AND) \/ (ty = "OR" /\ o = OR) \/ (ty = "XOR" /\ o = XOR).

(* ================================================================== the relations *)
(* an attribute object: look-up keys [jattr_keys], values unchanged *)
Inductive jxa : aval -> aval -> Prop :=
| jxa_refl v : jxa v v
| jxa_obj kv kv' : xents jattr_keys (fun _ v v' => v = v') kv kv' -> jxa (VMap kv) (VMap kv').

(* a feature node: look-up keys [jnode_keys]; below "relations" a list of relation objects, below "attributes" a list
   of attribute objects.  A relation object: look-up keys [jrel_keys]; below "children" a list of feature nodes. *)
Inductive jxn : aval -> aval -> Prop :=
| jxn_refl v : jxn v v
| jxn_node kv kv' :
    xents jnode_keys (fun k v v' => v = v' \/ (k = "relations" /\ lift_list jxr v v')
                                           \/ (k = "attributes" /\ lift_list jxa v v')) kv kv' ->
    jxn (VMap kv) (VMap kv')
with jxr : aval -> aval -> Prop :=
| jxr_refl v : jxr v v
| jxr_rel kv kv' :
    xents jrel_keys (fun k v v' => v = v' \/ (k = "children" /\ lift_list jxn v v')) kv kv' ->
    jxr (VMap kv) (VMap kv').

(* a constraint term: look-up keys [jterm_keys]; below "operands" a list of terms.
   With [fl = true] an n-ary term standing first in a term of the same type may also be flattened:
   T [T xs; ys...] ~> T (xs ++ ys), xs non-empty. *)
Inductive jxc (fl : bool) : aval -> aval -> Prop :=
| jxc_refl v : jxc fl v v
| jxc_node kv kv' :
    xents jterm_keys (fun k v v' => v = v' \/ (k = "operands" /\ lift_list (jxc fl) v v')) kv kv' ->
    jxc fl (VMap kv) (VMap kv')
| jxc_flat ty o xs ys zs :
    fl = true -> jnary_ty ty o -> xs <> [] -> Forall2 (jxc fl) (xs ++ ys) zs ->
    jxc fl (nary_term ty (nary_term ty xs :: ys)) (nary_term ty zs).

(* a constraint object: look-up keys [jentry_keys]; below "ast" a term *)
Inductive jxe (fl : bool) : aval -> aval -> Prop :=
| jxe_refl v : jxe fl v v
| jxe_obj kv kv' :
    xents jentry_keys (fun k v v' => v = v' \/ (k = "ast" /\ jxc fl v v')) kv kv' -> jxe fl (VMap kv) (VMap kv').

(* the document: look-up keys [jdoc_keys] *)
Definition jdoc_val (fl : bool) (k : string) (v v' : aval) : Prop :=
  v = v' \/ (k = "features" /\ jxn v v') \/ (k = "constraints" /\ lift_list (jxe fl) v v').

Inductive jvar (fl : bool) : aval -> aval -> Prop :=
| jv_refl d : jvar fl d d
| jv_doc kv kv' : xents jdoc_keys (jdoc_val fl) kv kv' -> jvar fl (VMap kv) (VMap kv').

Definition jextra : aval -> aval -> Prop := jvar false.   (* extra keys only *)
Definition jflat  : aval -> aval -> Prop := jvar true.    (* extra keys and flattened n-ary terms *)

(* ================================================================== the relations are respected by the look-ups *)
Lemma in_jnode_name : In "name" jnode_keys. Proof. cbn; tauto. Qed.
Lemma in_jnode_abstract : In "abstract" jnode_keys. Proof. cbn; tauto. Qed.
Lemma in_jnode_attributes : In "attributes" jnode_keys. Proof. cbn; tauto. Qed.
Lemma in_jnode_relations : In "relations" jnode_keys. Proof. cbn; tauto. Qed.
Lemma in_jrel_children : In "children" jrel_keys. Proof. cbn; tauto. Qed.
Lemma in_jrel_type : In "type" jrel_keys. Proof. cbn; tauto. Qed.
Lemma in_jrel_card_min : In "card_min" jrel_keys. Proof. cbn; tauto. Qed.
Lemma in_jrel_card_max : In "card_max" jrel_keys. Proof. cbn; tauto. Qed.
Lemma in_jattr_name : In "name" jattr_keys. Proof. cbn; tauto. Qed.
Lemma in_jattr_value : In "value" jattr_keys. Proof. cbn; tauto. Qed.
Lemma in_jentry_name : In "name" jentry_keys. Proof. cbn; tauto. Qed.
Lemma in_jentry_ast : In "ast" jentry_keys. Proof. cbn; tauto. Qed.
Lemma in_jterm_type : In "type" jterm_keys. Proof. cbn; tauto. Qed.
Lemma in_jterm_operands : In "operands" jterm_keys. Proof. cbn; tauto. Qed.
Lemma in_jdoc_features : In "features" jdoc_keys. Proof. cbn; tauto. Qed.
Lemma in_jdoc_constraints : In "constraints" jdoc_keys. Proof. cbn; tauto. Qed.

Lemma jlist_rel_refl (R : aval -> aval -> Prop) : (forall v, R v v) -> forall v, jlist_rel R v v.
Proof. intros HR v. unfold jlist_rel. apply res_rel_refl. apply Forall2_refl. exact HR. Qed.

Lemma jlist_rel_lift (R : aval -> aval -> Prop) v v' : lift_list R v v' -> jlist_rel R v v'.
Proof. intros H. destruct H as [l l' H]. exact H. Qed.

(* ---- attribute objects ---- *)
Lemma jxa_attr a a' : jxa a a' -> rd_attr a = rd_attr a'.
Proof.
  intros H. destruct H as [v|kv kv' H]; [reflexivity|]. unfold rd_attr.
  pose proof (jget_xents jattr_keys _ "name" kv kv' in_jattr_name H) as Hnm.
  rr_step Hnm n n' E1 E2. subst n'.
  destruct (jstr n) as [name|e]; [|reflexivity].
  pose proof (assoc_xents jattr_keys _ "value" in_jattr_value kv kv' H) as Hv.
  destruct (assoc "value" kv) as [x|], (assoc "value" kv') as [x'|]; try contradiction; [|reflexivity].
  subst x'. reflexivity.
Qed.

(* ---- feature nodes ---- *)
Lemma jxn_attrs n n' : jxn n n' -> json_read_attributes n = json_read_attributes n'.
Proof.
  intros H. destruct H as [v|kv kv' H]; [reflexivity|]. rewrite !json_read_attributes_eq.
  rewrite <- (jhas_xents jnode_keys _ "attributes" kv kv' in_jnode_attributes H).
  destruct (jhas "attributes" (VMap kv)); [|reflexivity].
  pose proof (jget_xents jnode_keys _ "attributes" kv kv' in_jnode_attributes H) as Hal.
  rr_step Hal al al' E1 E2.
  destruct Hal as [->|[[Hk _]|[_ Hl]]]; [reflexivity|discriminate|].
  destruct Hl as [l l' Hl]. cbn [jlist].
  apply (mapM_rel jxa); [exact Hl|]. intros a a' _ _ Ha. apply jxa_attr. exact Ha.
Qed.

Lemma jxn_node_compat n n' : jxn n n' -> jnode_compat jxr n n'.
Proof.
  intros H. pose proof (jxn_attrs n n' H) as Hat. destruct H as [v|kv kv' H].
  - split; [apply res_rel_refl; reflexivity|]. split; [apply res_rel_refl; reflexivity|].
    split; [reflexivity|]. split; [reflexivity|]. apply res_rel_refl. apply jlist_rel_refl. apply jxr_refl.
  - split; [|split; [|split; [exact Hat|split]]].
    + eapply res_rel_impl; [|exact (jget_xents jnode_keys _ "name" kv kv' in_jnode_name H)].
      intros a a' [->|[[Hk _]|[Hk _]]]; [reflexivity|discriminate|discriminate].
    + eapply res_rel_impl; [|exact (jget_xents jnode_keys _ "abstract" kv kv' in_jnode_abstract H)].
      intros a a' [->|[[Hk _]|[Hk _]]]; [reflexivity|discriminate|discriminate].
    + exact (jhas_xents jnode_keys _ "relations" kv kv' in_jnode_relations H).
    + eapply res_rel_impl; [|exact (jget_xents jnode_keys _ "relations" kv kv' in_jnode_relations H)].
      intros a a' [->|[[_ Hl]|[Hk _]]]; [apply jlist_rel_refl; apply jxr_refl| |discriminate].
      apply jlist_rel_lift. exact Hl.
Qed.

(* ---- relation objects ---- *)
Lemma jxr_rel_compat r r' : jxr r r' -> jrel_compat jxn r r'.
Proof.
  intros H. destruct H as [v|kv kv' H].
  - split; [apply res_rel_refl; apply jlist_rel_refl; apply jxn_refl|].
    split; [apply res_rel_refl; reflexivity|].
    split; apply res_rel_refl; apply leaf_eq_refl.
  - split; [|split; [|split]].
    + eapply res_rel_impl; [|exact (jget_xents jrel_keys _ "children" kv kv' in_jrel_children H)].
      intros a a' [->|[_ Hl]]; [apply jlist_rel_refl; apply jxn_refl|]. apply jlist_rel_lift. exact Hl.
    + eapply res_rel_impl; [|exact (jget_xents jrel_keys _ "type" kv kv' in_jrel_type H)].
      intros a a' [->|[Hk _]]; [reflexivity|discriminate].
    + eapply res_rel_impl; [|exact (jget_xents jrel_keys _ "card_min" kv kv' in_jrel_card_min H)].
      intros a a' [->|[Hk _]]; [apply leaf_eq_refl|discriminate].
    + eapply res_rel_impl; [|exact (jget_xents jrel_keys _ "card_max" kv kv' in_jrel_card_max H)].
      intros a a' [->|[Hk _]]; [apply leaf_eq_refl|discriminate].
Qed.

(* ---- constraint terms ---- *)
(* T [T xs; ys...]  ~>  T (xs ++ ys), operands related *)
Definition jterm_flat (Rc : aval -> aval -> Prop) (c c' : aval) : Prop :=
  exists ty o xs ys zs, jnary_ty ty o /\ xs <> [] /\
    c = nary_term ty (nary_term ty xs :: ys) /\ c' = nary_term ty zs /\ Forall2 Rc (xs ++ ys) zs.

Lemma jxc_compat_strong fl c c' :
  jxc fl c c' -> jterm_compat (jxc fl) c c' \/ (fl = true /\ jterm_flat (jxc fl) c c').
Proof.
  intros H. destruct H as [v|kv kv' H|ty o xs ys zs Hfl Hn Hxs Hzs].
  - left. split; [reflexivity|]. split; [apply res_rel_refl; reflexivity|].
    apply res_rel_refl. apply jlist_rel_refl. apply jxc_refl.
  - left. split; [reflexivity|]. split.
    + eapply res_rel_impl; [|exact (jget_xents jterm_keys _ "type" kv kv' in_jterm_type H)].
      intros a a' [->|[Hk _]]; [reflexivity|discriminate].
    + eapply res_rel_impl; [|exact (jget_xents jterm_keys _ "operands" kv kv' in_jterm_operands H)].
      intros a a' [->|[_ Hl]]; [apply jlist_rel_refl; apply jxc_refl|]. apply jlist_rel_lift. exact Hl.
  - right. split; [exact Hfl|]. exists ty, o, xs, ys, zs. repeat split; assumption.
Qed.

Lemma jxc_compat fl c c' : jxc fl c c' -> jterm_compat (jxc fl) c c' \/ jterm_flat (jxc fl) c c'.
Proof. intros H. destruct (jxc_compat_strong fl c c' H) as [Hc|[_ Hf]]; [left; exact Hc|right; exact Hf]. Qed.

Lemma jxc_extra_compat c c' : jxc false c c' -> jterm_compat (jxc false) c c'.
Proof. intros H. destruct (jxc_compat_strong false c c' H) as [Hc|[Hfl _]]; [exact Hc|discriminate Hfl]. Qed.

(* ---- constraint objects and the document ---- *)
Lemma jxe_entry_compat fl e e' : jxe fl e e' -> jentry_compat (jxc fl) e e'.
Proof.
  intros H. destruct H as [v|kv kv' H].
  - split; [apply res_rel_refl; reflexivity|apply res_rel_refl; apply jxc_refl].
  - split.
    + eapply res_rel_impl; [|exact (jget_xents jentry_keys _ "name" kv kv' in_jentry_name H)].
      intros a a' [->|[Hk _]]; [reflexivity|discriminate].
    + eapply res_rel_impl; [|exact (jget_xents jentry_keys _ "ast" kv kv' in_jentry_ast H)].
      intros a a' [->|[_ Hx]]; [apply jxc_refl|exact Hx].
Qed.

Lemma jvar_doc_compat fl d d' : jvar fl d d' -> jdoc_compat jxn (jxc fl) d d'.
Proof.
  intros H. destruct H as [d|kv kv' H].
  - split; [apply res_rel_refl; apply jxn_refl|].
    apply res_rel_refl. apply jlist_rel_refl. intros e. apply jxe_entry_compat. apply jxe_refl.
  - split.
    + eapply res_rel_impl; [|exact (jget_xents jdoc_keys _ "features" kv kv' in_jdoc_features H)].
      intros a a' [->|[[_ Hx]|[Hk _]]]; [apply jxn_refl|exact Hx|discriminate].
    + eapply res_rel_impl; [|exact (jget_xents jdoc_keys _ "constraints" kv kv' in_jdoc_constraints H)].
      intros a a' [->|[[Hk _]|[_ Hl]]].
      * apply jlist_rel_refl. intros e. apply jxe_entry_compat. apply jxe_refl.
      * discriminate.
      * destruct Hl as [l l' Hl]. unfold jlist_rel. cbn [jlist res_rel].
        eapply Forall2_impl'; [|exact Hl]. apply jxe_entry_compat.
Qed.

(* ================================================================== extra keys: the theorem *)
Theorem json_read_extra : forall d d', jextra d d' -> json_read d = json_read d'.
Proof.
  intros d d' H.
  apply (json_read_compat jxn jxr (jxc false) jxn_node_compat jxr_rel_compat jxc_extra_compat).
  apply jvar_doc_compat. exact H.
Qed.

(* parts of a document, ANY two fuels that cover the depth of the two values *)
Theorem json_parse_tree_extra : forall n1 n2 here parent node node',
  jxn node node' -> aval_depth node <= n1 -> aval_depth node' <= n2 ->
  json_parse_tree n1 here parent node = json_parse_tree n2 here parent node'.
Proof. exact (json_parse_tree_compat jxn jxr jxn_node_compat jxr_rel_compat). Qed.

Theorem json_parse_ctc_extra : forall n1 n2 c c',
  jxc false c c' -> aval_depth c <= n1 -> aval_depth c' <= n2 -> json_parse_ctc n1 c = json_parse_ctc n2 c'.
Proof. exact (json_parse_ctc_compat (jxc false) jxc_extra_compat). Qed.

(* any number of insertions / deletions *)
Corollary json_read_extra_star : forall d d', clos_refl_sym_trans aval jextra d d' -> json_read d = json_read d'.
Proof.
  intros d d' H. induction H as [x y H|x|x y _ IH|x y z _ IH1 _ IH2].
  - apply json_read_extra. exact H.
  - reflexivity.
  - symmetry. exact IH.
  - rewrite IH1. exact IH2.
Qed.

(* ================================================================== n-ary AND / OR / XOR terms *)
(* an n-ary term is the LEFT FOLD of its operands: T [a; b; c] is bin T (bin T a b) c *)
Lemma json_nary : forall fuel ty o ops, jnary_ty ty o ->
  json_parse_ctc (S fuel) (nary_term ty ops)
  = match mapM (json_parse_ctc fuel) ops with Err e => Err e | Ok l => reduce_op o l end.
Proof. intros fuel ty o ops [[-> ->]|[[-> ->]|[-> ->]]]; reflexivity. Qed.

Lemma json_nary_fold : forall fuel ty o x xs n ns, jnary_ty ty o ->
  json_parse_ctc fuel x = Ok n -> Forall2 (fun y m => json_parse_ctc fuel y = Ok m) xs ns ->
  json_parse_ctc (S fuel) (nary_term ty (x :: xs)) = Ok (fold_left (fun acc y => bin o acc y) ns n).
Proof.
  intros fuel ty o x xs n ns H Hx Hxs. rewrite (json_nary fuel ty o (x :: xs) H).
  assert (Hm : mapM (json_parse_ctc fuel) xs = Ok ns).
  { induction Hxs as [|y m ys ms Hy _ IH]; [reflexivity|]. rewrite mapM_cons, Hy, IH. reflexivity. }
  rewrite mapM_cons, Hx, Hm. reflexivity.
Qed.

Corollary json_nary_3 : forall fuel ty o a b c na nb nc, jnary_ty ty o ->
  json_parse_ctc fuel a = Ok na -> json_parse_ctc fuel b = Ok nb -> json_parse_ctc fuel c = Ok nc ->
  json_parse_ctc (S fuel) (nary_term ty [a; b; c]) = Ok (bin o (bin o na nb) nc).
Proof.
  intros fuel ty o a b c na nb nc H Ha Hb Hc.
  apply (json_nary_fold fuel ty o a [b; c] na [nb; nc] H Ha).
  constructor; [exact Hb|]. constructor; [exact Hc|]. constructor.
Qed.

(* ---- the generic theorem for terms, with the flattening step ---- *)
Section JFlat.
  Variables Rn Rr Rc : aval -> aval -> Prop.
  Hypothesis Hn : forall n n', Rn n n' -> jnode_compat Rr n n'.
  Hypothesis Hr : forall r r', Rr r r' -> jrel_compat Rn r r'.
  Hypothesis Hc : forall c c', Rc c c' -> jterm_compat Rc c c' \/ jterm_flat Rc c c'.

  Lemma Rc_data c c' : Rc c c' -> data_of_json c = data_of_json c'.
  Proof.
    intros H. destruct (Hc _ _ H) as [(Hd & _)|(ty & o & xs & ys & zs & _ & _ & -> & -> & _)]; [exact Hd|reflexivity].
  Qed.

  Lemma jctc_body_compat2 rec rec' ty ops ops' :
    Forall2 Rc ops ops' ->
    (forall x x', In x ops -> In x' ops' -> Rc x x' -> rec x = rec' x') ->
    jctc_body rec ty ops = jctc_body rec' ty ops'.
  Proof.
    intros Hops Hrec.
    assert (Hsub : forall i,
      match nth_operand ops i with Err e => Err e | Ok x => rec x end =
      match nth_operand ops' i with Err e => Err e | Ok x => rec' x end).
    { intros i. unfold nth_operand. pose proof (Forall2_nth_error Rc ops ops' i Hops) as Hi.
      destruct (nth_error ops i) as [x|], (nth_error ops' i) as [x'|]; try contradiction; [|reflexivity].
      destruct Hi as (H1 & H2 & H3). apply Hrec; assumption. }
    assert (Hmap : mapM rec ops = mapM rec' ops').
    { apply (mapM_rel Rc); assumption. }
    unfold jctc_body. rewrite !Hsub, Hmap.
    destruct (String.eqb ty jt_FEATURE); [|reflexivity].
    unfold nth_operand. pose proof (Forall2_nth_error Rc ops ops' 0 Hops) as Hi.
    destruct (nth_error ops 0) as [x|], (nth_error ops' 0) as [x'|]; try contradiction; [|reflexivity].
    destruct Hi as (H1 & _ & _). rewrite (Rc_data _ _ H1). reflexivity.
  Qed.

  Theorem json_parse_ctc_compat2 : forall n1 n2 c c',
    Rc c c' -> aval_depth c <= n1 -> aval_depth c' <= n2 -> json_parse_ctc n1 c = json_parse_ctc n2 c'.
  Proof.
    induction n1 as [n1 IH] using lt_wf_ind. intros n2 c c' HRc Hd Hd'.
    destruct n1 as [|m1]. { pose proof (aval_depth_pos c). lia. }
    destruct n2 as [|m2]. { pose proof (aval_depth_pos c'). lia. }
    destruct (Hc _ _ HRc) as [(_ & Hty & Hops)|(ty & o & xs & ys & zs & Hnt & Hxs & -> & -> & Hzs)].
    - (* look-up compatible *)
      rewrite !json_parse_ctc_S'.
      rr_step Hty tv tv' E1 E2. rr_step Hops ov ov' E3 E4. unfold jstr_eq in Hty. rewrite <- Hty.
      unfold jlist_rel in Hops. rr_step Hops ops ops' E5 E6.
      destruct (jstr tv) as [ty|e]; [|reflexivity].
      apply jctc_body_compat2; [exact Hops|].
      intros x x' Hin Hin' Hxx. apply (IH m1); [lia|exact Hxx| |].
      + apply depth_jget in E3. pose proof (jlist_depth _ _ _ E5 Hin). lia.
      + apply depth_jget in E4. pose proof (jlist_depth _ _ _ E6 Hin'). lia.
    - (* flattening *)
      destruct (Forall2_app_inv_l _ _ Hzs) as (zx & zy & Hzx & Hzy & ->).
      assert (Hin1 : aval_depth (nary_term ty xs) + 2 <= aval_depth (nary_term ty (nary_term ty xs :: ys))).
      { apply nary_term_depth. left; reflexivity. }
      destruct m1 as [|m1']; [lia|].
      rewrite (json_nary _ ty o _ Hnt), (json_nary _ ty o _ Hnt).
      rewrite mapM_cons, (json_nary _ ty o _ Hnt), mapM_app.
      assert (Hx : mapM (json_parse_ctc m1') xs = mapM (json_parse_ctc m2) zx).
      { apply (mapM_rel Rc); [exact Hzx|]. intros x x' Hin Hin' Hxx.
        apply (IH m1'); [lia|exact Hxx| |].
        - pose proof (nary_term_depth ty xs x Hin). lia.
        - pose proof (nary_term_depth ty (zx ++ zy) x' (in_or_app _ _ _ (or_introl Hin'))). lia. }
      assert (Hy : mapM (json_parse_ctc (S m1')) ys = mapM (json_parse_ctc m2) zy).
      { apply (mapM_rel Rc); [exact Hzy|]. intros y y' Hin Hin' Hyy.
        apply (IH (S m1')); [lia|exact Hyy| |].
        - pose proof (nary_term_depth ty (nary_term ty xs :: ys) y (or_intror Hin)). lia.
        - pose proof (nary_term_depth ty (zx ++ zy) y' (in_or_app _ _ _ (or_intror Hin'))). lia. }
      rewrite Hx, Hy.
      destruct xs as [|x0 xs0]; [congruence|].
      destruct (mapM (json_parse_ctc m2) zx) as [la|e]; [|reflexivity].
      destruct (mapM_ok_cons _ _ _ _ Hx) as (a0 & la' & ->).
      cbn [reduce_op]. destruct (mapM (json_parse_ctc m2) zy) as [lb|e]; [|reflexivity].
      cbn [reduce_op app]. rewrite fold_left_app. reflexivity.
  Qed.

  Theorem json_read_compat2 : forall d d', jdoc_compat Rn Rc d d' -> json_read d = json_read d'.
  Proof.
    intros d d' (Hfe & Hcs). rewrite !json_read_eq.
    rr_step Hfe fv fv' E1 E2. rr_step Hcs cv cv' E3 E4.
    rewrite (json_parse_tree_compat Rn Rr Hn Hr (aval_depth fv) (aval_depth fv') [] PNone fv fv' Hfe (le_n _) (le_n _)).
    destruct (json_parse_tree (aval_depth fv') [] PNone fv') as [pr|e]; [|reflexivity].
    unfold jlist_rel in Hcs. rr_step Hcs cl cl' E5 E6.
    assert (Hm : mapM rd_ctc cl = mapM rd_ctc cl').
    { apply (mapM_rel (jentry_compat Rc)); [exact Hcs|].
      intros ci ci' _ _ (Hnm & Hast). unfold rd_ctc.
      rr_step Hnm nv nv' E7 E8. rr_step Hast av av' E9 E10. unfold jstr_eq in Hnm. rewrite <- Hnm.
      destruct (jstr nv) as [name|e]; [|reflexivity].
      rewrite (json_parse_ctc_compat2 (aval_depth av) (aval_depth av') av av' Hast (le_n _) (le_n _)).
      reflexivity. }
    rewrite Hm. reflexivity.
  Qed.
End JFlat.

(* extra keys and flattening together, term level and document level *)
Theorem json_parse_ctc_var : forall fl n1 n2 c c',
  jxc fl c c' -> aval_depth c <= n1 -> aval_depth c' <= n2 -> json_parse_ctc n1 c = json_parse_ctc n2 c'.
Proof. intros fl. exact (json_parse_ctc_compat2 (jxc fl) (jxc_compat fl)). Qed.

Theorem json_read_var : forall fl d d', jvar fl d d' -> json_read d = json_read d'.
Proof.
  intros fl d d' H.
  apply (json_read_compat2 jxn jxr (jxc fl) jxn_node_compat jxr_rel_compat (jxc_compat fl)).
  apply jvar_doc_compat. exact H.
Qed.

Theorem json_read_flat : forall d d', jflat d d' -> json_read d = json_read d'.
Proof. exact (json_read_var true). Qed.

(* the literal flattening statement: T [T [a; b]; c] and T [a; b; c], any fuels covering the depths *)
Corollary json_flatten_3 : forall ty o a b c n1 n2, jnary_ty ty o ->
  aval_depth (nary_term ty [nary_term ty [a; b]; c]) <= n1 -> aval_depth (nary_term ty [a; b; c]) <= n2 ->
  json_parse_ctc n1 (nary_term ty [nary_term ty [a; b]; c]) = json_parse_ctc n2 (nary_term ty [a; b; c]).
Proof.
  intros ty o a b c n1 n2 Hnt H1 H2.
  apply (json_parse_ctc_var true); [|assumption|assumption].
  apply (jxc_flat true ty o [a; b] [c] [a; b; c]); [reflexivity|exact Hnt|discriminate|].
  apply Forall2_refl. apply jxc_refl.
Qed.

(* general form: T [T xs; ys...] = T (xs ++ ys) for non-empty xs *)
Corollary json_flatten : forall ty o xs ys n1 n2, jnary_ty ty o -> xs <> [] ->
  aval_depth (nary_term ty (nary_term ty xs :: ys)) <= n1 -> aval_depth (nary_term ty (xs ++ ys)) <= n2 ->
  json_parse_ctc n1 (nary_term ty (nary_term ty xs :: ys)) = json_parse_ctc n2 (nary_term ty (xs ++ ys)).
Proof.
  intros ty o xs ys n1 n2 Hnt Hxs H1 H2.
  apply (json_parse_ctc_var true); [|assumption|assumption].
  apply (jxc_flat true ty o xs ys (xs ++ ys)); [reflexivity|exact Hnt|exact Hxs|].
  apply Forall2_refl. apply jxc_refl.
Qed.

(* ================================================================== non-vacuity *)
(* what the reader does with three operands *)
Example json_nary_3_ex :
  json_parse_ctc 3 (nary_term "AND" [jft "A"; jft "B"; jft "C"]) = Ok (bin AND (bin AND (term "A") (term "B")) (term "C"))
  /\ json_parse_ctc 3 (nary_term "OR" [jft "A"; jft "B"; jft "C"]) = Ok (bin OR (bin OR (term "A") (term "B")) (term "C"))
  /\ json_parse_ctc 3 (nary_term "XOR" [jft "A"; jft "B"; jft "C"]) = Ok (bin XOR (bin XOR (term "A") (term "B")) (term "C"))
  /\ json_parse_ctc 3 (nary_term "AND" [jft "A"]) = Ok (term "A")
  /\ json_parse_ctc 3 (nary_term "AND" []) = Err TypeError
  (* the binary operators read operands 0 and 1 and ignore the others *)
  /\ json_parse_ctc 3 (nary_term "IMPLIES" [jft "A"; jft "B"; jft "C"]) = Ok (bin IMPLIES (term "A") (term "B")).
Proof. vm_compute. repeat split; reflexivity. Qed.

(* [jx_doc] = json_write jx_model (JsonVariant.jx_doc_written) with extra keys in: the document (3), the root node,
   the second relation object (2), node B (2), its attribute object (2), the constraint object, its term and a term
   below it.  Several inserted keys are look-up keys of ANOTHER kind of object ("children" in a node, "relations" in
   a relation, "name" / "ast" / "features" in a term, "type" in a node): the key sets are per kind. *)
Definition jx_doc_extra : aval :=
  VMap [("$schema", VList [VList [VList [VList [VList [VList [VList [VList [VList [VStr "deep"]]]]]]]]]);
        ("features",
         VMap [("name", VStr "R"); ("id", VInt 0); ("abstract", VBool false);
               ("relations",
                VList [jx_rel1;
                       VMap [("type", VStr "OPTIONAL"); ("name", VStr "grp"); ("card_min", VInt 0); ("card_max", VInt 1);
                             ("children",
                              VList [VMap [("children", VList [VNone]); ("name", VStr "B"); ("abstract", VBool true);
                                           ("relations", VList []);
                                           ("attributes",
                                            VList [VMap [("name", VStr "cost"); ("domain", VList [VInt 0; VInt 9]);
                                                         ("value", VInt 3); ("null", VNone)]]);
                                           ("type", VStr "x")]]);
                             ("relations", VInt 9)]])]);
        ("version", VMap [("major", VInt 2)]);
        ("constraints",
         VList [VMap [("id", VInt 1); ("name", VStr "c1"); ("expr", VStr "(A AND B) AND B");
                      ("ast", VMap [("type", VStr "AND"); ("name", VStr "?");
                                    ("operands",
                                     VList [jx_and2;
                                            VMap [("type", VStr "FEATURE"); ("features", VList []);
                                                  ("operands", VList [VStr "B"])]]);
                                    ("ast", VNone)])]]);
        ("tree", VNone)].

Ltac xa_auto :=
  repeat first [ apply xe_nil
               | apply xe_keep; [reflexivity|]
               | apply xe_ins; [cbn; intuition discriminate|] ].

Example jx_extra_rel : jextra jx_doc jx_doc_extra.
Proof.
  unfold jx_doc, jx_doc_extra. apply jv_doc. xe_auto.
  apply xe_keep.
  { right; left. split; [reflexivity|]. apply jxn_node. xe_auto.
    apply xe_keep; [|xe_auto].
    right; left. split; [reflexivity|]. constructor. constructor; [apply jxr_refl|]. constructor; [|constructor].
    apply jxr_rel. xe_auto. apply xe_keep; [|xe_auto].
    right. split; [reflexivity|]. constructor. constructor; [|constructor].
    apply jxn_node. xe_auto. apply xe_keep; [|xe_auto].
    right; right. split; [reflexivity|]. constructor. constructor; [|constructor].
    apply jxa_obj. xa_auto. }
  xe_auto. apply xe_keep; [|xe_auto].
  right; right. split; [reflexivity|]. constructor. constructor; [|constructor].
  apply jxe_obj. xe_auto. apply xe_keep; [|xe_auto].
  right. split; [reflexivity|]. apply jxc_node. xe_auto. apply xe_keep; [|xe_auto].
  right. split; [reflexivity|]. constructor. constructor; [apply jxc_refl|]. constructor; [|constructor].
  unfold jft. apply jxc_node. xe_auto.
Qed.

Example jx_extra_read : json_read jx_doc_extra = json_read jx_doc /\ exists pm, json_read jx_doc = Ok pm.
Proof. split; [vm_compute; reflexivity|eexists; vm_compute; reflexivity]. Qed.

Example jx_extra_by_theorem : json_read jx_doc = json_read jx_doc_extra.
Proof. apply json_read_extra. exact jx_extra_rel. Qed.

(* the constraint c1 = AND [AND [A; B]; B] written as AND [A; B; B] *)
Definition jx_doc_flat : aval :=
  VMap [("features",
         VMap [("name", VStr "R"); ("abstract", VBool false);
               ("relations",
                VList [jx_rel1;
                       VMap [("type", VStr "OPTIONAL"); ("card_min", VInt 0); ("card_max", VInt 1);
                             ("children",
                              VList [VMap [("name", VStr "B"); ("abstract", VBool true); ("relations", VList []);
                                           ("attributes", VList [VMap [("name", VStr "cost"); ("value", VInt 3)]])]])]])]);
        ("constraints",
         VList [VMap [("name", VStr "c1"); ("expr", VStr "(A AND B) AND B");
                      ("ast", VMap [("type", VStr "AND"); ("operands", VList [jft "A"; jft "B"; jft "B"])])]])].

Example jx_flat_rel : jflat jx_doc jx_doc_flat.
Proof.
  unfold jx_doc, jx_doc_flat. apply jv_doc. xe_auto. apply xe_keep; [|xe_auto].
  right; right. split; [reflexivity|]. constructor. constructor; [|constructor].
  apply jxe_obj. xe_auto. apply xe_keep; [|xe_auto].
  right. split; [reflexivity|].
  apply (jxc_flat true "AND" AND [jft "A"; jft "B"] [jft "B"] [jft "A"; jft "B"; jft "B"]);
    [reflexivity|left; split; reflexivity|discriminate|].
  apply Forall2_refl. apply jxc_refl.
Qed.

Example jx_flat_read : json_read jx_doc_flat = json_read jx_doc.
Proof. vm_compute. reflexivity. Qed.

Example jx_flat_by_theorem : json_read jx_doc = json_read jx_doc_flat.
Proof. apply json_read_flat. exact jx_flat_rel. Qed.

(* ================================================================== what is NOT invisible *)
(* the conditionally looked-up keys are look-up keys: inserting one of them changes the result *)
Definition jx_min (node_extra rel_extra attr_extra : list (string * aval)) : aval :=
  VMap [("features",
         VMap ([("name", VStr "R"); ("abstract", VBool false)] ++ node_extra ++
               [("relations",
                 VList [VMap (rel_extra ++
                              [("type", VStr "CARDINALITY"); ("card_min", VInt 0); ("card_max", VInt 1);
                               ("children",
                                VList [VMap [("name", VStr "A"); ("abstract", VBool false);
                                             ("attributes", VList [VMap (attr_extra ++ [("name", VStr "a")])])]])])])]));
        ("constraints", VList [])].

Example jextra_key_attributes_false :   (* "attributes" in a node without attributes: behind [jhas] *)
  json_read (jx_min [] [] []) <> json_read (jx_min [("attributes", VList [VMap [("name", VStr "z")]])] [] [])
  /\ json_read (jx_min [] [] []) <> json_read (jx_min [("attributes", VInt 0)] [] []).
Proof. split; vm_compute; discriminate. Qed.

Example jextra_key_relations_false :    (* "relations": behind [jhas] *)
  json_read (jx_min [] [] []) <> json_read (jx_min [("relations", VList [])] [] []).
Proof. vm_compute. discriminate. Qed.

Example jextra_key_card_false :         (* "card_min" / "card_max": read for type CARDINALITY only *)
  json_read (jx_min [] [] []) <> json_read (jx_min [] [("card_min", VInt 5)] [])
  /\ json_read (jx_min [] [] []) <> json_read (jx_min [] [("card_max", VInt 5)] []).
Proof. split; vm_compute; discriminate. Qed.

Example jextra_key_value_false :        (* "value" of an attribute: [assoc] with default None *)
  json_read (jx_min [] [] []) <> json_read (jx_min [] [] [("value", VInt 0)]).
Proof. vm_compute. discriminate. Qed.

Example jextra_other_keys_ok :          (* the same places, keys outside the key sets *)
  json_read (jx_min [] [] []) = json_read (jx_min [("children", VList [])] [("relations", VInt 5)] [("default", VInt 0)])
  /\ exists pm, json_read (jx_min [] [] []) = Ok pm.
Proof. split; [vm_compute; reflexivity|eexists; vm_compute; reflexivity]. Qed.

(* the values of "abstract" and of an attribute's "value" are stored as they are: an insertion INSIDE them is visible,
   which is why [jxn] / [jxa] do not descend there *)
Example jextra_inside_abstract_false :
  json_read (VMap [("features", VMap [("name", VStr "R"); ("abstract", VMap [])]); ("constraints", VList [])])
  <> json_read (VMap [("features", VMap [("name", VStr "R"); ("abstract", VMap [("x", VInt 1)])]);
                      ("constraints", VList [])]).
Proof. vm_compute. discriminate. Qed.

Example jextra_inside_value_false :
  json_read (VMap [("features", VMap [("name", VStr "R"); ("abstract", VBool false);
                                      ("attributes", VList [VMap [("name", VStr "a"); ("value", VMap [])]])]);
                   ("constraints", VList [])])
  <> json_read (VMap [("features", VMap [("name", VStr "R"); ("abstract", VBool false);
                                         ("attributes", VList [VMap [("name", VStr "a"); ("value", VMap [("x", VInt 1)])]])]);
                      ("constraints", VList [])]).
Proof. vm_compute. discriminate. Qed.

(* flattening needs a NON-EMPTY inner term: AND [AND []; A] raises TypeError, AND [A] is A *)
Example jflat_empty_false :
  json_parse_ctc 9 (nary_term "AND" [nary_term "AND" []; jft "A"]) <> json_parse_ctc 9 (nary_term "AND" ([] ++ [jft "A"])).
Proof. vm_compute. discriminate. Qed.

(* and only the FIRST operand may be flattened: AND [A; AND [B; B]] is a different tree from AND [A; B; B] *)
Example jflat_second_false :
  json_parse_ctc 9 (nary_term "AND" [jft "A"; nary_term "AND" [jft "B"; jft "B"]])
  <> json_parse_ctc 9 (nary_term "AND" [jft "A"; jft "B"; jft "B"]).
Proof. vm_compute. discriminate. Qed.

Print Assumptions json_read_extra.
Print Assumptions json_parse_tree_extra.
Print Assumptions json_parse_ctc_extra.
Print Assumptions json_read_extra_star.
Print Assumptions json_nary.
Print Assumptions json_nary_fold.
Print Assumptions json_nary_3.
Print Assumptions json_parse_ctc_compat2.
Print Assumptions json_read_compat2.
Print Assumptions json_parse_ctc_var.
Print Assumptions json_read_var.
Print Assumptions json_read_flat.
Print Assumptions json_flatten_3.
Print Assumptions json_flatten.
Print Assumptions jx_extra_by_theorem.
Print Assumptions jx_flat_by_theorem.
