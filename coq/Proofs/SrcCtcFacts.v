(* Proofs/SrcCtcFacts.v — the source tie for the Constraint predicates, the constraint listings,
   left_right_features_from_simple_constraint, split_formula and Constraint.get_features:
   the definitions GENERATED from the Python text (Gen/Src_fm.v) are equal to the hand-written
   model (Model/Ctc.v, Model/Queries.v). *)
From Coq Require Import List Bool Ascii String ZArith Lia Arith.
From FM Require Import Base.Result Base.Str Base.AstOp Gen.Tables_core Model.Ast Model.FM Model.Ctc
  Model.Queries Model.PyRt Model.Loc Gen.Src_fm.
Import ListNotations.
Local Open Scope list_scope.

(* ------------------------------------------------------------------------------------------ *)
(* general helper lemmas                                                                      *)
(* ------------------------------------------------------------------------------------------ *)

Lemma astop_eqb_sym : forall a b, astop_eqb a b = astop_eqb b a.
Proof. intros a b; destruct a, b; reflexivity. Qed.

Lemma data_is_ndata : forall o n, data_is o n = ndata_is_op (n_data n) o.
Proof.
  intros o n. unfold data_is, ndata_is_op.
  destruct (n_data n) as [o'| | | |]; try reflexivity. apply astop_eqb_sym.
Qed.

Lemma existsb_eqb_op_in : forall o l, existsb (fun y => astop_eqb y o) l = op_in o l.
Proof.
  intros o l. unfold op_in. induction l as [|x xs IH]; cbn [existsb]; [reflexivity|].
  rewrite IH, (astop_eqb_sym x o). reflexivity.
Qed.

Lemma forallb_ext' : forall {A} (f g : A -> bool) l, (forall x, f x = g x) -> forallb f l = forallb g l.
Proof.
  intros A f g l H. induction l as [|x xs IH]; cbn [forallb]; [reflexivity|]. rewrite H, IH. reflexivity.
Qed.

Lemma existsb_ext' : forall {A} (f g : A -> bool) l, (forall x, f x = g x) -> existsb f l = existsb g l.
Proof.
  intros A f g l H. induction l as [|x xs IH]; cbn [existsb]; [reflexivity|]. rewrite H, IH. reflexivity.
Qed.

Lemma ndata_in_ops_2 : forall d a b, ndata_in_ops d [a; b] = ndata_is_op d a || ndata_is_op d b.
Proof. intros d a b. unfold ndata_in_ops. cbn [existsb]. rewrite orb_false_r. reflexivity. Qed.

Lemma ndata_in_ops_3 : forall d a b c,
  ndata_in_ops d [a; b; c] = ndata_is_op d a || ndata_is_op d b || ndata_is_op d c.
Proof.
  intros d a b c. unfold ndata_in_ops. cbn [existsb]. rewrite orb_false_r, orb_assoc. reflexivity.
Qed.

Lemma is_not_ndata : forall d,
  (match d with DOp NOT => true | _ => false end) = ndata_is_op d NOT.
Proof. intros d. destruct d as [o| | | |]; try reflexivity; destruct o; reflexivity. Qed.

Lemma whileM_ext : forall {S} fuel (f g : S -> result (option S)),
  (forall s, f s = g s) -> forall s, whileM fuel f s = whileM fuel g s.
Proof.
  intros S fuel f g H. induction fuel as [|k IH]; intros s; cbn [whileM]; [reflexivity|].
  rewrite H. destruct (g s) as [[s'|]|e]; try reflexivity. apply IH.
Qed.

Lemma py_flat_mapM_ext : forall {A B} (f g : A -> result (list B)) l,
  (forall x, f x = g x) -> py_flat_mapM f l = py_flat_mapM g l.
Proof.
  intros A B f g l H. induction l as [|x xs IH]; cbn [py_flat_mapM]; [reflexivity|].
  rewrite H. destruct (g x) as [y|e]; [|reflexivity].
  change ((fix go (l : list A) : result (list B) :=
             match l with
             | [] => Ok []
             | x :: xs => match f x with
                          | Err e1 => Err e1
                          | Ok y => match go xs with Err e2 => Err e2 | Ok ys => Ok (y ++ ys) end
                          end
             end) xs) with (py_flat_mapM f xs).
  rewrite IH. reflexivity.
Qed.

Lemma py_flat_mapM_cons : forall {A B} (f : A -> result (list B)) x xs,
  py_flat_mapM f (x :: xs) =
  match f x with
  | Err e => Err e
  | Ok y => match py_flat_mapM f xs with Err e => Err e | Ok ys => Ok (y ++ ys) end
  end.
Proof. reflexivity. Qed.

Lemma py_flat_mapM_pure : forall {A B} (g : A -> list B) l,
  py_flat_mapM (fun x => Ok (g x)) l = Ok (flat_map g l).
Proof.
  intros A B g l. induction l as [|x xs IH]; [reflexivity|].
  rewrite py_flat_mapM_cons, IH. reflexivity.
Qed.

Lemma py_is_nil_snoc : forall {A} (l : list A) x, py_is_nil (l ++ [x]) = false.
Proof. intros A l x. destruct l; reflexivity. Qed.

Lemma py_pop_snoc : forall {A} (l : list A) x, py_pop (l ++ [x]) = Ok (x, l).
Proof.
  intros A l x. unfold py_pop. rewrite rev_app_distr. cbn [rev app]. rewrite rev_involutive. reflexivity.
Qed.

(* destruct every test / option met in the goal, atoms first *)
Ltac crush_step :=
  cbn [bind py_need fld need negb andb orb n_data n_left n_right];
  match goal with
  | |- ?x = ?x => reflexivity
  | |- context [ndata_is_op ?d ?o] => destruct (ndata_is_op d o)
  | |- context [is_term ?a] => destruct (is_term a)
  | |- context [py_need ?o] => destruct o
  | |- context [fld ?o] => destruct o
  | |- context [match ?o with Some _ => _ | None => _ end] => destruct o
  | |- context [if ?b then _ else _] => destruct b
  end.
Ltac crush := repeat crush_step; try reflexivity.

(* ------------------------------------------------------------------------------------------ *)
(* the predicates                                                                             *)
(* ------------------------------------------------------------------------------------------ *)

Lemma src_is_logical : forall c, py_Constraint_is_logical_constraint c = is_logical (c_ast c).
Proof.
  intros c. unfold py_Constraint_is_logical_constraint, is_logical.
  apply forallb_ext'. intros o. apply existsb_eqb_op_in.
Qed.

Lemma src_is_arithmetic : forall c, py_Constraint_is_arithmetic_constraint c = is_arithmetic (c_ast c).
Proof.
  intros c. unfold py_Constraint_is_arithmetic_constraint, is_arithmetic.
  apply existsb_ext'. intros o. apply existsb_eqb_op_in.
Qed.

Lemma src_is_aggregation : forall c, py_Constraint_is_aggregation_constraint c = is_aggregation (c_ast c).
Proof.
  intros c. unfold py_Constraint_is_aggregation_constraint, is_aggregation.
  apply existsb_ext'. intros o. apply existsb_eqb_op_in.
Qed.

Lemma src_is_single_feature :
  forall c, py_Constraint_is_single_feature_constraint c = is_single_feature (c_ast c).
Proof.
  intros c. unfold py_Constraint_is_single_feature_constraint, is_single_feature. cbv zeta.
  rewrite data_is_ndata.
  destruct (is_term (c_ast c)); [reflexivity|].
  destruct (ndata_is_op (n_data (c_ast c)) NOT); cbn [negb]; [|reflexivity].
  destruct (n_left (c_ast c)) as [a|]; [reflexivity|].
  destruct (n_right (c_ast c)) as [b|]; reflexivity.
Qed.

Lemma src_is_requires : forall c, py_Constraint_is_requires_constraint c = is_requires (c_ast c).
Proof.
  intros c. unfold py_Constraint_is_requires_constraint.
  generalize (c_ast c) as n. clear c. intros n.
  unfold is_requires, neg_of_term. cbv zeta.
  rewrite !data_is_ndata, ndata_in_ops_2.
  destruct (is_binary_op n); [|reflexivity].
  destruct (ndata_is_op (n_data n) REQUIRES), (ndata_is_op (n_data n) IMPLIES); cbn [orb];
    destruct (ndata_is_op (n_data n) OR);
    destruct (n_left n) as [a|]; cbn [bind py_need fld need]; try reflexivity;
    destruct (n_right n) as [b|]; cbn [bind py_need fld need]; try reflexivity;
    rewrite ?data_is_ndata; crush.
Qed.

Lemma src_is_excludes : forall c, py_Constraint_is_excludes_constraint c = is_excludes (c_ast c).
Proof.
  intros c. unfold py_Constraint_is_excludes_constraint.
  generalize (c_ast c) as n. clear c. intros n.
  unfold is_excludes, neg_of_term. cbv zeta.
  rewrite !data_is_ndata, ndata_in_ops_2.
  destruct (is_binary_op n); [|reflexivity].
  destruct (ndata_is_op (n_data n) EXCLUDES);
    destruct (ndata_is_op (n_data n) REQUIRES), (ndata_is_op (n_data n) IMPLIES); cbn [orb];
    destruct (ndata_is_op (n_data n) OR);
    destruct (n_left n) as [a|]; cbn [bind py_need fld need]; try reflexivity;
    destruct (n_right n) as [b|]; cbn [bind py_need fld need]; try reflexivity;
    rewrite ?data_is_ndata; crush.
Qed.

Lemma src_is_simple : forall c, py_Constraint_is_simple_constraint c = is_simple (c_ast c).
Proof.
  intros c. unfold py_Constraint_is_simple_constraint, is_simple.
  rewrite src_is_requires, src_is_excludes.
  destruct (is_requires (c_ast c)) as [[|]|e]; reflexivity.
Qed.

Lemma src_is_complex : forall c, py_Constraint_is_complex_constraint c = is_complex (c_ast c).
Proof.
  intros c. unfold py_Constraint_is_complex_constraint, is_complex.
  rewrite src_is_logical, src_is_simple.
  destruct (is_logical (c_ast c)); [|reflexivity].
  destruct (is_simple (c_ast c)) as [[|]|e]; reflexivity.
Qed.

Lemma src_left_right : forall c, py_left_right_features_from_simple_constraint c = left_right (c_ast c).
Proof.
  intros c. unfold py_left_right_features_from_simple_constraint.
  generalize (c_ast c) as n. clear c. intros n.
  unfold left_right. cbv beta zeta.
  rewrite !data_is_ndata, ndata_in_ops_3.
  destruct (ndata_is_op (n_data n) REQUIRES), (ndata_is_op (n_data n) IMPLIES),
    (ndata_is_op (n_data n) EXCLUDES); cbn [orb];
    destruct (ndata_is_op (n_data n) OR);
    destruct (n_left n) as [a|]; cbn [bind py_need fld need]; try reflexivity;
    destruct (n_right n) as [b|]; cbn [bind py_need fld need]; try reflexivity;
    rewrite ?is_not_ndata; crush.
Qed.

(* ------------------------------------------------------------------------------------------ *)
(* split_formula                                                                              *)
(* ------------------------------------------------------------------------------------------ *)

Definition osz (o : option node) : nat := match o with Some a => nsize a | None => 0 end.
Lemma nsize_Node : forall d l r, nsize (Node d l r) = S (osz l + osz r).
Proof. reflexivity. Qed.

Lemma ndata_is_op_true : forall d o, ndata_is_op d o = true -> d = DOp o.
Proof.
  intros d o H. destruct d as [o'| | | |]; cbn [ndata_is_op] in H; try discriminate.
  destruct o', o; try discriminate; reflexivity.
Qed.

Lemma split_formula_not_and : forall d l r,
  ndata_is_op d AND = false -> split_formula (Node d l r) = Ok [Node d l r].
Proof.
  intros d l r H. destruct d as [o| | | |]; try reflexivity.
  destruct o; try reflexivity. discriminate H.
Qed.

Lemma src_split_formula : forall n fuel, (fuel_node n <= fuel)%nat -> py_split_formula fuel n = split_formula n.
Proof.
  intros n fuel. revert n. induction fuel as [|k IH]; intros n H.
  - unfold fuel_node in H. lia.
  - destruct n as [d l r]. cbn [py_split_formula]. cbv zeta. cbn [n_data n_left n_right].
    unfold fuel_node in H. rewrite nsize_Node in H.
    destruct (ndata_is_op d AND) eqn:E.
    + apply ndata_is_op_true in E. subst d. cbn [split_formula].
      destruct l as [a|]; cbn [py_need bind]; [|reflexivity].
      rewrite IH by (unfold fuel_node; cbn [osz] in H; lia).
      destruct (split_formula a) as [la|e]; cbn [bind app]; [|reflexivity].
      destruct r as [b|]; cbn [py_need bind]; [|reflexivity].
      rewrite IH by (unfold fuel_node; cbn [osz] in H; lia).
      destruct (split_formula b) as [lb|e]; reflexivity.
    + rewrite split_formula_not_and by exact E. reflexivity.
Qed.

(* ------------------------------------------------------------------------------------------ *)
(* Constraint.get_features: the work-list loop                                                *)
(* ------------------------------------------------------------------------------------------ *)

(* the dict of the loop as the model's list of names *)
Definition enc (acc : list string) : list (ndata * unit) := map (fun s => (DStr s, tt)) acc.

Lemma dict_set_add_once : forall s acc,
  py_dict_set ndata_key_eqb (enc acc) (DStr s) tt = enc (add_once s acc).
Proof.
  intros s acc. unfold add_once. induction acc as [|x xs IH].
  - reflexivity.
  - cbn [enc map py_dict_set ndata_key_eqb list_existsb_eq]. fold (enc xs).
    rewrite (String.eqb_sym x s).
    destruct (String.eqb s x); cbn [orb]; [reflexivity|].
    rewrite IH. destruct (list_existsb_eq s xs); reflexivity.
Qed.

Lemma map_fst_enc : forall acc, map fst (enc acc) = map DStr acc.
Proof. intros acc. unfold enc. rewrite map_map. reflexivity. Qed.

(* the model run over a whole stack, given with the top first *)
Fixpoint run_list (l : list (option node)) (acc : list string) : list string :=
  match l with
  | [] => acc
  | None :: t => run_list t acc
  | Some n :: t => run_list t (ctc_features_acc n acc)
  end.

(* number of iterations an entry of the stack costs (an upper bound) *)
Definition ocost (o : option node) : nat := 2 * osz o + 1.
Fixpoint cost_list (l : list (option node)) : nat :=
  match l with [] => 0 | x :: t => ocost x + cost_list t end.

Definition gf_state := (list (option node) * list (ndata * unit))%type.

(* the step of the loop, written by hand (convertible with the generated one) *)
Definition gf_step : gf_state -> result (option gf_state) :=
  fun '(stack, feats) =>
    if negb (py_is_nil stack) then
      bind (py_pop stack) (fun '(nd, stack') =>
        match nd with
        | Some s =>
            if is_unique_term s then
              if ndata_is_number (n_data s) then Ok (Some (stack', feats))
              else bind (match n_data s with
                         | DStr x => Ok (starts_with_char "'"%char x)
                         | _ => Err AttributeError
                         end)
                        (fun v => if v then Ok (Some (stack', feats))
                                  else Ok (Some (stack', py_dict_set ndata_key_eqb feats (n_data s) tt)))
            else Ok (Some ((stack' ++ [n_right s]) ++ [n_left s], feats))
        | None => Ok (Some (stack', feats))
        end)
    else Ok None.

Lemma gf_step_snoc : forall st x feats,
  gf_step (st ++ [x], feats) =
  match x with
  | Some s =>
      if is_unique_term s then
        if ndata_is_number (n_data s) then Ok (Some (st, feats))
        else bind (match n_data s with
                   | DStr x => Ok (starts_with_char "'"%char x)
                   | _ => Err AttributeError
                   end)
                  (fun v => if v then Ok (Some (st, feats))
                            else Ok (Some (st, py_dict_set ndata_key_eqb feats (n_data s) tt)))
      else Ok (Some ((st ++ [n_right s]) ++ [n_left s], feats))
  | None => Ok (Some (st, feats))
  end.
Proof.
  intros st x feats. unfold gf_step. rewrite py_is_nil_snoc, py_pop_snoc. reflexivity.
Qed.

Lemma ctc_features_acc_unique : forall d l r acc,
  is_unique_term (Node d l r) = true ->
  ctc_features_acc (Node d l r) acc =
  match d with
  | DStr s => if starts_with_char "'"%char s then acc else add_once s acc
  | _ => acc
  end.
Proof. intros d l r acc U. cbn [ctc_features_acc]. rewrite U. reflexivity. Qed.

Lemma ctc_features_acc_inner : forall d l r acc,
  is_unique_term (Node d l r) = false ->
  ctc_features_acc (Node d l r) acc = run_list [l; r] acc.
Proof.
  intros d l r acc U. cbn [ctc_features_acc]. rewrite U.
  destruct l as [a|], r as [b|]; reflexivity.
Qed.

Lemma run_list_app : forall l1 l2 acc, run_list (l1 ++ l2) acc = run_list l2 (run_list l1 acc).
Proof.
  induction l1 as [|x t IH]; intros l2 acc; [reflexivity|].
  destruct x as [n|]; cbn [app run_list]; apply IH.
Qed.

Lemma gf_loop : forall fuel rs acc,
  (cost_list rs < fuel)%nat ->
  whileM fuel gf_step (rev rs, enc acc) = Ok ([], enc (run_list rs acc)).
Proof.
  induction fuel as [|k IH]; intros rs acc H; [lia|].
  destruct rs as [|x t].
  - reflexivity.
  - cbn [rev whileM]. rewrite gf_step_snoc. cbn [cost_list] in H.
    destruct x as [[d l r]|].
    + unfold ocost in H. cbn [osz] in H. rewrite nsize_Node in H.
      cbn [run_list].
      destruct (is_unique_term (Node d l r)) eqn:U.
      * rewrite (ctc_features_acc_unique d l r acc U). cbn [n_data].
        destruct d as [o|s|z|fr|b]; cbn [ndata_is_number bind].
        -- unfold is_unique_term, is_op in U. cbn [n_data negb andb] in U. discriminate U.
        -- destruct (starts_with_char "'"%char s).
           ++ apply IH. lia.
           ++ rewrite dict_set_add_once. apply IH. lia.
        -- apply IH. lia.
        -- apply IH. lia.
        -- apply IH. lia.
      * rewrite (ctc_features_acc_inner d l r acc U). cbn [n_left n_right].
        change ((rev t ++ [r]) ++ [l]) with (rev (l :: r :: t)).
        rewrite IH.
        -- change (l :: r :: t) with ([l; r] ++ t). rewrite run_list_app. reflexivity.
        -- cbn [cost_list]. unfold ocost. lia.
    + cbn [run_list]. apply IH. unfold ocost in H. lia.
Qed.

Lemma gf_run : forall fuel n,
  (fuel_node n <= fuel)%nat ->
  whileM fuel gf_step ([Some n], []) = Ok ([], enc (ctc_features n)).
Proof.
  intros fuel n H.
  change (whileM fuel gf_step (rev [Some n], enc []) = Ok ([], enc (run_list [Some n] []))).
  apply gf_loop. cbn [cost_list]. unfold ocost. cbn [osz]. unfold fuel_node in H. lia.
Qed.

Lemma src_ctc_get_features : forall c fuel, (fuel_node (c_ast c) <= fuel)%nat ->
  py_Constraint_get_features fuel c = Ok (map DStr (ctc_features (c_ast c))).
Proof.
  intros c fuel H. unfold py_Constraint_get_features. cbv zeta. cbn [map].
  rewrite (whileM_ext fuel _ gf_step) by (intros [st d]; reflexivity).
  rewrite (gf_run fuel (c_ast c) H). cbn [bind]. rewrite map_fst_enc. reflexivity.
Qed.

(* ------------------------------------------------------------------------------------------ *)
(* constraint listings: the model returns indices into m.ctcs, the translation the constraints *)
(* ------------------------------------------------------------------------------------------ *)

Definition pick (l : list ctc) (idx : list nat) : list ctc :=
  flat_map (fun i => match nth_error l i with Some c => [c] | None => [] end) idx.

Definition fidx {A} (p : A -> result bool) : nat -> list A -> result (list nat) :=
  fix go (i : nat) (l : list A) : result (list nat) :=
    match l with
    | [] => Ok []
    | x :: xs => match p x with
                 | Err e => Err e
                 | Ok b => match go (S i) xs with
                           | Err e => Err e
                           | Ok r => Ok (if b then i :: r else r)
                           end
                 end
    end.

Lemma filterM_idx_fidx : forall {A} (p : A -> result bool) l, filterM_idx p l = fidx p 0 l.
Proof. reflexivity. Qed.

Lemma fidx_cons : forall {A} (p : A -> result bool) i x xs,
  fidx p i (x :: xs) =
  match p x with
  | Err e => Err e
  | Ok b => match fidx p (S i) xs with
            | Err e => Err e
            | Ok r => Ok (if b then i :: r else r)
            end
  end.
Proof. reflexivity. Qed.

Lemma nth_error_mid : forall {A} (pre : list A) x xs, nth_error (pre ++ x :: xs) (List.length pre) = Some x.
Proof. intros A pre x xs. induction pre as [|y ys IH]; [reflexivity|]. exact IH. Qed.

Lemma listing_gen_aux : forall (p : ctc -> result bool) l pre,
  py_flat_mapM (fun c => bind (p c) (fun b => Ok (if b then [c] else []))) l
  = rmap (pick (pre ++ l)) (fidx p (List.length pre) l).
Proof.
  intros p l. induction l as [|x xs IH]; intros pre; [reflexivity|].
  rewrite py_flat_mapM_cons, fidx_cons.
  destruct (p x) as [b|e]; cbn [bind]; [|reflexivity].
  specialize (IH (pre ++ [x])).
  rewrite <- app_assoc, app_length in IH. cbn [app List.length] in IH.
  rewrite Nat.add_1_r in IH. rewrite IH.
  destruct (fidx p (S (List.length pre)) xs) as [r|e]; cbn [rmap]; [|reflexivity].
  destruct b; [|reflexivity].
  unfold pick. cbn [flat_map]. rewrite nth_error_mid. reflexivity.
Qed.

Lemma listing_gen : forall (p : ctc -> result bool) l,
  py_flat_mapM (fun c => bind (p c) (fun b => Ok (if b then [c] else []))) l
  = rmap (pick l) (filterM_idx p l).
Proof. intros p l. rewrite filterM_idx_fidx. exact (listing_gen_aux p l []). Qed.

Lemma listing_pure : forall (p : ctc -> bool) l,
  Ok (flat_map (fun c => if p c then [c] else []) l)
  = rmap (pick l) (filterM_idx (fun c => Ok (p c)) l).
Proof.
  intros p l. rewrite <- listing_gen. rewrite <- py_flat_mapM_pure.
  apply py_flat_mapM_ext. intros x. reflexivity.
Qed.

Lemma src_get_logical_constraints : forall m,
  Ok (py_FeatureModel_get_logical_constraints m) = rmap (pick (ctcs m)) (get_logical_constraints m).
Proof.
  intros m. unfold py_FeatureModel_get_logical_constraints, py_FeatureModel_get_constraints,
    get_logical_constraints, ctc_listing.
  rewrite <- (listing_pure (fun c => is_logical (c_ast c))). apply f_equal.
  apply flat_map_ext. intros c. rewrite src_is_logical. reflexivity.
Qed.

Lemma src_get_arithmetic_constraints : forall m,
  Ok (py_FeatureModel_get_arithmetic_constraints m) = rmap (pick (ctcs m)) (get_arithmetic_constraints m).
Proof.
  intros m. unfold py_FeatureModel_get_arithmetic_constraints, py_FeatureModel_get_constraints,
    get_arithmetic_constraints, ctc_listing.
  rewrite <- (listing_pure (fun c => is_arithmetic (c_ast c))). apply f_equal.
  apply flat_map_ext. intros c. rewrite src_is_arithmetic. reflexivity.
Qed.

Lemma src_get_aggregations_constraints : forall m,
  Ok (py_FeatureModel_get_aggregations_constraints m) = rmap (pick (ctcs m)) (get_aggregations_constraints m).
Proof.
  intros m. unfold py_FeatureModel_get_aggregations_constraints, py_FeatureModel_get_constraints,
    get_aggregations_constraints, ctc_listing.
  rewrite <- (listing_pure (fun c => is_aggregation (c_ast c))). apply f_equal.
  apply flat_map_ext. intros c. rewrite src_is_aggregation. reflexivity.
Qed.

Lemma src_get_complex_constraints : forall m,
  py_FeatureModel_get_complex_constraints m = rmap (pick (ctcs m)) (get_complex_constraints m).
Proof.
  intros m. unfold py_FeatureModel_get_complex_constraints, py_FeatureModel_get_constraints,
    get_complex_constraints, ctc_listing.
  rewrite <- (listing_gen (fun c => is_complex (c_ast c))).
  apply py_flat_mapM_ext. intros c. rewrite src_is_complex. reflexivity.
Qed.

Lemma src_get_simple_constraints : forall m,
  py_FeatureModel_get_simple_constraints m = rmap (pick (ctcs m)) (get_simple_constraints m).
Proof.
  intros m. unfold py_FeatureModel_get_simple_constraints, py_FeatureModel_get_constraints,
    get_simple_constraints, ctc_listing.
  rewrite <- (listing_gen (fun c => is_simple (c_ast c))).
  apply py_flat_mapM_ext. intros c. rewrite src_is_simple. reflexivity.
Qed.

Lemma src_get_excludes_constraints : forall m,
  py_FeatureModel_get_excludes_constraints m = rmap (pick (ctcs m)) (get_excludes_constraints m).
Proof.
  intros m. unfold py_FeatureModel_get_excludes_constraints, py_FeatureModel_get_constraints,
    get_excludes_constraints, ctc_listing.
  rewrite <- (listing_gen (fun c => is_excludes (c_ast c))).
  apply py_flat_mapM_ext. intros c. rewrite src_is_excludes. reflexivity.
Qed.

Lemma src_get_requires_constraints : forall m,
  py_FeatureModel_get_requires_constraints m = rmap (pick (ctcs m)) (get_requires_constraints m).
Proof.
  intros m. unfold py_FeatureModel_get_requires_constraints, py_FeatureModel_get_constraints,
    get_requires_constraints, ctc_listing.
  rewrite <- (listing_gen (fun c => is_requires (c_ast c))).
  apply py_flat_mapM_ext. intros c. rewrite src_is_requires. reflexivity.
Qed.

Print Assumptions src_is_requires.
Print Assumptions src_is_excludes.
Print Assumptions src_left_right.
Print Assumptions src_split_formula.
Print Assumptions src_ctc_get_features.
Print Assumptions src_get_requires_constraints.
