(* Source tie for the Glencoe reader: the translation of GlencoeReader._parse_ast_constraint
   (Gen/Src_glencoer.v) against the hand model glencoe_parse_ctc (Format/Glencoe.v).

   On well-formed documents both give the same node; on malformed documents both fail, and wherever the
   model names the library error (FlamaException) the code raises it too.  The model is coarser about the
   kind of the other exceptions (see the witness at the end). *)
From Coq Require Import List Bool Ascii String ZArith Lia.
From FM Require Import Base.Result Base.Str Base.AstOp Model.Ast Model.FM Model.PFM Gen.Tables_json Format.Json
  Gen.Tables_glencoe Format.Glencoe Model.PyRt Model.Loc Gen.Src_fm Gen.Src_glencoer.
Import ListNotations.
Local Open Scope list_scope.

(* ------------------------------------------------------------------ agreement of two results *)
(* [m] is the model's answer, [c] the code's: equal values; a failure for a failure; the library error for
   the library error *)
Definition agree {A} (m c : result A) : Prop :=
  match m with
  | Ok a => c = Ok a
  | Err e => exists e', c = Err e' /\ (e = FlamaException -> e' = FlamaException)
  end.

Lemma agree_refl {A} (m : result A) : agree m m.
Proof. destruct m as [a|e]; cbn; [reflexivity|]. exists e. split; [reflexivity|auto]. Qed.

Lemma agree_err {A} e e' : e <> FlamaException -> @agree A (Err e) (Err e').
Proof. intros Hne. cbn. exists e'. split; [reflexivity|]. intros H; contradiction. Qed.

Lemma agree_bind {A B} (m c : result A) (f g : A -> result B) :
  agree m c -> (forall a, m = Ok a -> agree (f a) (g a)) ->
  agree (match m with Err e => Err e | Ok a => f a end) (bind c g).
Proof.
  intros Hmc Hfg. destruct m as [a|e]; cbn in Hmc.
  - subst c. cbn [bind]. apply Hfg. reflexivity.
  - destruct Hmc as (e' & -> & Hfl). cbn [bind]. cbn. exists e'. split; [reflexivity|exact Hfl].
Qed.

(* ------------------------------------------------------------------ run-time library vs model helpers *)
Lemma find_assoc : forall k kv,
  match find (fun p : string * aval => String.eqb (fst p) k) kv with Some p => Some (snd p) | None => None end
  = assoc k kv.
Proof.
  induction kv as [|[k' x] kv IH]; [reflexivity|].
  cbn [find assoc fst snd]. rewrite (String.eqb_sym k' k).
  destruct (String.eqb k k'); [reflexivity|exact IH].
Qed.

Lemma aval_get_jget : forall d k, aval_get d k = jget k d.
Proof.
  intros d k. destruct d; try reflexivity. cbn [aval_get jget].
  rewrite <- (find_assoc k kv).
  destruct (find (fun p : string * aval => String.eqb (fst p) k) kv); reflexivity.
Qed.

Lemma py_index_nth {A} : forall (l : list A) (i : nat),
  py_index l (Z.of_nat i) = match nth_error l i with Some x => Ok x | None => Err IndexError end.
Proof.
  intros l i. unfold py_index.
  destruct (Z.of_nat i <? 0)%Z eqn:E1; [apply Z.ltb_lt in E1; lia|].
  rewrite E1. rewrite Nat2Z.id. reflexivity.
Qed.

Lemma py_index_0 : forall (l : list aval), py_index l 0%Z = nth_operand l 0.
Proof. intros l. exact (py_index_nth l 0). Qed.
Lemma py_index_1 : forall (l : list aval), py_index l 1%Z = nth_operand l 1.
Proof. intros l. exact (py_index_nth l 1). Qed.

(* depths *)
Lemma fold_max_in' {A} (g : A -> nat) : forall l x,
  In x l -> (g x <= fold_right Nat.max 0 (map g l))%nat.
Proof.
  induction l as [|y l IH]; intros x Hin; [destruct Hin|].
  cbn [map fold_right]. destruct Hin as [->|Hin]; [lia|].
  specialize (IH _ Hin). lia.
Qed.

Lemma depth_pos : forall v, (1 <= aval_depth v)%nat.
Proof. intros v. destruct v; cbn [aval_depth]; lia. Qed.

Lemma depth_in_list : forall l x, In x l -> (aval_depth x < aval_depth (VList l))%nat.
Proof.
  intros l x Hin. cbn [aval_depth].
  pose proof (fold_max_in' aval_depth l x Hin). lia.
Qed.

Lemma assoc_in' : forall k kv v, assoc k kv = Some v -> In (k, v) kv.
Proof.
  induction kv as [|[k' v'] kv IH]; intros v H; [discriminate|].
  cbn [assoc] in H. destruct (String.eqb k k') eqn:E.
  - apply String.eqb_eq in E. inversion H; subst. left; reflexivity.
  - right. apply IH. exact H.
Qed.

Lemma depth_of_jget : forall k o v, jget k o = Ok v -> (aval_depth v < aval_depth o)%nat.
Proof.
  intros k o v H. destruct o; try discriminate. cbn [jget] in H.
  destruct (assoc k kv) eqn:E; [|discriminate]. inversion H; subst.
  apply assoc_in' in E. cbn [aval_depth].
  pose proof (fold_max_in' (fun p : string * aval => aval_depth (snd p)) kv (k, v) E) as Hm.
  cbn [snd] in Hm. lia.
Qed.

Lemma depth_nth_operand : forall l i x, nth_operand l i = Ok x -> (aval_depth x < aval_depth (VList l))%nat.
Proof.
  intros l i x H. unfold nth_operand in H.
  destruct (nth_error l i) eqn:E; [|discriminate]. inversion H; subst.
  apply depth_in_list. eapply nth_error_In; eassumption.
Qed.

(* ------------------------------------------------------------------ the pieces of the reader *)
(* features_info[id]["name"] *)
Lemma agree_finfo_get : forall fi x k,
  agree (finfo_get fi x k) (bind (aval_get_any fi x) (fun v => aval_get v k)).
Proof.
  intros fi x k. unfold finfo_get.
  destruct x as [| b | z | r | s | l | kv]; cbn [jstr];
    try (destruct fi; cbn [aval_get_any bind]; apply agree_err; discriminate).
  destruct fi as [| b | z | r | s' | l | kv];
    try (cbn [aval_get_any jget bind]; apply agree_err; discriminate).
  cbn [aval_get_any]. rewrite aval_get_jget.
  destruct (jget s (VMap kv)) as [v|e]; cbn [bind].
  - rewrite aval_get_jget. apply agree_refl.
  - apply agree_refl.
Qed.

(* the list comprehension [self._parse_ast_constraint(op, features_info) for op in operands] *)
Lemma agree_mapM {A B} (f g : A -> result B) : forall l,
  (forall x, In x l -> agree (f x) (g x)) ->
  agree (mapM f l) (py_flat_mapM (fun op => bind (g op) (fun v => Ok [v])) l).
Proof.
  induction l as [|x xs IH]; intros H; [cbn; reflexivity|].
  cbn [mapM py_flat_mapM].
  pose proof (H x (or_introl eq_refl)) as Hx.
  destruct (f x) as [y|e]; cbn in Hx.
  - rewrite Hx. cbn [bind].
    assert (Hxs : agree (mapM f xs) (py_flat_mapM (fun op => bind (g op) (fun v => Ok [v])) xs)).
    { apply IH. intros x' Hin. apply H. right. exact Hin. }
    destruct (mapM f xs) as [ys|e]; cbn in Hxs.
    + rewrite Hxs. cbn. reflexivity.
    + destruct Hxs as (e' & -> & Hfl). cbn. exists e'. split; [reflexivity|exact Hfl].
  - destruct Hx as (e' & -> & Hfl). cbn [bind]. cbn. exists e'. split; [reflexivity|exact Hfl].
Qed.

(* functools.reduce(lambda l, r: Node(op, l, r), op_list), then the 'node' that is returned *)
Lemma agree_reduce : forall o l,
  agree (reduce_op o l)
        (bind (bind (py_reduce (fun a b => Node (DOp o) (Some a) (Some b)) l) (fun v => Ok (Some v)))
              (fun v => py_need v)).
Proof.
  intros o l. destruct l as [|x xs]; cbn [reduce_op py_reduce bind py_need].
  - apply agree_err. discriminate.
  - cbn. reflexivity.
Qed.

(* ------------------------------------------------------------------ the main induction *)
Ltac split_ifs :=
  repeat match goal with
         | |- context [if ?b then _ else _] => destruct b
         end.

Lemma src_glencoe_agree : forall w fi fuel fuel' v,
  (aval_depth v <= fuel)%nat -> (aval_depth v <= fuel')%nat ->
  agree (glencoe_parse_ctc fuel' fi v) (py_GlencoeReader__parse_ast_constraint fuel w v fi).
Proof.
  intros w fi fuel. induction fuel as [|fuel IH]; intros fuel' v Hf Hf'.
  { pose proof (depth_pos v). lia. }
  destruct fuel' as [|fuel']. { pose proof (depth_pos v). lia. }
  cbn [glencoe_parse_ctc py_GlencoeReader__parse_ast_constraint].
  rewrite !aval_get_jget.
  destruct (jget "type" v) as [tv|e] eqn:Ety; cbn [bind]; [|apply agree_refl].
  destruct (jget "operands" v) as [ov|e] eqn:Eop; cbn [bind]; [|apply agree_refl].
  pose proof (depth_of_jget _ _ _ Eop) as Hdo.
  destruct tv as [| tb | tz | tr | ty | tl | tkv]; cbn [jstr];
    try (apply agree_err; discriminate).
  destruct ov as [| ob | oz | orr | os | ops | okv]; cbn [jlist bind];
    try (cbn; split_ifs; eexists; (split; [reflexivity|intros HH; discriminate HH])).
  (* the recursive call on an operand *)
  assert (Hsub : forall x, (aval_depth x < aval_depth (VList ops))%nat ->
            agree (glencoe_parse_ctc fuel' fi x) (py_GlencoeReader__parse_ast_constraint fuel w x fi)).
  { intros x Hx. apply IH; lia. }
  assert (Hnth : forall i,
            agree (match nth_operand ops i with Err e => Err e | Ok x => glencoe_parse_ctc fuel' fi x end)
                  (bind (nth_operand ops i) (fun x => py_GlencoeReader__parse_ast_constraint fuel w x fi))).
  { intros i. apply agree_bind; [apply agree_refl|]. intros x Hx. apply Hsub.
    eapply depth_nth_operand; eassumption. }
  assert (Hall : agree (mapM (glencoe_parse_ctc fuel' fi) ops)
                       (py_flat_mapM (fun op => bind (py_GlencoeReader__parse_ast_constraint fuel w op fi)
                                                     (fun v => Ok [v])) ops)).
  { apply agree_mapM. intros x Hin. apply Hsub. apply depth_in_list. exact Hin. }
  rewrite !py_index_0, !py_index_1.
  destruct (String.eqb ty "FeatureTerm").
  { (* FeatureTerm *)
    destruct (nth_operand ops 0) as [x|e]; cbn [bind]; [|apply agree_refl].
    apply agree_bind; [apply agree_finfo_get|].
    (* a name that is a string: the same term; any other value: FlamaException on both sides *)
    intros nv _. destruct nv; apply agree_refl. }
  destruct (String.eqb ty "NotTerm").
  { apply agree_bind; [apply Hnth|]. intros a _. cbn. reflexivity. }
  destruct (String.eqb ty "ImpliesTerm").
  { apply agree_bind; [apply Hnth|]. intros a _.
    apply agree_bind; [apply Hnth|]. intros b _. cbn. reflexivity. }
  destruct (String.eqb ty "ExcludesTerm").
  { apply agree_bind; [apply Hnth|]. intros a _.
    apply agree_bind; [apply Hnth|]. intros b _. cbn. reflexivity. }
  destruct (String.eqb ty "EquivalentTerm").
  { apply agree_bind; [apply Hnth|]. intros a _.
    apply agree_bind; [apply Hnth|]. intros b _. cbn. reflexivity. }
  destruct (String.eqb ty "AndTerm").
  { apply agree_bind; [apply Hall|]. intros l _. apply agree_reduce. }
  destruct (String.eqb ty "OrTerm").
  { apply agree_bind; [apply Hall|]. intros l _. apply agree_reduce. }
  destruct (String.eqb ty "XorTerm").
  { apply agree_bind; [apply Hall|]. intros l _. apply agree_reduce. }
  apply agree_refl.
Qed.

(* ------------------------------------------------------------------ the theorems *)
Theorem src_glencoe_parse_ctc : forall w fi v fuel fuel', (aval_depth v <= fuel)%nat -> (aval_depth v <= fuel')%nat ->
  match glencoe_parse_ctc fuel' fi v with
  | Ok n => py_GlencoeReader__parse_ast_constraint fuel w v fi = Ok n
  | Err _ => exists e, py_GlencoeReader__parse_ast_constraint fuel w v fi = Err e
  end.
Proof.
  intros w fi v fuel fuel' Hf Hf'.
  pose proof (src_glencoe_agree w fi fuel fuel' v Hf Hf') as H.
  destruct (glencoe_parse_ctc fuel' fi v) as [n|e]; cbn in H; [exact H|].
  destruct H as (e' & H & _). exists e'. exact H.
Qed.

(* and where the model names a library error the code raises it too *)
Theorem src_glencoe_parse_ctc_library_error : forall w fi v fuel fuel', (aval_depth v <= fuel)%nat -> (aval_depth v <= fuel')%nat ->
  glencoe_parse_ctc fuel' fi v = Err FlamaException ->
  py_GlencoeReader__parse_ast_constraint fuel w v fi = Err FlamaException.
Proof.
  intros w fi v fuel fuel' Hf Hf' Hm.
  pose proof (src_glencoe_agree w fi fuel fuel' v Hf Hf') as H.
  rewrite Hm in H. cbn in H. destruct H as (e' & H & Hfl).
  rewrite H. rewrite (Hfl eq_refl). reflexivity.
Qed.

(* the model is coarser on a malformed document: the witness (a 'type' that is not a string) *)
Example src_glencoe_parse_ctc_error_kinds_differ : exists w fi v,
  glencoe_parse_ctc 5 fi v = Err OtherExn /\ py_GlencoeReader__parse_ast_constraint 5 w v fi = Err FlamaException.
Proof.
  exists (py_GlencoeReader_new ""), (VMap []), (VMap [("type", VInt 1); ("operands", VList [])]).
  split; vm_compute; reflexivity.
Qed.

Print Assumptions src_glencoe_parse_ctc.
Print Assumptions src_glencoe_parse_ctc_library_error.
Print Assumptions src_glencoe_parse_ctc_error_kinds_differ.

(* ================================================================================================ *)
(* The tree part and transform()                                                                     *)
(* ================================================================================================ *)
From FM Require Import Proofs.GlencoeFacts.

(* bool(v): the run-time library's reading and the model's are the same function *)
Lemma aval_truthy_jtruthy : forall v, aval_truthy v = jtruthy v.
Proof. intros v. destruct v as [| b | z | r | s | l | kv]; try reflexivity; [destruct l|destruct kv]; reflexivity. Qed.

Lemma agree_flama {A B} (f : A -> B) : agree (rmap f (Err FlamaException)) (Err FlamaException).
Proof. cbn. eexists. split; reflexivity. Qed.

(* bind on the code's side, match on the model's side, under a final map of the model's value *)
Lemma agree_bind_rmap {A B C} (h : B -> C) (m c : result A) (f : A -> result B) (g : A -> result C) :
  agree m c -> (forall a, m = Ok a -> agree (rmap h (f a)) (g a)) ->
  agree (rmap h (match m with Err e => Err e | Ok a => f a end)) (bind c g).
Proof.
  intros Hmc Hfg. destruct m as [a|e]; cbn in Hmc.
  - subst c. cbn [bind]. apply Hfg. reflexivity.
  - cbn [rmap]. cbn. destruct Hmc as (e' & -> & Hfl). cbn [bind].
    exists e'. split; [reflexivity|exact Hfl].
Qed.

Lemma foldM_cons {S A} (F : S -> A -> result S) x xs s :
  foldM F (x :: xs) s = match F s x with Err e => Err e | Ok s' => foldM F xs s' end.
Proof. reflexivity. Qed.

Lemma aval_has_jhas : forall d k, aval_has d k = jhas k d.
Proof.
  intros d k. destruct d; try reflexivity. cbn [aval_has jhas].
  rewrite <- (find_assoc k kv).
  induction kv as [|[k' x] kv IH]; [reflexivity|].
  cbn [existsb find fst]. destruct (String.eqb k' k); [reflexivity|exact IH].
Qed.

Lemma aval_get_default_assoc : forall kv k d,
  aval_get_default (VMap kv) k d = match assoc k kv with Some x => x | None => d end.
Proof.
  intros kv k d. cbn [aval_get_default]. rewrite <- (find_assoc k kv).
  destruct (find (fun p : string * aval => String.eqb (fst p) k) kv); reflexivity.
Qed.

Lemma known_type_existsb : forall s,
  existsb (String.eqb s) ["FEATURE"; "XOR"; "OR"; "GENOR"]%string = gl_known_type s.
Proof.
  intros s. cbn [existsb]. unfold gl_known_type.
  destruct (String.eqb s "FEATURE"), (String.eqb s "XOR"), (String.eqb s "OR"), (String.eqb s "GENOR"); reflexivity.
Qed.

(* features_info[child["id"]]["optional"] *)
Definition code_child_opt (fi c : aval) : result aval :=
  bind (bind (aval_get c "id") (fun v => aval_get_any fi v)) (fun v => aval_get v "optional").

(* the model takes the truth value of the entry, as the code does (`if optional:`) *)
Lemma child_opt_agree : forall fi c,
  match gl_child_opt fi c with
  | Ok o => exists ov, code_child_opt fi c = Ok ov /\ aval_truthy ov = o
  | Err e => exists e', code_child_opt fi c = Err e' /\ (e = FlamaException -> e' = FlamaException)
  end.
Proof.
  intros fi c. unfold gl_child_opt, code_child_opt. rewrite aval_get_jget.
  destruct (jget "id" c) as [cid|e]; cbn [bind].
  2:{ exists e. split; [reflexivity|auto]. }
  pose proof (agree_finfo_get fi cid "optional") as Ha.
  destruct (finfo_get fi cid "optional") as [ov|e]; cbn in Ha; [|exact Ha].
  exists ov. split; [exact Ha|apply aval_truthy_jtruthy].
Qed.

(* ---- the loop over the children ---- *)
(* what one turn of the loop does to (relation, feature, children) once the child and its flag are known *)
Definition code_upd (plain : bool) (rel : option relation) (f : feature) (ch : list feature) (cf : feature) (o : bool)
  : result (option relation * feature * list feature) :=
  if plain then
    Ok (Some (Relation (if o then 0 else 1)%Z 1%Z [cf]), py_add_relation f (Relation (if o then 0 else 1)%Z 1%Z [cf]), ch)
  else if o then Ok (rel, f, ch ++ [cf])
  else Ok (Some (Relation 1%Z 1%Z [cf]), py_add_relation f (Relation 1%Z 1%Z [cf]), ch).

Definition kids_rels (plain : bool) (kids : list (pfeature * bool)) : list relation :=
  if plain then map (fun ko : pfeature * bool => Relation (if snd ko then 0 else 1)%Z 1%Z [erase (fst ko)]) kids
  else map (fun ko : pfeature * bool => Relation 1%Z 1%Z [erase (fst ko)])
           (filter (fun ko : pfeature * bool => negb (snd ko)) kids).
Definition kids_group (plain : bool) (kids : list (pfeature * bool)) : list feature :=
  if plain then [] else map erase (map fst (filter (fun ko : pfeature * bool => snd ko) kids)).

Section Loop.
  Variable fi : aval.
  Variable rec : path -> aval -> result pfeature.
  Variable crec : option feature -> aval -> result feature.
  Variable here : path.
  Variable wh : nat -> nat * nat.
  Variable plain : bool.
  Variable F : option relation * feature * list feature -> aval -> result (option relation * feature * list feature).
  Hypothesis HF : forall rel f ch c,
    F (rel, f, ch) c
    = bind (crec (Some f) c) (fun cf => bind (code_child_opt fi c) (fun ov => code_upd plain rel f ch cf (aval_truthy ov))).

  Lemma gl_loop_agree : forall chl,
    (forall c, In c chl -> forall h par, agree (rmap erase (rec h c)) (crec par c)) ->
    forall p rel i rs ch,
    match gl_goc rec fi here wh p chl with
    | Ok kids => exists rel', foldM F chl (rel, Feature i rs, ch)
                              = Ok (rel', Feature i (rs ++ kids_rels plain kids), ch ++ kids_group plain kids)
    | Err e => exists e', foldM F chl (rel, Feature i rs, ch) = Err e'
                          /\ (e = FlamaException -> e' = FlamaException)
    end.
  Proof.
    induction chl as [|c cs IH]; intros Hrec p rel i rs ch.
    { cbn [gl_goc foldM]. exists rel. unfold kids_rels, kids_group. destruct plain; cbn [map filter]; rewrite !app_nil_r; reflexivity. }
    cbn [gl_goc]. rewrite foldM_cons, HF.
    pose proof (Hrec c (or_introl eq_refl) (here ++ [wh p]) (Some (Feature i rs))) as Hc.
    destruct (rec (here ++ [wh p]) c) as [pc|e]; cbn [rmap] in Hc; cbn in Hc.
    2:{ destruct Hc as (e' & -> & Hfl). cbn [bind]. exists e'. split; [reflexivity|exact Hfl]. }
    rewrite Hc. cbn [bind].
    pose proof (child_opt_agree fi c) as Ho.
    destruct (gl_child_opt fi c) as [o|e].
    2:{ destruct Ho as (e' & -> & Hfl). cbn [bind]. exists e'. split; [reflexivity|exact Hfl]. }
    destruct Ho as (ov & -> & Hov). cbn [bind]. rewrite Hov.
    assert (Hcs : forall c0, In c0 cs -> forall h par, agree (rmap erase (rec h c0)) (crec par c0)).
    { intros c0 Hin. apply Hrec. right. exact Hin. }
    unfold code_upd. destruct plain eqn:Epl.
    - cbn [py_add_relation].
      specialize (IH Hcs (S p) (Some (Relation (if o then 0 else 1)%Z 1%Z [erase pc])) i
                     (rs ++ [Relation (if o then 0 else 1)%Z 1%Z [erase pc]]) ch).
      destruct (gl_goc rec fi here wh (S p) cs) as [rest|e]; [|exact IH].
      destruct IH as (rel' & ->). exists rel'.
      unfold kids_rels, kids_group. cbn [map fst snd]. rewrite <- app_assoc. reflexivity.
    - destruct o.
      + specialize (IH Hcs (S p) rel i rs (ch ++ [erase pc])).
        destruct (gl_goc rec fi here wh (S p) cs) as [rest|e]; [|exact IH].
        destruct IH as (rel' & ->). exists rel'.
        unfold kids_rels, kids_group. cbn [map filter fst snd negb]. rewrite <- app_assoc. reflexivity.
      + cbn [py_add_relation].
        specialize (IH Hcs (S p) (Some (Relation 1%Z 1%Z [erase pc])) i (rs ++ [Relation 1%Z 1%Z [erase pc]]) ch).
        destruct (gl_goc rec fi here wh (S p) cs) as [rest|e]; [|exact IH].
        destruct IH as (rel' & ->). exists rel'.
        unfold kids_rels, kids_group. cbn [map filter fst snd negb]. rewrite <- app_assoc. reflexivity.
  Qed.
End Loop.

(* ---- the tree ---- *)
Lemma depth_child : forall node chv chl c,
  jget "children" node = Ok chv -> jlist chv = Ok chl -> In c chl -> (S (S (aval_depth c)) <= aval_depth node)%nat.
Proof.
  intros node chv chl c H1 H2 H3. apply depth_of_jget in H1.
  destruct chv; try discriminate. cbn [jlist] in H2. injection H2 as ->.
  pose proof (depth_in_list _ _ H3). lia.
Qed.

Ltac step_agree H :=
  match type of H with
  | agree ?m _ =>
      let e := fresh "e" in let e' := fresh "e'" in let Hfl := fresh "Hfl" in let v := fresh "v" in
      destruct m as [v|e]; cbn [agree] in H;
      [ rewrite H; cbn [bind]
      | destruct H as (e' & -> & Hfl); cbn [bind rmap]; cbn; exists e'; (split; [reflexivity|exact Hfl]) ]
  end.

Lemma src_glencoe_tree_agree : forall w fi fuel fuel' here parent par node,
  (aval_depth node <= fuel)%nat -> (aval_depth node <= fuel')%nat ->
  agree (rmap erase (glencoe_parse_tree fuel' fi here parent node))
        (py_GlencoeReader__parse_tree fuel w par node fi).
Proof.
  intros w fi fuel. induction fuel as [|fuel IH]; intros fuel' here parent par node Hf Hf'.
  { pose proof (depth_pos node). lia. }
  destruct fuel' as [|fuel']. { pose proof (depth_pos node). lia. }
  rewrite glencoe_parse_tree_S. cbn [py_GlencoeReader__parse_tree].
  rewrite (aval_get_jget node "id").
  destruct (jget "id" node) as [fid|e]; cbn [bind]; [|apply agree_refl].
  pose proof (agree_finfo_get fi fid "type") as Hty. step_agree Hty. rename v into tyv.
  pose proof (agree_finfo_get fi fid "name") as Hnm. step_agree Hnm. rename v into nmv.
  destruct nmv as [| nb | nz | nr | fname | nl | nkv];
    try (destruct tyv; cbn [jstr]; apply agree_flama).
  destruct tyv as [| tb | tz | tr | fty | tl | tkv]; cbn [jstr bind negb];
    try apply agree_flama.
  rewrite known_type_existsb.
  destruct (gl_known_type fty) eqn:Ekn; cbn [negb]; [|apply agree_flama].
  rewrite aval_has_jhas.
  destruct (jhas "children" node); [|cbn; reflexivity].
  rewrite (aval_get_jget node "children").
  destruct (jget "children" node) as [chv|e] eqn:Ech; cbn [bind]; [|apply agree_refl].
  destruct chv as [| cb | cz | cr | cs | chl | ckv]; cbn [jlist bind];
    try (apply agree_err; discriminate).
  (* the loop *)
  match goal with
  | |- context [foldM ?F chl (?r0, Feature ?i0 [], [])] =>
      pose proof (gl_loop_agree fi
                    (fun h c => glencoe_parse_tree fuel' fi h (PPath here) c)
                    (fun par c => py_GlencoeReader__parse_tree fuel w par c fi)
                    here (gl_where (String.eqb fty "FEATURE") (gl_mand fi chl)) (String.eqb fty "FEATURE") F
                    (fun rel f ch c => eq_refl) chl) as Hloop
  end.
  assert (Hkids : forall c, In c chl -> forall h par0,
            agree (rmap erase (glencoe_parse_tree fuel' fi h (PPath here) c))
                  (py_GlencoeReader__parse_tree fuel w par0 c fi)).
  { intros c Hin h par0. pose proof (depth_child node (VList chl) chl c Ech eq_refl Hin). apply IH; lia. }
  specialize (Hloop Hkids 0%nat None (mk_info fname) [] []).
  unfold mk_info in Hloop.
  destruct (gl_goc (fun h c => glencoe_parse_tree fuel' fi h (PPath here) c) fi here
              (gl_where (String.eqb fty "FEATURE") (gl_mand fi chl)) 0 chl) as [kids|e].
  2:{ cbn [rmap]. cbn. destruct Hloop as (e' & -> & Hfl). cbn [bind].
      exists e'. split; [reflexivity|exact Hfl]. }
  destruct Hloop as (rel' & ->). cbn [bind app].
  unfold gl_build, kids_rels, kids_group, mk_info.
  destruct (String.eqb fty "FEATURE") eqn:Epl; cbn [negb rmap].
  { cbn [agree]. rewrite erase_unfold, map_map. reflexivity. }
  destruct (map fst (filter (fun ko : pfeature * bool => snd ko) kids)) as [|g gs] eqn:Eg;
    cbn [map py_is_nil negb rmap].
  { cbn [agree]. rewrite erase_unfold, map_map. reflexivity. }
  unfold gl_grp.
  destruct (String.eqb fty "XOR") eqn:Exor.
  { cbn [rmap agree py_add_relation]. rewrite erase_unfold, map_app, map_map. reflexivity. }
  destruct (String.eqb fty "OR") eqn:Eor.
  { cbn [rmap agree py_add_relation]. rewrite erase_unfold, map_app, map_map.
    unfold py_len. cbn [List.length map]. rewrite !map_length. reflexivity. }
  unfold gl_known_type in Ekn. rewrite Epl, Exor, Eor in Ekn. cbn [orb] in Ekn. rewrite Ekn.
  pose proof (agree_finfo_get fi fid "min") as Hmin. step_agree Hmin. rename v into cmin.
  pose proof (agree_finfo_get fi fid "max") as Hmax. step_agree Hmax. rename v into cmax.
  destruct cmin as [| ab | az | ar | as_ | al | akv]; cbn [jint foldM bind rmap];
    try apply agree_refl;
  destruct cmax as [| bb | bz | br | bs | bl | bkv]; cbn [jint foldM bind rmap];
    try apply agree_refl.
  cbn [agree py_add_relation]. rewrite erase_unfold, map_app, map_map. reflexivity.
Qed.

(* ---- the constraints: for name, info in ctcs_info.items() ---- *)
Lemma ctc_loop_agree (fm_ : string * aval -> result ctc) (g : aval -> result node)
  (F : list ctc -> string * aval -> result (list ctc)) :
  (forall acc k v, F acc (k, v) = bind (g v) (fun n => Ok (acc ++ [{| c_name := k; c_ast := n |}]))) ->
  forall l,
  (forall kc, In kc l -> agree (fm_ kc) (bind (g (snd kc)) (fun n => Ok {| c_name := fst kc; c_ast := n |}))) ->
  forall acc, agree (rmap (fun cs => acc ++ cs) (mapM fm_ l)) (foldM F l acc).
Proof.
  intros HF. induction l as [|[k v] l IH]; intros Hl acc.
  { cbn. rewrite app_nil_r. reflexivity. }
  cbn [mapM]. rewrite foldM_cons, HF.
  pose proof (Hl (k, v) (or_introl eq_refl)) as Hkv. cbn [fst snd] in Hkv.
  destruct (fm_ (k, v)) as [c|e]; cbn [agree] in Hkv.
  2:{ cbn. destruct Hkv as (e' & He' & Hfl). destruct (g v) as [n|e0]; cbn [bind] in *.
      - discriminate He'.
      - injection He' as <-. exists e0. split; [reflexivity|exact Hfl]. }
  destruct (g v) as [n|e0]; cbn [bind] in Hkv; [|discriminate]. injection Hkv as <-. cbn [bind].
  assert (Hl' : forall kc, In kc l ->
            agree (fm_ kc) (bind (g (snd kc)) (fun n => Ok {| c_name := fst kc; c_ast := n |}))).
  { intros kc Hin. apply Hl. right. exact Hin. }
  specialize (IH Hl' (acc ++ [{| c_name := k; c_ast := n |}])).
  destruct (mapM fm_ l) as [cs|e]; cbn [rmap agree] in IH |- *.
  - rewrite IH, <- app_assoc. reflexivity.
  - exact IH.
Qed.

Lemma depth_in_map : forall kv kc, In kc kv -> (aval_depth (snd kc) < aval_depth (VMap kv))%nat.
Proof.
  intros kv kc Hin. cbn [aval_depth].
  pose proof (fold_max_in' (fun p : string * aval => aval_depth (snd p)) kv kc Hin). lia.
Qed.

Lemma src_glencoe_ctcs_agree : forall w fi fuel ckv,
  (aval_depth (VMap ckv) <= fuel)%nat ->
  agree (mapM (fun kc : string * aval =>
                 match glencoe_parse_ctc (aval_depth (snd kc)) fi (snd kc) with
                 | Err e => Err e
                 | Ok n => Ok {| c_name := fst kc; c_ast := n |}
                 end) ckv)
        (py_GlencoeReader__parse_constraints fuel w (VMap ckv) fi).
Proof.
  intros w fi fuel ckv Hf. unfold py_GlencoeReader__parse_constraints. cbn [bind].
  match goal with
  | |- context [foldM ?F ckv []] =>
      pose proof (ctc_loop_agree
                    (fun kc : string * aval =>
                       match glencoe_parse_ctc (aval_depth (snd kc)) fi (snd kc) with
                       | Err e => Err e
                       | Ok n => Ok {| c_name := fst kc; c_ast := n |}
                       end)
                    (fun v => py_GlencoeReader__parse_ast_constraint fuel w v fi) F
                    (fun acc k v => eq_refl) ckv) as Hloop
  end.
  assert (Hl : forall kc : string * aval, In kc ckv ->
            agree (match glencoe_parse_ctc (aval_depth (snd kc)) fi (snd kc) with
                   | Err e => Err e
                   | Ok n => Ok {| c_name := fst kc; c_ast := n |}
                   end)
                  (bind (py_GlencoeReader__parse_ast_constraint fuel w (snd kc) fi)
                        (fun n => Ok {| c_name := fst kc; c_ast := n |}))).
  { intros kc Hin. pose proof (depth_in_map ckv kc Hin) as Hd.
    apply agree_bind.
    - apply src_glencoe_agree; lia.
    - intros n _. apply agree_refl. }
  specialize (Hloop Hl []).
  destruct (mapM _ ckv) as [cs|e]; cbn [rmap agree app] in Hloop |- *.
  - rewrite Hloop. reflexivity.
  - destruct Hloop as (e' & -> & Hfl). cbn [bind]. exists e'. split; [reflexivity|exact Hfl].
Qed.

(* ---- transform() ---- *)
Lemma src_glencoe_read_agree : forall w doc fuel, (aval_depth doc <= fuel)%nat ->
  agree (rmap erase_fm (glencoe_read doc)) (py_GlencoeReader_transform fuel w doc).
Proof.
  intros w doc fuel Hf. unfold glencoe_read, py_GlencoeReader_transform.
  rewrite (aval_get_jget doc "features").
  destruct (jget "features" doc) as [fv|e] eqn:Efv; cbn [bind]; [|apply agree_refl].
  rewrite (aval_get_jget doc "tree").
  destruct (jget "tree" doc) as [tv|e] eqn:Etv; cbn [bind]; [|apply agree_refl].
  destruct doc as [| db | dz | dr | ds | dl | kv]; try discriminate Efv.
  rewrite aval_get_default_assoc.
  set (cv := match assoc "constraints" kv with Some x => x | None => VMap [] end).
  assert (Hcv : (aval_depth cv <= fuel)%nat).
  { subst cv. destruct (assoc "constraints" kv) as [x|] eqn:Ea.
    - assert (Hx : jget "constraints" (VMap kv) = Ok x) by (cbn [jget]; rewrite Ea; reflexivity).
      apply depth_of_jget in Hx. lia.
    - cbn. pose proof (depth_pos (VMap kv)). lia. }
  replace (match assoc "constraints" kv with Some x => Ok x | None => Ok (VMap []) end) with (Ok cv)
    by (subst cv; destruct (assoc "constraints" kv); reflexivity).
  clearbody cv.
  pose proof (depth_of_jget _ _ _ Etv) as Hdt.
  pose proof (src_glencoe_tree_agree w fv fuel (aval_depth tv) [] PNone None tv ltac:(lia) (le_n _)) as Ht.
  destruct (glencoe_parse_tree (aval_depth tv) fv [] PNone tv) as [pr|e]; cbn [rmap agree] in Ht.
  2:{ cbn [rmap agree]. destruct Ht as (e' & -> & Hfl). cbn [bind].
      exists e'. split; [reflexivity|exact Hfl]. }
  rewrite Ht. cbn [bind].
  destruct cv as [| cb | cz | cr | cs | cl | ckv];
    try (cbn [py_GlencoeReader__parse_constraints bind rmap]; apply agree_refl).
  pose proof (src_glencoe_ctcs_agree w fv fuel ckv Hcv) as Hc.
  destruct (mapM _ ckv) as [cs|e]; cbn [rmap agree] in Hc |- *.
  - rewrite Hc. cbn [bind]. reflexivity.
  - destruct Hc as (e' & -> & Hfl). cbn [bind]. exists e'. split; [reflexivity|exact Hfl].
Qed.

Theorem src_glencoe_read : forall w doc pm, glencoe_read doc = Ok pm ->
  exists n0, forall fuel, (n0 <= fuel)%nat -> py_GlencoeReader_transform fuel w doc = Ok (erase_fm pm).
Proof.
  intros w doc pm Hm. exists (aval_depth doc). intros fuel Hf.
  pose proof (src_glencoe_read_agree w doc fuel Hf) as H. rewrite Hm in H. exact H.
Qed.

(* a document the model rejects is rejected by the code (the model reads the "optional" entry of a feature
   with Python's truth value, jtruthy, as the code does: no hypothesis on the document is needed) *)
Theorem src_glencoe_read_error : forall w doc e, glencoe_read doc = Err e ->
  exists n0, forall fuel, (n0 <= fuel)%nat -> exists e', py_GlencoeReader_transform fuel w doc = Err e'.
Proof.
  intros w doc e Hm. exists (aval_depth doc). intros fuel Hf.
  pose proof (src_glencoe_read_agree w doc fuel Hf) as H. rewrite Hm in H. cbn [rmap agree] in H.
  destruct H as (e' & He' & _). exists e'. exact He'.
Qed.

(* and where the model names the library error the code raises it too *)
Theorem src_glencoe_read_library_error : forall w doc, glencoe_read doc = Err FlamaException ->
  exists n0, forall fuel, (n0 <= fuel)%nat -> py_GlencoeReader_transform fuel w doc = Err FlamaException.
Proof.
  intros w doc Hm. exists (aval_depth doc). intros fuel Hf.
  pose proof (src_glencoe_read_agree w doc fuel Hf) as H. rewrite Hm in H. cbn [rmap agree] in H.
  destruct H as (e' & He' & Hfl). rewrite He', (Hfl eq_refl). reflexivity.
Qed.

(* the document that used to separate the model (jbool: a JSON boolean or an error) from the code: an
   "optional" entry that is the integer 1 is now read by both as "optional" *)
Definition gl_doc_optional_int : aval :=
  VMap [("features", VMap [("A", VMap [("name", VStr "A"); ("type", VStr "FEATURE")]);
                           ("B", VMap [("name", VStr "B"); ("type", VStr "FEATURE"); ("optional", VInt 1)])]);
        ("tree", VMap [("id", VStr "A"); ("children", VList [VMap [("id", VStr "B")]])])]%string.

Example src_glencoe_read_optional_int : forall w,
  rmap erase_fm (glencoe_read gl_doc_optional_int)
    = Ok {| root := Feature (mk_info "A") [Relation 0 1 [Feature (mk_info "B") []]]; ctcs := [] |} /\
  forall fuel, py_GlencoeReader_transform (2 + fuel) w gl_doc_optional_int
               = Ok {| root := Feature (mk_info "A") [Relation 0 1 [Feature (mk_info "B") []]]; ctcs := [] |}.
Proof. intros w. split; [vm_compute; reflexivity|]. intros fuel. vm_compute. reflexivity. Qed.

Print Assumptions src_glencoe_tree_agree.
Print Assumptions src_glencoe_read_error.
Print Assumptions src_glencoe_read_library_error.
Print Assumptions src_glencoe_read.
Print Assumptions src_glencoe_read_optional_int.
