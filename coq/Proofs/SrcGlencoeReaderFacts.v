(* Source tie for the Glencoe reader: the translation of GlencoeReader._parse_ast_constraint
   (Gen/Src_glencoer.v) against the hand model glencoe_parse_ctc (Format/Glencoe.v).

   On well-formed documents both give the same node; on malformed documents both fail, and wherever the
   model names the library error (FlamaException) the code raises it too.  The model is coarser about the
   kind of the other exceptions (see the witness at the end). *)
From Coq Require Import List Bool Ascii String ZArith Lia.
From FM Require Import Base.Result Base.Str Base.AstOp Model.Ast Model.FM Model.PFM Gen.Tables_json Format.Json
  Gen.Tables_glencoe Format.Glencoe Model.PyRt Model.Loc Gen.Src_fm Gen.Src_glencoer.
Import ListNotations.
Local Open Scope list_scope.

(* ------------------------------------------------------------------ agreement of two results *)
(* [m] is the model's answer, [c] the code's: equal values; a failure for a failure; the library error for
   the library error *)
Definition agree {A} (m c : result A) : Prop :=
  match m with
  | Ok a => c = Ok a
  | Err e => exists e', c = Err e' /\ (e = FlamaException -> e' = FlamaException)
  end.

Lemma agree_refl {A} (m : result A) : agree m m.
Proof. destruct m as [a|e]; cbn; [reflexivity|]. exists e. split; [reflexivity|auto]. Qed.

Lemma agree_err {A} e e' : e <> FlamaException -> @agree A (Err e) (Err e').
Proof. intros Hne. cbn. exists e'. split; [reflexivity|]. intros H; contradiction. Qed.

Lemma agree_bind {A B} (m c : result A) (f g : A -> result B) :
  agree m c -> (forall a, m = Ok a -> agree (f a) (g a)) ->
  agree (match m with Err e => Err e | Ok a => f a end) (bind c g).
Proof.
  intros Hmc Hfg. destruct m as [a|e]; cbn in Hmc.
  - subst c. cbn [bind]. apply Hfg. reflexivity.
  - destruct Hmc as (e' & -> & Hfl). cbn [bind]. cbn. exists e'. split; [reflexivity|exact Hfl].
Qed.

(* ------------------------------------------------------------------ run-time library vs model helpers *)
Lemma find_assoc : forall k kv,
  match find (fun p : string * aval => String.eqb (fst p) k) kv with Some p => Some (snd p) | None => None end
  = assoc k kv.
Proof.
  induction kv as [|[k' x] kv IH]; [reflexivity|].
  cbn [find assoc fst snd]. rewrite (String.eqb_sym k' k).
  destruct (String.eqb k k'); [reflexivity|exact IH].
Qed.

Lemma aval_get_jget : forall d k, aval_get d k = jget k d.
Proof.
  intros d k. destruct d; try reflexivity. cbn [aval_get jget].
  rewrite <- (find_assoc k kv).
  destruct (find (fun p : string * aval => String.eqb (fst p) k) kv); reflexivity.
Qed.

Lemma py_index_nth {A} : forall (l : list A) (i : nat),
  py_index l (Z.of_nat i) = match nth_error l i with Some x => Ok x | None => Err IndexError end.
Proof.
  intros l i. unfold py_index.
  destruct (Z.of_nat i <? 0)%Z eqn:E1; [apply Z.ltb_lt in E1; lia|].
  rewrite E1. rewrite Nat2Z.id. reflexivity.
Qed.

Lemma py_index_0 : forall (l : list aval), py_index l 0%Z = nth_operand l 0.
Proof. intros l. exact (py_index_nth l 0). Qed.
Lemma py_index_1 : forall (l : list aval), py_index l 1%Z = nth_operand l 1.
Proof. intros l. exact (py_index_nth l 1). Qed.

(* depths *)
Lemma fold_max_in' {A} (g : A -> nat) : forall l x,
  In x l -> (g x <= fold_right Nat.max 0 (map g l))%nat.
Proof.
  induction l as [|y l IH]; intros x Hin; [destruct Hin|].
  cbn [map fold_right]. destruct Hin as [->|Hin]; [lia|].
  specialize (IH _ Hin). lia.
Qed.

Lemma depth_pos : forall v, (1 <= aval_depth v)%nat.
Proof. intros v. destruct v; cbn [aval_depth]; lia. Qed.

Lemma depth_in_list : forall l x, In x l -> (aval_depth x < aval_depth (VList l))%nat.
Proof.
  intros l x Hin. cbn [aval_depth].
  pose proof (fold_max_in' aval_depth l x Hin). lia.
Qed.

Lemma assoc_in' : forall k kv v, assoc k kv = Some v -> In (k, v) kv.
Proof.
  induction kv as [|[k' v'] kv IH]; intros v H; [discriminate|].
  cbn [assoc] in H. destruct (String.eqb k k') eqn:E.
  - apply String.eqb_eq in E. inversion H; subst. left; reflexivity.
  - right. apply IH. exact H.
Qed.

Lemma depth_of_jget : forall k o v, jget k o = Ok v -> (aval_depth v < aval_depth o)%nat.
Proof.
  intros k o v H. destruct o; try discriminate. cbn [jget] in H.
  destruct (assoc k kv) eqn:E; [|discriminate]. inversion H; subst.
  apply assoc_in' in E. cbn [aval_depth].
  pose proof (fold_max_in' (fun p : string * aval => aval_depth (snd p)) kv (k, v) E) as Hm.
  cbn [snd] in Hm. lia.
Qed.

Lemma depth_nth_operand : forall l i x, nth_operand l i = Ok x -> (aval_depth x < aval_depth (VList l))%nat.
Proof.
  intros l i x H. unfold nth_operand in H.
  destruct (nth_error l i) eqn:E; [|discriminate]. inversion H; subst.
  apply depth_in_list. eapply nth_error_In; eassumption.
Qed.

(* ------------------------------------------------------------------ the pieces of the reader *)
(* features_info[id]["name"] *)
Lemma agree_finfo_get : forall fi x k,
  agree (finfo_get fi x k) (bind (aval_get_any fi x) (fun v => aval_get v k)).
Proof.
  intros fi x k. unfold finfo_get.
  destruct x as [| b | z | r | s | l | kv]; cbn [jstr];
    try (destruct fi; cbn [aval_get_any bind]; apply agree_err; discriminate).
  destruct fi as [| b | z | r | s' | l | kv];
    try (cbn [aval_get_any jget bind]; apply agree_err; discriminate).
  cbn [aval_get_any]. rewrite aval_get_jget.
  destruct (jget s (VMap kv)) as [v|e]; cbn [bind].
  - rewrite aval_get_jget. apply agree_refl.
  - apply agree_refl.
Qed.

(* the list comprehension [self._parse_ast_constraint(op, features_info) for op in operands] *)
Lemma agree_mapM {A B} (f g : A -> result B) : forall l,
  (forall x, In x l -> agree (f x) (g x)) ->
  agree (mapM f l) (py_flat_mapM (fun op => bind (g op) (fun v => Ok [v])) l).
Proof.
  induction l as [|x xs IH]; intros H; [cbn; reflexivity|].
  cbn [mapM py_flat_mapM].
  pose proof (H x (or_introl eq_refl)) as Hx.
  destruct (f x) as [y|e]; cbn in Hx.
  - rewrite Hx. cbn [bind].
    assert (Hxs : agree (mapM f xs) (py_flat_mapM (fun op => bind (g op) (fun v => Ok [v])) xs)).
    { apply IH. intros x' Hin. apply H. right. exact Hin. }
    destruct (mapM f xs) as [ys|e]; cbn in Hxs.
    + rewrite Hxs. cbn. reflexivity.
    + destruct Hxs as (e' & -> & Hfl). cbn. exists e'. split; [reflexivity|exact Hfl].
  - destruct Hx as (e' & -> & Hfl). cbn [bind]. cbn. exists e'. split; [reflexivity|exact Hfl].
Qed.

(* functools.reduce(lambda l, r: Node(op, l, r), op_list), then the 'node' that is returned *)
Lemma agree_reduce : forall o l,
  agree (reduce_op o l)
        (bind (bind (py_reduce (fun a b => Node (DOp o) (Some a) (Some b)) l) (fun v => Ok (Some v)))
              (fun v => py_need v)).
Proof.
  intros o l. destruct l as [|x xs]; cbn [reduce_op py_reduce bind py_need].
  - apply agree_err. discriminate.
  - cbn. reflexivity.
Qed.

(* ------------------------------------------------------------------ the main induction *)
Ltac split_ifs :=
  repeat match goal with
         | |- context [if ?b then _ else _] => destruct b
         end.

Lemma src_glencoe_agree : forall w fi fuel fuel' v,
  (aval_depth v <= fuel)%nat -> (aval_depth v <= fuel')%nat ->
  agree (glencoe_parse_ctc fuel' fi v) (py_GlencoeReader__parse_ast_constraint fuel w v fi).
Proof.
  intros w fi fuel. induction fuel as [|fuel IH]; intros fuel' v Hf Hf'.
  { pose proof (depth_pos v). lia. }
  destruct fuel' as [|fuel']. { pose proof (depth_pos v). lia. }
  cbn [glencoe_parse_ctc py_GlencoeReader__parse_ast_constraint].
  rewrite !aval_get_jget.
  destruct (jget "type" v) as [tv|e] eqn:Ety; cbn [bind]; [|apply agree_refl].
  destruct (jget "operands" v) as [ov|e] eqn:Eop; cbn [bind]; [|apply agree_refl].
  pose proof (depth_of_jget _ _ _ Eop) as Hdo.
  destruct tv as [| tb | tz | tr | ty | tl | tkv]; cbn [jstr];
    try (apply agree_err; discriminate).
  destruct ov as [| ob | oz | orr | os | ops | okv]; cbn [jlist bind];
    try (cbn; split_ifs; eexists; (split; [reflexivity|intros HH; discriminate HH])).
  (* the recursive call on an operand *)
  assert (Hsub : forall x, (aval_depth x < aval_depth (VList ops))%nat ->
            agree (glencoe_parse_ctc fuel' fi x) (py_GlencoeReader__parse_ast_constraint fuel w x fi)).
  { intros x Hx. apply IH; lia. }
  assert (Hnth : forall i,
            agree (match nth_operand ops i with Err e => Err e | Ok x => glencoe_parse_ctc fuel' fi x end)
                  (bind (nth_operand ops i) (fun x => py_GlencoeReader__parse_ast_constraint fuel w x fi))).
  { intros i. apply agree_bind; [apply agree_refl|]. intros x Hx. apply Hsub.
    eapply depth_nth_operand; eassumption. }
  assert (Hall : agree (mapM (glencoe_parse_ctc fuel' fi) ops)
                       (py_flat_mapM (fun op => bind (py_GlencoeReader__parse_ast_constraint fuel w op fi)
                                                     (fun v => Ok [v])) ops)).
  { apply agree_mapM. intros x Hin. apply Hsub. apply depth_in_list. exact Hin. }
  rewrite !py_index_0, !py_index_1.
  destruct (String.eqb ty "FeatureTerm").
  { (* FeatureTerm *)
    destruct (nth_operand ops 0) as [x|e]; cbn [bind]; [|apply agree_refl].
    apply agree_bind; [apply agree_finfo_get|].
    (* a name that is a string: the same term; any other value: FlamaException on both sides *)
    intros nv _. destruct nv; apply agree_refl. }
  destruct (String.eqb ty "NotTerm").
  { apply agree_bind; [apply Hnth|]. intros a _. cbn. reflexivity. }
  destruct (String.eqb ty "ImpliesTerm").
  { apply agree_bind; [apply Hnth|]. intros a _.
    apply agree_bind; [apply Hnth|]. intros b _. cbn. reflexivity. }
  destruct (String.eqb ty "ExcludesTerm").
  { apply agree_bind; [apply Hnth|]. intros a _.
    apply agree_bind; [apply Hnth|]. intros b _. cbn. reflexivity. }
  destruct (String.eqb ty "EquivalentTerm").
  { apply agree_bind; [apply Hnth|]. intros a _.
    apply agree_bind; [apply Hnth|]. intros b _. cbn. reflexivity. }
  destruct (String.eqb ty "AndTerm").
  { apply agree_bind; [apply Hall|]. intros l _. apply agree_reduce. }
  destruct (String.eqb ty "OrTerm").
  { apply agree_bind; [apply Hall|]. intros l _. apply agree_reduce. }
  destruct (String.eqb ty "XorTerm").
  { apply agree_bind; [apply Hall|]. intros l _. apply agree_reduce. }
  apply agree_refl.
Qed.

(* ------------------------------------------------------------------ the theorems *)
Theorem src_glencoe_parse_ctc : forall w fi v fuel fuel', (aval_depth v <= fuel)%nat -> (aval_depth v <= fuel')%nat ->
  match glencoe_parse_ctc fuel' fi v with
  | Ok n => py_GlencoeReader__parse_ast_constraint fuel w v fi = Ok n
  | Err _ => exists e, py_GlencoeReader__parse_ast_constraint fuel w v fi = Err e
  end.
Proof.
  intros w fi v fuel fuel' Hf Hf'.
  pose proof (src_glencoe_agree w fi fuel fuel' v Hf Hf') as H.
  destruct (glencoe_parse_ctc fuel' fi v) as [n|e]; cbn in H; [exact H|].
  destruct H as (e' & H & _). exists e'. exact H.
Qed.

(* and where the model names a library error the code raises it too *)
Theorem src_glencoe_parse_ctc_library_error : forall w fi v fuel fuel', (aval_depth v <= fuel)%nat -> (aval_depth v <= fuel')%nat ->
  glencoe_parse_ctc fuel' fi v = Err FlamaException ->
  py_GlencoeReader__parse_ast_constraint fuel w v fi = Err FlamaException.
Proof.
  intros w fi v fuel fuel' Hf Hf' Hm.
  pose proof (src_glencoe_agree w fi fuel fuel' v Hf Hf') as H.
  rewrite Hm in H. cbn in H. destruct H as (e' & H & Hfl).
  rewrite H. rewrite (Hfl eq_refl). reflexivity.
Qed.

(* the model is coarser on a malformed document: the witness (a 'type' that is not a string) *)
Example src_glencoe_parse_ctc_error_kinds_differ : exists w fi v,
  glencoe_parse_ctc 5 fi v = Err OtherExn /\ py_GlencoeReader__parse_ast_constraint 5 w v fi = Err FlamaException.
Proof.
  exists (py_GlencoeReader_new ""), (VMap []), (VMap [("type", VInt 1); ("operands", VList [])]).
  split; vm_compute; reflexivity.
Qed.

Print Assumptions src_glencoe_parse_ctc.
Print Assumptions src_glencoe_parse_ctc_library_error.
Print Assumptions src_glencoe_parse_ctc_error_kinds_differ.
