(* Proofs/C11Facts.v — the Clafer export: identifiers, instances (tree semantics and constraints),
   attribute declarations, operators. *)
From Coq Require Import List Bool Ascii String ZArith Lia Permutation.
From FM Require Import Base.Result Base.Str Base.AstOp Gen.Tables_core Model.Ast Model.FM Model.Ctc
     Model.Queries Model.Sem Format.Glencoe Format.Uvl Format.Export
     Proofs.FMFacts Proofs.QueriesFacts Proofs.C14Facts Proofs.C18Facts Proofs.C10Facts.
Import ListNotations.
Local Open Scope list_scope.

(* ================================================================== identifiers *)

Lemma str_append_assoc : forall a b c : string, ((a ++ b) ++ c)%string = (a ++ (b ++ c))%string.
Proof. induction a as [|x a IH]; intros b c; cbn; [reflexivity|rewrite IH; reflexivity]. Qed.

Lemma str_rev_acc_app : forall s acc, str_rev_acc s acc = (str_rev s ++ acc)%string.
Proof.
  unfold str_rev. induction s as [|c s IH]; intros acc; cbn [str_rev_acc]; [reflexivity|].
  rewrite IH. rewrite (IH (String c "")).
  rewrite str_append_assoc. reflexivity.
Qed.

Lemma str_rev_cons : forall c s, str_rev (String c s) = (str_rev s ++ String c "")%string.
Proof. intros c s. unfold str_rev at 1. cbn [str_rev_acc]. apply str_rev_acc_app. Qed.

Lemma str_append_nil_r : forall s, (s ++ "")%string = s.
Proof. induction s as [|c s IH]; cbn; [reflexivity|rewrite IH; reflexivity]. Qed.

Lemma str_rev_app : forall s t, str_rev (s ++ t) = (str_rev t ++ str_rev s)%string.
Proof.
  induction s as [|c s IH]; intros t.
  - cbn [String.append]. change (str_rev "") with ""%string. rewrite str_append_nil_r. reflexivity.
  - cbn [String.append]. rewrite !str_rev_cons, IH, str_append_assoc. reflexivity.
Qed.

Lemma str_rev_involutive : forall s, str_rev (str_rev s) = s.
Proof.
  induction s as [|c s IH]; [reflexivity|].
  rewrite str_rev_cons, str_rev_app, IH. reflexivity.
Qed.

Lemma drop_ends_quote : forall s, drop_ends (quote s) = s.
Proof.
  intros s. unfold quote. cbn [String.append drop_ends].
  rewrite str_rev_app. cbn. apply str_rev_involutive.
Qed.

Lemma safe_not_quote : forall s, str_forallb is_safechar s = true -> starts_with_char """" s = false.
Proof.
  intros [|c s] H; [reflexivity|]. cbn [str_forallb] in H. apply andb_prop in H. destruct H as [H _].
  cbn [starts_with_char]. destruct (Ascii.eqb_spec """" c) as [E|N]; [|reflexivity].
  subst c. vm_compute in H. discriminate H.
Qed.

(* the writer spells every name through cl_safename; it is injective, so σ can be lifted to identifiers *)
Definition unsafename (id : string) : string := if starts_with_char """" id then drop_ends id else id.

Lemma unsafename_quote : forall s, unsafename (quote s) = s.
Proof.
  intros s. unfold unsafename. change (starts_with_char """" (quote s)) with true. cbv iota. apply drop_ends_quote.
Qed.

Lemma unsafename_safename : forall s, unsafename (cl_safename s) = s.
Proof.
  intros s. unfold cl_safename. destruct (existsb (String.eqb s) clafer_keywords); [apply unsafename_quote|].
  unfold w_safename. destruct (str_forallb is_safechar s) eqn:E; [|apply unsafename_quote].
  unfold unsafename. rewrite (safe_not_quote s E). reflexivity.
Qed.

Lemma cl_safename_inj : forall s t, cl_safename s = cl_safename t -> s = t.
Proof.
  intros s t H. rewrite <- (unsafename_safename s), <- (unsafename_safename t), H. reflexivity.
Qed.

Definition lift (σ : string -> bool) : string -> bool := fun id => σ (unsafename id).

Lemma lift_safename : forall σ s, lift σ (cl_safename s) = σ s.
Proof. intros σ s. unfold lift. rewrite unsafename_safename. reflexivity. Qed.

(* ================================================================== the tree: none *)

Definition clafer_kids (f : feature) : list clf :=
  flat_map (fun r => map (clafer_tree (Some f)) (r_children r)) (rels f).

Lemma clafer_tree_unfold : forall p i rs,
  clafer_tree p (Feature i rs) =
  Clf (clafer_group (Feature i rs)) (cl_safename (f_name i))
      (negb (Nat.eqb (List.length (f_attrs i)) 0))
      (feat_is_optional p (Feature i rs) || in_any_number_group p (Feature i rs))
      (map (fun a => (cl_safename (a_name a), clafer_value (a_default a))) (f_attrs i))
      (clafer_kids (Feature i rs)).
Proof.
  intros p i rs. cbn [clafer_tree]. f_equal. unfold clafer_kids. cbn [rels].
  apply flat_map_ext. intros [a b cs]. reflexivity.
Qed.

Lemma cl_name_tree : forall p f, cl_name (clafer_tree p f) = cl_safename (name f).
Proof. intros p [i rs]. reflexivity. Qed.

Lemma cl_optional_tree : forall p f,
  cl_optional (clafer_tree p f) = feat_is_optional p f || in_any_number_group p f.
Proof. intros p [i rs]. reflexivity. Qed.

Theorem clafer_none : forall σ p f, cl_none (lift σ) (clafer_tree p f) = none_selected σ f.
Proof.
  intros σ p f. revert p. pattern f. apply feature_ind3. clear f.
  intros i rs IH p. rewrite clafer_tree_unfold, none_unfold. cbn [cl_none].
  rewrite lift_safename. f_equal. unfold clafer_kids. cbn [rels].
  rewrite forallb_flat_map. apply forallb_ext_in. intros r Hr.
  rewrite forallb_map. apply forallb_ext_in. intros d Hd. apply (IH r d Hr Hd).
Qed.

(* ================================================================== constraints *)

Definition cl_operand (x : node) : result cexpr :=
  match clafer_node x with Err e => Err e | Ok cx => Ok (if is_op x then CxParen cx else cx) end.

Lemma clafer_node_not : forall a,
  clafer_node (un NOT a) = match cl_operand a with Err e => Err e | Ok ca => Ok (CxNot ca) end.
Proof. reflexivity. Qed.

Definition clafer_binop (o : astop) (a b : cexpr) : cexpr :=
  match o with
  | AND => CxBin "&&" a b | OR => CxBin "||" a b | XOR => CxBin "xor" a b
  | IMPLIES | REQUIRES => CxBin "=>" a b | EQUIVALENCE => CxBin "<=>" a b
  | _ => CxBin "=>" a (CxNot b)
  end.

Lemma clafer_node_bin : forall o a b, is_binlog o = true ->
  clafer_node (bin o a b) =
  match cl_operand a with Err e => Err e | Ok ca =>
  match cl_operand b with Err e => Err e | Ok cb => Ok (clafer_binop o ca cb) end end.
Proof.
  intros o a b Ho. destruct o; try discriminate Ho; cbn [clafer_node bin];
    fold (cl_operand a); fold (cl_operand b);
    destruct (cl_operand a); try reflexivity; destruct (cl_operand b); reflexivity.
Qed.

Lemma cl_operand_eval : forall σ a ca,
  (forall e, clafer_node a = Ok e -> cx_eval σ e = evalb (fun s => σ (cl_safename s)) a) ->
  cl_operand a = Ok ca -> cx_eval σ ca = evalb (fun s => σ (cl_safename s)) a.
Proof.
  intros σ a ca IH H. unfold cl_operand in H.
  destruct (clafer_node a) as [cx|e] eqn:E; [|discriminate H].
  inversion H; subst ca. destruct (is_op a); cbn [cx_eval]; apply IH; reflexivity.
Qed.

Lemma clafer_binop_eval : forall σ o a b, is_binlog o = true ->
  cx_eval σ (clafer_binop o a b) = binop_sem o (cx_eval σ a) (cx_eval σ b).
Proof.
  intros σ o a b Ho. destruct o; try discriminate Ho; cbn;
    destruct (cx_eval σ a), (cx_eval σ b); reflexivity.
Qed.

(* general form: any interpretation τ of the identifiers; the constraint is read through cl_safename *)
Lemma clafer_node_core : forall τ n, WF n -> forall e, clafer_node n = Ok e ->
  cx_eval τ e = evalb (fun s => τ (cl_safename s)) n.
Proof.
  intros τ n W. induction W as [s|a Ha IHa|o a b Ho Ha IHa Hb IHb]; intros e H.
  - cbn in H. inversion H; subst e. reflexivity.
  - rewrite clafer_node_not in H. destruct (cl_operand a) as [ca|x] eqn:Ea; [|discriminate H].
    inversion H; subst e. cbn [cx_eval]. rewrite evalb_not by exact Ha.
    f_equal. apply (cl_operand_eval τ a ca IHa Ea).
  - rewrite clafer_node_bin in H by exact Ho.
    destruct (cl_operand a) as [ca|x] eqn:Ea; [|discriminate H].
    destruct (cl_operand b) as [cb|x] eqn:Eb; [|discriminate H].
    inversion H; subst e.
    rewrite clafer_binop_eval by exact Ho. rewrite evalb_bin by assumption.
    rewrite (cl_operand_eval τ a ca IHa Ea), (cl_operand_eval τ b cb IHb Eb). reflexivity.
Qed.

Lemma evalb_ext : forall σ σ' n, (forall s, σ s = σ' s) -> evalb σ n = evalb σ' n.
Proof.
  intros σ σ' n Hext. unfold evalb.
  assert (E : eval σ n = eval σ' n); [|rewrite E; reflexivity].
  induction n as [d|d a IHa|d b IHb|d a b IHa IHb] using node_ind2.
  - destruct d as [o|s|z|f|b]; try destruct o; cbn; rewrite ?Hext; reflexivity.
  - destruct d as [o|s|z|f|b]; try destruct o; cbn; rewrite ?IHa; reflexivity.
  - destruct d as [o|s|z|f|b0]; try destruct o; cbn; reflexivity.
  - destruct d as [o|s|z|f|b0]; try destruct o; cbn; rewrite ?IHa, ?IHb; reflexivity.
Qed.

Theorem clafer_node_sound : forall n e σ, node_wf n = true -> clafer_node n = Ok e ->
  cx_eval (lift σ) e = evalb σ n.
Proof.
  intros n e σ Hwf H. rewrite (clafer_node_core (lift σ) n (node_wf_WF n Hwf) e H).
  apply evalb_ext. intros s. apply lift_safename.
Qed.

(* every logical operator is translated: clafer_node succeeds on every well-formed logical tree *)
Lemma cl_operand_ok : forall a, (exists e, clafer_node a = Ok e) -> exists e, cl_operand a = Ok e.
Proof. intros a [e He]. unfold cl_operand. rewrite He. eexists; reflexivity. Qed.

Theorem C11_operators : forall n, node_wf n = true -> exists e, clafer_node n = Ok e.
Proof.
  intros n Hwf. apply node_wf_WF in Hwf.
  induction Hwf as [s|a Ha IHa|o a b Ho Ha IHa Hb IHb].
  - eexists; reflexivity.
  - rewrite clafer_node_not. destruct (cl_operand_ok a IHa) as [ca ->]. eexists; reflexivity.
  - rewrite clafer_node_bin by exact Ho.
    destruct (cl_operand_ok a IHa) as [ca ->]. destruct (cl_operand_ok b IHb) as [cb ->].
    eexists; reflexivity.
Qed.

(* ================================================================== attribute declarations *)

Lemma dict_set_keys : forall kv k v x,
  In x (map fst (dict_set kv k v)) <-> In x (map fst kv) \/ x = k.
Proof.
  induction kv as [|[k' v'] kv IH]; intros k v x.
  - cbn. split; [intros [H|[]]; right; symmetry; exact H|intros [[]|H]; left; symmetry; exact H].
  - cbn [dict_set]. destruct (String.eqb_spec k k') as [E|N].
    + subst k'. cbn. split; [intros [H|H]; auto|intros [[H|H]|H]; auto].
    + cbn [map fst In]. rewrite IH. tauto.
Qed.

Lemma fold_dict_keys : forall (l : list (string * string)) init x,
  In x (map fst (fold_left (fun acc kv => dict_set acc (fst kv) (VStr (snd kv))) l init))
  <-> In x (map fst init) \/ In x (map fst l).
Proof.
  induction l as [|[k v] l IH]; intros init x.
  - cbn. tauto.
  - cbn [fold_left map fst snd In]. rewrite IH, dict_set_keys. cbn [fst]. split.
    + intros [[H|H]|H]; auto.
    + intros [H|[H|H]]; auto.
Qed.

(* every attribute is declared under the identifier it is used with *)
Theorem C11_identifiers : forall m d f a, clafer_write m = Ok d -> In f (get_features m) ->
  In a (f_attrs (info f)) -> In (cl_safename (a_name a)) (map fst (cd_attrdecls d)).
Proof.
  intros m d f a H Hf Ha. unfold clafer_write in H.
  destruct (existsb (fun f => existsb (fun a => nonfinite_float (a_default a)) (f_attrs (info f))) (get_features m));
    [discriminate H|].
  destruct (mapM (fun c => clafer_node (c_ast c)) (ctcs m)) as [cs|e]; [|discriminate H].
  inversion H; subst d; clear H. cbn [cd_attrdecls]. unfold clafer_attrdecls.
  rewrite map_map. cbn [fst].
  assert (Hin : In (a_name a)
            (map fst (fold_left (fun acc kv => dict_set acc (fst kv) (VStr (snd kv)))
               (flat_map (fun f0 => map (fun a0 => (a_name a0, clafer_type (a_default a0))) (f_attrs (info f0)))
                         (get_features m)) []))).
  { apply fold_dict_keys. right. apply in_map_iff.
    exists (a_name a, clafer_type (a_default a)). split; [reflexivity|].
    apply in_flat_map. exists f. split; [exact Hf|].
    apply in_map_iff. exists a. split; [reflexivity|exact Ha]. }
  apply in_map_iff in Hin. destruct Hin as [kv [Hk Hkv]].
  apply in_map_iff. exists kv. split; [rewrite Hk; reflexivity|exact Hkv].
Qed.

(* ================================================================== the tree: sem *)

(* the Clafer fragment: a feature's relations are all single mandatory/optional children, or exactly one
   relation with two or more children (alternative / or / mutex / [a..b] / [a..*] with 0 <= a) *)
Definition clafer_rels_ok (rs : list relation) : bool :=
  forallb (fun r => rel_is_mandatory r || rel_is_optional r) rs
  || match rs with
     | [r] => rel_is_group r && (0 <=? r_min r)%Z && ((r_max r =? -1) || (0 <=? r_max r))%Z
     | _ => false
     end.

Fixpoint clafer_feature_ok (f : feature) : bool :=
  match f with
  | Feature i rs =>
      clafer_rels_ok rs
      && forallb (fun r => match r with Relation _ _ cs => forallb clafer_feature_ok cs end) rs
  end.

Lemma clafer_feature_ok_unfold : forall i rs,
  clafer_feature_ok (Feature i rs)
  = clafer_rels_ok rs && forallb (fun r => forallb clafer_feature_ok (r_children r)) rs.
Proof.
  intros i rs. cbn [clafer_feature_ok]. f_equal.
  apply forallb_ext_in. intros [a b cs] _. reflexivity.
Qed.

Lemma cl_sem_unfold : forall σ g n a o ac kids,
  cl_sem σ (Clf g n a o ac kids) =
  σ n && match (if default_gcard g then None else g) with
         | Some gr =>
             let (lo, hi) := group_bounds gr (List.length kids) in
             let k := Z.of_nat (List.length (filter (fun d => σ (cl_name d)) kids)) in
             ((lo <=? k) && (k <=? hi))%Z
             && forallb (fun d => if σ (cl_name d) then cl_sem σ d else cl_none σ d) kids
         | None =>
             forallb (fun d => if σ (cl_name d) then cl_sem σ d else (cl_optional d && cl_none σ d)) kids
         end.
Proof. reflexivity. Qed.

Lemma solitary_flags : forall r, rel_is_mandatory r || rel_is_optional r = true ->
  rel_is_alternative r = false /\ rel_is_or r = false /\ rel_is_cardinal r = false /\ rel_is_mutex r = false.
Proof.
  intros r H.
  assert (Hn : (1 <? nchildren r)%Z = false).
  { apply Z.ltb_ge. apply orb_prop in H. unfold rel_is_mandatory, rel_is_optional in H.
    destruct H as [H|H]; apply andb_prop in H; destruct H as [_ H]; apply Z.eqb_eq in H; lia. }
  unfold rel_is_alternative, rel_is_or, rel_is_mutex, rel_is_cardinal. rewrite Hn, !andb_false_r.
  repeat split; try reflexivity.
  apply orb_prop in H. destruct H as [H|H]; rewrite H; cbn; [reflexivity|].
  rewrite andb_false_r. reflexivity.
Qed.

Lemma clafer_group_none : forall i rs,
  forallb (fun r => rel_is_mandatory r || rel_is_optional r) rs = true ->
  clafer_group (Feature i rs) = None.
Proof.
  intros i rs H. rewrite forallb_forall in H.
  unfold clafer_group, feat_is_alternative_group, feat_is_or_group, feat_is_cardinality_group,
    feat_is_mutex_group. cbn [rels].
  rewrite (existsb_false rel_is_alternative), (existsb_false rel_is_or),
    (existsb_false rel_is_cardinal), (existsb_false rel_is_mutex); [reflexivity| | | |];
    intros r Hr; apply (solitary_flags r (H r Hr)).
Qed.

Lemma clafer_group_single : forall i r, rel_is_group r = true ->
  exists gr, clafer_group (Feature i [r]) = Some gr
    /\ group_bounds gr (List.length (r_children r))
       = (r_min r, eff_max (r_max r) (List.length (r_children r)))
    /\ (default_gcard (Some gr) = true -> rel_is_cardinal r = true /\ r_min r = 0%Z /\ r_max r = (-1)%Z).
Proof.
  intros i r Hg. unfold rel_is_group in Hg.
  unfold clafer_group, feat_is_alternative_group, feat_is_or_group, feat_is_cardinality_group,
    feat_is_mutex_group. cbn [rels existsb find]. rewrite !orb_false_r.
  destruct (rel_is_alternative r) eqn:Ea.
  { exists GXor. split; [reflexivity|]. split; [|intros Hd; discriminate Hd]. unfold rel_is_alternative in Ea.
    apply andb_prop in Ea. destruct Ea as [Ea _]. apply andb_prop in Ea. destruct Ea as [E1 E2].
    apply Z.eqb_eq in E1, E2. rewrite E1, E2. reflexivity. }
  destruct (rel_is_or r) eqn:Eor.
  { exists GOr. split; [reflexivity|]. split; [|intros Hd; discriminate Hd]. unfold rel_is_or in Eor.
    apply andb_prop in Eor. destruct Eor as [Eor _]. apply andb_prop in Eor. destruct Eor as [E1 E2].
    apply Z.eqb_eq in E1, E2. rewrite E1, E2. unfold nchildren, eff_max. cbn [group_bounds].
    destruct (Z.of_nat (List.length (r_children r)) =? -1)%Z; reflexivity. }
  destruct (rel_is_cardinal r) eqn:Ec.
  { exists (GCardC (r_min r) (r_max r)). split; [reflexivity|]. split; [reflexivity|].
    intros Hd. cbn [default_gcard] in Hd. apply andb_prop in Hd. destruct Hd as [Hd1 Hd2].
    apply Z.eqb_eq in Hd1, Hd2. repeat split; assumption. }
  destruct (rel_is_mutex r) eqn:Emx.
  { exists GMux. split; [reflexivity|]. split; [|intros Hd; discriminate Hd]. unfold rel_is_mutex in Emx.
    apply andb_prop in Emx. destruct Emx as [Emx _]. apply andb_prop in Emx. destruct Emx as [E1 E2].
    apply Z.eqb_eq in E1, E2. rewrite E1, E2. reflexivity. }
  exfalso. unfold rel_is_cardinal in Ec. rewrite Ea, Eor, Emx in Ec.
  unfold rel_is_mandatory, rel_is_optional in Ec.
  assert (Hn : (nchildren r =? 1)%Z = false) by (apply Z.eqb_neq; apply Z.ltb_lt in Hg; lia).
  rewrite Hn, !andb_false_r in Ec. discriminate Ec.
Qed.

Lemma NoDup_flat_map_same {A B} (g : A -> list B) : forall l x y a,
  NoDup (flat_map g l) -> In x l -> In y l -> In a (g x) -> In a (g y) -> x = y.
Proof.
  induction l as [|z l IH]; intros x y a Hnd Hx Hy Hax Hay; [contradiction|].
  cbn [flat_map] in Hnd. destruct (NoDup_app_inv _ _ Hnd) as (_ & Hl & Hdis).
  destruct Hx as [Hx|Hx], Hy as [Hy|Hy].
  - congruence.
  - subst z. exfalso. apply (Hdis a Hax). apply in_flat_map. exists y. split; assumption.
  - subst z. exfalso. apply (Hdis a Hay). apply in_flat_map. exists x. split; assumption.
  - exact (IH x y a Hl Hx Hy Hax Hay).
Qed.

Lemma kids_count : forall σ p cs,
  List.length (filter (fun d => lift σ (cl_name d)) (map (clafer_tree p) cs))
  = List.length (filter (fun c => σ (name c)) cs).
Proof.
  intros σ p cs. rewrite filter_map_length. f_equal. apply filter_ext.
  intros c. rewrite cl_name_tree, lift_safename. reflexivity.
Qed.

Lemma name_in_rnames : forall r c, In c (r_children r) -> In (name c) (rnames r).
Proof.
  intros r c Hc. unfold rnames. apply (in_names_child _ c _ Hc). apply name_in_names.
Qed.

(* no child of a feature whose relations are all solitary is a member of a [0..*] group *)
Lemma solitary_not_any_number : forall i rs c,
  forallb (fun r => rel_is_mandatory r || rel_is_optional r) rs = true ->
  in_any_number_group (Some (Feature i rs)) c = false.
Proof.
  intros i rs c Hall. rewrite forallb_forall in Hall.
  unfold in_any_number_group. cbn [rels]. apply existsb_false. intros r Hr.
  destruct (solitary_flags r (Hall r Hr)) as (_ & _ & Hc & _). rewrite Hc. reflexivity.
Qed.

(* every member of a [0..*] group is one *)
Lemma member_any_number : forall i r c,
  rel_is_cardinal r = true -> r_min r = 0%Z -> r_max r = (-1)%Z -> In c (r_children r) ->
  in_any_number_group (Some (Feature i [r])) c = true.
Proof.
  intros i r c Hc Hmin Hmax Hin. unfold in_any_number_group. cbn [rels existsb].
  rewrite Hc, Hmin, Hmax. cbn [Z.eqb andb Pos.eqb]. rewrite orb_false_r.
  unfold in_children. apply existsb_exists. exists c. split; [exact Hin|apply String.eqb_refl].
Qed.

(* one solitary relation of the feature F *)
Lemma solitary_ok : forall σ i rs r,
  forallb (fun r => rel_is_mandatory r || rel_is_optional r) rs = true ->
  NoDup (flat_map rnames rs) -> In r rs -> rel_is_mandatory r || rel_is_optional r = true ->
  (forall d, In d (r_children r) -> forall p, cl_sem (lift σ) (clafer_tree p d) = sem σ d) ->
  forallb (fun c => if lift σ (cl_name (clafer_tree (Some (Feature i rs)) c))
                    then cl_sem (lift σ) (clafer_tree (Some (Feature i rs)) c)
                    else cl_optional (clafer_tree (Some (Feature i rs)) c)
                         && cl_none (lift σ) (clafer_tree (Some (Feature i rs)) c))
          (r_children r)
  = rel_ok σ r.
Proof.
  intros σ i rs r Hall Hnd Hr Hmo IH. unfold rel_ok, cs_ok.
  destruct (rel_is_optional r) eqn:Eo.
  - destruct (optional_one r Eo) as (c & Hc & Hmin & Hmax). rewrite Hc in *. rewrite Hmin, Hmax.
    cbn [forallb List.length].
    rewrite cl_name_tree, lift_safename, cl_optional_tree, clafer_none, count_sel_one.
    rewrite (solitary_not_any_number i rs c Hall), orb_false_r.
    rewrite (IH c (or_introl eq_refl)).
    assert (Hopt : feat_is_optional (Some (Feature i rs)) c = true).
    { unfold feat_is_optional. cbn [rels]. apply existsb_exists. exists r. split; [exact Hr|].
      rewrite Eo. unfold in_children. rewrite Hc. cbn [existsb]. rewrite String.eqb_refl. reflexivity. }
    rewrite Hopt. destruct (σ (name c)); cbn; rewrite ?andb_true_r; reflexivity.
  - rewrite orb_false_r in Hmo.
    destruct (mandatory_one r Hmo) as (c & Hc & Hmin & Hmax). rewrite Hc in *. rewrite Hmin, Hmax.
    cbn [forallb List.length].
    rewrite cl_name_tree, lift_safename, cl_optional_tree, clafer_none, count_sel_one.
    rewrite (solitary_not_any_number i rs c Hall), orb_false_r.
    rewrite (IH c (or_introl eq_refl)).
    assert (Hopt : feat_is_optional (Some (Feature i rs)) c = false).
    { unfold feat_is_optional. cbn [rels]. apply existsb_false. intros r' Hr'.
      destruct (rel_is_optional r') eqn:Eo'; [|reflexivity].
      destruct (in_children c r') eqn:Ein; [|reflexivity]. exfalso.
      unfold in_children in Ein. apply existsb_exists in Ein. destruct Ein as (c' & Hc' & Hn).
      apply String.eqb_eq in Hn.
      assert (E : r = r').
      { apply (NoDup_flat_map_same rnames rs r r' (name c) Hnd Hr Hr').
        - apply name_in_rnames. rewrite Hc. left; reflexivity.
        - rewrite <- Hn. apply name_in_rnames, Hc'. }
      subst r'. rewrite Eo in Eo'. discriminate Eo'. }
    rewrite Hopt. destruct (σ (name c)); cbn; rewrite ?andb_true_r; reflexivity.
Qed.

Lemma filter_length_le_c11 {A} (p : A -> bool) : forall l, (List.length (filter p l) <= List.length l)%nat.
Proof. induction l as [|x l IH]; cbn [filter List.length]; [lia|]. destruct (p x); cbn [List.length]; lia. Qed.

Lemma card_ok_any_number : forall σ cs, card_okb 0 (-1) (List.length cs) (count_sel σ cs) = true.
Proof.
  intros σ cs. unfold card_okb, eff_max, count_sel. change ((-1 =? -1)%Z) with true. cbv iota.
  pose proof (filter_length_le_c11 (fun c => σ (name c)) cs) as Hle.
  apply andb_true_intro. split; [apply Z.leb_le; lia|apply Z.leb_le; lia].
Qed.

Theorem clafer_tree_sem : forall σ p f, clafer_feature_ok f = true -> NoDup (names f) ->
  cl_sem (lift σ) (clafer_tree p f) = sem σ f.
Proof.
  intros σ p f. revert p. pattern f. apply feature_ind3. clear f.
  intros i rs IH p Hok Hnd.
  rewrite clafer_feature_ok_unfold in Hok. apply andb_prop in Hok. destruct Hok as [Hrels Hkids].
  rewrite names_unfold in Hnd. inversion Hnd as [|x xs _ Hnd']; subst x xs.
  assert (IH' : forall r d, In r rs -> In d (r_children r) ->
                forall q, cl_sem (lift σ) (clafer_tree q d) = sem σ d).
  { intros r d Hr Hd q. apply (IH r d Hr Hd q).
    - rewrite forallb_forall in Hkids. specialize (Hkids r Hr). rewrite forallb_forall in Hkids.
      apply Hkids, Hd.
    - pose proof (NoDup_flat_map_in rnames rs r Hnd' Hr) as Hr'. unfold rnames in Hr'.
      exact (NoDup_flat_map_in names _ d Hr' Hd). }
  rewrite clafer_tree_unfold, sem_unfold, cl_sem_unfold, lift_safename. f_equal.
  unfold clafer_rels_ok in Hrels.
  destruct (forallb (fun r => rel_is_mandatory r || rel_is_optional r) rs) eqn:Emo.
  - rewrite (clafer_group_none i rs Emo). cbn [default_gcard]. unfold clafer_kids. cbn [rels].
    rewrite forallb_flat_map. apply forallb_ext_in. intros r Hr. rewrite forallb_map.
    pose proof Emo as Emo'. rewrite forallb_forall in Emo'.
    apply (solitary_ok σ i rs r Emo Hnd' Hr (Emo' r Hr)). intros d Hd q. apply (IH' r d Hr Hd q).
  - cbn [orb] in Hrels. destruct rs as [|r [|r' rs']]; try discriminate Hrels.
    apply andb_prop in Hrels. destruct Hrels as [Hrels _].
    apply andb_prop in Hrels. destruct Hrels as [Hg _].
    destruct (clafer_group_single i r Hg) as (gr & Hgr & Hb & Hdef).
    rewrite Hgr. unfold clafer_kids. cbn [rels flat_map]. rewrite app_nil_r.
    cbn [forallb]. rewrite andb_true_r. unfold rel_ok, cs_ok.
    destruct (default_gcard (Some gr)) eqn:Edef.
    + (* the [0..*] group: written as Clafer's default, every member marked "?" *)
      destruct (Hdef eq_refl) as (Hcard & Hmin & Hmax).
      rewrite Hmin, Hmax, card_ok_any_number. cbn [andb].
      rewrite forallb_map. apply forallb_ext_in. intros d Hd.
      rewrite cl_name_tree, lift_safename, cl_optional_tree, clafer_none, (IH' r d (or_introl eq_refl) Hd).
      rewrite (member_any_number i r d Hcard Hmin Hmax Hd), orb_true_r. reflexivity.
    + rewrite map_length, Hb.
      cbv beta iota zeta. rewrite kids_count. unfold card_okb, count_sel.
      f_equal. rewrite forallb_map. apply forallb_ext_in. intros d Hd.
      rewrite cl_name_tree, lift_safename, clafer_none, (IH' r d (or_introl eq_refl) Hd). reflexivity.
Qed.

Theorem C11_instances : forall m d σ, clafer_feature_ok (root m) = true -> NoDup (names (root m)) ->
  Forall (fun c => node_wf (c_ast c) = true) (ctcs m) -> clafer_write m = Ok d ->
  clafer_sat (lift σ) d = valid m σ.
Proof.
  intros m d σ Hok Hnd Hwf H. unfold clafer_write in H.
  destruct (existsb (fun f => existsb (fun a => nonfinite_float (a_default a)) (f_attrs (info f))) (get_features m));
    [discriminate H|].
  destruct (mapM (fun c => clafer_node (c_ast c)) (ctcs m)) as [cs|e] eqn:E; [|discriminate H].
  inversion H; subst d; clear H. unfold clafer_sat, valid. cbn [cd_root cd_ctcs].
  rewrite (clafer_tree_sem σ None (root m) Hok Hnd). f_equal.
  apply (mapM_forallb _ _ _ _ _ E). intros c e Hc He.
  rewrite Forall_forall in Hwf. apply (clafer_node_sound (c_ast c) e σ (Hwf c Hc) He).
Qed.

(* ================================================================== examples for the corrected writer *)

(* a selection given by the list of its selected names *)
Definition sel_of (l : list string) : string -> bool := fun s => existsb (String.eqb s) l.

(* R with ONE relation [0..*] over the leaves a, b *)
Definition any_number_model : fm :=
  {| root := Feature (mk_info "R") [Relation 0 (-1) [leaf "a"; leaf "b"]]; ctcs := [] |}.

(* the document of the corrected writer: both members of the [0..*] group are marked "?" *)
Definition any_number_doc : cdoc :=
  {| cd_attrdecls := [];
     cd_root := Clf (Some (GCardC 0 (-1))) "R" false false []
                    [Clf None "a" false true [] []; Clf None "b" false true [] []];
     cd_ctcs := []; cd_instance_of := "R" |}.

(* what the writer produced before the fix: the two members NOT marked *)
Definition any_number_doc_old : cdoc :=
  {| cd_attrdecls := [];
     cd_root := Clf (Some (GCardC 0 (-1))) "R" false false []
                    [Clf None "a" false false [] []; Clf None "b" false false [] []];
     cd_ctcs := []; cd_instance_of := "R" |}.

Example clafer_any_number_group :
  clafer_write any_number_model = Ok any_number_doc
  /\ map cl_optional (match cd_root any_number_doc with Clf _ _ _ _ _ kids => kids end) = [true; true]
  /\ clafer_sat (lift (sel_of ["R"])) any_number_doc = true
  /\ clafer_sat (lift (sel_of ["R"; "a"])) any_number_doc = true
  /\ clafer_sat (lift (sel_of ["R"; "b"])) any_number_doc = true
  /\ clafer_sat (lift (sel_of ["R"; "a"; "b"])) any_number_doc = true.
Proof. vm_compute. repeat split; reflexivity. Qed.

(* under the corrected semantics the old document is satisfied ONLY by the selection with both a and b *)
Example clafer_old_reading_refuted :
  clafer_sat (lift (sel_of ["R"])) any_number_doc_old = false
  /\ clafer_sat (lift (sel_of ["R"; "a"])) any_number_doc_old = false
  /\ clafer_sat (lift (sel_of ["R"; "b"])) any_number_doc_old = false
  /\ clafer_sat (lift (sel_of ["R"; "a"; "b"])) any_number_doc_old = true
  /\ valid any_number_model (sel_of ["R"]) = true
  /\ valid any_number_model (sel_of ["R"; "a"]) = true
  /\ valid any_number_model (sel_of ["R"; "b"]) = true
  /\ valid any_number_model (sel_of ["R"; "a"; "b"]) = true.
Proof. vm_compute. repeat split; reflexivity. Qed.

(* a model whose root has an attribute with a non-finite default *)
Definition inf_attr_model : fm :=
  {| root := Feature {| f_name := "R"; f_abstract := VBool false; f_type := TBoolean; f_cmin := 1; f_cmax := 1;
                        f_attrs := [ {| a_name := "x"; a_dom := None; a_default := VFloat "inf"; a_null := VNone |} ] |}
                     [];
     ctcs := [] |}.

Example clafer_float_literals :
  clafer_value (VFloat "1e+16") = "10000000000000000.0"%string
  /\ clafer_value (VFloat "1e-05") = "0.00001"%string
  /\ clafer_write inf_attr_model = Err FlamaException.
Proof. vm_compute. repeat split; reflexivity. Qed.

(* ------------------------------------------------------------------ assumptions *)
Print Assumptions unsafename_safename.
Print Assumptions clafer_none.
Print Assumptions clafer_node_sound.
Print Assumptions C11_operators.
Print Assumptions C11_identifiers.
Print Assumptions clafer_tree_sem.
Print Assumptions C11_instances.
Print Assumptions clafer_any_number_group.
Print Assumptions clafer_old_reading_refuted.
Print Assumptions clafer_float_literals.
