(* Proofs/NonEmptyFacts.v — "no empty relation" for the UVL and the AFM reader models.
   Both grammars require at least one member in a group (feature+), but the parse-tree TYPES
   ([ugroup], [aitem]) allow an empty list; the theorems therefore carry a hypothesis saying that the
   parse tree has no empty group ([ugroups_ne] / [aitems_ne]), the two examples show that it is
   needed, and Part 3 shows that the writers only produce parse trees that satisfy it.

   Part 0: [rels_nonempty_f] on plain trees; [annotate] preserves it.
   Part 1: UVL reader    [uvl_read_nonempty] (+ the stronger [uvl_read_nonempty_weak]).
   Part 2: AFM reader    [afm_read_nonempty].
   Part 3: the writers   [uvl_cst_groups_ne], [afm_cst_items_ne], and write-then-read corollaries. *)
From Coq Require Import List Bool Ascii String ZArith Lia.
From FM Require Import Base.Result Base.Str Base.AstOp Model.Ast Model.FM Model.PFM Model.Queries
     Format.Uvl Format.Afm Proofs.JsonFacts Proofs.UvlFacts Proofs.AfmFacts.
Import ListNotations.
Local Open Scope string_scope.
Local Open Scope list_scope.

(* ========================================================================================== *)
(* Part 0: plain trees                                                                          *)
(* ========================================================================================== *)
Fixpoint rels_nonempty_f (f : feature) : bool :=
  match f with
  | Feature _ rs =>
      forallb (fun r => match r with
                        | Relation _ _ cs =>
                            negb (Nat.eqb (List.length cs) 0) && forallb rels_nonempty_f cs
                        end) rs
  end.

Definition rel_ne (r : relation) : bool :=
  negb (Nat.eqb (List.length (r_children r)) 0) && forallb rels_nonempty_f (r_children r).
Definition prel_ne (r : prelation) : bool :=
  negb (Nat.eqb (List.length (pr_children r)) 0) && forallb rels_nonempty_p (pr_children r).

Lemma rels_nonempty_f_eq i rs : rels_nonempty_f (Feature i rs) = forallb rel_ne rs.
Proof.
  cbn [rels_nonempty_f].
  induction rs as [|[a b cs] rs IH]; [reflexivity|].
  cbn [forallb]. rewrite IH. reflexivity.
Qed.

Lemma rels_nonempty_p_eq i p a rs : rels_nonempty_p (PFeature i p a rs) = forallb prel_ne rs.
Proof.
  cbn [rels_nonempty_p].
  induction rs as [|[rp x y cs] rs IH]; [reflexivity|].
  cbn [forallb]. rewrite IH. reflexivity.
Qed.

Lemma an_goc_ne here k : forall cs,
  Forall (fun c => forall h p, rels_nonempty_p (annotate h p c) = rels_nonempty_f c) cs ->
  forall j, forallb rels_nonempty_p (an_goc here k j cs) = forallb rels_nonempty_f cs.
Proof.
  induction 1 as [|c cs Hc _ IH]; intros j; [reflexivity|].
  rewrite an_goc_cons. cbn [forallb]. rewrite Hc, IH. reflexivity.
Qed.

(* the lemma of the brief: annotating does not change the shape *)
Lemma annotate_nonempty : forall f here parent,
  rels_nonempty_p (annotate here parent f) = rels_nonempty_f f.
Proof.
  apply (feature_ind2
           (fun f => forall here parent, rels_nonempty_p (annotate here parent f) = rels_nonempty_f f)
           (fun r => Forall (fun c => forall h p, rels_nonempty_p (annotate h p c) = rels_nonempty_f c)
                            (r_children r))).
  - intros i rs IH here parent. rewrite annotate_eq, rels_nonempty_p_eq, rels_nonempty_f_eq.
    generalize 0%nat. induction IH as [|[a b cs] rs Hr _ IHrs]; intros k; [reflexivity|].
    rewrite an_go_cons. cbn [forallb]. rewrite IHrs. f_equal.
    unfold prel_ne, rel_ne. cbn [pr_children r_children] in *.
    rewrite an_goc_length, (an_goc_ne _ _ _ Hr). reflexivity.
  - intros a b cs IH. exact IH.
Qed.

Lemma annotate_fm_nonempty m : rels_nonempty_p (proot (annotate_fm m)) = rels_nonempty_f (root m).
Proof. unfold annotate_fm. cbn [proot]. apply annotate_nonempty. Qed.

Lemma leaf_ne n : rels_nonempty_f (leaf n) = true.
Proof. reflexivity. Qed.

Lemma rels_nonempty_f_child f c : rels_nonempty_f f = true -> In c (children f) -> rels_nonempty_f c = true.
Proof.
  destruct f as [i rs]. rewrite rels_nonempty_f_eq. intros H Hc.
  apply in_children_iff in Hc. destruct Hc as [r [Hr Hc]].
  rewrite forallb_forall in H. specialize (H _ Hr). unfold rel_ne in H.
  apply andb_true_iff in H. destruct H as [_ H]. rewrite forallb_forall in H. exact (H _ Hc).
Qed.

(* the model's well-formedness predicate gives the hypothesis of Part 3 *)
Lemma subrelations_eq i rs :
  subrelations (Feature i rs) = flat_map (fun r => r :: flat_map subrelations (r_children r)) rs.
Proof.
  cbn [subrelations]. apply flat_map_ext. intros [a b cs]. reflexivity.
Qed.

Lemma rel_card_ok_len r : rel_card_ok r = true -> negb (Nat.eqb (List.length (r_children r)) 0) = true.
Proof. unfold rel_card_ok. intros H. apply andb_true_iff in H. destruct H as [_ H]. exact H. Qed.

Lemma card_ok_rels_nonempty_f : forall f,
  forallb rel_card_ok (subrelations f) = true -> rels_nonempty_f f = true.
Proof.
  apply (feature_ind2
           (fun f => forallb rel_card_ok (subrelations f) = true -> rels_nonempty_f f = true)
           (fun r => Forall (fun c => forallb rel_card_ok (subrelations c) = true -> rels_nonempty_f c = true)
                            (r_children r))).
  - intros i rs IH H. rewrite subrelations_eq in H. rewrite rels_nonempty_f_eq.
    induction IH as [|r rs Hr _ IHrs]; [reflexivity|].
    cbn [flat_map] in H. rewrite forallb_app in H. apply andb_true_iff in H. destruct H as [H1 H2].
    cbn [forallb] in H1 |- *. apply andb_true_iff in H1. destruct H1 as [Hc Hsub].
    rewrite (IHrs H2), andb_true_r. unfold rel_ne. rewrite (rel_card_ok_len _ Hc). cbn [andb].
    clear Hc. induction Hr as [|c cs Hc _ IHcs]; [reflexivity|].
    cbn [flat_map] in Hsub. rewrite forallb_app in Hsub. apply andb_true_iff in Hsub.
    destruct Hsub as [Hs1 Hs2]. cbn [forallb]. rewrite (Hc Hs1), (IHcs Hs2). reflexivity.
  - intros a b cs IH. exact IH.
Qed.

Theorem wf_rels_nonempty_f : forall f, wf f = true -> rels_nonempty_f f = true.
Proof.
  intros f H. unfold wf in H. apply andb_true_iff in H. destruct H as [_ H].
  apply card_ok_rels_nonempty_f. exact H.
Qed.

(* ========================================================================================== *)
(* Part 1: the UVL reader                                                                       *)
(* ========================================================================================== *)
(* the hypothesis of the brief: EVERY group below [f] has a member *)
Fixpoint ugroups_ne (f : ufeature) : bool :=
  match f with
  | UFeature _ _ _ _ gs =>
      forallb (fun g => match g with
                        | UGroup _ cs => negb (Nat.eqb (List.length cs) 0) && forallb ugroups_ne cs
                        end) gs
  end.
(* the weaker hypothesis that is enough: an optional / mandatory group gives one relation PER child,
   so an empty one gives no relation at all *)
Fixpoint ugroups_ne_weak (f : ufeature) : bool :=
  match f with
  | UFeature _ _ _ _ gs =>
      forallb (fun g => match g with
                        | UGroup k cs =>
                            (per_child k || negb (Nat.eqb (List.length cs) 0)) && forallb ugroups_ne_weak cs
                        end) gs
  end.

Definition ugroup_ne (g : ugroup) : bool :=
  match g with UGroup _ cs => negb (Nat.eqb (List.length cs) 0) && forallb ugroups_ne cs end.
Definition ugroup_ne_weak (g : ugroup) : bool :=
  match g with
  | UGroup k cs => (per_child k || negb (Nat.eqb (List.length cs) 0)) && forallb ugroups_ne_weak cs
  end.

Lemma ugroups_ne_eq ty ref fc at_ gs : ugroups_ne (UFeature ty ref fc at_ gs) = forallb ugroup_ne gs.
Proof. reflexivity. Qed.
Lemma ugroups_ne_weak_eq ty ref fc at_ gs :
  ugroups_ne_weak (UFeature ty ref fc at_ gs) = forallb ugroup_ne_weak gs.
Proof. reflexivity. Qed.

Lemma ugroups_ne_weaken : forall u, ugroups_ne u = true -> ugroups_ne_weak u = true.
Proof.
  apply (ufeature_ind2 (fun u => ugroups_ne u = true -> ugroups_ne_weak u = true)).
  intros ty ref fc at_ gs IH. rewrite ugroups_ne_eq, ugroups_ne_weak_eq.
  induction IH as [|[k cs] gs Hg _ IHgs]; intros H; [reflexivity|].
  cbn [forallb] in H |- *. apply andb_true_iff in H. destruct H as [Hg1 Hgs].
  rewrite (IHgs Hgs), andb_true_r. unfold ugroup_ne in Hg1. unfold ugroup_ne_weak.
  apply andb_true_iff in Hg1. destruct Hg1 as [Hlen Hcs]. rewrite Hlen, orb_true_r. cbn [andb].
  clear Hlen. induction Hg as [|c cs Hc _ IHcs]; [reflexivity|].
  cbn [forallb] in Hcs |- *. apply andb_true_iff in Hcs. destruct Hcs as [H1 H2].
  rewrite (Hc H1), (IHcs H2). reflexivity.
Qed.

Definition UNE (u : ufeature) : Prop :=
  ugroups_ne_weak u = true ->
  forall here parent pf, uvl_read_feature here parent u = Ok pf -> rels_nonempty_p pf = true.

Lemma ur_goc_ne here pc k : forall cs, Forall UNE cs -> forallb ugroups_ne_weak cs = true ->
  forall j kids, ur_goc here pc k j cs = Ok kids -> forallb rels_nonempty_p kids = true.
Proof.
  induction 1 as [|c cs Hc _ IH]; intros Hne j kids H.
  - rewrite ur_goc_nil in H. injection H as <-. reflexivity.
  - cbn [forallb] in Hne. apply andb_true_iff in Hne. destruct Hne as [Hne1 Hne2].
    rewrite ur_goc_cons in H.
    destruct (uvl_read_feature (if pc then here ++ [((k + j)%nat, 0%nat)] else here ++ [(k, j)]) (PPath here) c)
      as [x|e] eqn:Hx; [|discriminate].
    destruct (ur_goc here pc k (S j) cs) as [pcs|e] eqn:Hpcs; [|discriminate].
    injection H as <-. cbn [forallb]. rewrite (Hc Hne1 _ _ _ Hx), (IH Hne2 _ _ Hpcs). reflexivity.
Qed.

Lemma singles_ne here mn : forall kids, forallb rels_nonempty_p kids = true ->
  forallb prel_ne (map (mk_single here mn) kids) = true.
Proof.
  induction kids as [|c kids IH]; intros H; [reflexivity|].
  cbn [forallb map] in H |- *. apply andb_true_iff in H. destruct H as [H1 H2].
  rewrite (IH H2), andb_true_r. unfold prel_ne, mk_single. cbn [pr_children List.length forallb Nat.eqb negb andb].
  rewrite H1. reflexivity.
Qed.

Lemma ur_go_ne here : forall gs,
  Forall (fun g => match g with UGroup _ cs => Forall UNE cs end) gs ->
  forallb ugroup_ne_weak gs = true ->
  forall k prs, ur_go here k gs = Ok prs -> forallb prel_ne prs = true.
Proof.
  induction 1 as [|[kind cs] gs Hg _ IH]; intros Hne k prs H.
  - rewrite ur_go_nil in H. injection H as <-. reflexivity.
  - cbn [forallb] in Hne. apply andb_true_iff in Hne. destruct Hne as [Hne1 Hne2].
    unfold ugroup_ne_weak in Hne1. apply andb_true_iff in Hne1. destruct Hne1 as [Hlen Hcs].
    rewrite ur_go_cons in H.
    destruct (ur_goc here (per_child kind) k 0%nat cs) as [kids|e] eqn:Hkids; [|discriminate].
    pose proof (ur_goc_ne _ _ _ _ Hg Hcs _ _ Hkids) as Hk.
    pose proof (ur_goc_length _ _ _ _ _ _ Hkids) as Hl.
    destruct kind as [| | | |text]; cbn [per_child orb] in Hlen.
    + destruct (ur_go here (S k) gs) as [prs'|e] eqn:Hprs; [|discriminate]. injection H as <-.
      cbn [forallb]. rewrite (IH Hne2 _ _ Hprs), andb_true_r.
      unfold prel_ne. cbn [pr_children]. rewrite Hl, Hlen, Hk. reflexivity.
    + destruct (ur_go here (S k) gs) as [prs'|e] eqn:Hprs; [|discriminate]. injection H as <-.
      cbn [forallb]. rewrite (IH Hne2 _ _ Hprs), andb_true_r.
      unfold prel_ne. cbn [pr_children]. rewrite Hl, Hlen, Hk. reflexivity.
    + destruct (ur_go here (k + List.length kids) gs) as [prs'|e] eqn:Hprs; [|discriminate]. injection H as <-.
      rewrite forallb_app, (singles_ne _ _ _ Hk), (IH Hne2 _ _ Hprs). reflexivity.
    + destruct (ur_go here (k + List.length kids) gs) as [prs'|e] eqn:Hprs; [|discriminate]. injection H as <-.
      rewrite forallb_app, (singles_ne _ _ _ Hk), (IH Hne2 _ _ Hprs). reflexivity.
    + destruct (parse_cardinality text) as [[a b]|e]; [|discriminate].
      destruct (ur_go here (S k) gs) as [prs'|e] eqn:Hprs; [|discriminate]. injection H as <-.
      cbn [forallb]. rewrite (IH Hne2 _ _ Hprs), andb_true_r.
      unfold prel_ne. cbn [pr_children]. rewrite Hl, Hlen, Hk. reflexivity.
Qed.

Lemma uvl_read_feature_ne : forall u, UNE u.
Proof.
  apply (ufeature_ind2 UNE). intros ty ref fc at_ gs IH Hne here parent pf H.
  rewrite ugroups_ne_weak_eq in Hne. rewrite uvl_read_feature_eq in H.
  destruct (ur_card fc) as [[cmin cmax]|e]; [|discriminate].
  destruct (read_ftype ty) as [fty|e]; [|discriminate].
  destruct (ur_kv at_) as [kv|e]; [|discriminate].
  destruct (ur_go here 0%nat gs) as [prs|e] eqn:Hprs; [|discriminate].
  injection H as <-. rewrite rels_nonempty_p_eq. apply (ur_go_ne _ _ IH Hne _ _ Hprs).
Qed.

(* the stronger form: only the groups that become ONE relation (or / alternative / [n..m]) must
   have a member *)
Theorem uvl_read_nonempty_weak : forall d pm,
  (match d_root d with Some r => ugroups_ne_weak r | None => true end) = true ->
  uvl_read_cst d = Ok pm -> rels_nonempty_p (proot pm) = true.
Proof.
  intros d pm Hne H. rewrite uvl_read_cst_eq in H.
  destruct (d_root d) as [rf|]; [|discriminate].
  destruct (uvl_read_feature [] PNone rf) as [pr|e] eqn:Hpr; [|discriminate].
  destruct (mapM uvl_read_ctc _) as [ns|e]; [|discriminate].
  injection H as <-. cbn [proot]. apply (uvl_read_feature_ne _ Hne _ _ _ Hpr).
Qed.

(* the statement of the brief *)
Theorem uvl_read_nonempty : forall d pm,
  (match d_root d with Some r => ugroups_ne r | None => true end) = true ->
  uvl_read_cst d = Ok pm -> rels_nonempty_p (proot pm) = true.
Proof.
  intros d pm Hne. apply uvl_read_nonempty_weak.
  destruct (d_root d) as [rf|]; [|reflexivity]. apply ugroups_ne_weaken. exact Hne.
Qed.

(* the hypothesis is needed: an empty "or" group is accepted and gives an empty relation *)
Definition uvl_empty_group_doc : udoc :=
  {| d_root := Some (UFeature None "A" None None [UGroup GOr []]); d_ctcs := None |}.

Example uvl_read_empty_group_false :
  exists pm, uvl_read_cst uvl_empty_group_doc = Ok pm /\ rels_nonempty_p (proot pm) = false.
Proof.
  match eval vm_compute in (uvl_read_cst uvl_empty_group_doc) with
  | Ok ?pm => exists pm
  end.
  split; vm_compute; reflexivity.
Qed.

(* ... and an empty "optional" group is harmless: the weak hypothesis holds, the strict one does not *)
Definition uvl_empty_optional_doc : udoc :=
  {| d_root := Some (UFeature None "A" None None [UGroup GOpt []; UGroup GAlt [UFeature None "B" None None []]]);
     d_ctcs := None |}.

Example uvl_read_empty_optional_true :
  ugroups_ne_weak (UFeature None "A" None None [UGroup GOpt []; UGroup GAlt [UFeature None "B" None None []]]) = true
  /\ ugroups_ne (UFeature None "A" None None [UGroup GOpt []; UGroup GAlt [UFeature None "B" None None []]]) = false
  /\ exists pm, uvl_read_cst uvl_empty_optional_doc = Ok pm /\ rels_nonempty_p (proot pm) = true.
Proof.
  split; [reflexivity|]. split; [reflexivity|].
  match eval vm_compute in (uvl_read_cst uvl_empty_optional_doc) with
  | Ok ?pm => exists pm
  end.
  split; vm_compute; reflexivity.
Qed.

(* ========================================================================================== *)
(* Part 2: the AFM reader                                                                       *)
(* ========================================================================================== *)
Definition aitem_ne (i : aitem) : bool :=
  match i with
  | IGroup _ _ cs => negb (Nat.eqb (List.length cs) 0)
  | ISingle _ _ => true
  end.
Definition aspec_ne (s : arelspec) : bool := forallb aitem_ne (rs_items s).
(* every IGroup of every relationship line has a member *)
Definition aitems_ne (d : adoc) : bool := forallb aspec_ne (ad_rels d).

Lemma sing_ne : forall its, forallb rel_ne (flat_map sing its) = true.
Proof.
  induction its as [|[opt n|a b cs] its IH]; [reflexivity| |exact IH].
  cbn [flat_map sing app forallb]. rewrite IH. reflexivity.
Qed.

Lemma leaves_ne : forall cs, forallb rels_nonempty_f (map leaf cs) = true.
Proof. induction cs as [|c cs IH]; [reflexivity|]. cbn [map forallb]. rewrite IH. reflexivity. Qed.

Lemma grp_ne i l : aitem_ne i = true -> grp i = Ok l -> forallb rel_ne l = true.
Proof.
  destruct i as [opt n|a b cs]; intros Hi H.
  - cbn [grp] in H. injection H as <-. reflexivity.
  - cbn [grp] in H. cbn [aitem_ne] in Hi.
    destruct (afm_to_int a) as [a'|e]; [|discriminate].
    destruct (afm_to_int b) as [b'|e]; [|discriminate].
    injection H as <-. cbn [forallb]. unfold rel_ne. cbn [r_children].
    rewrite map_length, Hi, leaves_ne. reflexivity.
Qed.

Lemma grps_ne : forall its gs, forallb aitem_ne its = true -> mapM grp its = Ok gs ->
  Forall (fun l => forallb rel_ne l = true) gs.
Proof.
  induction its as [|i its IH]; intros gs Hne H.
  - rewrite mapM_nil in H. injection H as <-. constructor.
  - cbn [forallb] in Hne. apply andb_true_iff in Hne. destruct Hne as [Hi Hne].
    rewrite mapM_cons in H.
    destruct (grp i) as [l|e] eqn:Hl; [|discriminate].
    destruct (mapM grp its) as [gs'|e] eqn:Hgs; [|discriminate].
    injection H as <-. constructor; [exact (grp_ne _ _ Hi Hl)|exact (IH _ Hne eq_refl)].
Qed.

Lemma item_relations_ne its rs : forallb aitem_ne its = true -> item_relations its = Ok rs ->
  forallb rel_ne rs = true.
Proof.
  intros Hne H. rewrite item_relations_eq in H.
  destruct (mapM grp its) as [gs|e] eqn:Hgs; [|discriminate].
  injection H as <-. rewrite forallb_app, sing_ne. cbn [andb].
  apply forallb_concat. exact (grps_ne _ _ Hne Hgs).
Qed.

(* the by-name traversals only rebuild the spine *)
Definition keeps_ne (rec : feature -> option feature) (c : feature) : Prop :=
  forall c', rec c = Some c' -> rels_nonempty_f c = true -> rels_nonempty_f c' = true.

Lemma goc_gen_ne rec : forall cs cpre cs', Forall (keeps_ne rec) cs ->
  goc_gen rec cpre cs = Some cs' ->
  forallb rels_nonempty_f cpre = true -> forallb rels_nonempty_f cs = true ->
  negb (Nat.eqb (List.length cs') 0) = true /\ forallb rels_nonempty_f cs' = true.
Proof.
  induction cs as [|c cs IH]; intros cpre cs' HF H Hpre Hcs; [discriminate|].
  inversion HF as [|? ? Hc HF']; subst.
  cbn [forallb] in Hcs. apply andb_true_iff in Hcs. destruct Hcs as [Hc1 Hcs].
  cbn [goc_gen] in H. unfold keeps_ne in Hc.
  destruct (rec c) as [c'|] eqn:Hrc.
  - injection H as <-. split.
    + rewrite app_length. cbn [List.length]. rewrite Nat.add_succ_r. reflexivity.
    + rewrite forallb_app. cbn [forallb]. rewrite Hpre, (Hc _ eq_refl Hc1), Hcs. reflexivity.
  - apply (IH _ _ HF' H); [|exact Hcs]. rewrite forallb_app. cbn [forallb]. rewrite Hpre, Hc1. reflexivity.
Qed.

Lemma go_gen_ne rec i : forall rs pre f',
  Forall (fun r => Forall (keeps_ne rec) (r_children r)) rs ->
  go_gen rec i pre rs = Some f' -> forallb rel_ne pre = true -> forallb rel_ne rs = true ->
  rels_nonempty_f f' = true.
Proof.
  induction rs as [|[a b cs] rs IH]; intros pre f' HF H Hpre Hrs; [discriminate|].
  inversion HF as [|? ? Hr HF']; subst. cbn [r_children] in Hr.
  cbn [forallb] in Hrs. apply andb_true_iff in Hrs. destruct Hrs as [Hr1 Hrs].
  cbn [go_gen] in H. destruct (goc_gen rec [] cs) as [cs'|] eqn:Hg.
  - injection H as <-. rewrite rels_nonempty_f_eq, forallb_app. cbn [forallb].
    rewrite Hpre, Hrs, andb_true_r. cbn [andb].
    unfold rel_ne in Hr1 |- *. cbn [r_children] in Hr1 |- *.
    apply andb_true_iff in Hr1. destruct Hr1 as [_ Hcs].
    destruct (goc_gen_ne rec cs [] cs' Hr Hg eq_refl Hcs) as [G1 G2]. rewrite G1, G2. reflexivity.
  - apply (IH _ _ HF' H); [|exact Hrs]. rewrite forallb_app. cbn [forallb]. rewrite Hpre, Hr1. reflexivity.
Qed.

Lemma add_rels_ne target new : forallb rel_ne new = true ->
  forall f, keeps_ne (add_rels target new) f.
Proof.
  intros Hnew.
  apply (feature_ind2 (keeps_ne (add_rels target new))
           (fun r => Forall (keeps_ne (add_rels target new)) (r_children r))).
  - intros i rs IH f' H Hne. rewrite add_rels_eq in H. rewrite rels_nonempty_f_eq in Hne.
    destruct (String.eqb (f_name i) target).
    + injection H as <-. rewrite rels_nonempty_f_eq, forallb_app, Hne, Hnew. reflexivity.
    + apply (go_gen_ne _ _ _ _ _ IH H eq_refl Hne).
  - intros a b cs IH. exact IH.
Qed.

Lemma add_attr_ne target a : forall f, keeps_ne (add_attr target a) f.
Proof.
  apply (feature_ind2 (keeps_ne (add_attr target a))
           (fun r => Forall (keeps_ne (add_attr target a)) (r_children r))).
  - intros i rs IH f' H Hne. rewrite add_attr_eq in H. rewrite rels_nonempty_f_eq in Hne.
    destruct (String.eqb (f_name i) target).
    + injection H as <-. rewrite rels_nonempty_f_eq. exact Hne.
    + apply (go_gen_ne _ _ _ _ _ IH H eq_refl Hne).
  - intros x y cs IH. exact IH.
Qed.

Lemma rd_go_ne : forall specs cur tree, forallb aspec_ne specs = true ->
  rd_go specs cur = Ok tree -> rels_nonempty_f cur = true -> rels_nonempty_f tree = true.
Proof.
  induction specs as [|s rest IH]; intros cur tree Hs H Hcur.
  - cbn [rd_go] in H. injection H as <-. exact Hcur.
  - cbn [forallb] in Hs. apply andb_true_iff in Hs. destruct Hs as [Hs1 Hs2].
    rewrite rd_go_cons in H.
    destruct (negb (fresh_names (item_names (rs_items s)) cur)); [discriminate|].
    destruct (item_relations (rs_items s)) as [rels_|e] eqn:Hir; [|discriminate].
    destruct (add_rels (rs_parent s) rels_ cur) as [cur'|] eqn:Har; [|discriminate].
    apply (IH _ _ Hs2 H).
    exact (add_rels_ne _ _ (item_relations_ne _ _ Hs1 Hir) _ _ Har Hcur).
Qed.

Lemma rd_goa_ne : forall specs cur tree,
  rd_goa specs cur = Ok tree -> rels_nonempty_f cur = true -> rels_nonempty_f tree = true.
Proof.
  induction specs as [|s rest IH]; intros cur tree H Hcur.
  - cbn [rd_goa] in H. injection H as <-. exact Hcur.
  - rewrite rd_goa_cons in H.
    destruct (negb (list_existsb_eq (at_feature s) (names cur))); [discriminate|].
    destruct (rd_attr s) as [a|e]; [|discriminate].
    destruct (add_attr (at_feature s) a cur) as [cur'|] eqn:Haa; [|discriminate].
    apply (IH _ _ H). exact (add_attr_ne _ _ _ _ Haa Hcur).
Qed.

Theorem afm_read_nonempty : forall d pm,
  aitems_ne d = true -> afm_read_cst d = Ok pm -> rels_nonempty_p (proot pm) = true.
Proof.
  intros d pm Hne H. rewrite afm_read_cst_eq in H. unfold aitems_ne in Hne.
  destruct (ad_rels d) as [|first others]; [discriminate|].
  destruct (rd_go (first :: others) (leaf (rs_parent first))) as [tree|e] eqn:Htree; [|discriminate].
  destruct (rd_goa (match ad_attrs d with Some l => l | None => [] end) tree) as [tree2|e] eqn:Htree2;
    [|discriminate].
  destruct (mapM rd_ctc (match ad_ctcs d with Some l => l | None => [] end)) as [css|e]; [|discriminate].
  injection H as <-. rewrite annotate_fm_nonempty. cbn [root].
  apply (rd_goa_ne _ _ _ Htree2). apply (rd_go_ne _ _ _ Hne Htree). apply leaf_ne.
Qed.

(* the hypothesis is needed: "A : [1,1]{};" is accepted by the reader model and gives an empty relation *)
Definition afm_empty_group_doc : adoc :=
  {| ad_rels := [{| rs_parent := "A"; rs_items := [IGroup "1" "1" []] |}];
     ad_attrs := None; ad_ctcs := None |}.

Example afm_read_empty_group_false :
  exists pm, afm_read_cst afm_empty_group_doc = Ok pm /\ rels_nonempty_p (proot pm) = false.
Proof.
  match eval vm_compute in (afm_read_cst afm_empty_group_doc) with
  | Ok ?pm => exists pm
  end.
  split; vm_compute; reflexivity.
Qed.

(* ========================================================================================== *)
(* Part 3: the writers only produce parse trees without an empty group                          *)
(* ========================================================================================== *)
(* ---- UVL *)
Definition WNE (f : feature) : Prop :=
  forall u, feature_cst f = Ok u -> rels_nonempty_f f = true -> ugroups_ne u = true.

Lemma children_cst_ne : forall cs, Forall WNE cs ->
  forall cs', mapM feature_cst cs = Ok cs' -> forallb rels_nonempty_f cs = true ->
  List.length cs' = List.length cs /\ forallb ugroups_ne cs' = true.
Proof.
  induction 1 as [|c cs Hc _ IH]; intros cs' H Hne.
  - rewrite mapM_nil in H. injection H as <-. split; reflexivity.
  - cbn [forallb] in Hne. apply andb_true_iff in Hne. destruct Hne as [Hne1 Hne2].
    rewrite mapM_cons in H.
    destruct (feature_cst c) as [u|e] eqn:Hu; [|discriminate].
    destruct (mapM feature_cst cs) as [us|e] eqn:Hus; [|discriminate].
    injection H as <-. destruct (IH _ eq_refl Hne2) as [IH1 IH2].
    cbn [List.length forallb]. rewrite IH1, (Hc _ Hu Hne1), IH2. split; reflexivity.
Qed.

Lemma feature_cst_ne : forall f, WNE f.
Proof.
  apply (feature_ind2 WNE (fun r => Forall WNE (r_children r))).
  - intros i rs IH u H Hne. rewrite feature_cst_eq in H.
    destruct (mapM (fun a => attr_entry (a_name a) (a_default a)) (f_attrs i)) as [l|e]; [|discriminate].
    destruct (mapM rel_cst rs) as [gs|e] eqn:Hgs; [|discriminate].
    injection H as <-. rewrite ugroups_ne_eq. rewrite rels_nonempty_f_eq in Hne.
    revert gs Hgs Hne. induction IH as [|[a b cs] rs Hr _ IHrs]; intros gs Hgs Hne.
    + rewrite mapM_nil in Hgs. injection Hgs as <-. reflexivity.
    + rewrite mapM_cons in Hgs.
      destruct (rel_cst (Relation a b cs)) as [g|e] eqn:Hg; [|discriminate].
      destruct (mapM rel_cst rs) as [gs'|e] eqn:Hgs'; [|discriminate].
      injection Hgs as <-. cbn [forallb] in Hne |- *.
      apply andb_true_iff in Hne. destruct Hne as [Hne1 Hne2].
      rewrite (IHrs _ eq_refl Hne2), andb_true_r.
      unfold rel_cst in Hg. destruct (mapM feature_cst cs) as [cs'|e] eqn:Hcs; [|discriminate].
      injection Hg as <-. unfold rel_ne in Hne1. cbn [r_children] in Hne1, Hr.
      apply andb_true_iff in Hne1. destruct Hne1 as [Hlen Hkids].
      destruct (children_cst_ne _ Hr _ Hcs Hkids) as [G1 G2].
      unfold ugroup_ne. rewrite G1, Hlen, G2. reflexivity.
  - intros a b cs IH. exact IH.
Qed.

Theorem uvl_cst_groups_ne : forall m d,
  rels_nonempty_f (root m) = true -> cst_of_fm m = Ok d ->
  (match d_root d with Some r => ugroups_ne r | None => true end) = true.
Proof.
  intros m d Hne H. unfold cst_of_fm in H.
  destruct (feature_cst (root m)) as [rf|e] eqn:Hrf; [|discriminate].
  destruct (mapM (fun c => node_cst (c_ast c)) (ctcs m)) as [cs|e]; [|discriminate].
  injection H as <-. cbn [d_root]. exact (feature_cst_ne _ _ Hrf Hne).
Qed.

(* whatever the UVL writer model writes for a model without an empty relation is read back without one *)
Corollary uvl_write_read_nonempty : forall m d pm,
  rels_nonempty_f (root m) = true -> cst_of_fm m = Ok d -> uvl_read_cst d = Ok pm ->
  rels_nonempty_p (proot pm) = true.
Proof.
  intros m d pm Hne Hd Hpm. exact (uvl_read_nonempty _ _ (uvl_cst_groups_ne _ _ Hne Hd) Hpm).
Qed.

(* ---- AFM *)
Lemma afm_item_ne r x : afm_item r = Some x ->
  negb (Nat.eqb (List.length (r_children r)) 0) = true -> aitem_ne x = true.
Proof.
  destruct r as [a b cs]. unfold afm_item. cbn [r_children r_min r_max].
  destruct cs as [|c [|c' cs]]; intros H Hl.
  - discriminate Hl.
  - destruct ((a =? 1)%Z && (b =? 1)%Z); [injection H as <-; reflexivity|].
    destruct ((a =? 0)%Z && (b =? 1)%Z); injection H as <-; reflexivity.
  - injection H as <-. reflexivity.
Qed.

Lemma items_ne : forall rs, forallb rel_ne rs = true -> forallb aitem_ne (items rs) = true.
Proof.
  induction rs as [|r rs IH]; intros H; [reflexivity|].
  cbn [forallb] in H. apply andb_true_iff in H. destruct H as [Hr Hrs].
  unfold rel_ne in Hr. apply andb_true_iff in Hr. destruct Hr as [Hlen _].
  unfold items. cbn [flat_map]. fold (items rs).
  destruct (afm_item r) as [x|] eqn:Hx.
  - cbn [app forallb]. rewrite (afm_item_ne _ _ Hx Hlen), (IH Hrs). reflexivity.
  - cbn [app]. exact (IH Hrs).
Qed.

Lemma afm_relspecs_ne : forall f, rels_nonempty_f f = true -> forallb aspec_ne (afm_relspecs f) = true.
Proof.
  apply (feature_ind_children
           (fun f => rels_nonempty_f f = true -> forallb aspec_ne (afm_relspecs f) = true)).
  intros f IH Hne. rewrite afm_relspecs_eq. cbn [forallb]. apply andb_true_iff. split.
  - unfold aspec_ne, line. cbn [rs_items]. apply items_ne.
    destruct f as [i rs]. cbn [rels]. rewrite rels_nonempty_f_eq in Hne. exact Hne.
  - apply forallb_forall. intros s Hs. apply in_flat_map in Hs. destruct Hs as [c [Hc Hs]].
    destruct (leafb c); [contradiction|].
    pose proof (IH c Hc (rels_nonempty_f_child _ _ Hne Hc)) as Hall.
    rewrite forallb_forall in Hall. exact (Hall _ Hs).
Qed.

Theorem afm_cst_items_ne : forall m d,
  rels_nonempty_f (root m) = true -> afm_cst m = Ok d -> aitems_ne d = true.
Proof.
  intros m d Hne H. unfold afm_cst in H.
  destruct (mapM (fun pf => mapM (afm_attrspec (name pf)) (f_attrs (info pf))) (get_features m))
    as [ats|e]; [|discriminate].
  match type of H with match ?X with _ => _ end = _ => destruct X as [cs|e]; [|discriminate] end.
  injection H as <-. unfold aitems_ne. cbn [ad_rels]. apply afm_relspecs_ne. exact Hne.
Qed.

Corollary afm_write_read_nonempty : forall m d pm,
  rels_nonempty_f (root m) = true -> afm_cst m = Ok d -> afm_read_cst d = Ok pm ->
  rels_nonempty_p (proot pm) = true.
Proof.
  intros m d pm Hne Hd Hpm. exact (afm_read_nonempty _ _ (afm_cst_items_ne _ _ Hne Hd) Hpm).
Qed.

(* with the model's own well-formedness predicate *)
Corollary uvl_cst_groups_ne_wf : forall m d, wf (root m) = true -> cst_of_fm m = Ok d ->
  (match d_root d with Some r => ugroups_ne r | None => true end) = true.
Proof. intros m d H. apply uvl_cst_groups_ne. apply wf_rels_nonempty_f. exact H. Qed.

Corollary afm_cst_items_ne_wf : forall m d, wf (root m) = true -> afm_cst m = Ok d -> aitems_ne d = true.
Proof. intros m d H. apply afm_cst_items_ne. apply wf_rels_nonempty_f. exact H. Qed.

Print Assumptions annotate_nonempty.
Print Assumptions wf_rels_nonempty_f.
Print Assumptions uvl_read_nonempty_weak.
Print Assumptions uvl_read_nonempty.
Print Assumptions uvl_read_empty_group_false.
Print Assumptions uvl_read_empty_optional_true.
Print Assumptions afm_read_nonempty.
Print Assumptions afm_read_empty_group_false.
Print Assumptions uvl_cst_groups_ne.
Print Assumptions afm_cst_items_ne.
Print Assumptions uvl_write_read_nonempty.
Print Assumptions afm_write_read_nonempty.
Print Assumptions uvl_cst_groups_ne_wf.
Print Assumptions afm_cst_items_ne_wf.
