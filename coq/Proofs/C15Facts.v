(* Proofs/C15Facts.v — atomic sets: partition, non-emptiness, co-selection, mandatory chain *)
From Coq Require Import List Bool Ascii String ZArith Lia Permutation.
From FM Require Import Base.Result Base.Str Base.AstOp Model.Ast Model.FM Model.Ctc Model.Queries
     Model.Sem Model.Ops.
From FM Require Import Proofs.FMFacts Proofs.QueriesFacts Proofs.C14Facts.
Import ListNotations.
Local Open Scope list_scope.

(* ------------------------------------------------------------------ unfolding equations *)
Definition cl_child (owner d : feature) : list string :=
  if child_is_mandatory owner d then closure d else [].
Definition st_child (owner d : feature) : list feature :=
  (if child_is_mandatory owner d then [] else [d]) ++ starters d.

Lemma closure_unfold i rs :
  closure (Feature i rs)
  = f_name i :: flat_map (fun r => flat_map (cl_child (Feature i rs)) (r_children r)) rs.
Proof.
  cbn [closure]. f_equal. generalize (Feature i rs). intro owner.
  induction rs as [|r rs IH]; [reflexivity|].
  cbn [flat_map]. rewrite IH. f_equal. destruct r as [a b cs]. reflexivity.
Qed.

Lemma starters_unfold i rs :
  starters (Feature i rs)
  = flat_map (fun r => flat_map (st_child (Feature i rs)) (r_children r)) rs.
Proof.
  cbn [starters]. generalize (Feature i rs). intro owner.
  induction rs as [|r rs IH]; [reflexivity|].
  cbn [flat_map]. rewrite IH. f_equal. destruct r as [a b cs]. reflexivity.
Qed.

(* ------------------------------------------------------------------ partition *)
Definition total (d : feature) : list string := closure d ++ List.concat (map closure (starters d)).

Lemma perm_swap4 {A} (a b c d : list A) :
  Permutation ((a ++ b) ++ (c ++ d)) ((a ++ c) ++ (b ++ d)).
Proof.
  rewrite <- !app_assoc. apply Permutation_app_head.
  rewrite !app_assoc. apply Permutation_app_tail. apply Permutation_app_comm.
Qed.

Lemma child_total owner d :
  cl_child owner d ++ List.concat (map closure (st_child owner d)) = total d.
Proof.
  unfold cl_child, st_child, total. destruct (child_is_mandatory owner d); cbn [app map List.concat].
  - reflexivity.
  - reflexivity.
Qed.

Lemma children_total owner cs :
  Forall (fun d => Permutation (total d) (names d)) cs ->
  Permutation (flat_map (cl_child owner) cs ++ List.concat (map closure (flat_map (st_child owner) cs)))
              (flat_map names cs).
Proof.
  induction 1 as [|c cs Hc _ IH]; [constructor|].
  cbn [flat_map]. rewrite map_app, concat_app.
  eapply Permutation_trans; [apply perm_swap4|].
  apply Permutation_app; [|exact IH].
  rewrite child_total. exact Hc.
Qed.

Lemma total_perm : forall f, Permutation (total f) (names f).
Proof.
  apply (feature_ind2 (fun f => Permutation (total f) (names f))
           (fun r => Forall (fun d => Permutation (total d) (names d)) (r_children r))).
  - intros i rs IH. unfold total.
    rewrite closure_unfold, starters_unfold, names_unfold.
    generalize (Feature i rs). intro owner.
    cbn [app]. constructor.
    induction IH as [|r rs Hr _ IHrs]; [constructor|].
    cbn [flat_map]. rewrite map_app, concat_app.
    eapply Permutation_trans; [apply perm_swap4|].
    apply Permutation_app; [|exact IHrs].
    unfold rnames. apply children_total. exact Hr.
  - intros a b cs IH. exact IH.
Qed.

Theorem atomic_partition : forall m, Permutation (List.concat (atomic_sets m)) (names (root m)).
Proof.
  intros m. unfold atomic_sets. cbn [map List.concat]. apply (total_perm (root m)).
Qed.

Theorem atomic_nonempty : forall m s, In s (atomic_sets m) -> s <> [].
Proof.
  intros m s Hin. unfold atomic_sets in Hin. apply in_map_iff in Hin.
  destruct Hin as [d [<- _]]. destruct d as [i rs]. rewrite closure_unfold. discriminate.
Qed.

(* ------------------------------------------------------------------ mandatory chain *)
Theorem atomic_chain : forall f c,
  In c (children f) -> child_is_mandatory f c = true -> incl (closure c) (closure f).
Proof.
  intros [i rs] c Hc Hm y Hy. rewrite closure_unfold. right.
  unfold children in Hc. cbn [rels] in Hc. apply in_flat_map in Hc. destruct Hc as [r [Hr Hc]].
  apply in_flat_map. exists r. split; [exact Hr|].
  apply in_flat_map. exists c. split; [exact Hc|].
  unfold cl_child. rewrite Hm. exact Hy.
Qed.

(* ------------------------------------------------------------------ co-selection *)
(* a mandatory child of a selected feature is selected *)
Lemma mandatory_selected σ f d :
  sem σ f = true -> child_is_mandatory f d = true -> σ (name d) = true.
Proof.
  destruct f as [i rs]. intros Hsem Hm.
  rewrite sem_unfold in Hsem. apply andb_prop in Hsem. destruct Hsem as [_ Hrs].
  unfold child_is_mandatory, feat_is_mandatory in Hm. cbn [rels] in Hm.
  apply existsb_exists in Hm. destruct Hm as [r [Hr Hm]].
  apply andb_prop in Hm. destruct Hm as [Hman Hin].
  unfold in_children in Hin. apply existsb_exists in Hin. destruct Hin as [c [Hc Heq]].
  apply String.eqb_eq in Heq.
  rewrite forallb_forall in Hrs. specialize (Hrs r Hr).
  assert (Hfa : forces_all r = true) by (unfold forces_all; rewrite Hman; reflexivity).
  destruct (forces_all_selected σ r Hfa Hrs c Hc) as [Hsel _].
  rewrite <- Heq. exact Hsel.
Qed.

(* (A) *)
Lemma closure_selected σ : forall c, sem σ c = true -> forall x, In x (closure c) -> σ x = true.
Proof.
  apply (feature_ind3 (fun c => sem σ c = true -> forall x, In x (closure c) -> σ x = true)).
  intros i rs IH Hsem x Hx.
  pose proof Hsem as Hsem0.
  rewrite sem_unfold in Hsem. apply andb_prop in Hsem. destruct Hsem as [Hroot Hrs].
  rewrite closure_unfold in Hx. destruct Hx as [<- | Hx]; [exact Hroot|].
  apply in_flat_map in Hx. destruct Hx as [r [Hr Hx]].
  apply in_flat_map in Hx. destruct Hx as [d [Hd Hx]].
  unfold cl_child in Hx.
  destruct (child_is_mandatory (Feature i rs) d) eqn:Hm; [|contradiction].
  pose proof (mandatory_selected σ _ d Hsem0 Hm) as Hsel.
  rewrite forallb_forall in Hrs. specialize (Hrs r Hr).
  unfold rel_ok in Hrs. apply andb_prop in Hrs. destruct Hrs as [_ Hcs].
  unfold cs_ok in Hcs. rewrite forallb_forall in Hcs. specialize (Hcs d Hd).
  cbv beta in Hcs. rewrite Hsel in Hcs.
  exact (IH r d Hr Hd Hcs x Hx).
Qed.

(* (B) *)
Lemma none_selected_names σ : forall c,
  none_selected σ c = true -> forall x, In x (names c) -> σ x = false.
Proof.
  apply (feature_ind3 (fun c => none_selected σ c = true -> forall x, In x (names c) -> σ x = false)).
  intros i rs IH Hnone x Hx.
  rewrite none_unfold in Hnone. apply andb_prop in Hnone. destruct Hnone as [Hroot Hrs].
  rewrite names_unfold in Hx. destruct Hx as [<- | Hx]; [apply negb_true_iff; exact Hroot|].
  apply in_flat_map in Hx. destruct Hx as [r [Hr Hx]].
  unfold rnames in Hx. apply in_flat_map in Hx. destruct Hx as [d [Hd Hx]].
  rewrite forallb_forall in Hrs. specialize (Hrs r Hr).
  rewrite forallb_forall in Hrs. specialize (Hrs d Hd).
  exact (IH r d Hr Hd Hrs x Hx).
Qed.

Lemma closure_incl_names : forall c, incl (closure c) (names c).
Proof.
  apply (feature_ind3 (fun c => incl (closure c) (names c))).
  intros i rs IH x Hx. rewrite names_unfold.
  rewrite closure_unfold in Hx. destruct Hx as [<- | Hx]; [left; reflexivity|]. right.
  apply in_flat_map in Hx. destruct Hx as [r [Hr Hx]].
  apply in_flat_map in Hx. destruct Hx as [d [Hd Hx]].
  unfold cl_child in Hx. destruct (child_is_mandatory (Feature i rs) d); [|contradiction].
  apply (in_rnames rs r x Hr). unfold rnames.
  exact (in_names_child _ d x Hd (IH r d Hr Hd x Hx)).
Qed.

(* (C) *)
Definition decided (σ : string -> bool) (d : feature) : Prop :=
  sem σ d = true \/ none_selected σ d = true.

Lemma children_decided σ i rs :
  decided σ (Feature i rs) -> forall r d, In r rs -> In d (r_children r) -> decided σ d.
Proof.
  intros [Hsem | Hnone] r d Hr Hd.
  - rewrite sem_unfold in Hsem. apply andb_prop in Hsem. destruct Hsem as [_ Hrs].
    rewrite forallb_forall in Hrs. specialize (Hrs r Hr).
    unfold rel_ok in Hrs. apply andb_prop in Hrs. destruct Hrs as [_ Hcs].
    unfold cs_ok in Hcs. rewrite forallb_forall in Hcs. specialize (Hcs d Hd).
    cbv beta in Hcs. destruct (σ (name d)); [left | right]; exact Hcs.
  - rewrite none_unfold in Hnone. apply andb_prop in Hnone. destruct Hnone as [_ Hrs].
    rewrite forallb_forall in Hrs. specialize (Hrs r Hr).
    rewrite forallb_forall in Hrs. right. exact (Hrs d Hd).
Qed.

Lemma starters_decided σ : forall f, decided σ f -> forall d, In d (starters f) -> decided σ d.
Proof.
  apply (feature_ind3 (fun f => decided σ f -> forall d, In d (starters f) -> decided σ d)).
  intros i rs IH Hdec d Hd.
  rewrite starters_unfold in Hd.
  apply in_flat_map in Hd. destruct Hd as [r [Hr Hd]].
  apply in_flat_map in Hd. destruct Hd as [c [Hc Hd]].
  pose proof (children_decided σ i rs Hdec r c Hr Hc) as Hdc.
  unfold st_child in Hd. apply in_app_or in Hd. destruct Hd as [Hd | Hd].
  - destruct (child_is_mandatory (Feature i rs) c); [contradiction|].
    destruct Hd as [<- | []]. exact Hdc.
  - exact (IH r c Hr Hc Hdc d Hd).
Qed.

Theorem atomic_coselected : forall m σ s a b,
  sem σ (root m) = true -> In s (atomic_sets m) -> In a s -> In b s -> σ a = σ b.
Proof.
  intros m σ s a b Hsem Hs Ha Hb.
  unfold atomic_sets in Hs. apply in_map_iff in Hs. destruct Hs as [d [<- Hd]].
  assert (Hdec : decided σ d).
  { destruct Hd as [<- | Hd]; [left; exact Hsem|].
    exact (starters_decided σ (root m) (or_introl Hsem) d Hd). }
  destruct Hdec as [Hsd | Hnd].
  - rewrite (closure_selected σ d Hsd a Ha), (closure_selected σ d Hsd b Hb). reflexivity.
  - rewrite (none_selected_names σ d Hnd a (closure_incl_names d a Ha)).
    rewrite (none_selected_names σ d Hnd b (closure_incl_names d b Hb)). reflexivity.
Qed.

Print Assumptions atomic_partition.
Print Assumptions atomic_nonempty.
Print Assumptions atomic_coselected.
Print Assumptions atomic_chain.
