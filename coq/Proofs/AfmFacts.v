(* Proofs/AfmFacts.v — the AFM writer / reader pair (Format/Afm.v):
   C06: reading the syntax tree the writer produced returns the normal form of the model
        (the relations written without a cardinality — one child under (1,1) or (0,1) — first, then the groups,
        a group may have one child; constraints named by their text);
   C02: for EVERY syntax tree the reader accepts, the back pointers are right and every constraint
        has the shape the library consumes. *)
From Coq Require Import List Bool Ascii String ZArith Lia Permutation DecimalString Decimal DecimalZ DecimalPos.
From FM Require Import Base.Result Base.Str Base.AstOp Model.Ast Model.FM Model.PFM Model.Queries
     Gen.Tables_afm Format.Afm Proofs.FMFacts Proofs.QueriesFacts Proofs.JsonFacts.
Import ListNotations.
Local Open Scope string_scope.
Local Open Scope list_scope.

(* ================================================================== Part 2: C02 for the reader *)
Theorem afm_read_ptr_wf : forall d pm, afm_read_cst d = Ok pm -> ptr_wf pm = true.
Proof.
  intros d pm H. unfold afm_read_cst in H.
  destruct (ad_rels d) as [|first others]; [discriminate|].
  match type of H with match ?X with _ => _ end = _ => destruct X as [tree|e]; [|discriminate] end.
  match type of H with match ?X with _ => _ end = _ => destruct X as [tree2|e]; [|discriminate] end.
  match type of H with match ?X with _ => _ end = _ => destruct X as [css|e]; [|discriminate] end.
  inversion H; subst. apply annotate_ptr_wf.
Qed.

Lemma afm_keyword_not_NOT kw o : afm_operator_of_keyword kw = Some o -> astop_eqb o NOT = false.
Proof.
  unfold afm_operator_of_keyword. intros H.
  repeat match type of H with
         | (if ?c then _ else _) = _ => destruct c; [inversion H; reflexivity|]
         end.
  discriminate.
Qed.

Lemma afm_read_expr_shape : forall e prefix n, afm_read_expr prefix e = Ok n -> node_shape_ok n = true.
Proof.
  induction e as [t|t|op a IHa b IHb|a IHa|a IHa]; intros prefix n H; cbn [afm_read_expr] in H.
  - inversion H; reflexivity.
  - inversion H; reflexivity.
  - destruct (afm_operator_of_keyword op) as [o|] eqn:Ho; [|discriminate].
    destruct (afm_read_expr prefix a) as [a'|x] eqn:Ha; [|discriminate].
    destruct (afm_read_expr prefix b) as [b'|x] eqn:Hb; [|discriminate].
    inversion H; subst. unfold bin. cbn [node_shape_ok].
    rewrite (afm_keyword_not_NOT _ _ Ho), (IHa _ _ Ha), (IHb _ _ Hb). reflexivity.
  - destruct (afm_read_expr prefix a) as [a'|x] eqn:Ha; [|discriminate].
    inversion H; subst. unfold un. cbn [node_shape_ok astop_eqb]. exact (IHa _ _ Ha).
  - exact (IHa _ _ H).
Qed.

Definition rd_ctc (c : actc) : result (list ctc) :=
  match c with
  | CSimple e t =>
      match afm_read_expr "" e with
      | Err x => Err x
      | Ok n => Ok [{| c_name := t; c_ast := n |}]
      end
  | CBrackets w l =>
      mapM (fun et => match afm_read_expr (w ++ ".")%string (fst et) with
                      | Err x => Err x
                      | Ok n => Ok {| c_name := snd et; c_ast := n |}
                      end) l
  end.

Lemma rd_ctc_shape c l : rd_ctc c = Ok l -> forallb (fun c => node_shape_ok (c_ast c)) l = true.
Proof.
  destruct c as [e t|w es]; cbn [rd_ctc]; intros H.
  - destruct (afm_read_expr "" e) as [n|x] eqn:He; [|discriminate].
    inversion H; subst. cbn [forallb c_ast]. rewrite (afm_read_expr_shape _ _ _ He). reflexivity.
  - revert l H. induction es as [|[e t] es IH]; intros l H.
    + rewrite mapM_nil in H. inversion H; reflexivity.
    + rewrite mapM_cons in H. cbn [fst snd] in H.
      destruct (afm_read_expr (w ++ ".") e) as [n|x] eqn:He; [|discriminate].
      match type of H with match ?X with _ => _ end = _ => destruct X as [ys|x] eqn:Hys; [|discriminate] end.
      inversion H; subst. cbn [forallb c_ast].
      rewrite (afm_read_expr_shape _ _ _ He), (IH _ eq_refl). reflexivity.
Qed.

Lemma forallb_concat {A} (p : A -> bool) : forall ls,
  Forall (fun l => forallb p l = true) ls -> forallb p (List.concat ls) = true.
Proof.
  induction 1 as [|l ls Hl _ IH]; [reflexivity|].
  cbn [List.concat]. rewrite forallb_app, Hl, IH. reflexivity.
Qed.

Lemma mapM_Forall_out {A B} (f : A -> result B) (P : B -> Prop) :
  (forall x y, f x = Ok y -> P y) -> forall l ys, mapM f l = Ok ys -> Forall P ys.
Proof.
  intros HP l ys H. apply mapM_Forall2 in H.
  induction H as [|x y xs ys' Hx _ IH]; constructor; [exact (HP _ _ Hx)|exact IH].
Qed.

Theorem afm_read_ctc_shape : forall d pm, afm_read_cst d = Ok pm ->
  forallb (fun c => node_shape_ok (c_ast c)) (pctcs pm) = true.
Proof.
  intros d pm H. unfold afm_read_cst in H.
  destruct (ad_rels d) as [|first others]; [discriminate|].
  match type of H with match ?X with _ => _ end = _ => destruct X as [tree|e]; [|discriminate] end.
  match type of H with match ?X with _ => _ end = _ => destruct X as [tree2|e]; [|discriminate] end.
  change (match mapM rd_ctc (match ad_ctcs d with Some l => l | None => [] end) with
          | Err e => Err e
          | Ok css => Ok (annotate_fm {| root := tree2; ctcs := List.concat css |})
          end = Ok pm) in H.
  destruct (mapM rd_ctc _) as [css|e] eqn:Hcss; [|discriminate].
  inversion H; subst. cbn [annotate_fm pctcs ctcs].
  apply forallb_concat.
  exact (mapM_Forall_out rd_ctc _ rd_ctc_shape _ _ Hcss).
Qed.

(* ================================================================== decimal text of integers *)
Lemma string_to_z_to_string z : string_to_z (z_to_string z) = Some z.
Proof.
  unfold string_to_z, z_to_string.
  rewrite NilZero.isi.
  - rewrite DecimalZ.of_to. reflexivity.
  - destruct z as [|p|p]; cbn; try discriminate.
    intros H. inversion H as [H1]. exact (DecimalPos.Unsigned.to_uint_nonnil _ H1).
  - destruct z as [|p|p]; cbn; try discriminate.
    intros H. inversion H as [H1]. exact (DecimalPos.Unsigned.to_uint_nonnil _ H1).
Qed.

Lemma afm_to_int_z z : afm_to_int (z_to_string z) = Ok z.
Proof. unfold afm_to_int. rewrite string_to_z_to_string. reflexivity. Qed.

(* ================================================================== Part 1: the AFM fragment (C06) *)
(* the AFM fragment: unique names; every relation has at least one child and any cardinality 0 <= min, 0 <= max (the
   grammar has no negative integers) — one child under (1,1) / (0,1) is written plain / in brackets, everything else,
   also ONE child under any other cardinality, as a group "[min,max]{...}"; attributes with a domain that is a
   non-empty list of integer ranges (non-negative bounds) or a non-empty list of elements, integer / text values;
   logical constraints over NOT AND OR IMPLIES EQUIVALENCE REQUIRES EXCLUDES with name terms *)
Definition afm_rel_ok (r : relation) : bool :=
  match r_children r with
  | [] => false
  | _ => (0 <=? r_min r)%Z && (0 <=? r_max r)%Z      (* any non-negative cardinality, also for one child *)
  end.
(* a float is carried as its repr and written in its positional spelling (py_positional); a float without one
   (an infinity, NaN) has no AFM text and is outside the fragment.  That the parser side supplies
   repr(float(text)) = repr for the writer's own text is part of the parser premise (validated by suite P-afm).
   (Before the fix of afm_value the clause for VFloat was "true".) *)
Definition afm_val_ok (v : aval) : bool :=
  match v with
  | VInt z => (0 <=? z)%Z
  | VStr _ => true
  | VFloat r => match py_positional r with Some _ => true | None => false end
  | _ => false
  end.
Definition afm_attr_ok (a : attr) : bool :=
  afm_val_ok (a_default a) && afm_val_ok (a_null a) &&
  match a_dom a with
  | Some d => match dom_ranges d, dom_elems d with
              | _ :: _, [] => forallb (fun rg => match rg_min rg, rg_max rg with
                                                 | VInt a1, VInt b1 => (0 <=? a1)%Z && (0 <=? b1)%Z | _, _ => false end) (dom_ranges d)
              | [], _ :: _ => forallb afm_val_ok (dom_elems d)
              | _, _ => false
              end
  | None => false
  end.
Fixpoint afm_feature_ok (f : feature) : bool :=
  match f with Feature i rs =>
    forallb afm_attr_ok (f_attrs i)
    && ftype_eqb (f_type i) TBoolean && (f_cmin i =? 1)%Z && (f_cmax i =? 1)%Z
    && match f_abstract i with VBool false => true | _ => false end
    && forallb afm_rel_ok rs
    && forallb (fun r => match r with Relation _ _ cs => forallb afm_feature_ok cs end) rs end.
Fixpoint afm_node_ok (n : node) : bool :=
  match n with
  | Node (DStr _) None None => true
  | Node (DOp o) l r =>
      op_in o [NOT; AND; OR; IMPLIES; EQUIVALENCE; REQUIRES; EXCLUDES] &&
      (if astop_eqb o NOT then match l, r with Some a, None => afm_node_ok a | _, _ => false end
       else match l, r with Some a, Some b => afm_node_ok a && afm_node_ok b | _, _ => false end)
  | _ => false
  end.
Definition afm_ok (m : fm) : bool :=
  afm_feature_ok (root m) && nodupb (names (root m)) && negb (feat_is_leaf (root m))
  && forallb (fun c => afm_node_ok (c_ast c)) (ctcs m).

(* normal form: in every feature the relations written without a cardinality (one child under (1,1) or (0,1)) come
   first (in their order), then the groups (in their order; a one-child relation with another cardinality is a group);
   every constraint is named by the text the writer wrote for it; the trees of the constraints are unchanged *)
Definition is_single (r : relation) : bool :=
  match r_children r with [_] => rel_is_mandatory r || rel_is_optional r | _ => false end.

(* the same, on the cardinality alone *)
Lemma is_single_card r :
  is_single r =
  match r_children r with
  | [_] => ((r_min r =? 1)%Z && (r_max r =? 1)%Z) || ((r_min r =? 0)%Z && (r_max r =? 1)%Z)
  | _ => false
  end.
Proof.
  destruct r as [a b [|c [|c' cs]]]; unfold is_single, rel_is_mandatory, rel_is_optional, nchildren;
    cbn [r_children r_min r_max List.length]; [reflexivity| |reflexivity].
  change (Z.of_nat 1 =? 1)%Z with true. rewrite !andb_true_r. reflexivity.
Qed.

Lemma is_single_iff r :
  is_single r = true <-> exists c, r = Relation 1 1 [c] \/ r = Relation 0 1 [c].
Proof.
  rewrite is_single_card. destruct r as [a b [|c [|c' cs]]]; cbn [r_children r_min r_max].
  - split; [discriminate|]. intros [c [H|H]]; discriminate.
  - split.
    + intros H. exists c. apply orb_prop in H. destruct H as [H|H]; apply andb_prop in H; destruct H as [Ha Hb];
        apply Z.eqb_eq in Ha, Hb; subst; [left|right]; reflexivity.
    + intros [c0 [H|H]]; inversion H; subst; reflexivity.
  - split; [discriminate|]. intros [c0 [H|H]]; discriminate.
Qed.
Definition reorder (rs : list relation) : list relation :=
  filter is_single rs ++ filter (fun r => negb (is_single r)) rs.
Definition maprel (g : feature -> feature) (r : relation) : relation :=
  match r with Relation a b cs => Relation a b (map g cs) end.

Fixpoint afm_norm_feature (f : feature) : feature :=
  match f with
  | Feature i rs =>
      Feature i (reorder (map (fun r => match r with
                                        | Relation a b cs => Relation a b (map afm_norm_feature cs)
                                        end) rs))
  end.
Definition afm_ctc_name (c : ctc) : string :=
  match afm_expr (c_ast c) with Ok e => afm_render_expr e | Err _ => c_name c end.
Definition afm_norm (m : fm) : fm :=
  {| root := afm_norm_feature (root m);
     ctcs := map (fun c => {| c_name := afm_ctc_name c; c_ast := c_ast c |}) (ctcs m) |}.

(* ------------------------------------------------------------------ a concrete model, tested first *)
Definition ex_attr_r : attr :=
  {| a_name := "cost"; a_dom := Some {| dom_ranges := [{| rg_min := VInt 0; rg_max := VInt 10 |};
                                                       {| rg_min := VInt 20; rg_max := VInt 30 |}];
                                        dom_elems := [] |};
     a_default := VInt 5; a_null := VInt 0 |}.
Definition ex_attr_d : attr :=
  {| a_name := "kind"; a_dom := Some {| dom_ranges := []; dom_elems := [VStr "x"; VInt 3; VStr "y"] |};
     a_default := VStr "x"; a_null := VStr "none" |}.
Definition ex_info (n : string) (ats : list attr) : finfo :=
  {| f_name := n; f_abstract := VBool false; f_type := TBoolean; f_cmin := 1; f_cmax := 1; f_attrs := ats |}.
Definition afm_ex_model : fm :=
  {| root :=
       Feature (ex_info "R" [ex_attr_r])
         [ Relation 1 2 [Feature (ex_info "G1" []) [Relation 0 1 [leaf "G1a"]]; leaf "G2"; leaf "G3"];
           Relation 1 1 [Feature (ex_info "M" [ex_attr_d; ex_attr_r])
                           [Relation 0 0 [leaf "M1"; leaf "M2"];
                            Relation 0 1 [Feature (ex_info "O1" [ex_attr_d]) [Relation 1 1 [leaf "O1a"]]];
                            Relation 3 7 [leaf "M3"; Feature (ex_info "M4" []) [Relation 1 1 [leaf "M4a"]]];
                            Relation 1 1 [leaf "M5"]]];
           Relation 1 1 [leaf "H1"; leaf "H2"];
           Relation 0 1 [leaf "O"] ];
     ctcs := [ {| c_name := "c1"; c_ast := bin IMPLIES (bin AND (term "G2") (un NOT (term "M1"))) (bin OR (term "O") (term "H1")) |};
               {| c_name := "c2"; c_ast := bin REQUIRES (term "M3") (term "G3") |};
               {| c_name := "c3"; c_ast := un NOT (bin EQUIVALENCE (term "H2") (bin EXCLUDES (term "O1a") (un NOT (term "M4a")))) |} ] |}.

Example ex_ok : afm_ok afm_ex_model = true.
Proof. vm_compute. reflexivity. Qed.

Example ex_roundtrip :
  match afm_cst afm_ex_model with
  | Ok d => afm_read_cst d = Ok (annotate_fm (afm_norm afm_ex_model))
  | Err _ => False
  end.
Proof. vm_compute. reflexivity. Qed.

Example ex_moved : afm_norm afm_ex_model <> afm_ex_model.
Proof. vm_compute. discriminate. Qed.

(* a second model, with ONE-child groups: (2,2), (0,3), (0,0), (1,0), (5,1) over one child, next to plain (1,1) / (0,1)
   children and a two-child group; one-child groups at the root and below *)
Definition afm_ex_model1 : fm :=
  {| root :=
       Feature (ex_info "R" [ex_attr_r])
         [ Relation 2 2 [leaf "A"];
           Relation 1 1 [leaf "B"];
           Relation 0 3 [leaf "C"];
           Relation 1 2 [leaf "D";
                         Feature (ex_info "E" [ex_attr_d])
                           [Relation 0 0 [leaf "E1"];
                            Relation 0 1 [leaf "E2"];
                            Relation 1 0 [Feature (ex_info "E3" []) [Relation 5 1 [leaf "E3a"]]]]];
           Relation 0 1 [leaf "F"] ];
     ctcs := [ {| c_name := "k1"; c_ast := bin IMPLIES (term "A") (bin OR (term "C") (term "E3a")) |} ] |}.

Example ex1_ok : afm_ok afm_ex_model1 = true.
Proof. vm_compute. reflexivity. Qed.

Example ex1_roundtrip :
  match afm_cst afm_ex_model1 with
  | Ok d => afm_read_cst d = Ok (annotate_fm (afm_norm afm_ex_model1))
  | Err _ => False
  end.
Proof. vm_compute. reflexivity. Qed.

(* the one-child groups are written with their cardinality *)
Example ex1_lines :
  match afm_cst afm_ex_model1 with
  | Ok d => ad_rels d =
            [ {| rs_parent := "R";
                 rs_items := [IGroup "2" "2" ["A"]; ISingle false "B"; IGroup "0" "3" ["C"]; IGroup "1" "2" ["D"; "E"];
                              ISingle true "F"] |};
              {| rs_parent := "E"; rs_items := [IGroup "0" "0" ["E1"]; ISingle true "E2"; IGroup "1" "0" ["E3"]] |};
              {| rs_parent := "E3"; rs_items := [IGroup "5" "1" ["E3a"]] |} ]
  | Err _ => False
  end.
Proof. vm_compute. reflexivity. Qed.

(* in the normal form a one-child GROUP sorts with the groups, after the plain children *)
Example ex1_norm_order :
  map (fun r => (r_min r, r_max r, map name (r_children r))) (rels (root (afm_norm afm_ex_model1)))
  = [ (1, 1, ["B"]); (0, 1, ["F"]); (2, 2, ["A"]); (0, 3, ["C"]); (1, 2, ["D"; "E"]) ]%Z.
Proof. vm_compute. reflexivity. Qed.

Example ex1_moved : afm_norm afm_ex_model1 <> afm_ex_model1.
Proof. vm_compute. discriminate. Qed.

(* ------------------------------------------------------------------ list helpers *)
Lemma filter_map_comm {A B} (p : B -> bool) (g : A -> B) : forall l,
  filter p (map g l) = map g (filter (fun x => p (g x)) l).
Proof.
  induction l as [|x l IH]; [reflexivity|]. cbn [map filter].
  destruct (p (g x)); cbn [map]; rewrite IH; reflexivity.
Qed.

Lemma filter_ext' {A} (p q : A -> bool) : (forall x, p x = q x) -> forall l, filter p l = filter q l.
Proof.
  intros Hpq. induction l as [|x l IH]; [reflexivity|]. cbn [filter]. rewrite Hpq, IH. reflexivity.
Qed.

Lemma filter_filter_same {A} (p : A -> bool) : forall l, filter p (filter p l) = filter p l.
Proof.
  induction l as [|x l IH]; [reflexivity|]. cbn [filter].
  destruct (p x) eqn:Hx; [cbn [filter]; rewrite Hx, IH; reflexivity|exact IH].
Qed.

Lemma filter_filter_neg {A} (p : A -> bool) : forall l, filter p (filter (fun x => negb (p x)) l) = [].
Proof.
  induction l as [|x l IH]; [reflexivity|]. cbn [filter].
  destruct (p x) eqn:Hx; cbn [negb]; [exact IH|]. cbn [filter]. rewrite Hx. exact IH.
Qed.

Lemma filter_neg_filter {A} (p : A -> bool) : forall l, filter (fun x => negb (p x)) (filter p l) = [].
Proof.
  induction l as [|x l IH]; [reflexivity|]. cbn [filter].
  destruct (p x) eqn:Hx; [|exact IH]. cbn [filter]. rewrite Hx. cbn [negb]. exact IH.
Qed.

Lemma filter_partition_perm {A} (p : A -> bool) : forall l,
  Permutation (filter p l ++ filter (fun x => negb (p x)) l) l.
Proof.
  induction l as [|x l IH]; [constructor|]. cbn [filter].
  destruct (p x); cbn [negb].
  - cbn [app]. constructor. exact IH.
  - apply Permutation_sym. apply Permutation_cons_app. apply Permutation_sym. exact IH.
Qed.

Lemma flat_map_perm_pointwise {A B} (f g : A -> list B) : forall l,
  (forall x, In x l -> Permutation (f x) (g x)) -> Permutation (flat_map f l) (flat_map g l).
Proof.
  induction l as [|x l IH]; intros H; [constructor|]. cbn [flat_map].
  apply Permutation_app; [apply H; left; reflexivity|apply IH; intros y Hy; apply H; right; exact Hy].
Qed.

Lemma flat_map_map {A B C} (g : A -> B) (f : B -> list C) : forall l,
  flat_map f (map g l) = flat_map (fun x => f (g x)) l.
Proof. induction l as [|x l IH]; [reflexivity|]. cbn [map flat_map]. rewrite IH. reflexivity. Qed.

Lemma map_flat_map {A B C} (f : A -> list B) (g : B -> C) : forall l,
  map g (flat_map f l) = flat_map (fun x => map g (f x)) l.
Proof. induction l as [|x l IH]; [reflexivity|]. cbn [flat_map]. rewrite map_app, IH. reflexivity. Qed.

Lemma flat_map_flat_map {A B C} (f : A -> list B) (g : B -> list C) : forall l,
  flat_map g (flat_map f l) = flat_map (fun x => flat_map g (f x)) l.
Proof. induction l as [|x l IH]; [reflexivity|]. cbn [flat_map]. rewrite flat_map_app', IH. reflexivity. Qed.

Lemma flat_map_ext_in {A B} (f g : A -> list B) : forall l,
  (forall x, In x l -> f x = g x) -> flat_map f l = flat_map g l.
Proof.
  induction l as [|x l IH]; intros H; [reflexivity|]. cbn [flat_map].
  rewrite (H x (or_introl eq_refl)), IH; [reflexivity|]. intros y Hy; apply H; right; exact Hy.
Qed.

Lemma map_ext_Forall {A B} (f g : A -> B) : forall l, Forall (fun x => f x = g x) l -> map f l = map g l.
Proof. induction 1 as [|x l Hx _ IH]; [reflexivity|]. cbn [map]. rewrite Hx, IH. reflexivity. Qed.

(* ------------------------------------------------------------------ the normal form *)
Lemma is_single_maprel g r : is_single (maprel g r) = is_single r.
Proof. rewrite !is_single_card. destruct r as [a b [|c [|c' cs]]]; reflexivity. Qed.

Lemma reorder_perm rs : Permutation (reorder rs) rs.
Proof. apply filter_partition_perm. Qed.

Lemma reorder_map g rs : reorder (map (maprel g) rs) = map (maprel g) (reorder rs).
Proof.
  unfold reorder. rewrite map_app, !filter_map_comm. f_equal.
  - f_equal. apply filter_ext'. intros r. apply is_single_maprel.
  - f_equal. apply filter_ext'. intros r. rewrite is_single_maprel. reflexivity.
Qed.

Lemma reorder_idem rs : reorder (reorder rs) = reorder rs.
Proof.
  unfold reorder. rewrite !filter_app.
  rewrite filter_filter_same, filter_filter_neg, app_nil_r.
  rewrite filter_neg_filter. cbn [app].
  rewrite (filter_filter_same (fun r => negb (is_single r))). reflexivity.
Qed.

Lemma in_reorder r rs : In r (reorder rs) <-> In r rs.
Proof.
  split; intros H.
  - exact (Permutation_in _ (reorder_perm rs) H).
  - exact (Permutation_in _ (Permutation_sym (reorder_perm rs)) H).
Qed.

Lemma afm_norm_feature_eq i rs :
  afm_norm_feature (Feature i rs) = Feature i (reorder (map (maprel afm_norm_feature) rs)).
Proof. reflexivity. Qed.

Lemma info_norm f : info (afm_norm_feature f) = info f.
Proof. destruct f; reflexivity. Qed.
Lemma name_norm f : name (afm_norm_feature f) = name f.
Proof. destruct f; reflexivity. Qed.

Lemma names_eq i rs :
  names (Feature i rs) = f_name i :: flat_map (fun r => flat_map names (r_children r)) rs.
Proof.
  unfold names. cbn [subfeatures map name info]. f_equal.
  rewrite map_flat_map. apply flat_map_ext_in. intros [a b cs] _. cbn [r_children].
  rewrite map_flat_map. reflexivity.
Qed.

Lemma afm_norm_feature_names : forall f, Permutation (names (afm_norm_feature f)) (names f).
Proof.
  apply (feature_ind2 (fun f => Permutation (names (afm_norm_feature f)) (names f))
           (fun r => Forall (fun c => Permutation (names (afm_norm_feature c)) (names c)) (r_children r))).
  - intros i rs IH. rewrite afm_norm_feature_eq, !names_eq. constructor.
    etransitivity; [apply Permutation_flat_map, reorder_perm|].
    rewrite flat_map_map. apply flat_map_perm_pointwise. intros [a b cs] Hr.
    rewrite Forall_forall in IH. specialize (IH _ Hr). cbn [r_children maprel] in *.
    rewrite flat_map_map. apply flat_map_perm_pointwise. intros c Hc.
    rewrite Forall_forall in IH. exact (IH _ Hc).
  - intros a b cs IH. exact IH.
Qed.

Theorem afm_norm_names : forall m, Permutation (names (root (afm_norm m))) (names (root m)).
Proof. intros m. apply afm_norm_feature_names. Qed.

Theorem afm_norm_constraints : forall m, map c_ast (ctcs (afm_norm m)) = map c_ast (ctcs m).
Proof. intros m. cbn [afm_norm ctcs]. rewrite map_map. reflexivity. Qed.

(* every relation of the sub-tree as (owner name, child names, min, max) *)
Fixpoint subrelations_keys (f : feature) : list (string * list string * Z * Z) :=
  match f with
  | Feature i rs =>
      flat_map (fun r => match r with
                         | Relation a b cs => (f_name i, map name cs, a, b) :: flat_map subrelations_keys cs
                         end) rs
  end.

Theorem afm_norm_relations : forall f, Permutation (subrelations_keys (afm_norm_feature f)) (subrelations_keys f).
Proof.
  apply (feature_ind2 (fun f => Permutation (subrelations_keys (afm_norm_feature f)) (subrelations_keys f))
           (fun r => Forall (fun c => Permutation (subrelations_keys (afm_norm_feature c)) (subrelations_keys c))
                            (r_children r))).
  - intros i rs IH. rewrite afm_norm_feature_eq. cbn [subrelations_keys].
    etransitivity; [apply Permutation_flat_map, reorder_perm|].
    rewrite flat_map_map. apply flat_map_perm_pointwise. intros [a b cs] Hr.
    rewrite Forall_forall in IH. specialize (IH _ Hr). cbn [r_children maprel] in *.
    rewrite map_map. rewrite (map_ext _ name name_norm). constructor.
    rewrite flat_map_map. apply flat_map_perm_pointwise. intros c Hc.
    rewrite Forall_forall in IH. exact (IH _ Hc).
  - intros a b cs IH. exact IH.
Qed.

Lemma afm_norm_feature_idem : forall f, afm_norm_feature (afm_norm_feature f) = afm_norm_feature f.
Proof.
  apply (feature_ind2 (fun f => afm_norm_feature (afm_norm_feature f) = afm_norm_feature f)
           (fun r => Forall (fun c => afm_norm_feature (afm_norm_feature c) = afm_norm_feature c) (r_children r))).
  - intros i rs IH. rewrite !afm_norm_feature_eq. f_equal.
    rewrite reorder_map, reorder_idem, <- reorder_map. f_equal.
    rewrite map_map. apply map_ext_Forall.
    induction IH as [|r rs' Hr _ IHrs]; constructor; [|exact IHrs].
    destruct r as [a b cs]. cbn [maprel r_children] in *. f_equal.
    rewrite map_map. apply map_ext_Forall. exact Hr.
  - intros a b cs IH. exact IH.
Qed.

(* ------------------------------------------------------------------ the constraint round trip *)
Lemma afm_read_paren x ex : afm_read_expr "" (if is_op x then EParen ex else ex) = afm_read_expr "" ex.
Proof. destruct (is_op x); reflexivity. Qed.

(* outside a block (empty prefix) a name is read as it stands, whatever its first character *)
Lemma afm_read_var_top s : afm_read_expr "" (EVar s) = Ok (term s).
Proof.
  cbn [afm_read_expr]. destruct s as [|c s']; [reflexivity|].
  destruct (is_lower c); reflexivity.
Qed.

Lemma afm_expr_roundtrip : forall n, afm_node_ok n = true ->
  exists e, afm_expr n = Ok e /\ afm_read_expr "" e = Ok n.
Proof.
  induction n as [d|d a IHa|d b IHb|d a b IHa IHb] using node_ind2; intros Hok.
  - destruct d as [o|s|z|r|bb]; cbn [afm_node_ok] in Hok; try discriminate.
    + destruct (astop_eqb o NOT); rewrite andb_false_r in Hok; discriminate.
    + exists (EVar s). split; [reflexivity|exact (afm_read_var_top s)].
  - destruct d as [o|s|z|r|bb]; cbn [afm_node_ok] in Hok; try discriminate.
    apply andb_prop in Hok. destruct Hok as [_ Hok].
    destruct o; cbn [astop_eqb] in Hok; try discriminate.
    destruct (IHa Hok) as [ea [Hea Hra]].
    exists (ENot (if is_op a then EParen ea else ea)). split.
    + cbn [afm_expr afm_operator astop_eqb]. rewrite Hea. reflexivity.
    + cbn [afm_read_expr]. rewrite afm_read_paren, Hra. reflexivity.
  - destruct d as [o|s|z|r|bb]; cbn [afm_node_ok] in Hok; try discriminate.
    destruct (astop_eqb o NOT); rewrite andb_false_r in Hok; discriminate.
  - destruct d as [o|s|z|r|bb]; cbn [afm_node_ok] in Hok; try discriminate.
    apply andb_prop in Hok. destruct Hok as [Hin Hok].
    destruct o; cbn [astop_eqb] in Hok; try discriminate; cbn in Hin; try discriminate;
      apply andb_prop in Hok; destruct Hok as [Hoa Hob];
      destruct (IHa Hoa) as [ea [Hea Hra]]; destruct (IHb Hob) as [eb [Heb Hrb]];
      (eexists; split;
       [cbn [afm_expr afm_operator astop_eqb]; rewrite Hea, Heb; reflexivity
       |cbn [afm_read_expr]; rewrite !afm_read_paren, Hra, Hrb; reflexivity]).
Qed.

Lemma afm_ctcs_roundtrip : forall cs, forallb (fun c => afm_node_ok (c_ast c)) cs = true ->
  exists l,
    mapM (fun c => match afm_expr (c_ast c) with
                   | Err e => Err e
                   | Ok ex => Ok (CSimple ex (afm_render_expr ex))
                   end) cs = Ok l
    /\ mapM rd_ctc l = Ok (map (fun c => [{| c_name := afm_ctc_name c; c_ast := c_ast c |}]) cs).
Proof.
  induction cs as [|c cs IH]; intros Hok.
  - exists []. split; reflexivity.
  - cbn [forallb] in Hok. apply andb_prop in Hok. destruct Hok as [Hc Hcs].
    destruct (IH Hcs) as [l [Hl Hrl]].
    destruct (afm_expr_roundtrip _ Hc) as [e [He Hre]].
    exists (CSimple e (afm_render_expr e) :: l). split.
    + rewrite mapM_cons, He, Hl. reflexivity.
    + rewrite mapM_cons. cbn [rd_ctc]. rewrite Hre, Hrl. cbn [map]. unfold afm_ctc_name. rewrite He. reflexivity.
Qed.

Lemma concat_map_singleton {A B} (g : A -> B) : forall l, List.concat (map (fun x => [g x]) l) = map g l.
Proof. induction l as [|x l IH]; [reflexivity|]. cbn [map List.concat app]. rewrite IH. reflexivity. Qed.

(* ------------------------------------------------------------------ the normal form is in the fragment, and is a fixpoint *)
Lemma NoDup_nodupb l : NoDup l -> nodupb l = true.
Proof.
  induction 1 as [|x l Hx _ IH]; [reflexivity|]. cbn [nodupb]. rewrite IH, andb_true_r.
  apply negb_true_iff. destruct (list_existsb_eq x l) eqn:He; [|reflexivity].
  exfalso. apply Hx. clear -He. induction l as [|y l IH]; cbn [list_existsb_eq] in He; [discriminate|].
  apply orb_prop in He. destruct He as [He|He]; [left; symmetry; apply String.eqb_eq; exact He|right; exact (IH He)].
Qed.

Lemma forallb_perm {A} (p : A -> bool) l l' : Permutation l l' -> forallb p l = true -> forallb p l' = true.
Proof.
  intros HP H. rewrite forallb_forall in *. intros x Hx. apply H.
  exact (Permutation_in _ (Permutation_sym HP) Hx).
Qed.

Lemma afm_rel_ok_maprel g r : (forall c, name (g c) = name c) -> afm_rel_ok (maprel g r) = afm_rel_ok r.
Proof. intros _. destruct r as [a b [|c [|c' cs]]]; reflexivity. Qed.

Lemma afm_feature_ok_eq i rs :
  afm_feature_ok (Feature i rs) =
  forallb afm_attr_ok (f_attrs i)
  && ftype_eqb (f_type i) TBoolean && (f_cmin i =? 1)%Z && (f_cmax i =? 1)%Z
  && match f_abstract i with VBool false => true | _ => false end
  && forallb afm_rel_ok rs
  && forallb (fun r => forallb afm_feature_ok (r_children r)) rs.
Proof.
  cbn [afm_feature_ok]. f_equal. apply forallb_ext'. intros [a b cs]. reflexivity.
Qed.

Lemma afm_feature_ok_norm : forall f, afm_feature_ok f = true -> afm_feature_ok (afm_norm_feature f) = true.
Proof.
  apply (feature_ind2 (fun f => afm_feature_ok f = true -> afm_feature_ok (afm_norm_feature f) = true)
           (fun r => Forall (fun c => afm_feature_ok c = true -> afm_feature_ok (afm_norm_feature c) = true)
                            (r_children r))).
  - intros i rs IH Hok. rewrite afm_norm_feature_eq. rewrite afm_feature_ok_eq in *.
    apply andb_prop in Hok. destruct Hok as [Hok Hch]. apply andb_prop in Hok. destruct Hok as [Hinfo Hrels].
    rewrite Hinfo. cbn [andb].
    apply andb_true_intro. split.
    + apply (forallb_perm _ _ _ (Permutation_sym (reorder_perm _))).
      rewrite forallb_forall in *. intros r Hr. apply in_map_iff in Hr. destruct Hr as [r0 [<- Hr0]].
      rewrite afm_rel_ok_maprel; [exact (Hrels _ Hr0)|exact name_norm].
    + apply (forallb_perm _ _ _ (Permutation_sym (reorder_perm _))).
      rewrite forallb_forall in *. intros r Hr. apply in_map_iff in Hr. destruct Hr as [r0 [<- Hr0]].
      specialize (Hch _ Hr0). rewrite Forall_forall in IH. specialize (IH _ Hr0).
      destruct r0 as [a b cs]. cbn [maprel r_children] in *.
      rewrite forallb_forall in *. intros c Hc. apply in_map_iff in Hc. destruct Hc as [c0 [<- Hc0]].
      rewrite Forall_forall in IH. exact (IH _ Hc0 (Hch _ Hc0)).
  - intros a b cs IH. exact IH.
Qed.

Theorem afm_norm_ok : forall m, afm_ok m = true -> afm_ok (afm_norm m) = true.
Proof.
  intros m H. unfold afm_ok in *.
  apply andb_prop in H. destruct H as [H Hc]. apply andb_prop in H. destruct H as [H Hl].
  apply andb_prop in H. destruct H as [Hf Hn].
  cbn [afm_norm root ctcs].
  rewrite (afm_feature_ok_norm _ Hf). cbn [andb].
  apply andb_true_intro. split; [apply andb_true_intro; split|].
  - apply NoDup_nodupb. apply (Permutation_NoDup (Permutation_sym (afm_norm_feature_names _))).
    apply nodupb_NoDup. exact Hn.
  - destruct (root m) as [i rs]. rewrite afm_norm_feature_eq. unfold feat_is_leaf in *. cbn [rels] in *.
    rewrite (Permutation_length (reorder_perm _)), map_length. exact Hl.
  - rewrite forallb_forall in *. intros c Hin. apply in_map_iff in Hin. destruct Hin as [c0 [<- Hc0]].
    cbn [c_ast]. exact (Hc _ Hc0).
Qed.

Lemma afm_norm_idem : forall m, afm_norm (afm_norm m) = afm_norm m.
Proof.
  intros m. unfold afm_norm. cbn [root ctcs]. rewrite afm_norm_feature_idem. f_equal.
  rewrite map_map. apply map_ext. intros c. unfold afm_ctc_name. cbn [c_ast c_name].
  destruct (afm_expr (c_ast c)); reflexivity.
Qed.

Theorem afm_norm_idempotent : forall m, afm_ok m = true -> afm_norm (afm_norm m) = afm_norm m.
Proof. intros m _. apply afm_norm_idem. Qed.

(* ================================================================== tree toolkit *)
Lemma names_children f : names f = name f :: flat_map names (children f).
Proof.
  destruct f as [i rs]. rewrite names_eq. unfold children. cbn [rels name info].
  rewrite flat_map_flat_map. reflexivity.
Qed.

Lemma in_children_iff i rs c : In c (children (Feature i rs)) <-> exists r, In r rs /\ In c (r_children r).
Proof. unfold children. cbn [rels]. apply in_flat_map. Qed.

Lemma feature_ind_children (P : feature -> Prop) :
  (forall f, (forall c, In c (children f) -> P c) -> P f) -> forall f, P f.
Proof.
  intros H. apply (feature_ind2 P (fun r => Forall P (r_children r))).
  - intros i rs IH. apply H. intros c Hc. apply in_children_iff in Hc. destruct Hc as [r [Hr Hc]].
    rewrite Forall_forall in IH. specialize (IH _ Hr). rewrite Forall_forall in IH. exact (IH _ Hc).
  - intros a b cs IH. exact IH.
Qed.

Lemma subfeatures_children f : subfeatures f = f :: flat_map subfeatures (children f).
Proof.
  destruct f as [i rs]. cbn [subfeatures]. f_equal. unfold children. cbn [rels].
  rewrite flat_map_flat_map. apply flat_map_ext_in. intros [a b cs] _. reflexivity.
Qed.

Lemma in_subfeatures_inv f g :
  In g (subfeatures f) -> g = f \/ exists c, In c (children f) /\ In g (subfeatures c).
Proof.
  rewrite subfeatures_children. intros [H|H]; [left; symmetry; exact H|right].
  apply in_flat_map in H. exact H.
Qed.

Lemma in_names_inv f x :
  In x (names f) <-> x = name f \/ exists c, In c (children f) /\ In x (names c).
Proof.
  rewrite names_children. split.
  - intros [H|H]; [left; symmetry; exact H|right]. apply in_flat_map in H. exact H.
  - intros [H|H]; [left; symmetry; exact H|right]. apply in_flat_map. exact H.
Qed.

Lemma name_in_names f : In (name f) (names f).
Proof. rewrite names_children. left. reflexivity. Qed.

Lemma subfeatures_names_incl : forall f g, In g (subfeatures f) -> forall x, In x (names g) -> In x (names f).
Proof.
  induction f as [f IH] using feature_ind_children. intros g Hg x Hx.
  destruct (in_subfeatures_inv _ _ Hg) as [->|[c [Hc Hgc]]]; [exact Hx|].
  apply in_names_inv. right. exists c. split; [exact Hc|]. exact (IH c Hc g Hgc x Hx).
Qed.

Lemma NoDup_app_l {A} (l1 l2 : list A) : NoDup (l1 ++ l2) -> NoDup l1.
Proof.
  induction l1 as [|x l1 IH]; intros H; [constructor|]. cbn [app] in H. inversion H as [|y l Hx Hl]; subst.
  constructor; [intro Hin; apply Hx; apply in_or_app; left; exact Hin|exact (IH Hl)].
Qed.
Lemma NoDup_app_r {A} (l1 l2 : list A) : NoDup (l1 ++ l2) -> NoDup l2.
Proof.
  induction l1 as [|x l1 IH]; intros H; [exact H|]. cbn [app] in H. inversion H; subst. apply IH; assumption.
Qed.
Lemma NoDup_app_disj {A} (l1 l2 : list A) x : NoDup (l1 ++ l2) -> In x l1 -> In x l2 -> False.
Proof.
  induction l1 as [|y l1 IH]; intros H H1 H2; [contradiction|]. cbn [app] in H. inversion H as [|z l Hy Hl]; subst.
  destruct H1 as [->|H1]; [apply Hy; apply in_or_app; right; exact H2|exact (IH Hl H1 H2)].
Qed.

Lemma NoDup_flat_map_component {A B} (g : A -> list B) : forall l a,
  NoDup (flat_map g l) -> In a l -> NoDup (g a).
Proof.
  induction l as [|y l IH]; intros a H Ha; [contradiction|]. cbn [flat_map] in H.
  destruct Ha as [->|Ha]; [exact (NoDup_app_l _ _ H)|exact (IH _ (NoDup_app_r _ _ H) Ha)].
Qed.

Lemma NoDup_flat_map_shared {A B} (g : A -> list B) : forall l a b x,
  NoDup (flat_map g l) -> In a l -> In b l -> In x (g a) -> In x (g b) -> a = b.
Proof.
  induction l as [|y l IH]; intros a b x H Ha Hb Hxa Hxb; [contradiction|]. cbn [flat_map] in H.
  destruct Ha as [->|Ha]; destruct Hb as [->|Hb].
  - reflexivity.
  - exfalso. apply (NoDup_app_disj _ _ x H Hxa). apply in_flat_map. exists b. split; assumption.
  - exfalso. apply (NoDup_app_disj _ _ x H Hxb). apply in_flat_map. exists a. split; assumption.
  - exact (IH _ _ _ (NoDup_app_r _ _ H) Ha Hb Hxa Hxb).
Qed.

Lemma NoDup_names_children f : NoDup (names f) ->
  ~ In (name f) (flat_map names (children f)) /\ NoDup (flat_map names (children f)).
Proof. rewrite names_children. intros H. inversion H; subst. split; assumption. Qed.

Lemma NoDup_names_child f c : NoDup (names f) -> In c (children f) -> NoDup (names c).
Proof.
  intros H Hc. destruct (NoDup_names_children _ H) as [_ H2].
  exact (NoDup_flat_map_component _ _ _ H2 Hc).
Qed.

Lemma NoDup_names_sub : forall f g, NoDup (names f) -> In g (subfeatures f) -> NoDup (names g).
Proof.
  induction f as [f IH] using feature_ind_children. intros g Hnd Hg.
  destruct (in_subfeatures_inv _ _ Hg) as [->|[c [Hc Hgc]]]; [exact Hnd|].
  exact (IH c Hc g (NoDup_names_child _ _ Hnd Hc) Hgc).
Qed.

Lemma name_not_in_child f c : NoDup (names f) -> In c (children f) -> ~ In (name f) (names c).
Proof.
  intros H Hc Hin. destruct (NoDup_names_children _ H) as [H1 _]. apply H1.
  apply in_flat_map. exists c. split; assumption.
Qed.

Lemma children_shared f c c' x : NoDup (names f) -> In c (children f) -> In c' (children f) ->
  In x (names c) -> In x (names c') -> c = c'.
Proof.
  intros H. destruct (NoDup_names_children _ H) as [_ H2]. exact (NoDup_flat_map_shared _ _ _ _ _ H2).
Qed.

(* in a tree with unique names a sub-feature is determined by its name *)
Lemma sub_by_name : forall f g h, NoDup (names f) -> In g (subfeatures f) -> In h (subfeatures f) ->
  name g = name h -> g = h.
Proof.
  intros f g h Hnd Hg Hh Hn. unfold names in Hnd.
  revert Hnd Hg Hh. generalize (subfeatures f) as l. induction l as [|y l IH]; intros Hnd Hg Hh; [contradiction|].
  cbn [map] in Hnd. inversion Hnd as [|z l' Hy Hl]; subst.
  destruct Hg as [->|Hg]; destruct Hh as [->|Hh].
  - reflexivity.
  - exfalso. apply Hy. rewrite Hn. apply in_map. exact Hh.
  - exfalso. apply Hy. rewrite <- Hn. apply in_map. exact Hg.
  - exact (IH Hl Hg Hh).
Qed.

Lemma self_sub f : In f (subfeatures f).
Proof. rewrite subfeatures_children. left. reflexivity. Qed.

Lemma child_sub f c : In c (children f) -> In c (subfeatures f).
Proof.
  intros Hc. rewrite subfeatures_children. right. apply in_flat_map. exists c. split; [exact Hc|apply self_sub].
Qed.

Lemma sub_trans : forall f g h, In g (subfeatures f) -> In h (subfeatures g) -> In h (subfeatures f).
Proof.
  induction f as [f IH] using feature_ind_children. intros g h Hg Hh.
  destruct (in_subfeatures_inv _ _ Hg) as [->|[c [Hc Hgc]]]; [exact Hh|].
  rewrite subfeatures_children. right. apply in_flat_map. exists c. split; [exact Hc|].
  exact (IH c Hc g h Hgc Hh).
Qed.

Lemma mem_In x l : list_existsb_eq x l = true <-> In x l.
Proof.
  induction l as [|y l IH]; cbn [list_existsb_eq In]; [split; [discriminate|contradiction]|].
  rewrite orb_true_iff, IH, String.eqb_eq. split; (intros [H|H]; [left; symmetry; exact H|right; exact H]).
Qed.
Lemma mem_not_In x l : list_existsb_eq x l = false <-> ~ In x l.
Proof. rewrite <- mem_In. destruct (list_existsb_eq x l); split; congruence. Qed.

(* ------------------------------------------------------------------ the by-name traversal of add_rels / add_attr *)
Fixpoint goc_gen (rec : feature -> option feature) (cpre cpost : list feature) : option (list feature) :=
  match cpost with
  | [] => None
  | c :: crest =>
      match rec c with
      | Some c' => Some (cpre ++ c' :: crest)
      | None => goc_gen rec (cpre ++ [c]) crest
      end
  end.
Fixpoint go_gen (rec : feature -> option feature) (i : finfo) (pre post : list relation) : option feature :=
  match post with
  | [] => None
  | Relation a b cs :: rest =>
      match goc_gen rec [] cs with
      | Some cs' => Some (Feature i (pre ++ Relation a b cs' :: rest))
      | None => go_gen rec i (pre ++ [Relation a b cs]) rest
      end
  end.

Lemma add_rels_eq target new i rs :
  add_rels target new (Feature i rs) =
  if String.eqb (f_name i) target then Some (Feature i (rs ++ new))
  else go_gen (add_rels target new) i [] rs.
Proof.
  cbn [add_rels]. destruct (String.eqb (f_name i) target); [reflexivity|].
  match goal with
  | |- ?G [] rs = _ => assert (H : forall rs0 pre, G pre rs0 = go_gen (add_rels target new) i pre rs0); [|apply H]
  end.
  induction rs0 as [|[a b cs] rs0 IH]; intros pre; [reflexivity|].
  cbn [go_gen].
  match goal with
  | |- match ?G [] cs with _ => _ end = _ =>
      assert (E : forall cs0 cpre, G cpre cs0 = goc_gen (add_rels target new) cpre cs0)
  end.
  { induction cs0 as [|c cs0 IHc]; intros cpre; [reflexivity|].
    cbn [goc_gen]. destruct (add_rels target new c); [reflexivity|apply IHc]. }
  rewrite E. destruct (goc_gen (add_rels target new) [] cs); [reflexivity|apply IH].
Qed.

Definition push_attr (a : attr) (i : finfo) : finfo :=
  {| f_name := f_name i; f_abstract := f_abstract i; f_type := f_type i;
     f_cmin := f_cmin i; f_cmax := f_cmax i; f_attrs := f_attrs i ++ [a] |}.

Lemma add_attr_eq target a i rs :
  add_attr target a (Feature i rs) =
  if String.eqb (f_name i) target then Some (Feature (push_attr a i) rs)
  else go_gen (add_attr target a) i [] rs.
Proof.
  cbn [add_attr]. destruct (String.eqb (f_name i) target); [reflexivity|].
  match goal with
  | |- ?G [] rs = _ => assert (H : forall rs0 pre, G pre rs0 = go_gen (add_attr target a) i pre rs0); [|apply H]
  end.
  induction rs0 as [|[x y cs] rs0 IH]; intros pre; [reflexivity|].
  cbn [go_gen].
  match goal with
  | |- match ?G [] cs with _ => _ end = _ =>
      assert (E : forall cs0 cpre, G cpre cs0 = goc_gen (add_attr target a) cpre cs0)
  end.
  { induction cs0 as [|c cs0 IHc]; intros cpre; [reflexivity|].
    cbn [goc_gen]. destruct (add_attr target a c); [reflexivity|apply IHc]. }
  rewrite E. destruct (goc_gen (add_attr target a) [] cs); [reflexivity|apply IH].
Qed.

Section GoSpec.
  Variable rec : feature -> option feature.
  Variables c1 c2 : feature -> feature.
  Variable p : feature -> bool.
  Variable n : string.
  Hypothesis p_names : forall c, p c = true -> In n (names c).

  Lemma goc_spec : forall cs cpre,
    NoDup (flat_map names cs) ->
    (forall c, In c cs -> p c = false -> rec (c1 c) = None /\ c1 c = c2 c) ->
    (forall c, In c cs -> p c = true -> rec (c1 c) = Some (c2 c)) ->
    goc_gen rec cpre (map c1 cs) = (if existsb p cs then Some (cpre ++ map c2 cs) else None)
    /\ (existsb p cs = false -> map c1 cs = map c2 cs).
  Proof.
    induction cs as [|c cs IH]; intros cpre Hnd Hn Hy.
    - split; reflexivity.
    - cbn [flat_map] in Hnd. cbn [map goc_gen existsb].
      assert (Hn' : forall c0, In c0 cs -> p c0 = false -> rec (c1 c0) = None /\ c1 c0 = c2 c0)
        by (intros c0 H0; apply Hn; right; exact H0).
      assert (Hy' : forall c0, In c0 cs -> p c0 = true -> rec (c1 c0) = Some (c2 c0))
        by (intros c0 H0; apply Hy; right; exact H0).
      destruct (IH (cpre ++ [c1 c]) (NoDup_app_r _ _ Hnd) Hn' Hy') as [IH1 IH2].
      destruct (p c) eqn:Hpc.
      + rewrite (Hy c (or_introl eq_refl) Hpc). cbn [orb]. split; [|discriminate].
        assert (Hex : existsb p cs = false).
        { destruct (existsb p cs) eqn:Hex; [|reflexivity]. exfalso.
          apply existsb_exists in Hex. destruct Hex as [c0 [Hc0 Hp0]].
          apply (NoDup_app_disj _ _ n Hnd (p_names _ Hpc)).
          apply in_flat_map. exists c0. split; [exact Hc0|exact (p_names _ Hp0)]. }
        rewrite (IH2 Hex). reflexivity.
      + destruct (Hn c (or_introl eq_refl) Hpc) as [Hr Heq]. rewrite Hr. cbn [orb].
        rewrite IH1. split.
        * destruct (existsb p cs); [|reflexivity]. rewrite <- app_assoc. cbn [app]. rewrite Heq. reflexivity.
        * intros Hex. rewrite Heq, (IH2 Hex). reflexivity.
  Qed.

  Lemma go_spec i : forall rs pre,
    NoDup (flat_map (fun r => flat_map names (r_children r)) rs) ->
    (forall r c, In r rs -> In c (r_children r) -> p c = false -> rec (c1 c) = None /\ c1 c = c2 c) ->
    (forall r c, In r rs -> In c (r_children r) -> p c = true -> rec (c1 c) = Some (c2 c)) ->
    go_gen rec i pre (map (maprel c1) rs)
    = (if existsb (fun r => existsb p (r_children r)) rs then Some (Feature i (pre ++ map (maprel c2) rs)) else None)
    /\ (existsb (fun r => existsb p (r_children r)) rs = false -> map (maprel c1) rs = map (maprel c2) rs).
  Proof.
    induction rs as [|[a b cs] rs IH]; intros pre Hnd Hn Hy.
    - split; reflexivity.
    - cbn [flat_map r_children] in Hnd. cbn [map maprel go_gen existsb r_children].
      assert (Hn' : forall r c, In r rs -> In c (r_children r) -> p c = false -> rec (c1 c) = None /\ c1 c = c2 c)
        by (intros r c Hr; apply Hn; right; exact Hr).
      assert (Hy' : forall r c, In r rs -> In c (r_children r) -> p c = true -> rec (c1 c) = Some (c2 c))
        by (intros r c Hr; apply Hy; right; exact Hr).
      destruct (IH (pre ++ [Relation a b (map c1 cs)]) (NoDup_app_r _ _ Hnd) Hn' Hy') as [IH1 IH2].
      destruct (goc_spec cs [] (NoDup_app_l _ _ Hnd)
                  (fun c Hc => Hn (Relation a b cs) c (or_introl eq_refl) Hc)
                  (fun c Hc => Hy (Relation a b cs) c (or_introl eq_refl) Hc)) as [G1 G2].
      rewrite G1. destruct (existsb p cs) eqn:Hex; cbn [orb].
      + split; [|discriminate]. cbn [app].
        assert (Hex' : existsb (fun r => existsb p (r_children r)) rs = false).
        { destruct (existsb (fun r => existsb p (r_children r)) rs) eqn:Hex'; [|reflexivity]. exfalso.
          apply existsb_exists in Hex. destruct Hex as [c0 [Hc0 Hp0]].
          apply existsb_exists in Hex'. destruct Hex' as [r1 [Hr1 Hex1]].
          apply existsb_exists in Hex1. destruct Hex1 as [c1' [Hc1 Hp1]].
          apply (NoDup_app_disj _ _ n Hnd).
          - apply in_flat_map. exists c0. split; [exact Hc0|exact (p_names _ Hp0)].
          - apply in_flat_map. exists r1. split; [exact Hr1|].
            apply in_flat_map. exists c1'. split; [exact Hc1|exact (p_names _ Hp1)]. }
        rewrite (IH2 Hex'). reflexivity.
      + rewrite IH1. split.
        * destruct (existsb (fun r => existsb p (r_children r)) rs); [|reflexivity].
          rewrite <- app_assoc. cbn [app]. rewrite (G2 eq_refl). reflexivity.
        * intros Hex'. rewrite (G2 eq_refl), (IH2 Hex'). reflexivity.
  Qed.
End GoSpec.

(* ================================================================== the relationship lines *)
(* [cut S f]: the tree the reader holds when the lines of exactly the features named in [S] have been
   processed: such a feature is expanded (normalised relations), any other is still a leaf *)
Fixpoint cut (S : list string) (f : feature) : feature :=
  match f with
  | Feature i rs =>
      if list_existsb_eq (f_name i) S
      then Feature (mk_info (f_name i))
             (reorder (map (fun r => match r with Relation a b cs => Relation a b (map (cut S) cs) end) rs))
      else leaf (f_name i)
  end.

Lemma cut_eq S i rs :
  cut S (Feature i rs) =
  if list_existsb_eq (f_name i) S
  then Feature (mk_info (f_name i)) (map (maprel (cut S)) (reorder rs))
  else leaf (f_name i).
Proof.
  cbn [cut]. destruct (list_existsb_eq (f_name i) S); [|reflexivity].
  f_equal. apply reorder_map.
Qed.

Lemma name_cut S f : name (cut S f) = name f.
Proof. destruct f as [i rs]. rewrite cut_eq. destruct (list_existsb_eq (f_name i) S); reflexivity. Qed.

Lemma children_map g i rs : children (Feature i (map (maprel g) rs)) = map g (children (Feature i rs)).
Proof.
  unfold children. cbn [rels]. induction rs as [|[a b cs] rs IH]; [reflexivity|].
  cbn [map flat_map maprel r_children]. rewrite map_app, IH. reflexivity.
Qed.

Lemma children_reorder i i' rs c : In c (children (Feature i (reorder rs))) <-> In c (children (Feature i' rs)).
Proof.
  rewrite !in_children_iff. split; intros [r [Hr Hc]]; exists r; (split; [|exact Hc]); apply in_reorder; exact Hr.
Qed.

Lemma in_names_cut S f x :
  In x (names (cut S f)) <->
  x = name f \/ (In (name f) S /\ exists c, In c (children f) /\ In x (names (cut S c))).
Proof.
  destruct f as [i rs]. rewrite cut_eq. cbn [name info].
  destruct (list_existsb_eq (f_name i) S) eqn:Hm.
  - rewrite in_names_inv. cbn [name info mk_info f_name]. rewrite children_map.
    apply mem_In in Hm. split.
    + intros [H|[c [Hc Hx]]]; [left; exact H|right]. split; [exact Hm|].
      apply in_map_iff in Hc. destruct Hc as [c0 [<- Hc0]]. exists c0. split; [|exact Hx].
      exact (proj1 (children_reorder (mk_info (f_name i)) i rs c0) Hc0).
    + intros [H|[_ [c [Hc Hx]]]]; [left; exact H|right]. exists (cut S c). split; [|exact Hx].
      apply in_map. apply (children_reorder (mk_info (f_name i)) i). exact Hc.
  - apply mem_not_In in Hm. unfold leaf, names. cbn. split.
    + intros [H|[]]; left; symmetry; exact H.
    + intros [H|[H _]]; [left; symmetry; exact H|contradiction].
Qed.

Lemma cut_names_incl S : forall f x, In x (names (cut S f)) -> In x (names f).
Proof.
  induction f as [f IH] using feature_ind_children. intros x Hx.
  apply in_names_cut in Hx. apply in_names_inv.
  destruct Hx as [Hx|[_ [c [Hc Hx]]]]; [left; exact Hx|right].
  exists c. split; [exact Hc|exact (IH c Hc x Hx)].
Qed.

Lemma cut_leaf S c : ~ In (name c) S -> cut S c = leaf (name c).
Proof.
  destruct c as [i rs]. unfold name. cbn [info]. intros H. rewrite cut_eq.
  apply mem_not_In in H. rewrite H. reflexivity.
Qed.

Lemma maprel_ext_in g h r : (forall c, In c (r_children r) -> g c = h c) -> maprel g r = maprel h r.
Proof. destruct r as [a b cs]. cbn [maprel r_children]. intros H. f_equal. apply map_ext_in. exact H. Qed.

Lemma map_maprel_ext_in g h i rs :
  (forall c, In c (children (Feature i rs)) -> g c = h c) -> map (maprel g) rs = map (maprel h) rs.
Proof.
  intros H. apply map_ext_in. intros r Hr. apply maprel_ext_in. intros c Hc.
  apply H. apply in_children_iff. exists r. split; assumption.
Qed.

(* only the names of non-leaf features matter *)
Lemma cut_ext_nonleaf S S' : forall f,
  (forall g, In g (subfeatures f) -> rels g <> [] -> (In (name g) S <-> In (name g) S')) ->
  cut S f = cut S' f.
Proof.
  induction f as [f IH] using feature_ind_children. intros H.
  assert (Hch : forall c, In c (children f) -> cut S c = cut S' c).
  { intros c Hc. apply (IH c Hc). intros g Hg. apply H. exact (sub_trans _ _ _ (child_sub _ _ Hc) Hg). }
  specialize (H f (self_sub f)).
  destruct f as [i rs]. rewrite !cut_eq. unfold name in H. cbn [rels info] in H.
  destruct rs as [|r rs].
  - destruct (list_existsb_eq (f_name i) S); destruct (list_existsb_eq (f_name i) S'); reflexivity.
  - assert (Hm : list_existsb_eq (f_name i) S = list_existsb_eq (f_name i) S').
    { assert (H' := H ltac:(discriminate)).
      destruct (list_existsb_eq (f_name i) S) eqn:H1; destruct (list_existsb_eq (f_name i) S') eqn:H2; try reflexivity.
      - apply mem_In in H1. apply (proj1 H') in H1. apply (proj2 (mem_In _ _)) in H1. congruence.
      - apply mem_In in H2. apply (proj2 H') in H2. apply (proj2 (mem_In _ _)) in H2. congruence. }
    rewrite Hm. destruct (list_existsb_eq (f_name i) S'); [|reflexivity]. f_equal.
    apply (map_maprel_ext_in _ _ i). intros c Hc. apply Hch.
    apply (children_reorder i i). exact Hc.
Qed.

Lemma cut_ext S S' f : (forall x, In x S <-> In x S') -> cut S f = cut S' f.
Proof. intros H. apply cut_ext_nonleaf. intros g _ _. apply H. Qed.

Lemma cut_mono S S' : (forall x, In x S -> In x S') ->
  forall f x, In x (names (cut S f)) -> In x (names (cut S' f)).
Proof.
  intros Hincl. induction f as [f IH] using feature_ind_children. intros x Hx.
  apply in_names_cut in Hx. apply in_names_cut.
  destruct Hx as [Hx|[Hn [c [Hc Hx]]]]; [left; exact Hx|right].
  split; [exact (Hincl _ Hn)|]. exists c. split; [exact Hc|exact (IH c Hc x Hx)].
Qed.

(* a feature that is not visible stays as it is when its line is processed *)
Lemma cut_hidden n S : forall f, ~ In n (names (cut S f)) -> cut (n :: S) f = cut S f.
Proof.
  induction f as [f IH] using feature_ind_children. intros Hn.
  assert (Hch : forall c, In c (children f) -> In (name f) S -> cut (n :: S) c = cut S c).
  { intros c Hc HS. apply (IH c Hc). intros Hx. apply Hn. apply in_names_cut. right.
    split; [exact HS|]. exists c. split; assumption. }
  assert (Hne : name f <> n).
  { intros <-. apply Hn. apply in_names_cut. left. reflexivity. }
  destruct f as [i rs]. unfold name in *. cbn [info] in *. rewrite !cut_eq. cbn [list_existsb_eq].
  apply String.eqb_neq in Hne. rewrite Hne. cbn [orb].
  destruct (list_existsb_eq (f_name i) S) eqn:Hm; [|reflexivity]. f_equal.
  apply (map_maprel_ext_in _ _ i). intros c Hc. apply Hch; [|apply mem_In; exact Hm].
  apply (children_reorder i i). exact Hc.
Qed.

(* below a feature whose line has not been processed nothing is visible *)
Lemma cut_hides S : forall F f, NoDup (names F) -> In f (subfeatures F) -> ~ In (name f) S ->
  forall x, In x (names f) -> x <> name f -> ~ In x (names (cut S F)).
Proof.
  induction F as [F IH] using feature_ind_children. intros f Hnd Hf HS x Hx Hne Hvis.
  destruct (in_subfeatures_inv _ _ Hf) as [->|[c [Hc Hfc]]].
  - apply in_names_cut in Hvis. destruct Hvis as [Hv|[Hv _]]; [exact (Hne Hv)|exact (HS Hv)].
  - assert (Hxc : In x (names c)) by exact (subfeatures_names_incl _ _ Hfc _ Hx).
    apply in_names_cut in Hvis. destruct Hvis as [Hv|[_ [c' [Hc' Hv]]]].
    + subst x. exact (name_not_in_child _ _ Hnd Hc Hxc).
    + assert (c' = c) by exact (children_shared _ _ _ _ Hnd Hc' Hc (cut_names_incl _ _ _ Hv) Hxc). subst c'.
      exact (IH c Hc f (NoDup_names_child _ _ Hnd Hc) Hfc HS x Hx Hne Hv).
Qed.

(* what is visible in a visible sub-tree is visible in the whole *)
Lemma cut_sub_visible S : forall F g, NoDup (names F) -> In g (subfeatures F) ->
  In (name g) (names (cut S F)) -> forall x, In x (names (cut S g)) -> In x (names (cut S F)).
Proof.
  induction F as [F IH] using feature_ind_children. intros g Hnd Hg Hvis x Hx.
  destruct (in_subfeatures_inv _ _ Hg) as [->|[c [Hc Hgc]]]; [exact Hx|].
  assert (Hgn : In (name g) (names c)) by exact (subfeatures_names_incl _ _ Hgc _ (name_in_names g)).
  apply in_names_cut in Hvis. destruct Hvis as [Hv|[HS [c' [Hc' Hv]]]].
  - exfalso. rewrite Hv in Hgn. exact (name_not_in_child _ _ Hnd Hc Hgn).
  - assert (c' = c) by exact (children_shared _ _ _ _ Hnd Hc' Hc (cut_names_incl _ _ _ Hv) Hgn). subst c'.
    apply in_names_cut. right. split; [exact HS|]. exists c. split; [exact Hc|].
    exact (IH c Hc g (NoDup_names_child _ _ Hnd Hc) Hgc Hv x Hx).
Qed.

Lemma goc_none rec : forall cs cpre, (forall c, In c cs -> rec c = None) -> goc_gen rec cpre cs = None.
Proof.
  induction cs as [|c cs IH]; intros cpre H; [reflexivity|]. cbn [goc_gen].
  rewrite (H c (or_introl eq_refl)). apply IH. intros c0 H0. apply H. right. exact H0.
Qed.

Lemma go_none rec i : forall rs pre,
  (forall r c, In r rs -> In c (r_children r) -> rec c = None) -> go_gen rec i pre rs = None.
Proof.
  induction rs as [|[a b cs] rs IH]; intros pre H; [reflexivity|]. cbn [go_gen].
  rewrite goc_none; [|intros c Hc; exact (H _ c (or_introl eq_refl) Hc)].
  apply IH. intros r c Hr. apply H. right. exact Hr.
Qed.

Lemma add_rels_none n new : forall T, ~ In n (names T) -> add_rels n new T = None.
Proof.
  induction T as [T IH] using feature_ind_children. intros Hn.
  assert (Hne : name T <> n) by (intros <-; apply Hn; apply name_in_names).
  assert (Hch : forall c, In c (children T) -> add_rels n new c = None).
  { intros c Hc. apply (IH c Hc). intros Hx. apply Hn. apply in_names_inv. right. exists c. split; assumption. }
  destruct T as [i rs]. unfold name in Hne. cbn [info] in Hne. rewrite add_rels_eq.
  apply String.eqb_neq in Hne. rewrite Hne. apply go_none. intros r c Hr Hc. apply Hch.
  apply in_children_iff. exists r. split; assumption.
Qed.

Lemma add_attr_none n a : forall T, ~ In n (names T) -> add_attr n a T = None.
Proof.
  induction T as [T IH] using feature_ind_children. intros Hn.
  assert (Hne : name T <> n) by (intros <-; apply Hn; apply name_in_names).
  assert (Hch : forall c, In c (children T) -> add_attr n a c = None).
  { intros c Hc. apply (IH c Hc). intros Hx. apply Hn. apply in_names_inv. right. exists c. split; assumption. }
  destruct T as [i rs]. unfold name in Hne. cbn [info] in Hne. rewrite add_attr_eq.
  apply String.eqb_neq in Hne. rewrite Hne. apply go_none. intros r c Hr Hc. apply Hch.
  apply in_children_iff. exists r. split; assumption.
Qed.

(* the relations a relationship line yields: the normalised relations with leaf children *)
Definition leafify (c : feature) : feature := leaf (name c).
Definition shallow (f : feature) : list relation := map (maprel leafify) (reorder (rels f)).

Lemma NoDup_children_names f : NoDup (names f) ->
  NoDup (flat_map (fun r => flat_map names (r_children r)) (reorder (rels f))).
Proof.
  intros H. destruct (NoDup_names_children _ H) as [_ H2].
  unfold children in H2. rewrite flat_map_flat_map in H2.
  apply (Permutation_NoDup (l := flat_map (fun r => flat_map names (r_children r)) (rels f))); [|exact H2].
  apply Permutation_flat_map. apply Permutation_sym. apply reorder_perm.
Qed.

(* processing the line of a visible, unprocessed feature *)
Lemma cut_step S : forall F f, NoDup (names F) -> In f (subfeatures F) ->
  (forall x, In x (names f) -> ~ In x S) ->
  In (name f) (names (cut S F)) ->
  add_rels (name f) (shallow f) (cut S F) = Some (cut (name f :: S) F).
Proof.
  induction F as [F IH] using feature_ind_children. intros f Hnd Hf HS Hvis.
  destruct (string_dec (name F) (name f)) as [Heq|Hne].
  - assert (F = f) by exact (sub_by_name F F f Hnd (self_sub F) Hf Heq). subst f.
    assert (HnS : ~ In (name F) S) by exact (HS _ (name_in_names F)).
    rewrite (cut_leaf _ _ HnS).
    assert (Hch : forall c, In c (children F) -> cut (name F :: S) c = leafify c).
    { intros c Hc. apply cut_leaf. intros [Hx|Hx].
      - apply (name_not_in_child _ _ Hnd Hc). rewrite Hx. apply name_in_names.
      - apply (HS (name c)); [|exact Hx]. apply in_names_inv. right. exists c. split; [exact Hc|apply name_in_names]. }
    destruct F as [i rs]. unfold name in *. cbn [info] in *. unfold leaf. rewrite add_rels_eq.
    cbn [mk_info f_name]. rewrite String.eqb_refl. rewrite cut_eq. cbn [list_existsb_eq].
    rewrite String.eqb_refl. cbn [orb app]. unfold shallow. cbn [rels]. f_equal. f_equal.
    symmetry. apply (map_maprel_ext_in _ _ i). intros c Hc. apply Hch.
    apply (children_reorder i i). exact Hc.
  - destruct (in_subfeatures_inv _ _ Hf) as [->|[ck [Hck Hfck]]]; [congruence|].
    assert (Hnck : In (name f) (names ck)) by exact (subfeatures_names_incl _ _ Hfck _ (name_in_names f)).
    apply in_names_cut in Hvis. destruct Hvis as [Hv|[HFS [cj [Hcj Hv]]]]; [congruence|].
    assert (Hnd' := NoDup_children_names _ Hnd).
    destruct F as [i rs]. change (name (Feature i rs)) with (f_name i) in *. cbn [rels] in *.
    rewrite !cut_eq. cbn [list_existsb_eq].
    apply (proj2 (mem_In _ _)) in HFS. rewrite HFS, orb_true_r.
    rewrite add_rels_eq. cbn [mk_info f_name].
    apply String.eqb_neq in Hne. rewrite Hne.
    set (p := fun c => list_existsb_eq (name f) (names (cut S c))).
    assert (Hp : forall c, p c = true -> In (name f) (names c)).
    { intros c Hc. apply mem_In in Hc. exact (cut_names_incl _ _ _ Hc). }
    destruct (go_spec (add_rels (name f) (shallow f)) (cut S) (cut (name f :: S)) p (name f) Hp
                (mk_info (f_name i)) (reorder rs) [] Hnd') as [G _].
    + intros r c Hr Hc Hpc. apply mem_not_In in Hpc. split; [exact (add_rels_none _ _ _ Hpc)|].
      symmetry. exact (cut_hidden _ _ _ Hpc).
    + intros r c Hr Hc Hpc.
      assert (Hcc : In c (children (Feature i rs))).
      { apply in_children_iff. exists r. split; [apply in_reorder; exact Hr|exact Hc]. }
      assert (c = ck) by exact (children_shared _ _ _ _ Hnd Hcc Hck (Hp _ Hpc) Hnck). subst c.
      apply mem_In in Hpc.
      exact (IH ck Hck f (NoDup_names_child _ _ Hnd Hck) Hfck HS Hpc).
    + rewrite G. cbn [app].
      assert (Hex : existsb (fun r => existsb p (r_children r)) (reorder rs) = true).
      { apply in_children_iff in Hcj. destruct Hcj as [r [Hr Hc]].
        apply existsb_exists. exists r. split; [apply in_reorder; exact Hr|].
        apply existsb_exists. exists cj. split; [exact Hc|]. apply mem_In. exact Hv. }
      rewrite Hex. reflexivity.
Qed.

(* ------------------------------------------------------------------ the lines the writer emits *)
Definition items (rs : list relation) : list aitem :=
  flat_map (fun r => match afm_item r with Some x => [x] | None => [] end) rs.
Definition line (f : feature) : arelspec := {| rs_parent := name f; rs_items := items (rels f) |}.
Definition leafb (c : feature) : bool := match c with Feature _ [] => true | _ => false end.

Lemma afm_relspecs_eq f :
  afm_relspecs f = line f :: flat_map (fun c => if leafb c then [] else afm_relspecs c) (children f).
Proof.
  destruct f as [i rs]. cbn [afm_relspecs]. f_equal. unfold children. cbn [rels].
  rewrite flat_map_flat_map. apply flat_map_ext_in. intros [a b cs] _. cbn [r_children].
  apply flat_map_ext_in. intros [ic [|r0 rs0]] _; reflexivity.
Qed.

Lemma leafb_rels c : leafb c = true <-> rels c = [].
Proof. destruct c as [i [|r rs]]; cbn; split; congruence. Qed.

Definition sing (i : aitem) : list relation :=
  match i with
  | ISingle opt n => [Relation (if opt then 0 else 1)%Z 1%Z [leaf n]]
  | _ => []
  end.
Definition grp (i : aitem) : result (list relation) :=
  match i with
  | IGroup a b cs =>
      match afm_to_int a with Err e => Err e | Ok a' =>
      match afm_to_int b with Err e => Err e | Ok b' =>
        Ok [Relation a' b' (map leaf cs)] end end
  | _ => Ok []
  end.

Lemma item_relations_eq its :
  item_relations its =
  match mapM grp its with Err e => Err e | Ok groups => Ok (flat_map sing its ++ List.concat groups) end.
Proof. reflexivity. Qed.

(* the three ways a relation of the fragment is written: plain (mandatory), in brackets (optional), or as a group —
   a group may have ONE child (any cardinality other than (1,1) and (0,1)) *)
Lemma afm_item_cases r : afm_rel_ok r = true ->
  (exists c, r = Relation 1 1 [c] /\ afm_item r = Some (ISingle false (name c)))
  \/ (exists c, r = Relation 0 1 [c] /\ afm_item r = Some (ISingle true (name c)))
  \/ (is_single r = false
      /\ afm_item r = Some (IGroup (z_to_string (r_min r)) (z_to_string (r_max r)) (map name (r_children r)))).
Proof.
  destruct r as [a b cs]. unfold afm_rel_ok, afm_item. cbn [r_children r_min r_max].
  destruct cs as [|c [|c' cs]]; intros H; [discriminate| |right; right; split; reflexivity].
  destruct ((a =? 1)%Z && (b =? 1)%Z) eqn:E1.
  { left. exists c. apply andb_prop in E1. destruct E1 as [Ha Hb]. apply Z.eqb_eq in Ha, Hb. subst.
    split; reflexivity. }
  destruct ((a =? 0)%Z && (b =? 1)%Z) eqn:E0.
  { right. left. exists c. apply andb_prop in E0. destruct E0 as [Ha Hb]. apply Z.eqb_eq in Ha, Hb. subst.
    split; reflexivity. }
  right. right. split; [|reflexivity].
  rewrite is_single_card. cbn [r_children r_min r_max]. rewrite E1, E0. reflexivity.
Qed.

(* a one-child relation whose cardinality is neither (1,1) nor (0,1) is written as a one-child group *)
Lemma afm_item_one_child_group a b c :
  ((a =? 1)%Z && (b =? 1)%Z) || ((a =? 0)%Z && (b =? 1)%Z) = false ->
  afm_item (Relation a b [c]) = Some (IGroup (z_to_string a) (z_to_string b) [name c])
  /\ is_single (Relation a b [c]) = false.
Proof.
  intros H. apply orb_false_elim in H. destruct H as [E1 E0].
  unfold afm_item. rewrite is_single_card. cbn [r_children r_min r_max]. rewrite E1, E0. split; reflexivity.
Qed.

Lemma items_cons r rs x : afm_item r = Some x -> items (r :: rs) = x :: items rs.
Proof. intros H. unfold items. cbn [flat_map]. rewrite H. reflexivity. Qed.

Lemma item_names_cons x its : item_names (x :: its) =
  (match x with ISingle _ n => [n] | IGroup _ _ cs => cs end) ++ item_names its.
Proof. reflexivity. Qed.

Lemma items_spec : forall rs, forallb afm_rel_ok rs = true ->
  flat_map sing (items rs) = filter is_single (map (maprel leafify) rs)
  /\ (exists gs, mapM grp (items rs) = Ok gs
                 /\ List.concat gs = filter (fun r => negb (is_single r)) (map (maprel leafify) rs))
  /\ item_names (items rs) = map name (flat_map r_children rs).
Proof.
  induction rs as [|r rs IH]; intros Hok.
  - split; [reflexivity|]. split; [exists []; split; reflexivity|reflexivity].
  - cbn [forallb] in Hok. apply andb_prop in Hok. destruct Hok as [Hr Hrs].
    destruct (IH Hrs) as [IH1 [[gs [IH2 IH3]] IH4]].
    cbn [map filter]. rewrite is_single_maprel.
    destruct (afm_item_cases r Hr) as [[c [-> Hi]]|[[c [-> Hi]]|[Hs Hi]]]; rewrite (items_cons _ _ _ Hi).
    + change (is_single (Relation 1 1 [c])) with true. cbn [negb].
      split; [|split].
      * change (flat_map sing (ISingle false (name c) :: items rs))
          with (Relation 1 1 [leaf (name c)] :: flat_map sing (items rs)).
        rewrite IH1. reflexivity.
      * exists ([] :: gs). split; [rewrite mapM_cons; cbn [grp]; rewrite IH2; reflexivity|exact IH3].
      * rewrite item_names_cons, IH4. reflexivity.
    + change (is_single (Relation 0 1 [c])) with true. cbn [negb].
      split; [|split].
      * change (flat_map sing (ISingle true (name c) :: items rs))
          with (Relation 0 1 [leaf (name c)] :: flat_map sing (items rs)).
        rewrite IH1. reflexivity.
      * exists ([] :: gs). split; [rewrite mapM_cons; cbn [grp]; rewrite IH2; reflexivity|exact IH3].
      * rewrite item_names_cons, IH4. reflexivity.
    + rewrite Hs. cbn [negb]. split; [|split].
      * exact IH1.
      * exists ([maprel leafify r] :: gs). split.
        -- rewrite mapM_cons. cbn [grp]. rewrite !afm_to_int_z, IH2.
           destruct r as [a b cs]. cbn [r_min r_max r_children maprel]. rewrite map_map. reflexivity.
        -- cbn [List.concat app]. rewrite IH3. reflexivity.
      * rewrite item_names_cons, IH4. cbn [flat_map]. rewrite map_app. reflexivity.
Qed.

Lemma item_relations_items f : forallb afm_rel_ok (rels f) = true ->
  item_relations (items (rels f)) = Ok (shallow f).
Proof.
  intros H. destruct (items_spec _ H) as [H1 [[gs [H2 H3]] _]].
  rewrite item_relations_eq, H2, H1, H3. unfold shallow. rewrite <- reorder_map. reflexivity.
Qed.

(* ------------------------------------------------------------------ the loops of the reader *)
Fixpoint rd_go (specs : list arelspec) (cur : feature) : result feature :=
  match specs with
  | [] => Ok cur
  | s :: rest =>
      if negb (fresh_names (item_names (rs_items s)) cur) then Err OtherExn
      else
        match item_relations (rs_items s) with Err e => Err e | Ok rels_ =>
        match add_rels (rs_parent s) rels_ cur with
        | None => Err FlamaException
        | Some cur' => rd_go rest cur'
        end end
  end.

Definition rd_dom (d : adomain) : result domain :=
  match d with
  | ADiscrete l => match mapM afm_value_aval l with
                   | Err e => Err e
                   | Ok vs => Ok {| dom_ranges := []; dom_elems := vs |}
                   end
  | ARange l =>
      match mapM (fun ab => match afm_to_int (fst ab) with Err e => Err e | Ok a =>
                            match afm_to_int (snd ab) with Err e => Err e | Ok b =>
                              Ok {| rg_min := VInt a; rg_max := VInt b |} end end) l with
      | Err e => Err e
      | Ok rs => Ok {| dom_ranges := rs; dom_elems := [] |}
      end
  end.

Fixpoint rd_goa (specs : list aattrspec) (cur : feature) : result feature :=
  match specs with
  | [] => Ok cur
  | s :: rest =>
      if negb (list_existsb_eq (at_feature s) (names cur)) then Err FlamaException
      else
        match rd_dom (at_domain s) with Err e => Err e | Ok dm =>
        match afm_value_aval (at_default s) with Err e => Err e | Ok dv =>
        match afm_value_aval (at_null s) with Err e => Err e | Ok nv =>
        match add_attr (at_feature s) {| a_name := at_name s; a_dom := Some dm;
                                         a_default := dv; a_null := nv |} cur with
        | None => Err FlamaException
        | Some cur' => rd_goa rest cur'
        end end end end
  end.

Lemma afm_read_cst_eq d :
  afm_read_cst d =
  match ad_rels d with
  | [] => Err IndexError
  | first :: others =>
      match rd_go (first :: others) (leaf (rs_parent first)) with
      | Err e => Err e
      | Ok tree =>
          match rd_goa (match ad_attrs d with Some l => l | None => [] end) tree with
          | Err e => Err e
          | Ok tree2 =>
              match mapM rd_ctc (match ad_ctcs d with Some l => l | None => [] end) with
              | Err e => Err e
              | Ok css => Ok (annotate_fm {| root := tree2; ctcs := List.concat css |})
              end
          end
      end
  end.
Proof. reflexivity. Qed.

(* ------------------------------------------------------------------ the relationship lines rebuild the normal form *)
Lemma afm_feature_ok_inv f : afm_feature_ok f = true ->
  forallb afm_rel_ok (rels f) = true /\ (forall c, In c (children f) -> afm_feature_ok c = true).
Proof.
  destruct f as [i rs]. rewrite afm_feature_ok_eq. intros H.
  apply andb_prop in H. destruct H as [H Hc]. apply andb_prop in H. destruct H as [_ Hr].
  split; [exact Hr|]. intros c Hin. apply in_children_iff in Hin. destruct Hin as [r [Hr' Hc']].
  rewrite forallb_forall in Hc. specialize (Hc _ Hr'). rewrite forallb_forall in Hc. exact (Hc _ Hc').
Qed.

Lemma NoDup_heads : forall cs, NoDup (flat_map names cs) -> NoDup (map name cs).
Proof.
  induction cs as [|c cs IH]; intros H; [constructor|]. cbn [flat_map map] in *. constructor.
  - intro Hin. apply in_map_iff in Hin. destruct Hin as [c' [Hn Hc']].
    apply (NoDup_app_disj _ _ (name c) H); [apply name_in_names|].
    apply in_flat_map. exists c'. split; [exact Hc'|rewrite <- Hn; apply name_in_names].
  - apply IH. exact (NoDup_app_r _ _ H).
Qed.

Lemma rd_go_cons s rest cur :
  rd_go (s :: rest) cur =
  if negb (fresh_names (item_names (rs_items s)) cur) then Err OtherExn
  else
    match item_relations (rs_items s) with Err e => Err e | Ok rels_ =>
    match add_rels (rs_parent s) rels_ cur with
    | None => Err FlamaException
    | Some cur' => rd_go rest cur'
    end end.
Proof. reflexivity. Qed.

Definition lines_ok (F f : feature) : Prop :=
  forall S, In (name f) (names (cut S F)) -> (forall x, In x (names f) -> ~ In x S) ->
  forall S' rest, (forall x, In x S' <-> In x (names f) \/ In x S) ->
  rd_go (afm_relspecs f ++ rest) (cut S F) = rd_go rest (cut S' F).

Lemma children_loop F : NoDup (names F) -> forall cs,
  (forall c, In c cs -> In c (subfeatures F) /\ lines_ok F c) ->
  NoDup (flat_map names cs) ->
  forall S1, (forall c, In c cs -> In (name c) (names (cut S1 F))) ->
  (forall c, In c cs -> forall x, In x (names c) -> ~ In x S1) ->
  forall S' rest, (forall x, In x S' <-> In x (flat_map names cs) \/ In x S1) ->
  rd_go (flat_map (fun c => if leafb c then [] else afm_relspecs c) cs ++ rest) (cut S1 F)
  = rd_go rest (cut S' F).
Proof.
  intros HndF. induction cs as [|c cs IH]; intros Hcs Hnd S1 Hvis Hdisj S' rest Heq.
  - cbn [flat_map app]. f_equal. apply cut_ext. intros x. split.
    + intros H. apply Heq. right. exact H.
    + intros H. apply Heq in H. destruct H as [[]|H]. exact H.
  - cbn [flat_map] in *. destruct (Hcs c (or_introl eq_refl)) as [HcF Hlc].
    assert (Hcs' : forall c0, In c0 cs -> In c0 (subfeatures F) /\ lines_ok F c0)
      by (intros c0 H0; apply Hcs; right; exact H0).
    assert (Hdj : forall c0, In c0 cs -> forall x, In x (names c0) -> ~ In x (names c)).
    { intros c0 H0 x Hx0 Hxc. apply (NoDup_app_disj _ _ x Hnd Hxc).
      apply in_flat_map. exists c0. split; assumption. }
    destruct (leafb c) eqn:Hl.
    + cbn [app]. apply leafb_rels in Hl.
      assert (Hnc : names c = [name c]).
      { rewrite names_children. unfold children. rewrite Hl. reflexivity. }
      rewrite (cut_ext_nonleaf S1 (name c :: S1) F).
      * apply IH; [exact Hcs'|exact (NoDup_app_r _ _ Hnd)| | |].
        -- intros c0 H0. apply (cut_mono S1); [intros x Hx; right; exact Hx|]. apply Hvis. right. exact H0.
        -- intros c0 H0 x Hx [Hxc|Hx1].
           ++ apply (Hdj c0 H0 x Hx). rewrite <- Hxc. apply name_in_names.
           ++ exact (Hdisj c0 (or_intror H0) x Hx Hx1).
        -- intros x. rewrite Heq, Hnc. simpl. tauto.
      * intros g Hg Hrg. split; [intros Hx; right; exact Hx|]. intros [Hx|Hx]; [|exact Hx].
        exfalso. apply Hrg. assert (c = g) by exact (sub_by_name F c g HndF HcF Hg Hx). subst g. exact Hl.
    + rewrite <- app_assoc.
      rewrite (Hlc S1 (Hvis c (or_introl eq_refl)) (Hdisj c (or_introl eq_refl)) (names c ++ S1)).
      * apply IH; [exact Hcs'|exact (NoDup_app_r _ _ Hnd)| | |].
        -- intros c0 H0. apply (cut_mono S1); [intros x Hx; apply in_or_app; right; exact Hx|].
           apply Hvis. right. exact H0.
        -- intros c0 H0 x Hx Hin. apply in_app_or in Hin. destruct Hin as [Hxc|Hx1].
           ++ exact (Hdj c0 H0 x Hx Hxc).
           ++ exact (Hdisj c0 (or_intror H0) x Hx Hx1).
        -- intros x. rewrite Heq, !in_app_iff. tauto.
      * intros x. rewrite in_app_iff. tauto.
Qed.

Lemma lines_ok_all F : NoDup (names F) ->
  forall f, In f (subfeatures F) -> afm_feature_ok f = true -> lines_ok F f.
Proof.
  intros HndF. induction f as [f IH] using feature_ind_children. intros HfF Hok.
  destruct (afm_feature_ok_inv _ Hok) as [Hrels Hchok].
  assert (Hndf : NoDup (names f)) by exact (NoDup_names_sub _ _ HndF HfF).
  intros S Hvis Hdisj S' rest Heq.
  assert (HnS : ~ In (name f) S) by exact (Hdisj _ (name_in_names f)).
  rewrite afm_relspecs_eq. rewrite <- app_comm_cons, rd_go_cons. unfold line. cbn [rs_items rs_parent].
  destruct (items_spec _ Hrels) as [_ [_ Hin]].
  assert (Hfresh : fresh_names (item_names (items (rels f))) (cut S F) = true).
  { unfold fresh_names. rewrite Hin. fold (children f).
    apply andb_true_intro. split.
    - apply NoDup_nodupb. apply NoDup_heads. exact (proj2 (NoDup_names_children _ Hndf)).
    - apply forallb_forall. intros x Hx. apply negb_true_iff. apply mem_not_In.
      apply in_map_iff in Hx. destruct Hx as [c [<- Hc]].
      apply (cut_hides S F f HndF HfF HnS).
      + apply in_names_inv. right. exists c. split; [exact Hc|apply name_in_names].
      + intros Hx. apply (name_not_in_child _ _ Hndf Hc). rewrite <- Hx. apply name_in_names. }
  rewrite Hfresh. cbn [negb].
  rewrite (item_relations_items _ Hrels).
  rewrite (cut_step S F f HndF HfF Hdisj Hvis).
  assert (Hvis1 : In (name f) (names (cut (name f :: S) F))).
  { apply (cut_mono S); [intros x Hx; right; exact Hx|exact Hvis]. }
  apply (children_loop F HndF (children f)).
  - intros c Hc. assert (HcF : In c (subfeatures F)) by exact (sub_trans _ _ _ HfF (child_sub _ _ Hc)).
    split; [exact HcF|]. exact (IH c Hc HcF (Hchok c Hc)).
  - exact (proj2 (NoDup_names_children _ Hndf)).
  - intros c Hc. apply (cut_sub_visible _ F f HndF HfF Hvis1).
    apply in_names_cut. right. split; [left; reflexivity|]. exists c. split; [exact Hc|].
    apply in_names_cut. left. reflexivity.
  - intros c Hc x Hx [Hxf|HxS].
    + apply (name_not_in_child _ _ Hndf Hc). rewrite Hxf. exact Hx.
    + apply (Hdisj x); [|exact HxS]. apply in_names_inv. right. exists c. split; assumption.
  - intros x. rewrite Heq. rewrite (names_children f). cbn [In]. split.
    + intros [[H|H]|H]; [right; left; exact H|left; exact H|right; right; exact H].
    + intros [H|[H|H]]; [left; right; exact H|left; left; exact H|right; exact H].
Qed.

(* ================================================================== the attribute lines *)
Definition rd_attr (s : aattrspec) : result attr :=
  match rd_dom (at_domain s) with Err e => Err e | Ok dm =>
  match afm_value_aval (at_default s) with Err e => Err e | Ok dv =>
  match afm_value_aval (at_null s) with Err e => Err e | Ok nv =>
    Ok {| a_name := at_name s; a_dom := Some dm; a_default := dv; a_null := nv |} end end end.

Lemma rd_goa_cons s rest cur :
  rd_goa (s :: rest) cur =
  if negb (list_existsb_eq (at_feature s) (names cur)) then Err FlamaException
  else match rd_attr s with
       | Err e => Err e
       | Ok a => match add_attr (at_feature s) a cur with
                 | None => Err FlamaException
                 | Some cur' => rd_goa rest cur'
                 end
       end.
Proof.
  cbn [rd_goa]. unfold rd_attr.
  destruct (negb (list_existsb_eq (at_feature s) (names cur))); [reflexivity|].
  destruct (rd_dom (at_domain s)); [|reflexivity].
  destruct (afm_value_aval (at_default s)); [|reflexivity].
  destruct (afm_value_aval (at_null s)); reflexivity.
Qed.

Lemma afm_value_roundtrip v : afm_val_ok v = true ->
  exists av, afm_value v = Ok av /\ afm_value_aval av = Ok v.
Proof.
  destruct v as [|b|z|r|s|l|kv]; cbn [afm_val_ok]; intros H; try discriminate.
  - exists (AvInt (z_to_string z)). split; [reflexivity|]. cbn [afm_value_aval]. rewrite afm_to_int_z. reflexivity.
  - destruct (py_positional r) as [t|] eqn:Hp; [|discriminate].
    exists (AvDouble t r). split; [cbn [afm_value]; rewrite Hp; reflexivity|reflexivity].
  - exists (AvText s). split; reflexivity.
Qed.

Lemma afm_values_roundtrip : forall l, forallb afm_val_ok l = true ->
  exists avs, mapM afm_value l = Ok avs /\ mapM afm_value_aval avs = Ok l /\ List.length avs = List.length l.
Proof.
  induction l as [|v l IH]; intros H.
  - exists []. repeat split; reflexivity.
  - cbn [forallb] in H. apply andb_prop in H. destruct H as [Hv Hl].
    destruct (afm_value_roundtrip _ Hv) as [av [H1 H2]]. destruct (IH Hl) as [avs [H3 [H4 H5]]].
    exists (av :: avs). rewrite !mapM_cons, H1, H3, H2, H4. cbn [List.length]. rewrite H5. repeat split; reflexivity.
Qed.

Definition wr_range (rg : range) : result (string * string) :=
  match rg_min rg, rg_max rg with
  | VInt a1, VInt b1 => Ok (z_to_string a1, z_to_string b1)
  | _, _ => Err OtherExn
  end.
Definition rd_range (ab : string * string) : result range :=
  match afm_to_int (fst ab) with Err e => Err e | Ok a =>
  match afm_to_int (snd ab) with Err e => Err e | Ok b =>
    Ok {| rg_min := VInt a; rg_max := VInt b |} end end.
Definition range_ok (rg : range) : bool :=
  match rg_min rg, rg_max rg with
  | VInt a1, VInt b1 => (0 <=? a1)%Z && (0 <=? b1)%Z | _, _ => false end.

Lemma afm_ranges_roundtrip : forall l, forallb range_ok l = true ->
  exists rgs, mapM wr_range l = Ok rgs /\ mapM rd_range rgs = Ok l /\ List.length rgs = List.length l.
Proof.
  induction l as [|rg l IH]; intros H.
  - exists []. repeat split; reflexivity.
  - cbn [forallb] in H. apply andb_prop in H. destruct H as [Hv Hl].
    destruct (IH Hl) as [rgs [H3 [H4 H5]]].
    destruct rg as [mn mx]. unfold range_ok in Hv. cbn [rg_min rg_max] in Hv.
    destruct mn as [|?|a1|?|?|?|?]; try discriminate. destruct mx as [|?|b1|?|?|?|?]; try discriminate.
    exists ((z_to_string a1, z_to_string b1) :: rgs). rewrite !mapM_cons. unfold wr_range at 1, rd_range at 1.
    cbn [rg_min rg_max fst snd]. rewrite !afm_to_int_z, H3, H4. cbn [List.length]. rewrite H5.
    repeat split; reflexivity.
Qed.

Lemma afm_attrspec_roundtrip n a : afm_attr_ok a = true ->
  exists s, afm_attrspec n a = Ok s /\ at_feature s = n /\ rd_attr s = Ok a.
Proof.
  destruct a as [an [d|] dv nv]; unfold afm_attr_ok; cbn [a_default a_null a_dom]; intros H;
    [|rewrite andb_false_r in H; discriminate].
  apply andb_prop in H. destruct H as [H Hd]. apply andb_prop in H. destruct H as [Hdv Hnv].
  destruct (afm_value_roundtrip _ Hdv) as [adv [Hd1 Hd2]].
  destruct (afm_value_roundtrip _ Hnv) as [anv [Hn1 Hn2]].
  destruct d as [rgs els]. cbn [dom_ranges dom_elems] in Hd.
  unfold afm_attrspec. cbn [a_dom a_default a_null a_name dom_ranges dom_elems].
  change (fun rg : range => match rg_min rg, rg_max rg with
                            | VInt a1, VInt b1 => Ok (z_to_string a1, z_to_string b1)
                            | _, _ => Err OtherExn
                            end) with wr_range.
  rewrite Hd1, Hn1.
  destruct rgs as [|rg rgs]; destruct els as [|el els]; try discriminate.
  - destruct (afm_values_roundtrip _ Hd) as [avs [H1 [H2 H3]]]. rewrite H1. rewrite mapM_nil.
    destruct avs as [|av avs]; [discriminate|].
    eexists. split; [reflexivity|]. split; [reflexivity|].
    unfold rd_attr. cbn [at_domain at_default at_null at_name rd_dom]. rewrite H2, Hd2, Hn2. reflexivity.
  - change (forallb range_ok (rg :: rgs) = true) in Hd.
    destruct (afm_ranges_roundtrip _ Hd) as [wrs [H1 [H2 H3]]]. rewrite mapM_nil, H1.
    destruct wrs as [|wr wrs]; [discriminate|].
    eexists. split; [reflexivity|]. split; [reflexivity|].
    unfold rd_attr. cbn [at_domain at_default at_null at_name rd_dom].
    change (fun ab : string * string => match afm_to_int (fst ab) with Err e1 => Err e1 | Ok a =>
                                        match afm_to_int (snd ab) with Err e2 => Err e2 | Ok b =>
                                          Ok {| rg_min := VInt a; rg_max := VInt b |} end end) with rd_range.
    rewrite H2, Hd2, Hn2. reflexivity.
Qed.

(* [partial AL T]: the shape of T, every feature carrying the attributes listed for its name in AL *)
Definition attrs_of (n : string) (AL : list (string * attr)) : list attr :=
  map snd (filter (fun p => String.eqb (fst p) n) AL).
Definition pinfo_of (AL : list (string * attr)) (n : string) : finfo :=
  {| f_name := n; f_abstract := VBool false; f_type := TBoolean; f_cmin := 1; f_cmax := 1;
     f_attrs := attrs_of n AL |}.
Fixpoint partial (AL : list (string * attr)) (f : feature) : feature :=
  match f with
  | Feature i rs =>
      Feature (pinfo_of AL (f_name i))
        (map (fun r => match r with Relation a b cs => Relation a b (map (partial AL) cs) end) rs)
  end.

Lemma partial_eq AL i rs :
  partial AL (Feature i rs) = Feature (pinfo_of AL (f_name i)) (map (maprel (partial AL)) rs).
Proof. reflexivity. Qed.

Lemma name_partial AL f : name (partial AL f) = name f.
Proof. destruct f; reflexivity. Qed.

Lemma names_partial AL : forall f, names (partial AL f) = names f.
Proof.
  induction f as [f IH] using feature_ind_children.
  rewrite (names_children (partial AL f)), (names_children f), name_partial. f_equal.
  destruct f as [i rs]. rewrite partial_eq, children_map, flat_map_map.
  apply flat_map_ext_in. intros c Hc. exact (IH c Hc).
Qed.

Lemma attrs_of_snoc x AL n a :
  attrs_of x (AL ++ [(n, a)]) = attrs_of x AL ++ (if String.eqb n x then [a] else []).
Proof.
  unfold attrs_of. rewrite filter_app, map_app. cbn [filter fst]. destruct (String.eqb n x); reflexivity.
Qed.

Lemma pinfo_of_snoc_ne x AL n a : x <> n -> pinfo_of (AL ++ [(n, a)]) x = pinfo_of AL x.
Proof.
  intros H. unfold pinfo_of. rewrite attrs_of_snoc.
  assert (Hne : String.eqb n x = false) by (apply String.eqb_neq; congruence).
  rewrite Hne, app_nil_r. reflexivity.
Qed.

Lemma partial_hidden n a AL : forall T, ~ In n (names T) -> partial (AL ++ [(n, a)]) T = partial AL T.
Proof.
  induction T as [T IH] using feature_ind_children. intros Hn.
  assert (Hne : name T <> n) by (intros <-; apply Hn; apply name_in_names).
  assert (Hch : forall c, In c (children T) -> partial (AL ++ [(n, a)]) c = partial AL c).
  { intros c Hc. apply (IH c Hc). intros Hx. apply Hn. apply in_names_inv. right. exists c. split; assumption. }
  destruct T as [i rs]. change (name (Feature i rs)) with (f_name i) in Hne.
  rewrite !partial_eq, (pinfo_of_snoc_ne _ _ _ _ Hne). f_equal.
  apply (map_maprel_ext_in _ _ i). exact Hch.
Qed.

Lemma partial_step n a AL : forall T, In n (names T) -> NoDup (names T) ->
  add_attr n a (partial AL T) = Some (partial (AL ++ [(n, a)]) T).
Proof.
  induction T as [T IH] using feature_ind_children. intros Hin Hnd.
  destruct (string_dec (name T) n) as [Heq|Hne].
  - assert (Hch : forall c, In c (children T) -> partial (AL ++ [(n, a)]) c = partial AL c).
    { intros c Hc. apply partial_hidden. rewrite <- Heq. exact (name_not_in_child _ _ Hnd Hc). }
    destruct T as [i rs]. change (name (Feature i rs)) with (f_name i) in Heq.
    rewrite !partial_eq, add_attr_eq. cbn [pinfo_of f_name]. rewrite Heq, String.eqb_refl.
    f_equal. f_equal.
    + unfold push_attr, pinfo_of. cbn [f_name f_abstract f_type f_cmin f_cmax f_attrs].
      rewrite attrs_of_snoc, String.eqb_refl. reflexivity.
    + symmetry. apply (map_maprel_ext_in _ _ i). exact Hch.
  - apply in_names_inv in Hin. destruct Hin as [Hin|[ck [Hck Hnck]]]; [congruence|].
    assert (Hnd' : NoDup (flat_map (fun r => flat_map names (r_children r)) (rels T))).
    { destruct (NoDup_names_children _ Hnd) as [_ H2]. unfold children in H2.
      rewrite flat_map_flat_map in H2. exact H2. }
    destruct T as [i rs]. change (name (Feature i rs)) with (f_name i) in Hne. cbn [rels] in Hnd'.
    rewrite !partial_eq, add_attr_eq. cbn [pinfo_of f_name].
    apply String.eqb_neq in Hne. rewrite Hne.
    set (p := fun c => list_existsb_eq n (names c)).
    assert (Hp : forall c, p c = true -> In n (names c)) by (intros c Hc; apply mem_In; exact Hc).
    destruct (go_spec (add_attr n a) (partial AL) (partial (AL ++ [(n, a)])) p n Hp
                (pinfo_of AL (f_name i)) rs [] Hnd') as [G _].
    + intros r c Hr Hc Hpc. apply mem_not_In in Hpc. split.
      * apply add_attr_none. rewrite names_partial. exact Hpc.
      * symmetry. apply partial_hidden. exact Hpc.
    + intros r c Hr Hc Hpc.
      assert (Hcc : In c (children (Feature i rs))) by (apply in_children_iff; exists r; split; assumption).
      apply (IH c Hcc (Hp _ Hpc)). exact (NoDup_names_child _ _ Hnd Hcc).
    + rewrite G. cbn [app].
      assert (Hex : existsb (fun r => existsb p (r_children r)) rs = true).
      { apply in_children_iff in Hck. destruct Hck as [r [Hr Hc]].
        apply existsb_exists. exists r. split; [exact Hr|].
        apply existsb_exists. exists ck. split; [exact Hc|]. apply mem_In. exact Hnck. }
      rewrite Hex. apply String.eqb_neq in Hne. rewrite (pinfo_of_snoc_ne _ _ _ _ Hne). reflexivity.
Qed.

(* the attribute loop, for the specs the writer made of a list of (feature name, attribute) pairs *)
Lemma goa_loop : forall PL specs AL T, NoDup (names T) ->
  (forall q, In q PL -> In (fst q) (names T)) ->
  Forall2 (fun q s => at_feature s = fst q /\ rd_attr s = Ok (snd q)) PL specs ->
  rd_goa specs (partial AL T) = Ok (partial (AL ++ PL) T).
Proof.
  induction PL as [|[n a] PL IH]; intros specs AL T Hnd Hin HF.
  - inversion HF; subst. rewrite app_nil_r. reflexivity.
  - inversion HF as [|q s PL' specs' [Hs1 Hs2] HF']; subst. cbn [fst snd] in *.
    rewrite rd_goa_cons, Hs1, names_partial.
    assert (HnT : In n (names T)) by exact (Hin (n, a) (or_introl eq_refl)).
    rewrite (proj2 (mem_In _ _) HnT). cbn [negb]. rewrite Hs2, (partial_step _ _ _ _ HnT Hnd).
    rewrite (IH specs' (AL ++ [(n, a)]) T Hnd); [|intros q Hq; apply Hin; right; exact Hq|exact HF'].
    rewrite <- app_assoc. reflexivity.
Qed.

Definition attr_rel (q : string * attr) (s : aattrspec) : Prop :=
  at_feature s = fst q /\ rd_attr s = Ok (snd q).
Definition pairs (feats : list feature) : list (string * attr) :=
  flat_map (fun pf => map (pair (name pf)) (f_attrs (info pf))) feats.

Lemma attr_specs_one n : forall l, forallb afm_attr_ok l = true ->
  exists ss, mapM (afm_attrspec n) l = Ok ss /\ Forall2 attr_rel (map (pair n) l) ss.
Proof.
  induction l as [|a l IH]; intros H.
  - exists []. split; [reflexivity|constructor].
  - cbn [forallb] in H. apply andb_prop in H. destruct H as [Ha Hl].
    destruct (afm_attrspec_roundtrip n a Ha) as [s [H1 [H2 H3]]]. destruct (IH Hl) as [ss [H4 H5]].
    exists (s :: ss). rewrite mapM_cons, H1, H4. split; [reflexivity|].
    cbn [map]. constructor; [split; assumption|exact H5].
Qed.

Lemma attr_specs : forall feats,
  (forall pf, In pf feats -> forallb afm_attr_ok (f_attrs (info pf)) = true) ->
  exists ats, mapM (fun pf => mapM (afm_attrspec (name pf)) (f_attrs (info pf))) feats = Ok ats
              /\ Forall2 attr_rel (pairs feats) (List.concat ats).
Proof.
  induction feats as [|pf feats IH]; intros H.
  - exists []. split; [reflexivity|constructor].
  - destruct (attr_specs_one (name pf) _ (H pf (or_introl eq_refl))) as [ss [H1 H2]].
    destruct (IH (fun q Hq => H q (or_intror Hq))) as [ats [H3 H4]].
    exists (ss :: ats). rewrite mapM_cons, H1, H3. split; [reflexivity|].
    unfold pairs. cbn [flat_map List.concat]. apply Forall2_app; assumption.
Qed.

Lemma attrs_of_app n l1 l2 : attrs_of n (l1 ++ l2) = attrs_of n l1 ++ attrs_of n l2.
Proof. unfold attrs_of. rewrite filter_app, map_app. reflexivity. Qed.

Lemma attrs_of_map_pair n n' l : attrs_of n (map (pair n') l) = if String.eqb n' n then l else [].
Proof.
  unfold attrs_of. induction l as [|a l IH]; cbn [map filter fst]; [destruct (String.eqb n' n); reflexivity|].
  destruct (String.eqb n' n) eqn:He; cbn [map snd]; rewrite IH; reflexivity.
Qed.

Lemma attrs_of_pairs_none n : forall feats, ~ In n (map name feats) -> attrs_of n (pairs feats) = [].
Proof.
  induction feats as [|pf feats IH]; intros H; [reflexivity|].
  unfold pairs. cbn [flat_map]. rewrite attrs_of_app, attrs_of_map_pair.
  cbn [map] in H.
  assert (Hne : String.eqb (name pf) n = false) by (apply String.eqb_neq; intros He; apply H; left; exact He).
  rewrite Hne. cbn [app]. apply IH. intros Hx. apply H. right. exact Hx.
Qed.

Lemma attrs_of_pairs : forall feats f0, NoDup (map name feats) -> In f0 feats ->
  attrs_of (name f0) (pairs feats) = f_attrs (info f0).
Proof.
  induction feats as [|pf feats IH]; intros f0 Hnd Hin; [contradiction|].
  cbn [map] in Hnd. inversion Hnd as [|x l Hx Hl]; subst.
  unfold pairs. cbn [flat_map]. rewrite attrs_of_app, attrs_of_map_pair.
  destruct Hin as [->|Hin].
  - rewrite String.eqb_refl. fold (pairs feats). rewrite (attrs_of_pairs_none _ _ Hx), app_nil_r. reflexivity.
  - assert (Hne : String.eqb (name pf) (name f0) = false).
    { apply String.eqb_neq. intros He. apply Hx. rewrite He. apply in_map. exact Hin. }
    rewrite Hne. cbn [app]. exact (IH f0 Hl Hin).
Qed.

Lemma map_maprel_id g i rs : (forall c, In c (children (Feature i rs)) -> g c = c) -> map (maprel g) rs = rs.
Proof.
  intros H. rewrite <- (map_id rs) at 2. apply map_ext_in. intros [a b cs] Hr. cbn [maprel]. f_equal.
  rewrite <- (map_id cs) at 2. apply map_ext_in. intros c Hc. apply H.
  apply in_children_iff. exists (Relation a b cs). split; assumption.
Qed.

Lemma partial_full PL : forall T,
  (forall g, In g (subfeatures T) -> info g = pinfo_of PL (name g)) -> partial PL T = T.
Proof.
  induction T as [T IH] using feature_ind_children. intros H.
  assert (Hch : forall c, In c (children T) -> partial PL c = c).
  { intros c Hc. apply (IH c Hc). intros g Hg. apply H. exact (sub_trans _ _ _ (child_sub _ _ Hc) Hg). }
  specialize (H T (self_sub T)). destruct T as [i rs]. change (name (Feature i rs)) with (f_name i) in H.
  cbn [info] in H. rewrite partial_eq, <- H. f_equal. exact (map_maprel_id _ i rs Hch).
Qed.

Lemma maprel_maprel g h r : maprel g (maprel h r) = maprel (fun c => g (h c)) r.
Proof. destruct r as [a b cs]. cbn [maprel]. rewrite map_map. reflexivity. Qed.

(* when every line has been processed the tree is the normal form without attributes *)
Lemma cut_full S : forall f, (forall g, In g (subfeatures f) -> In (name g) S) ->
  cut S f = partial [] (afm_norm_feature f).
Proof.
  induction f as [f IH] using feature_ind_children. intros H.
  assert (Hch : forall c, In c (children f) -> cut S c = partial [] (afm_norm_feature c)).
  { intros c Hc. apply (IH c Hc). intros g Hg. apply H. exact (sub_trans _ _ _ (child_sub _ _ Hc) Hg). }
  specialize (H f (self_sub f)). destruct f as [i rs]. change (name (Feature i rs)) with (f_name i) in H.
  rewrite cut_eq, afm_norm_feature_eq, partial_eq. apply (proj2 (mem_In _ _)) in H. rewrite H.
  f_equal. rewrite reorder_map, map_map.
  rewrite (map_ext _ _ (maprel_maprel (partial []) afm_norm_feature)).
  apply (map_maprel_ext_in _ _ i). intros c Hc. apply Hch. apply (children_reorder i i). exact Hc.
Qed.

Lemma sub_norm : forall f g, In g (subfeatures (afm_norm_feature f)) ->
  exists f0, In f0 (subfeatures f) /\ g = afm_norm_feature f0.
Proof.
  induction f as [f IH] using feature_ind_children. intros g Hg.
  apply in_subfeatures_inv in Hg. destruct Hg as [->|[c [Hc Hg]]].
  - exists f. split; [apply self_sub|reflexivity].
  - destruct f as [i rs]. rewrite afm_norm_feature_eq, reorder_map, children_map in Hc.
    apply in_map_iff in Hc. destruct Hc as [c0 [<- Hc0]]. apply (proj1 (children_reorder i i rs c0)) in Hc0.
    destruct (IH c0 Hc0 g Hg) as [f0 [Hf0 ->]]. exists f0. split; [|reflexivity].
    exact (sub_trans _ _ _ (child_sub _ _ Hc0) Hf0).
Qed.

Lemma afm_feature_ok_sub : forall f g, afm_feature_ok f = true -> In g (subfeatures f) -> afm_feature_ok g = true.
Proof.
  induction f as [f IH] using feature_ind_children. intros g Hok Hg.
  apply in_subfeatures_inv in Hg. destruct Hg as [->|[c [Hc Hg]]]; [exact Hok|].
  exact (IH c Hc g (proj2 (afm_feature_ok_inv _ Hok) c Hc) Hg).
Qed.

Lemma afm_feature_ok_info f : afm_feature_ok f = true ->
  forallb afm_attr_ok (f_attrs (info f)) = true
  /\ info f = {| f_name := name f; f_abstract := VBool false; f_type := TBoolean; f_cmin := 1; f_cmax := 1;
                f_attrs := f_attrs (info f) |}.
Proof.
  destruct f as [i rs]. rewrite afm_feature_ok_eq. intros H.
  apply andb_prop in H. destruct H as [H _]. apply andb_prop in H. destruct H as [H _].
  apply andb_prop in H. destruct H as [H Hab]. apply andb_prop in H. destruct H as [H Hmax].
  apply andb_prop in H. destruct H as [H Hmin]. apply andb_prop in H. destruct H as [Hat Hty].
  split; [exact Hat|]. destruct i as [n ab ty mn mx ats]. unfold name. cbn [info f_name f_attrs] in *.
  cbn [f_abstract f_type f_cmin f_cmax] in *.
  apply Z.eqb_eq in Hmin, Hmax. subst.
  destruct ty; try discriminate. destruct ab as [|[|]|?|?|?|?|?]; try discriminate. reflexivity.
Qed.

(* ================================================================== C06: the round trip on syntax trees *)
Theorem afm_roundtrip_cst : forall m, afm_ok m = true ->
  exists d, afm_cst m = Ok d /\ afm_read_cst d = Ok (annotate_fm (afm_norm m)).
Proof.
  intros m H. unfold afm_ok in H.
  apply andb_prop in H. destruct H as [H Hc]. apply andb_prop in H. destruct H as [H _].
  apply andb_prop in H. destruct H as [Hf Hn].
  set (F := root m) in *.
  assert (HndF : NoDup (names F)) by exact (nodupb_NoDup _ Hn).
  assert (Hperm : Permutation (get_features m) (subfeatures F)) by exact (get_features_perm m).
  assert (HndN : NoDup (names (afm_norm_feature F))).
  { exact (Permutation_NoDup (Permutation_sym (afm_norm_feature_names F)) HndF). }
  assert (Hfeats_ok : forall pf, In pf (get_features m) -> afm_feature_ok pf = true).
  { intros pf Hpf. exact (afm_feature_ok_sub F pf Hf (Permutation_in _ Hperm Hpf)). }
  destruct (attr_specs (get_features m)) as [ats [Ha1 Ha2]].
  { intros pf Hpf. exact (proj1 (afm_feature_ok_info _ (Hfeats_ok pf Hpf))). }
  destruct (afm_ctcs_roundtrip _ Hc) as [l [Hl1 Hl2]].
  exists {| ad_rels := afm_relspecs F; ad_attrs := Some (List.concat ats); ad_ctcs := Some l |}.
  split.
  - unfold afm_cst. rewrite Ha1, Hl1. reflexivity.
  - rewrite afm_read_cst_eq. cbn [ad_rels ad_attrs ad_ctcs].
    assert (Hrels : rd_go (afm_relspecs F) (leaf (name F)) = Ok (partial [] (afm_norm_feature F))).
    { rewrite <- (cut_leaf [] F (fun H => H)).
      rewrite <- (app_nil_r (afm_relspecs F)).
      rewrite (lines_ok_all F HndF F (self_sub F) Hf [] (proj2 (in_names_cut [] F (name F)) (or_introl eq_refl))
                 (fun x _ H => H) (names F) []).
      - cbn [rd_go]. f_equal. apply cut_full. intros g Hg. unfold names. apply in_map. exact Hg.
      - intros x. split; [intros Hx; left; exact Hx|intros [Hx|[]]; exact Hx]. }
    rewrite afm_relspecs_eq in *. change (rs_parent (line F)) with (name F). rewrite Hrels.
    rewrite (goa_loop (pairs (get_features m)) (List.concat ats) [] (afm_norm_feature F) HndN).
    + rewrite app_nil_l.
      rewrite (partial_full (pairs (get_features m)) (afm_norm_feature F)).
      * rewrite Hl2, concat_map_singleton. reflexivity.
      * intros g Hg. destruct (sub_norm _ _ Hg) as [f0 [Hf0 ->]].
        rewrite info_norm, name_norm.
        destruct (afm_feature_ok_info _ (afm_feature_ok_sub F f0 Hf Hf0)) as [_ Hinfo].
        rewrite Hinfo at 1. unfold pinfo_of. f_equal. symmetry. apply attrs_of_pairs.
        -- apply (Permutation_NoDup (l := names F)); [|exact HndF].
           unfold names. apply Permutation_map. apply Permutation_sym. exact Hperm.
        -- exact (Permutation_in _ (Permutation_sym Hperm) Hf0).
    + intros q Hq. unfold pairs in Hq. apply in_flat_map in Hq. destruct Hq as [pf [Hpf Hq]].
      apply in_map_iff in Hq. destruct Hq as [a [<- _]]. cbn [fst].
      apply (Permutation_in _ (Permutation_sym (afm_norm_feature_names F))).
      unfold names. apply in_map. exact (Permutation_in _ Hperm Hpf).
    + exact Ha2.
Qed.

(* ================================================================== with the parser as a variable *)
Section Parser.
  Variable antlr : string -> option adoc.
  Hypothesis antlr_render : forall m d, afm_ok m = true -> afm_cst m = Ok d -> antlr (afm_render d) = Some d.

  Definition afm_read (text : string) : result pfm :=
    match antlr text with Some d => afm_read_cst d | None => Err FlamaException end.

  Theorem afm_roundtrip : forall m, afm_ok m = true ->
    exists t pm, afm_write m = Ok t /\ afm_read t = Ok pm /\ erase_fm pm = afm_norm m.
  Proof.
    intros m Hok. destruct (afm_roundtrip_cst m Hok) as [d [Hd Hr]].
    exists (afm_render d), (annotate_fm (afm_norm m)). split; [|split].
    - unfold afm_write. rewrite Hd. reflexivity.
    - unfold afm_read. rewrite (antlr_render m d Hok Hd). exact Hr.
    - unfold erase_fm, annotate_fm. cbn [proot pctcs]. rewrite erase_annotate.
      destruct (afm_norm m); reflexivity.
  Qed.

  Theorem afm_cycles : forall m, afm_ok m = true ->
    exists t pm, afm_write (afm_norm m) = Ok t /\ afm_read t = Ok pm /\ erase_fm pm = afm_norm m.
  Proof.
    intros m Hok. destruct (afm_roundtrip (afm_norm m) (afm_norm_ok m Hok)) as [t [pm [H1 [H2 H3]]]].
    exists t, pm. split; [exact H1|]. split; [exact H2|]. rewrite H3. apply afm_norm_idem.
  Qed.

  (* text identity: writing what was read from the text of the normal form gives the same text *)
  Theorem afm_cycle_text : forall m, afm_ok m = true ->
    exists t pm, afm_write (afm_norm m) = Ok t /\ afm_read t = Ok pm /\ afm_write (erase_fm pm) = Ok t.
  Proof.
    intros m Hok. destruct (afm_cycles m Hok) as [t [pm [H1 [H2 H3]]]].
    exists t, pm. split; [exact H1|]. split; [exact H2|]. rewrite H3. exact H1.
  Qed.
End Parser.

(* a second cycle writes the same syntax tree, hence the same text *)
Theorem afm_cycle_cst : forall m, afm_ok m = true ->
  exists d, afm_cst (afm_norm m) = Ok d
            /\ afm_read_cst d = Ok (annotate_fm (afm_norm m))
            /\ afm_cst (erase_fm (annotate_fm (afm_norm m))) = Ok d.
Proof.
  intros m Hok. destruct (afm_roundtrip_cst (afm_norm m) (afm_norm_ok m Hok)) as [d [Hd Hr]].
  rewrite afm_norm_idem in Hr. exists d. split; [exact Hd|]. split; [exact Hr|].
  replace (erase_fm (annotate_fm (afm_norm m))) with (afm_norm m); [exact Hd|].
  unfold erase_fm, annotate_fm. cbn [proot pctcs]. rewrite erase_annotate.
  destruct (afm_norm m); reflexivity.
Qed.

(* ================================================================== examples and assumptions *)
Example ex_cycle :
  match afm_cst (afm_norm afm_ex_model) with
  | Ok d => afm_read_cst d = Ok (annotate_fm (afm_norm afm_ex_model))
            /\ ptr_wf (annotate_fm (afm_norm afm_ex_model)) = true
  | Err _ => False
  end.
Proof. vm_compute. split; reflexivity. Qed.

Example ex_norm_ok : afm_ok (afm_norm afm_ex_model) = true.
Proof. vm_compute. reflexivity. Qed.

Example ex1_cycle :
  match afm_cst (afm_norm afm_ex_model1) with
  | Ok d => afm_read_cst d = Ok (annotate_fm (afm_norm afm_ex_model1))
            /\ ptr_wf (annotate_fm (afm_norm afm_ex_model1)) = true
            /\ afm_write (erase_fm (annotate_fm (afm_norm afm_ex_model1))) = Ok (afm_render d)
  | Err _ => False
  end.
Proof. vm_compute. repeat split; reflexivity. Qed.

Example ex1_norm_ok : afm_ok (afm_norm afm_ex_model1) = true.
Proof. vm_compute. reflexivity. Qed.

Print Assumptions afm_read_ptr_wf.
Print Assumptions afm_read_ctc_shape.
Print Assumptions afm_expr_roundtrip.
Print Assumptions afm_attrspec_roundtrip.
Print Assumptions afm_roundtrip_cst.
Print Assumptions afm_norm_names.
Print Assumptions afm_norm_constraints.
Print Assumptions afm_norm_relations.
Print Assumptions afm_norm_ok.
Print Assumptions afm_norm_idempotent.
Print Assumptions afm_roundtrip.
Print Assumptions afm_cycles.
Print Assumptions afm_cycle_text.
Print Assumptions afm_cycle_cst.
Print Assumptions afm_item_cases.
Print Assumptions afm_item_one_child_group.
Print Assumptions ex1_roundtrip.

(* the writer's float text is positional (the grammar's DOUBLE has no exponent); a non-finite float has none *)
Example afm_value_positional :
  afm_value (VFloat "1e+16") = Ok (AvDouble "10000000000000000.0" "1e+16")
  /\ afm_value (VFloat "inf") = Err FlamaException.
Proof. vm_compute. split; reflexivity. Qed.

Print Assumptions afm_value_roundtrip.
Print Assumptions afm_value_positional.

(* a number as an operand of a logical constraint is a library error *)
Example afm_read_number_operand :
  afm_read_expr "" (EBin "IMPLIES" (EVar "B") (ENum "5")) = Err FlamaException.
Proof. vm_compute. reflexivity. Qed.

(* inside a block  B { ... }  only a bare attribute name (lower-case initial) is relative to B *)
Example afm_read_block_prefix :
  afm_read_expr "B." (EBin "IMPLIES" (EVar "fast") (EVar "C")) = Ok (bin IMPLIES (term "B.fast") (term "C"))
  /\ afm_read_expr "B." (EVar "C.cheap") = Ok (term "C.cheap").
Proof. vm_compute. split; reflexivity. Qed.

Print Assumptions afm_read_number_operand.
Print Assumptions afm_read_block_prefix.
