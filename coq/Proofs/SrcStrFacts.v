(* Source tie: Relation.__str__ and Constraint.__str__ (generated translations) equal the hand model
   texts rel_str / ctc_str. *)
From Coq Require Import List String Ascii ZArith Bool.
From FM Require Import Base.Result Base.Str Base.AstOp Model.Ast Model.FM Model.Ctc Model.Queries Model.Ops Model.EqHash
  Model.Metrics Model.PyRt Model.Loc Gen.Src_fm Proofs.SrcFmFacts.
Import ListNotations.
Local Open Scope list_scope.

(* ---- general helpers ---- *)

Lemma str_app_assoc : forall a b c : string, ((a ++ b) ++ c)%string = (a ++ (b ++ c))%string.
Proof.
  induction a as [|ch a IH]; intros b c; cbn [append].
  - reflexivity.
  - rewrite IH. reflexivity.
Qed.

Lemma foldM_str_append {A} (f : string -> A -> result string) (g : A -> string) (l : list A) :
  (forall s x, f s x = Ok (s ++ g x)%string) ->
  forall acc, foldM f l acc = Ok (acc ++ str_concat (map g l))%string.
Proof.
  intros Hf. induction l as [|x xs IH]; intros acc.
  - cbn [foldM map str_concat fold_right].
    assert (Hnil : forall s : string, (s ++ "")%string = s).
    { induction s as [|ch s IHs]; cbn [append]; [reflexivity | rewrite IHs; reflexivity]. }
    rewrite Hnil. reflexivity.
  - cbn [foldM map]. rewrite Hf.
    change (foldM f xs (acc ++ g x)%string
            = Ok (acc ++ (g x ++ str_concat (map g xs)))%string).
    rewrite IH, str_app_assoc. reflexivity.
Qed.

Lemma drop_last_strip : forall s,
  (if ends_with_char " " s then Ok (py_str_drop_last s) else Ok s)
  = @Ok string (strip_last_space s).
Proof.
  intros s. unfold strip_last_space, py_str_drop_last.
  destruct (ends_with_char " " s) eqn:E; reflexivity.
Qed.

(* ---- Constraint.__str__ ---- *)

Lemma src_ctc_str : forall c, py_Constraint___str__ c = ctc_str c.
Proof. intros c. reflexivity. Qed.

(* ---- Relation.__str__ ---- *)

Lemma children_names_loc : forall r o,
  map (fun c : lfeat => (name (fst c) ++ " ")%string) (lr_children (r, o))
  = map (fun c => (name c ++ " ")%string) (r_children r).
Proof.
  intros r o. unfold lr_children. rewrite map_map. apply map_ext. intros c. reflexivity.
Qed.

Lemma src_rel_str : forall r o, py_Relation___str__ (r, o) = Ok (rel_str (name (fst o)) r).
Proof.
  intros r o. unfold py_Relation___str__. cbv zeta.
  rewrite (foldM_str_append _ (fun c : lfeat => (name (fst c) ++ " ")%string))
    by (intros s x; reflexivity).
  rewrite children_names_loc. cbn [bind].
  rewrite src_rel_is_alternative, src_rel_is_or, src_rel_is_mandatory, src_rel_is_optional,
    src_rel_is_mutex, src_rel_is_cardinal.
  unfold rel_str, rel_type_str. cbn [lr_parent fst snd].
  destruct (rel_is_alternative r) eqn:Ea; [| destruct (rel_is_or r) eqn:Eo;
    [| destruct (rel_is_mandatory r) eqn:Em; [| destruct (rel_is_optional r) eqn:Ep;
    [| destruct (rel_is_mutex r) eqn:Ex; [| destruct (rel_is_cardinal r) eqn:Ec]]]]];
  rewrite drop_last_strip; f_equal; f_equal; rewrite !str_app_assoc; reflexivity.
Qed.

Print Assumptions src_ctc_str.
Print Assumptions src_rel_str.
