(* Proofs/SrcEstimateFacts.v — the translated count_configurations(_rec) (Gen/Src_ops.v) equals [estimate] *)
From Coq Require Import List Bool Ascii String ZArith Lia Permutation.
From FM Require Import Base.Result Base.Str Base.AstOp Model.Ast Model.FM Model.Ctc Model.Queries Model.Sem
     Model.Ops Model.PyRt Model.Loc Gen.Src_fm Gen.Src_ops Proofs.FMFacts Proofs.SrcBaseFacts.
Import ListNotations.
Local Open Scope list_scope.
(* ------------------------------------------------------------------ count_configurations *)

(* the entry of one relation in `counts` *)
Definition est_rel (r : relation) : list Z :=
  match r with
  | Relation mn mx cs =>
      if rel_is_mandatory r then
        [match cs with c :: _ => estimate c | [] => 0%Z end]
      else if rel_is_optional r then
        [(match cs with c :: _ => estimate c | [] => 0%Z end + 1)%Z]
      else if rel_is_alternative r then [zsum (map estimate cs)]
      else if rel_is_or r then
        [(zprod (map (fun c => estimate c + 1)%Z cs) - 1)%Z]
      else
        let counts := map estimate cs in
        let card_max := if (mx =? -1)%Z then Z.of_nat (List.length counts) else mx in
        [zsum (slice (poly counts) mn (card_max + 1))]
  end.

Lemma estimate_eq i rs :
  estimate (Feature i rs) = match rs with [] => 1%Z | _ => zprod (flat_map est_rel rs) end.
Proof. destruct rs; reflexivity. Qed.

Lemma poly_step_src (coeffs : list Z) (count : Z) :
  flat_map (fun '(c, p) => [(c + count * p)%Z]) (combine (coeffs ++ [0%Z]) ([0%Z] ++ coeffs))
  = poly_step coeffs count.
Proof.
  unfold poly_step.
  rewrite <- (flat_map_singleton (fun cp : Z * Z => (fst cp + count * snd cp)%Z)).
  apply flat_map_ext. intros [c p]. reflexivity.
Qed.

Lemma src_count_configurations_rec : forall f anc fuel, (fsize f <= fuel)%nat ->
  py_count_configurations_rec fuel (f, anc) = Ok (estimate f).
Proof.
  intros f anc fuel. revert f anc.
  induction fuel as [|fuel IH]; intros f anc Hfuel.
  - destruct f as [i rs]. rewrite fsize_eq' in Hfuel. lia.
  - cbn [py_count_configurations_rec].
    rewrite src_feat_is_leaf. cbn [fst].
    destruct f as [i rs]. rewrite estimate_eq.
    destruct rs as [|r0 rs0]; [reflexivity|].
    unfold feat_is_leaf. cbn [rels List.length Nat.eqb].
    set (rs := r0 :: rs0) in *.
    assert (Hch : forall r c, In r rs -> In c (r_children r) ->
                  forall a, py_count_configurations_rec fuel (c, a) = Ok (estimate c)).
    { intros r c Hr Hc a. apply IH. pose proof (fsize_child i rs r c Hr Hc). lia. }
    clearbody rs. clear IH Hfuel.
    match goal with
    | |- context [foldM ?F ?l ?s] =>
        rewrite (foldM_append F (fun lr => est_rel (fst lr)) l s)
    end.
    + unfold py_Feature_get_relations, lf_relations. cbn [fst bind app].
      rewrite flat_map_map'. cbn [fst]. reflexivity.
    + intros lr Hlr counts.
      apply in_lf_relations in Hlr. destruct Hlr as [r [-> Hr]]. cbn [fst rels] in Hr.
      cbv beta.
      rewrite src_rel_is_mandatory, src_rel_is_optional, src_rel_is_alternative, src_rel_is_or.
      cbn [fst]. specialize (Hch r).
      destruct r as [mn mx cs]. cbn [r_children r_min r_max] in *.
      unfold est_rel.
      destruct (rel_is_mandatory (Relation mn mx cs)) eqn:Hman.
      { destruct (single_child_index (Relation mn mx cs) (Feature i rs, anc)
                    (mandatory_single _ Hman)) as [c [Hc Hidx]].
        cbn [r_children] in Hc. subst cs. rewrite Hidx. cbn [bind].
        rewrite (Hch c Hr (or_introl eq_refl)). reflexivity. }
      destruct (rel_is_optional (Relation mn mx cs)) eqn:Hopt.
      { destruct (single_child_index (Relation mn mx cs) (Feature i rs, anc)
                    (optional_single _ Hopt)) as [c [Hc Hidx]].
        cbn [r_children] in Hc. subst cs. rewrite Hidx. cbn [bind].
        rewrite (Hch c Hr (or_introl eq_refl)). reflexivity. }
      destruct (rel_is_alternative (Relation mn mx cs)) eqn:Halt.
      { match goal with
        | |- context [py_flat_mapM ?G ?l] =>
            rewrite (py_flat_mapM_map G (fun lc => estimate (fst lc)) l)
        end.
        - cbn [bind]. rewrite (map_lr_children estimate). reflexivity.
        - intros lc Hlc. apply in_lr_children in Hlc. destruct Hlc as [c [-> Hc]].
          cbn [r_children] in Hc. rewrite (Hch c Hr Hc). reflexivity. }
      destruct (rel_is_or (Relation mn mx cs)) eqn:Hor.
      { match goal with
        | |- context [py_flat_mapM ?G ?l] =>
            rewrite (py_flat_mapM_map G (fun lc => (estimate (fst lc) + 1)%Z) l)
        end.
        - cbn [bind]. rewrite (map_lr_children (fun c => (estimate c + 1)%Z)). reflexivity.
        - intros lc Hlc. apply in_lr_children in Hlc. destruct Hlc as [c [-> Hc]].
          cbn [r_children] in Hc. rewrite (Hch c Hr Hc). reflexivity. }
      match goal with
      | |- context [py_flat_mapM ?G ?l] =>
          rewrite (py_flat_mapM_map G (fun lc => estimate (fst lc)) l)
      end.
      * cbn [bind].
        match goal with
        | |- context [foldM ?G ?l ?s] => rewrite (foldM_pure G poly_step)
        end.
        -- cbn [bind].
           rewrite (map_lr_children estimate). cbv zeta. unfold py_len. reflexivity.
        -- intros s x. cbv zeta. rewrite poly_step_src. reflexivity.
      * intros lc Hlc. apply in_lr_children in Hlc. destruct Hlc as [c [-> Hc]].
        cbn [r_children] in Hc. rewrite (Hch c Hr Hc). reflexivity.
Qed.

Lemma src_count_configurations : forall m fuel, (fuel_tree (root m) <= fuel)%nat ->
  py_count_configurations fuel m = Ok (estimate (root m)).
Proof.
  intros m fuel H. unfold py_count_configurations, fm_root_l.
  apply src_count_configurations_rec. unfold fuel_tree in H. lia.
Qed.

Print Assumptions src_count_configurations_rec.
Print Assumptions src_count_configurations.
